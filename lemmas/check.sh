#!/usr/bin/env bash
# Re-check every Lean file of the lemma layer.  Works from any cwd, offline.
#   exit 0  iff every *.lean in this directory compiles with `lean` (exit 0, no "error") and
#           none contains sorry / admit / axiom / native_decide.
# Prints one line per file:  OK|FAIL <file> <wall seconds>
set -u
DIR="$(cd "$(dirname "${BASH_SOURCE[0]}")" && pwd)"
cd "$DIR" || exit 1
LEAN="${LEAN:-$(command -v lean || echo /usr/local/bin/lean)}"
export LEAN
JOBS="${JOBS:-8}"
TMP="$(mktemp -d)"
trap 'rm -rf "$TMP"' EXIT

shopt -s nullglob
FILES=( *.lean )
if [ "${#FILES[@]}" -eq 0 ]; then echo "FAIL no .lean files in $DIR"; exit 1; fi

# 1. forbidden tokens: plain word grep over the whole file (comments included, on purpose:
#    keep the words out of prose too, so that the check stays a one-liner nobody has to trust)
bad=0
for f in "${FILES[@]}"; do
  if grep -nwE 'sorry|admit|axiom|native_decide' "$f" | sed "s|^|  $f:|"  | grep . ; then
    echo "FAIL $f forbidden-token"; bad=1
  fi
done

# 2. compile in parallel
check_one() {
  f="$1"; tmp="$2"
  s=$(date +%s.%N)
  "$LEAN" "$f" >"$tmp/$f.log" 2>&1
  rc=$?
  e=$(date +%s.%N)
  t=$(awk -v s="$s" -v e="$e" 'BEGIN{printf "%.1f", e-s}')
  if [ $rc -eq 0 ] && ! grep -qE "(: error|declaration uses .sorry.)" "$tmp/$f.log"; then
    echo "OK   $f ${t}s"
  else
    echo "FAIL $f ${t}s (rc=$rc)"; sed 's/^/    /' "$tmp/$f.log" | head -40
    touch "$tmp/FAILED"
  fi
}
export -f check_one
T0=$(date +%s.%N)
printf '%s\n' "${FILES[@]}" | xargs -P "$JOBS" -I{} bash -c 'check_one "$1" "$2"' _ {} "$TMP"
T1=$(date +%s.%N)
awk -v s="$T0" -v e="$T1" -v n="${#FILES[@]}" 'BEGIN{printf "total %d files %.1fs wall\n", n, e-s}'

if [ -e "$TMP/FAILED" ] || [ $bad -ne 0 ]; then echo "LEMMAS: FAIL"; exit 1; fi
echo "LEMMAS: OK"
exit 0
