import Mathlib.Tactic

/-- L12: the pebbling axioms on a topologically sorted DAG with ≥ 1 vertex are contradictory.
    `pred v` = predecessors of v (all smaller than v, as `is_dag()` certifies);
    a sink is a vertex that is nobody's predecessor. -/
theorem pebbling_unsat (n : ℕ) (hn : 1 ≤ n) (pred : ℕ → List ℕ)
    (hpred : ∀ v p, p ∈ pred v → 1 ≤ p ∧ p < v)
    (x : ℕ → Bool)
    (hprop : ∀ v, 1 ≤ v → v ≤ n → (∀ p ∈ pred v, x p = true) → x v = true)
    (hsink : ∀ v, 1 ≤ v → v ≤ n → (∀ w, 1 ≤ w → w ≤ n → v ∉ pred w) → x v = false) : False := by
  have all : ∀ v, 1 ≤ v → v ≤ n → x v = true := by
    intro v
    induction v using Nat.strong_induction_on with
    | _ v ih =>
      intro h1 h2
      apply hprop v h1 h2
      intro p hp
      obtain ⟨hp1, hp2⟩ := hpred v p hp
      exact ih p hp2 hp1 (by omega)
  have htrue := all n hn le_rfl
  have hfalse := hsink n hn le_rfl (by
    intro w _ hw hmem
    obtain ⟨_, hlt⟩ := hpred w n hmem
    omega)
  rw [htrue] at hfalse
  exact absurd hfalse (by simp)
