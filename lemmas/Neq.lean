import Mathlib.Data.List.Sublists
import Mathlib.Data.List.Range
import Mathlib.Tactic

/-! NEQ: the clauses added by `add_linear(lits,'!=',c)` hold iff count_true ≠ c.
    Generic form over a Boolean vector `b : ℕ → Bool` (b i = "literal i is true"), n literals:
    for every T ∈ combinations(range n, c) the clause "lits with positions T negated" is
    false iff T is exactly the set of true positions. -/

open List

/-- clause for flip-set T is true iff some position disagrees with "i ∈ T ↔ b i" -/
def flipClauseTrue (b : ℕ → Bool) (n : ℕ) (T : List ℕ) : Prop :=
  ∃ i < n, (i ∈ T ∧ b i = false) ∨ (i ∉ T ∧ b i = true)

def truePos (b : ℕ → Bool) (n : ℕ) : List ℕ := (List.range n).filter b

theorem truePos_sublist (b) (n) : truePos b n <+ List.range n := List.filter_sublist

theorem length_truePos (b) (n) : (truePos b n).length = (List.range n).countP b := by
  unfold truePos; rw [List.countP_eq_length_filter]

theorem neq_main (b : ℕ → Bool) (n c : ℕ) :
    (∀ T ∈ List.sublistsLen c (List.range n), flipClauseTrue b n T) ↔
      (List.range n).countP b ≠ c := by
  constructor
  · intro h hc
    have hT : truePos b n ∈ List.sublistsLen c (List.range n) := by
      rw [List.mem_sublistsLen]; exact ⟨truePos_sublist b n, by rw [length_truePos, hc]⟩
    obtain ⟨i, hi, h1 | h1⟩ := h _ hT
    · have := h1.1; unfold truePos at this; rw [List.mem_filter] at this
      rw [this.2] at h1; exact absurd h1.2 (by simp)
    · apply h1.1; unfold truePos; rw [List.mem_filter]
      exact ⟨List.mem_range.mpr hi, h1.2⟩
  · intro hne T hT
    rw [List.mem_sublistsLen] at hT
    by_contra hno
    unfold flipClauseTrue at hno
    push Not at hno
    -- T and truePos have the same members, both sublists of the nodup list range n
    have hmem : ∀ i, i ∈ T ↔ i ∈ truePos b n := by
      intro i
      unfold truePos; rw [List.mem_filter, List.mem_range]
      constructor
      · intro hiT
        have hin : i < n := List.mem_range.mp (hT.1.subset hiT)
        refine ⟨hin, ?_⟩
        by_contra hb
        have hb' : b i = false := by simpa using hb
        exact ((hno i hin).1 hiT) hb'
      · rintro ⟨hin, hb⟩
        by_contra hiT
        exact ((hno i hin).2 hiT) hb
    have hnd : (List.range n).Nodup := List.nodup_range
    have hperm : T ~ truePos b n :=
      (List.perm_ext_iff_of_nodup (hnd.sublist hT.1) (hnd.sublist (truePos_sublist b n))).mpr hmem
    have : T.length = (truePos b n).length := hperm.length_eq
    rw [length_truePos, hT.2] at this
    exact hne this.symm
