import Mathlib.Data.List.Sort
import Mathlib.Data.List.Range
import Mathlib.Data.List.Perm.Basic
import Mathlib.Tactic

/-- L13a: a ≤-sorted list that is a permutation of 0..M-1 is exactly [0,…,M-1]
    (so the i-th entry of `sorted(enumerate(p), key=snd)` has second component i). -/
theorem sorted_perm_range (M : ℕ) (l : List ℕ) (hs : l.Pairwise (· ≤ ·)) (hp : l.Perm (List.range M)) :
    l = List.range M := by
  have hr : (List.range M).Pairwise (· ≤ ·) :=
    (List.pairwise_lt_range).imp (fun h => Nat.le_of_lt h)
  exact List.Perm.eq_of_pairwise (fun a b _ _ h1 h2 => Nat.le_antisymm h1 h2) hs hr hp
