import Mathlib.Data.List.Basic
import Mathlib.Tactic

/-- sign vectors in the order of `itertools.product([1,-1], repeat=n)` -/
def signs : ℕ → List (List ℤ)
  | 0 => [[]]
  | n+1 => (signs n).map (fun s => (1:ℤ) :: s) ++ (signs n).map (fun s => (-1:ℤ) :: s)

/-- MSB-first sign code of j on b bits: bit 0 ↦ +1, bit 1 ↦ -1 -/
def code : ℕ → ℕ → List ℤ
  | 0, _ => []
  | b+1, j => (if j / 2^b % 2 = 1 then (-1:ℤ) else 1) :: code b (j % 2^b)

theorem length_signs (b : ℕ) : (signs b).length = 2^b := by
  induction b with
  | zero => simp [signs]
  | succ b ih => simp [signs, ih, pow_succ]; ring

/-- L10: `flips[j]` of BinaryMappingVariables is the MSB-first code of j. -/
theorem signs_get (b j : ℕ) (hj : j < 2^b) : (signs b)[j]? = some (code b j) := by
  induction b generalizing j with
  | zero =>
    have : j = 0 := by simpa using hj
    subst this; simp [signs, code]
  | succ b ih =>
    have hlen := length_signs b
    by_cases hlt : j < 2^b
    · have h1 : j / 2^b = 0 := Nat.div_eq_of_lt hlt
      have h2 : j % 2^b = j := Nat.mod_eq_of_lt hlt
      simp only [signs, code, h1, h2]
      rw [List.getElem?_append_left (by simp [hlen, hlt])]
      simp [ih j hlt]
    · have hge : 2^b ≤ j := Nat.le_of_not_lt hlt
      have hj' : j - 2^b < 2^b := by rw [pow_succ] at hj; omega
      have h1 : j / 2^b = 1 := by
        have : j = 2^b * 1 + (j - 2^b) := by omega
        rw [this, Nat.mul_add_div (by positivity), Nat.div_eq_of_lt hj']
      have h2 : j % 2^b = j - 2^b := by
        have : j = (j - 2^b) + 2^b := by omega
        rw [this, Nat.add_mod_right, Nat.mod_eq_of_lt hj']; omega
      simp only [signs, code, h1, h2]
      rw [List.getElem?_append_right (by simp [hlen, hge])]
      simp [hlen, ih (j - 2^b) hj']
