import Mathlib.Data.Fintype.Card
import Mathlib.Data.Fin.Basic
import Mathlib.Tactic

/-- L11: a complete, hole-injective placement of m pigeons into n holes exists iff m ≤ n
    (pigeons may sit in several holes: the non-functional PHP). -/
theorem php_iff (m n : ℕ) :
    (∃ R : Fin m → Fin n → Prop, (∀ i, ∃ j, R i j) ∧ (∀ j i i', R i j → R i' j → i = i')) ↔ m ≤ n := by
  constructor
  · rintro ⟨R, hc, hi⟩
    choose f hf using hc
    have hinj : Function.Injective f := by
      intro a b hab
      exact hi (f a) a b (hf a) (hab ▸ hf b)
    simpa using Fintype.card_le_of_injective f hinj
  · intro h
    refine ⟨fun i j => j = Fin.castLE h i, fun i => ⟨Fin.castLE h i, rfl⟩, ?_⟩
    intro j i i' h1 h2
    have : Fin.castLE h i = Fin.castLE h i' := h1.symm.trans h2
    exact Fin.castLE_injective h this

/-- functional / onto / matching variants only add constraints satisfied by the same witness
    when m ≤ n (functional) or m = n (onto + injective) -/
theorem php_functional_iff (m n : ℕ) :
    (∃ f : Fin m → Fin n, Function.Injective f) ↔ m ≤ n := by
  constructor
  · rintro ⟨f, hf⟩; simpa using Fintype.card_le_of_injective f hf
  · intro h; exact ⟨Fin.castLE h, Fin.castLE_injective h⟩
