import Mathlib.Data.List.Basic
import Mathlib.Data.List.Sublists
import Mathlib.Data.Set.Card
import Mathlib.Tactic

/-!
# CnfSem: definitions of the abstract z3 functions of `/verif/pyvc/specs.py` and proofs of every
lemma schema that `specs.py` instantiates (functions `_l_len`, `_l_clen`, `_l2`, `_lct`, `_lbasic`,
`_ltbasic`, `_lobasic`, `_lcbasic`, `_on_terms`, `_opb_on_terms`, `_opb_sem`, `_lit_neg`, `_sem_on_terms`).

Interpretation of the z3 sorts:   Asg := ℕ → Bool,   ISeq := List ℤ,   CSeq := List (List ℤ),
TSeq := List (ℤ × ℤ),   Con := structure (terms, op : String, value),   OSeq := List Con,
Array Int Int := ℤ → ℤ (Select = application, Store = Function.update).
Every z3 function of sort `Int` is ℤ-valued here as well (casts of lengths etc. are inside the
definitions), z3 `Bool`-valued functions are `Prop`s, z3 `==` between Booleans is `↔`,
`zmax / zmin / zabs / b2i` are defined with the same `if` as the python helpers, so each theorem
below is a literal transcription of the z3 formula named in its doc-string.

The file is self contained (`lean CnfSem.lean`); every statement below is proved, nothing is postulated.
-/

namespace CnfSem

abbrev Asg := ℕ → Bool
abbrev ISeq := List ℤ
abbrev CSeq := List (List ℤ)

/-! ## python helpers `zmax`, `zmin`, `zabs`, `b2i` (same `If` as in specs.py) -/

def zmax (a b : ℤ) : ℤ := if a ≥ b then a else b
def zmin (a b : ℤ) : ℤ := if a ≤ b then a else b
def zabs (a : ℤ) : ℤ := if a ≥ 0 then a else -a
def b2i (b : Prop) [Decidable b] : ℤ := if b then 1 else 0

theorem zmax_eq_max (a b : ℤ) : zmax a b = max a b := by unfold zmax; split <;> omega
theorem zmin_eq_min (a b : ℤ) : zmin a b = min a b := by unfold zmin; split <;> omega
theorem zabs_eq_natAbs (a : ℤ) : zabs a = (a.natAbs : ℤ) := by unfold zabs; split <;> omega
theorem zabs_eq_abs (a : ℤ) : zabs a = |a| := by
  rw [zabs_eq_natAbs]; exact (Int.abs_eq_natAbs a).symm

/-! ## integer sequences -/

def ilen (s : ISeq) : ℤ := (s.length : ℤ)
def iget (s : ISeq) (i : ℤ) : ℤ := s.getD i.toNat 0
def inil : ISeq := []
def isnoc (s : ISeq) (x : ℤ) : ISeq := s ++ [x]
def iapp (s t : ISeq) : ISeq := s ++ t
/-- `[-l for l in s]` -/
def ineg (s : ISeq) : ISeq := s.map (fun l => -l)
/-- `0 in s` -/
def haszero (s : ISeq) : Prop := (0 : ℤ) ∈ s

/-- maximum of a non-empty list (0 for the empty list; no schema depends on that value) -/
def maxof : ISeq → ℤ
  | [] => 0
  | [x] => x
  | x :: y :: t => max x (maxof (y :: t))

/-- minimum of a non-empty list (0 for the empty list; no schema depends on that value) -/
def minof : ISeq → ℤ
  | [] => 0
  | [x] => x
  | x :: y :: t => min x (minof (y :: t))

/-- `max |l|` over the list, 0 for the empty list -/
def maxabs (s : ISeq) : ℤ := s.foldr (fun x m => max (x.natAbs : ℤ) m) 0

/-! ## semantics -/

/-- truth of the integer literal `l` (`l ≠ 0`) under `α`; same definition as design_probes/Count.lean -/
def litTrue (α : Asg) (l : ℤ) : Bool := if 0 < l then α l.natAbs else !(α l.natAbs)
/-- z3 `lit_true` -/
def lit_true (α : Asg) (l : ℤ) : Prop := litTrue α l = true
instance (α : Asg) (l : ℤ) : Decidable (lit_true α l) := by unfold lit_true; infer_instance

def countTrue (α : Asg) (s : ISeq) : ℕ := s.countP (litTrue α)
/-- z3 `count`: number of true literals -/
def count (α : Asg) (s : ISeq) : ℤ := (countTrue α s : ℤ)
/-- z3 `ctrue`: some literal of the clause is true -/
def ctrue (α : Asg) (s : ISeq) : Prop := ∃ l ∈ s, litTrue α l = true

/-! ## clause sequences -/

def clen (c : CSeq) : ℤ := (c.length : ℤ)
def cget (c : CSeq) (i : ℤ) : ISeq := c.getD i.toNat []
def cnil : CSeq := []
def csnoc (c : CSeq) (s : ISeq) : CSeq := c ++ [s]
def capp (c d : CSeq) : CSeq := c ++ d
/-- `c[:k]` for `0 ≤ k` (python slicing with `k ≤ len c`; for `k < 0` this is `[]`) -/
def ctake (c : CSeq) (k : ℤ) : CSeq := c.take k.toNat
/-- the `k`-element sublists of `l` in the order of `itertools.combinations(l, k)`
    (lexicographic in positions: first those containing the head, then those that do not) -/
def combsLex {α : Type} : ℕ → List α → List (List α)
  | 0, _ => [[]]
  | _ + 1, [] => []
  | k + 1, a :: l => (combsLex k l).map (fun r => a :: r) ++ combsLex (k + 1) l

/-- `combsLex` is Mathlib's `List.sublistsLen` read backwards
    (`List.sublistsLen 2 [1,2,3,4] = [[3,4],[2,4],[2,3],[1,4],[1,3],[1,2]]`) -/
theorem combsLex_eq_reverse {α : Type} (k : ℕ) (l : List α) :
    combsLex k l = (List.sublistsLen k l).reverse := by
  induction l generalizing k with
  | nil => cases k <;> simp [combsLex]
  | cons a l ih =>
    cases k with
    | zero => simp [combsLex]
    | succ k =>
      rw [combsLex, List.sublistsLen_succ_cons, List.reverse_append, ← List.map_reverse, ih, ih]

theorem mem_combsLex {α : Type} (k : ℕ) (l s : List α) :
    s ∈ combsLex k l ↔ List.Sublist s l ∧ s.length = k := by
  rw [combsLex_eq_reverse, List.mem_reverse, List.mem_sublistsLen]

theorem combsLex_one {α : Type} (l : List α) : combsLex 1 l = l.map (fun a => [a]) := by
  induction l with
  | nil => rfl
  | cons a l ih => rw [combsLex, ih]; simp [combsLex]

/-- `itertools.combinations(s, k)` as a list of clauses, IN ITERTOOLS ORDER (`combsLex`).
    For `k < 0` python raises ValueError whereas this gives `[[]]`; the unguarded schemas
    (`combs_maxabs_le`, `combs_no_zero`) hold for that value as well. -/
def combs (s : ISeq) (k : ℤ) : CSeq := combsLex k.toNat s
/-- z3 `sat`: every clause true -/
def sat (α : Asg) (c : CSeq) : Prop := ∀ s ∈ c, ctrue α s
/-- max |literal| over all clauses, 0 if none -/
def cmaxabs (c : CSeq) : ℤ := c.foldr (fun s m => max (maxabs s) m) 0
/-- some clause contains the literal 0 -/
def chaszero (c : CSeq) : Prop := ∃ s ∈ c, haszero s
/-- `2**x` for `x ≥ 0` -/
def pow2 (x : ℤ) : ℤ := 2 ^ x.toNat

/-! ## adequacy of the recursive definitions (not schemas; they pin down the intended meaning) -/

theorem maxabs_cons (x : ℤ) (t : ISeq) : maxabs (x :: t) = max (x.natAbs : ℤ) (maxabs t) := rfl
theorem cmaxabs_cons (s : ISeq) (t : CSeq) : cmaxabs (s :: t) = max (maxabs s) (cmaxabs t) := rfl

theorem maxabs_nonneg' (s : ISeq) : 0 ≤ maxabs s := by
  induction s with
  | nil => simp [maxabs]
  | cons x t ih => rw [maxabs_cons]; omega

theorem cmaxabs_nonneg' (c : CSeq) : 0 ≤ cmaxabs c := by
  induction c with
  | nil => simp [cmaxabs]
  | cons x t ih => rw [cmaxabs_cons]; omega

/-- `maxabs` is an upper bound of all `|x|` … -/
theorem abs_le_maxabs (s : ISeq) : ∀ x ∈ s, |x| ≤ maxabs s := by
  induction s with
  | nil => intro x hx; cases hx
  | cons y t ih =>
    intro x hx
    rw [maxabs_cons]
    rcases List.mem_cons.mp hx with rfl | h
    · rw [Int.abs_eq_natAbs]; omega
    · have := ih x h; omega

/-- … and is attained on non-empty lists. -/
theorem maxabs_attained (s : ISeq) (h : s ≠ []) : ∃ x ∈ s, maxabs s = |x| := by
  induction s with
  | nil => exact absurd rfl h
  | cons y t ih =>
    rw [maxabs_cons]
    by_cases ht : t = []
    · subst ht
      refine ⟨y, List.mem_cons_self, ?_⟩
      rw [Int.abs_eq_natAbs]; simp [maxabs]
    · obtain ⟨x, hx, hxe⟩ := ih ht
      by_cases hle : maxabs t ≤ (y.natAbs : ℤ)
      · exact ⟨y, List.mem_cons_self, by rw [Int.abs_eq_natAbs]; omega⟩
      · exact ⟨x, List.mem_cons_of_mem _ hx, by rw [← hxe]; omega⟩

theorem le_maxof (s : ISeq) : ∀ x ∈ s, x ≤ maxof s := by
  induction s with
  | nil => intro x hx; cases hx
  | cons y t ih =>
    cases t with
    | nil => intro x hx; simp at hx; subst hx; simp [maxof]
    | cons z t' =>
      intro x hx
      simp only [maxof]
      rcases List.mem_cons.mp hx with rfl | h
      · omega
      · have := ih x h; omega

theorem maxof_mem (s : ISeq) (h : s ≠ []) : maxof s ∈ s := by
  induction s with
  | nil => exact absurd rfl h
  | cons y t ih =>
    cases t with
    | nil => simp [maxof]
    | cons z t' =>
      simp only [maxof]
      have := ih (by simp)
      by_cases hle : maxof (z :: t') ≤ y
      · rw [max_eq_left hle]; exact List.mem_cons_self
      · rw [max_eq_right (by omega)]; exact List.mem_cons_of_mem _ this

theorem minof_le (s : ISeq) : ∀ x ∈ s, minof s ≤ x := by
  induction s with
  | nil => intro x hx; cases hx
  | cons y t ih =>
    cases t with
    | nil => intro x hx; simp at hx; subst hx; simp [minof]
    | cons z t' =>
      intro x hx
      simp only [minof]
      rcases List.mem_cons.mp hx with rfl | h
      · omega
      · have := ih x h; omega

theorem minof_mem (s : ISeq) (h : s ≠ []) : minof s ∈ s := by
  induction s with
  | nil => exact absurd rfl h
  | cons y t ih =>
    cases t with
    | nil => simp [minof]
    | cons z t' =>
      simp only [minof]
      have := ih (by simp)
      by_cases hle : y ≤ minof (z :: t')
      · rw [min_eq_left hle]; exact List.mem_cons_self
      · rw [min_eq_right (by omega)]; exact List.mem_cons_of_mem _ this

theorem maxabs_le_iff (s : ISeq) (b : ℤ) (hb : 0 ≤ b) :
    maxabs s ≤ b ↔ ∀ x ∈ s, (x.natAbs : ℤ) ≤ b := by
  induction s with
  | nil => simp [maxabs, hb]
  | cons y t ih =>
    rw [maxabs_cons]
    constructor
    · intro h x hx
      rcases List.mem_cons.mp hx with rfl | hx'
      · omega
      · exact (ih.mp (by omega)) x hx'
    · intro h
      have h1 := h y List.mem_cons_self
      have h2 := ih.mpr (fun x hx => h x (List.mem_cons_of_mem _ hx))
      omega

theorem cmaxabs_le_iff (c : CSeq) (b : ℤ) (hb : 0 ≤ b) :
    cmaxabs c ≤ b ↔ ∀ s ∈ c, maxabs s ≤ b := by
  induction c with
  | nil => simp [cmaxabs, hb]
  | cons y t ih =>
    rw [cmaxabs_cons]
    constructor
    · intro h x hx
      rcases List.mem_cons.mp hx with rfl | hx'
      · omega
      · exact (ih.mp (by omega)) x hx'
    · intro h
      have h1 := h y List.mem_cons_self
      have h2 := ih.mpr (fun x hx => h x (List.mem_cons_of_mem _ hx))
      omega

theorem maxabs_le_cmaxabs (c : CSeq) : ∀ s ∈ c, maxabs s ≤ cmaxabs c :=
  (cmaxabs_le_iff c (cmaxabs c) (cmaxabs_nonneg' c)).mp le_rfl

theorem natAbs_le_maxabs (s : ISeq) : ∀ x ∈ s, (x.natAbs : ℤ) ≤ maxabs s :=
  (maxabs_le_iff s (maxabs s) (maxabs_nonneg' s)).mp le_rfl

theorem maxabs_append (s t : ISeq) : maxabs (s ++ t) = max (maxabs s) (maxabs t) := by
  induction s with
  | nil => have := maxabs_nonneg' t; simp [maxabs] at *; omega
  | cons y s ih => rw [List.cons_append, maxabs_cons, maxabs_cons, ih]; omega

theorem cmaxabs_append (c d : CSeq) : cmaxabs (c ++ d) = max (cmaxabs c) (cmaxabs d) := by
  induction c with
  | nil => have := cmaxabs_nonneg' d; simp [cmaxabs] at *; omega
  | cons y s ih => rw [List.cons_append, cmaxabs_cons, cmaxabs_cons, ih]; omega

theorem litTrue_neg (α : Asg) (l : ℤ) (h : l ≠ 0) : litTrue α (-l) = !(litTrue α l) := by
  unfold litTrue
  rcases lt_trichotomy l 0 with hl | hl | hl
  · have h1 : (0:ℤ) < -l := by omega
    have h2 : ¬ (0:ℤ) < l := by omega
    simp [h2]; omega
  · exact absurd hl h
  · have h1 : ¬ (0:ℤ) < -l := by omega
    simp [hl]; omega

/-! # Schemas of specs.py -/

/-! ## `LEMMAS` (sort-indexed schemas) -/

/-- `_l_len`: `ilen(s) >= 0` -/
theorem len_nonneg (s : ISeq) : ilen s ≥ 0 := by unfold ilen; omega

/-- `_l_clen`: `clen(c) >= 0` -/
theorem clen_nonneg (c : CSeq) : clen c ≥ 0 := by unfold clen; omega

/-- `_l2` (L2) first conjunct: `count(a, s) >= 0` -/
theorem count_nonneg (a : Asg) (s : ISeq) : count a s ≥ 0 := by unfold count; omega

/-- `_l2` (L2) second conjunct: `count(a, s) <= ilen(s)` -/
theorem count_le_length (a : Asg) (s : ISeq) : count a s ≤ ilen s := by
  unfold count ilen countTrue
  exact_mod_cast List.countP_le_length

/-- `_l2` as one statement -/
theorem count_bounds (a : Asg) (s : ISeq) : count a s ≥ 0 ∧ count a s ≤ ilen s :=
  ⟨count_nonneg a s, count_le_length a s⟩

/-- `_lct`: `ctrue(a, s) == (count(a, s) >= 1)` -/
theorem ctrue_iff_count_pos (a : Asg) (s : ISeq) : ctrue a s ↔ count a s ≥ 1 := by
  unfold ctrue count countTrue
  have : (1 : ℤ) ≤ ((List.countP (litTrue a) s : ℕ) : ℤ) ↔ 0 < List.countP (litTrue a) s := by omega
  rw [ge_iff_le, this, List.countP_pos_iff]

/-- `_lbasic`[0]: `ilen(s) == 0 -> s == inil` -/
theorem nil_of_length_zero (s : ISeq) : ilen s = 0 → s = inil := by
  unfold ilen inil
  intro h
  exact List.eq_nil_of_length_eq_zero (by exact_mod_cast h)

/-- `_lbasic`[1]: `haszero(s) -> ilen(s) > 0` -/
theorem haszero_pos (s : ISeq) : haszero s → ilen s > 0 := by
  unfold haszero ilen
  intro h
  have := List.length_pos_of_mem h
  omega

/-- `_lbasic`[2]: `maxabs(s) >= 0` -/
theorem maxabs_nonneg (s : ISeq) : maxabs s ≥ 0 := maxabs_nonneg' s

/-- `_lbasic`[3]: `ilen(s) > 0 -> maxabs(s) == zmax(maxof(s), -minof(s))` -/
theorem maxabs_eq_max_min (s : ISeq) : ilen s > 0 → maxabs s = zmax (maxof s) (-minof s) := by
  rw [zmax_eq_max]
  induction s with
  | nil => intro h; simp [ilen] at h
  | cons y t ih =>
    intro _
    cases t with
    | nil => simp only [maxabs, maxof, minof, List.foldr]; omega
    | cons z t' =>
      have := ih (by simp [ilen])
      rw [maxabs_cons, this]
      simp only [maxof, minof]
      omega

/-- `_lcbasic`[0]: `clen(c) == 0 -> c == cnil` -/
theorem cnil_of_length_zero (c : CSeq) : clen c = 0 → c = cnil := by
  unfold clen cnil
  intro h
  exact List.eq_nil_of_length_eq_zero (by exact_mod_cast h)

/-- `_lcbasic`[1]: `cmaxabs(c) >= 0` -/
theorem cmaxabs_nonneg (c : CSeq) : cmaxabs c ≥ 0 := cmaxabs_nonneg' c

/-! ## `_on_terms` : `ineg` -/

/-- `ilen(ineg(s)) == ilen(s)` -/
theorem ilen_neg (s : ISeq) : ilen (ineg s) = ilen s := by simp [ilen, ineg]

/-- `Not(haszero(s)) -> Not(haszero(ineg(s)))` -/
theorem haszero_neg (s : ISeq) : ¬ haszero s → ¬ haszero (ineg s) := by
  unfold haszero ineg
  intro h h'
  obtain ⟨x, hx, hx0⟩ := List.mem_map.mp h'
  have : x = 0 := by omega
  exact h (this ▸ hx)

/-- `maxabs(ineg(s)) == maxabs(s)` -/
theorem maxabs_neg (s : ISeq) : maxabs (ineg s) = maxabs s := by
  unfold ineg
  induction s with
  | nil => rfl
  | cons y t ih => rw [List.map_cons, maxabs_cons, maxabs_cons, ih]; simp

/-! ## `_on_terms` : `isnoc` -/

/-- `ilen(isnoc(s, x)) == ilen(s) + 1` -/
theorem ilen_snoc (s : ISeq) (x : ℤ) : ilen (isnoc s x) = ilen s + 1 := by simp [ilen, isnoc]

/-- `maxabs(isnoc(s, x)) == zmax(maxabs(s), zabs(x))` -/
theorem maxabs_snoc (s : ISeq) (x : ℤ) : maxabs (isnoc s x) = zmax (maxabs s) (zabs x) := by
  rw [zmax_eq_max, zabs_eq_natAbs]
  unfold isnoc
  rw [maxabs_append]
  simp [maxabs]

/-- `haszero(isnoc(s, x)) == Or(haszero(s), x == 0)` -/
theorem haszero_snoc (s : ISeq) (x : ℤ) : haszero (isnoc s x) ↔ (haszero s ∨ x = 0) := by
  unfold haszero isnoc
  rw [List.mem_append, List.mem_singleton]
  constructor <;> rintro (h | h)
  · exact Or.inl h
  · exact Or.inr h.symm
  · exact Or.inl h
  · exact Or.inr h.symm

/-! ## `_on_terms` : `csnoc` -/

/-- `chaszero(csnoc(c, s)) == Or(chaszero(c), haszero(s))` -/
theorem chaszero_snoc (c : CSeq) (s : ISeq) : chaszero (csnoc c s) ↔ (chaszero c ∨ haszero s) := by
  unfold chaszero csnoc
  constructor
  · rintro ⟨t, ht, h0⟩
    rcases List.mem_append.mp ht with h | h
    · exact Or.inl ⟨t, h, h0⟩
    · rw [List.mem_singleton] at h; subst h; exact Or.inr h0
  · rintro (⟨t, ht, h0⟩ | h)
    · exact ⟨t, List.mem_append_left _ ht, h0⟩
    · exact ⟨s, List.mem_append_right _ (List.mem_singleton.mpr rfl), h⟩

/-- `csnoc(capp(x, y), s) == capp(x, csnoc(y, s))`  (syntactic-match branch `c.eq(capp(x, y))`) -/
theorem app_snoc (x y : CSeq) (s : ISeq) : csnoc (capp x y) s = capp x (csnoc y s) := by
  simp [csnoc, capp, List.append_assoc]

/-- `c == capp(x, y) -> csnoc(c, s) == capp(x, csnoc(y, s))`  (guarded branch) -/
theorem app_snoc_of_eq (c x y : CSeq) (s : ISeq) :
    c = capp x y → csnoc c s = capp x (csnoc y s) := by
  rintro rfl; exact app_snoc x y s

/-- `clen(csnoc(c, s)) == clen(c) + 1` -/
theorem clen_snoc (c : CSeq) (s : ISeq) : clen (csnoc c s) = clen c + 1 := by simp [clen, csnoc]

/-- `csnoc(c, s) == capp(c, csnoc(cnil, s))` -/
theorem snoc_eq_app_single (c : CSeq) (s : ISeq) : csnoc c s = capp c (csnoc cnil s) := by
  simp [csnoc, capp, cnil]

/-- `cmaxabs(csnoc(c, s)) == zmax(cmaxabs(c), maxabs(s))` -/
theorem cmaxabs_snoc (c : CSeq) (s : ISeq) : cmaxabs (csnoc c s) = zmax (cmaxabs c) (maxabs s) := by
  rw [zmax_eq_max]
  unfold csnoc
  rw [cmaxabs_append]
  have := maxabs_nonneg' s
  simp only [cmaxabs, List.foldr]
  omega

/-! ## `_on_terms` : `capp` -/

/-- `chaszero(capp(c, d)) == Or(chaszero(c), chaszero(d))` -/
theorem chaszero_app (c d : CSeq) : chaszero (capp c d) ↔ (chaszero c ∨ chaszero d) := by
  unfold chaszero capp
  constructor
  · rintro ⟨t, ht, h0⟩
    rcases List.mem_append.mp ht with h | h
    · exact Or.inl ⟨t, h, h0⟩
    · exact Or.inr ⟨t, h, h0⟩
  · rintro (⟨t, ht, h0⟩ | ⟨t, ht, h0⟩)
    · exact ⟨t, List.mem_append_left _ ht, h0⟩
    · exact ⟨t, List.mem_append_right _ ht, h0⟩

/-- `clen(capp(c, d)) == clen(c) + clen(d)` -/
theorem clen_app (c d : CSeq) : clen (capp c d) = clen c + clen d := by simp [clen, capp]

/-- `cmaxabs(capp(c, d)) == zmax(cmaxabs(c), cmaxabs(d))` -/
theorem cmaxabs_app (c d : CSeq) : cmaxabs (capp c d) = zmax (cmaxabs c) (cmaxabs d) := by
  rw [zmax_eq_max]; exact cmaxabs_append c d

/-- `d == cnil -> capp(c, d) == c` -/
theorem app_nil_right (c d : CSeq) : d = cnil → capp c d = c := by
  rintro rfl; simp [capp, cnil]

/-- `c == cnil -> capp(c, d) == d` -/
theorem app_nil_left (c d : CSeq) : c = cnil → capp c d = d := by
  rintro rfl; simp [capp, cnil]

/-! ## `_on_terms` : `ctake` -/

/-- `And(0 <= k, k <= clen(x)) -> ctake(capp(x, y), k) == ctake(x, k)` -/
theorem take_append_le (x y : CSeq) (k : ℤ) :
    (0 ≤ k ∧ k ≤ clen x) → ctake (capp x y) k = ctake x k := by
  unfold clen ctake capp
  rintro ⟨h0, h1⟩
  exact List.take_append_of_le_length (by omega)

/-- `And(c == capp(x, y), 0 <= k, k <= clen(x)) -> ctake(c, k) == ctake(x, k)` -/
theorem take_append_le_of_eq (c x y : CSeq) (k : ℤ) :
    (c = capp x y ∧ 0 ≤ k ∧ k ≤ clen x) → ctake c k = ctake x k := by
  rintro ⟨rfl, h⟩; exact take_append_le x y k h

/-- `And(0 <= k, k <= clen(x)) -> ctake(csnoc(x, y), k) == ctake(x, k)` -/
theorem take_snoc_le (x : CSeq) (y : ISeq) (k : ℤ) :
    (0 ≤ k ∧ k ≤ clen x) → ctake (csnoc x y) k = ctake x k := by
  unfold clen ctake csnoc
  rintro ⟨h0, h1⟩
  exact List.take_append_of_le_length (by omega)

/-- `And(c == csnoc(x, y), 0 <= k, k <= clen(x)) -> ctake(c, k) == ctake(x, k)` -/
theorem take_snoc_le_of_eq (c x : CSeq) (y : ISeq) (k : ℤ) :
    (c = csnoc x y ∧ 0 ≤ k ∧ k ≤ clen x) → ctake c k = ctake x k := by
  rintro ⟨rfl, h⟩; exact take_snoc_le x y k h

/-- `And(0 <= k, k <= k2, k2 <= clen(c2), c == ctake(c2, k2)) -> ctake(c, k) == ctake(c2, k)` -/
theorem take_take (c c2 : CSeq) (k k2 : ℤ) :
    (0 ≤ k ∧ k ≤ k2 ∧ k2 ≤ clen c2 ∧ c = ctake c2 k2) → ctake c k = ctake c2 k := by
  rintro ⟨h0, h1, _, rfl⟩
  unfold ctake
  rw [List.take_take, min_eq_left (by omega)]

/-- `Not(chaszero(c)) -> Not(chaszero(ctake(c, k)))`  (no side condition on `k`) -/
theorem chaszero_take (c : CSeq) (k : ℤ) : ¬ chaszero c → ¬ chaszero (ctake c k) := by
  unfold chaszero ctake
  rintro h ⟨t, ht, h0⟩
  exact h ⟨t, List.mem_of_mem_take ht, h0⟩

/-- `k == 0 -> ctake(c, k) == cnil` -/
theorem take_zero (c : CSeq) (k : ℤ) : k = 0 → ctake c k = cnil := by
  rintro rfl; simp [ctake, cnil]

/-- `k == clen(c) -> ctake(c, k) == c` -/
theorem take_all (c : CSeq) (k : ℤ) : k = clen c → ctake c k = c := by
  rintro rfl; simp [ctake, clen]

/-- `And(0 <= k, k <= clen(c)) -> clen(ctake(c, k)) == k` -/
theorem length_take (c : CSeq) (k : ℤ) : (0 ≤ k ∧ k ≤ clen c) → clen (ctake c k) = k := by
  unfold clen ctake
  rintro ⟨h0, h1⟩
  rw [List.length_take, min_eq_left (by omega)]
  omega

/-- `And(0 <= k, k < clen(c)) -> ctake(c, k + 1) == csnoc(ctake(c, k), cget(c, k))` -/
theorem take_succ_snoc (c : CSeq) (k : ℤ) :
    (0 ≤ k ∧ k < clen c) → ctake c (k + 1) = csnoc (ctake c k) (cget c k) := by
  unfold clen ctake csnoc cget
  rintro ⟨h0, h1⟩
  have hk : (k + 1).toNat = k.toNat + 1 := by omega
  have hlt : k.toNat < c.length := by omega
  rw [hk, List.take_add_one, List.getD_eq_getElem?_getD, List.getElem?_eq_getElem hlt]
  simp

/-- `And(0 <= k, k <= clen(c)) -> cmaxabs(ctake(c, k)) <= cmaxabs(c)` (holds for every `k`) -/
theorem cmaxabs_take_le (c : CSeq) (k : ℤ) :
    (0 ≤ k ∧ k ≤ clen c) → cmaxabs (ctake c k) ≤ cmaxabs c := by
  intro _
  unfold ctake
  rw [cmaxabs_le_iff _ _ (cmaxabs_nonneg' c)]
  intro s hs
  exact maxabs_le_cmaxabs c s (List.mem_of_mem_take hs)

/-! ## `_on_terms` : `combs` -/

/-- `cmaxabs(combs(s, k)) <= maxabs(s)`  (no side condition on `k`) -/
theorem combs_maxabs_le (s : ISeq) (k : ℤ) : cmaxabs (combs s k) ≤ maxabs s := by
  unfold combs
  rw [cmaxabs_le_iff _ _ (maxabs_nonneg' s)]
  intro t ht
  rw [mem_combsLex] at ht
  rw [maxabs_le_iff _ _ (maxabs_nonneg' s)]
  intro x hx
  exact natAbs_le_maxabs s x (ht.1.subset hx)

/-- `Not(haszero(s)) -> Not(chaszero(combs(s, k)))` -/
theorem combs_no_zero (s : ISeq) (k : ℤ) : ¬ haszero s → ¬ chaszero (combs s k) := by
  unfold haszero chaszero combs
  rintro h ⟨t, ht, h0⟩
  rw [mem_combsLex] at ht
  exact h (ht.1.subset h0)

/-! ## `_on_terms` : `cget` -/

theorem cget_mem (c : CSeq) (i : ℤ) (h : 0 ≤ i ∧ i < clen c) : cget c i ∈ c := by
  unfold clen at h
  unfold cget
  have hlt : i.toNat < c.length := by omega
  rw [List.getD_eq_getElem?_getD, List.getElem?_eq_getElem hlt]
  exact List.getElem_mem hlt

/-- `And(0 <= i, i < clen(c)) -> maxabs(cget(c, i)) <= cmaxabs(c)` -/
theorem cget_maxabs_le (c : CSeq) (i : ℤ) :
    (0 ≤ i ∧ i < clen c) → maxabs (cget c i) ≤ cmaxabs c :=
  fun h => maxabs_le_cmaxabs c _ (cget_mem c i h)

/-- `And(0 <= i, i < clen(c), Not(chaszero(c))) -> Not(haszero(cget(c, i)))` -/
theorem cget_no_zero (c : CSeq) (i : ℤ) :
    (0 ≤ i ∧ i < clen c ∧ ¬ chaszero c) → ¬ haszero (cget c i) := by
  rintro ⟨h0, h1, h⟩ hz
  exact h ⟨cget c i, cget_mem c i ⟨h0, h1⟩, hz⟩

/-! ## `_on_terms` : `pow2` -/

/-- `x >= 0 -> pow2(x) >= 1` -/
theorem pow2_pos (x : ℤ) : x ≥ 0 → pow2 x ≥ 1 := by
  intro _
  unfold pow2
  have : (0:ℤ) < 2 ^ x.toNat := by positivity
  omega

/-- `x == 0 -> pow2(x) == 1` -/
theorem pow2_zero (x : ℤ) : x = 0 → pow2 x = 1 := by
  rintro rfl; simp [pow2]

/-- `x >= 0 -> pow2(x + 1) == 2 * pow2(x)` -/
theorem pow2_succ (x : ℤ) : x ≥ 0 → pow2 (x + 1) = 2 * pow2 x := by
  intro h
  unfold pow2
  have : (x + 1).toNat = x.toNat + 1 := by omega
  rw [this, pow_succ]; ring

/-- `x >= 1 -> pow2(x) == 2 * pow2(x - 1)` -/
theorem pow2_pred (x : ℤ) : x ≥ 1 → pow2 x = 2 * pow2 (x - 1) := by
  intro h
  have := pow2_succ (x - 1) (by omega)
  rwa [sub_add_cancel] at this

/-! ## `_on_terms` : constants -/

/-- `clen(cnil) == 0` -/
theorem clen_nil : clen cnil = 0 := rfl
/-- `ilen(inil) == 0` -/
theorem ilen_nil : ilen inil = 0 := rfl
/-- `cmaxabs(cnil) == 0` -/
theorem cmaxabs_nil : cmaxabs cnil = 0 := rfl
/-- `Not(chaszero(cnil))` -/
theorem chaszero_nil : ¬ chaszero cnil := by rintro ⟨t, ht, _⟩; cases ht
/-- `maxabs(inil) == 0` -/
theorem maxabs_nil : maxabs inil = 0 := rfl
/-- `Not(haszero(inil))` -/
theorem haszero_nil : ¬ haszero inil := by intro h; cases h

/-! ## `_sem_on_terms` -/

/-- `sat(a, cnil)` -/
theorem sat_nil (a : Asg) : sat a cnil := by intro s hs; cases hs

/-- `count(a, inil) == 0` -/
theorem count_nil (a : Asg) : count a inil = 0 := rfl

/-- L3 on naturals: negating every (non-zero) literal complements the count -/
theorem countTrue_neg (α : Asg) (ls : List ℤ) (hnz : ∀ l ∈ ls, l ≠ 0) :
    countTrue α (ls.map (fun l => -l)) + countTrue α ls = ls.length := by
  induction ls with
  | nil => simp [countTrue]
  | cons l t ih =>
    have hl : l ≠ 0 := hnz l List.mem_cons_self
    have ht : ∀ x ∈ t, x ≠ 0 := fun x hx => hnz x (List.mem_cons_of_mem _ hx)
    have := ih ht
    unfold countTrue at *
    rw [List.countP_map] at this
    simp only [List.map_cons, List.countP_cons, List.length_cons, litTrue_neg α l hl]
    by_cases h : litTrue α l = true
    · simp [h]; omega
    · have hf : litTrue α l = false := by simpa using h
      simp [hf]; omega

/-- L3: `Not(haszero(s)) -> count(a, ineg(s)) == ilen(s) - count(a, s)` -/
theorem count_neg (a : Asg) (s : ISeq) : ¬ haszero s → count a (ineg s) = ilen s - count a s := by
  intro h
  have := countTrue_neg a s (fun l hl h0 => h (show (0:ℤ) ∈ s from h0 ▸ hl))
  unfold count ilen ineg
  omega

/-- `count(a, isnoc(s, x)) == count(a, s) + b2i(lit_true(a, x))` -/
theorem count_snoc (a : Asg) (s : ISeq) (x : ℤ) :
    count a (isnoc s x) = count a s + b2i (lit_true a x) := by
  unfold count countTrue isnoc b2i lit_true
  rw [List.countP_append]
  by_cases h : litTrue a x = true
  · simp [h]
  · simp [h]

/-- L1: `sat(a, capp(c, d)) == And(sat(a, c), sat(a, d))` -/
theorem sat_append (a : Asg) (c d : CSeq) : sat a (capp c d) ↔ (sat a c ∧ sat a d) := by
  unfold sat capp
  simp only [List.mem_append]
  constructor
  · intro h; exact ⟨fun s hs => h s (Or.inl hs), fun s hs => h s (Or.inr hs)⟩
  · rintro ⟨h1, h2⟩ s (hs | hs)
    · exact h1 s hs
    · exact h2 s hs

/-- L1 instance: `sat(a, csnoc(c, s)) == And(sat(a, c), ctrue(a, s))` -/
theorem sat_snoc (a : Asg) (c : CSeq) (s : ISeq) : sat a (csnoc c s) ↔ (sat a c ∧ ctrue a s) := by
  have := sat_append a c [s]
  unfold capp at this
  unfold csnoc
  rw [this]
  constructor
  · rintro ⟨h1, h2⟩; exact ⟨h1, h2 s (List.mem_singleton.mpr rfl)⟩
  · rintro ⟨h1, h2⟩
    refine ⟨h1, ?_⟩
    intro t ht
    rw [List.mem_singleton] at ht
    subst ht; exact h2

/-! ### L4 BLAST -/

theorem length_filter_not_add {β} (p : β → Bool) (l : List β) :
    (l.filter (fun x => !p x)).length + l.countP p = l.length := by
  induction l with
  | nil => simp
  | cons a t ih =>
    by_cases h : p a = true
    · simp [h]; omega
    · simp [h]; omega

theorem blast_generic {β} (p : β → Bool) (l : List β) (k : ℕ) (_hk : 1 ≤ k) (hkn : k ≤ l.length) :
    (∀ s ∈ List.sublistsLen k l, ∃ x ∈ s, p x = true) ↔ l.length - k + 1 ≤ l.countP p := by
  have hlen := length_filter_not_add p l
  constructor
  · intro h
    by_contra hlt
    push Not at hlt
    have hF : k ≤ (l.filter (fun x => !p x)).length := by omega
    have hs : (l.filter (fun x => !p x)).take k ∈ List.sublistsLen k l := by
      rw [List.mem_sublistsLen]
      refine ⟨(List.take_sublist _ _).trans List.filter_sublist, ?_⟩
      simp [List.length_take, hF]
    obtain ⟨x, hx, hpx⟩ := h _ hs
    have hx' : x ∈ l.filter (fun x => !p x) := List.mem_of_mem_take hx
    simp [List.mem_filter] at hx'
    simp [hx'.2] at hpx
  · intro h s hs
    rw [List.mem_sublistsLen] at hs
    by_contra hno
    push Not at hno
    have hsub : List.Sublist (s.filter (fun x => !p x)) (l.filter (fun x => !p x)) := hs.1.filter _
    have hall : s.filter (fun x => !p x) = s := by
      rw [List.filter_eq_self]
      intro a ha
      have := hno a ha
      simp [this]
    rw [hall] at hsub
    have := hsub.length_le
    omega

/-- L4: `And(1 <= k, k <= ilen(s)) -> sat(a, combs(s, k)) == (count(a, s) >= ilen(s) - k + 1)` -/
theorem blast (a : Asg) (s : ISeq) (k : ℤ) :
    (1 ≤ k ∧ k ≤ ilen s) → (sat a (combs s k) ↔ count a s ≥ ilen s - k + 1) := by
  unfold ilen
  rintro ⟨h1, h2⟩
  have hg := blast_generic (litTrue a) s k.toNat (by omega) (by omega)
  unfold sat ctrue combs count countTrue
  simp only [combsLex_eq_reverse, List.mem_reverse]
  rw [hg]
  omega


/-! # Second batch of schemas (specs.py: `_ltbasic`, `_lobasic`, `_opb_on_terms`, `_opb_sem`, `_lit_neg`,
    and the `apseq` / `negunits` / `signvecs` / `pfilter` / `smul` / `psum` blocks of `_on_terms`,
    `_sem_on_terms`) -/

/-! ## tools: `maxabs` and `haszero` only depend on the absolute values -/

theorem maxabs_congr_natAbs : ∀ (s s' : ISeq), s.map Int.natAbs = s'.map Int.natAbs → maxabs s = maxabs s'
  | [], [], _ => rfl
  | [], _ :: _, h => by simp at h
  | _ :: _, [], h => by simp at h
  | x :: t, y :: t', h => by
    simp only [List.map_cons, List.cons.injEq] at h
    rw [maxabs_cons, maxabs_cons, maxabs_congr_natAbs t t' h.2, h.1]

theorem haszero_iff_natAbs (s : ISeq) : haszero s ↔ (0 : ℕ) ∈ s.map Int.natAbs := by
  unfold haszero
  rw [List.mem_map]
  constructor
  · intro h; exact ⟨0, h, rfl⟩
  · rintro ⟨x, hx, h0⟩
    have : x = 0 := by omega
    exact this ▸ hx

theorem haszero_congr_natAbs (s s' : ISeq) (h : s.map Int.natAbs = s'.map Int.natAbs) :
    haszero s ↔ haszero s' := by
  rw [haszero_iff_natAbs, haszero_iff_natAbs, h]

/-! ## `_lit_neg` -/

/-- `_lit_neg`: `Implies(l != 0, lit_true(a, -l) == Not(lit_true(a, l)))` -/
theorem lit_true_neg (a : Asg) (l : ℤ) : l ≠ 0 → (lit_true a (-l) ↔ ¬ lit_true a l) := by
  intro h
  unfold lit_true
  rw [litTrue_neg a l h]
  cases litTrue a l <;> simp

/-! ## pseudo-Boolean terms: `TSeq := List (ℤ × ℤ)` of (coefficient, literal) -/

abbrev TSeq := List (ℤ × ℤ)

def tlen (t : TSeq) : ℤ := (t.length : ℤ)
/-- `t[j]` for `0 ≤ j < len t`, `(0,0)` otherwise -/
def tget (t : TSeq) (j : ℤ) : ℤ × ℤ := if 0 ≤ j then t.getD j.toNat (0, 0) else (0, 0)
def tcoef (t : TSeq) (j : ℤ) : ℤ := (tget t j).1
def tlit (t : TSeq) (j : ℤ) : ℤ := (tget t j).2
/-- `[(1,l) for l in s]` -/
def tunit (s : ISeq) : TSeq := s.map (fun l => ((1 : ℤ), l))
/-- `[(-c,l) for (c,l) in t]` -/
def tnegc (t : TSeq) : TSeq := t.map (fun p => (-p.1, p.2))
/-- `t` with `t[i] := (c,l)` (python `t[i] = (c,l)` for `0 ≤ i < len t`; unchanged otherwise) -/
def tset (t : TSeq) (i c l : ℤ) : TSeq := if 0 ≤ i then t.set i.toNat (c, l) else t
/-- contribution of one term -/
def termVal (α : Asg) (p : ℤ × ℤ) : ℤ := if litTrue α p.2 = true then p.1 else 0
/-- sum of the coefficients of the true literals -/
def wsum (α : Asg) (t : TSeq) : ℤ := (t.map (termVal α)).sum
def tlits (t : TSeq) : ISeq := t.map Prod.snd
/-- some literal is 0 -/
def thaszero (t : TSeq) : Prop := haszero (tlits t)
/-- max |literal|, 0 if empty -/
def tmaxabs (t : TSeq) : ℤ := maxabs (tlits t)
/-- every coefficient ≥ 0 -/
def tnonneg (t : TSeq) : Prop := ∀ p ∈ t, 0 ≤ p.1

/-- z3 datatype `Con = mkcon(terms, op, value)` -/
structure Con where
  terms : TSeq
  op : String
  value : ℤ

/-- python `cmp_op` (same nesting of `If`) -/
def cmp_op (op : String) (lhs rhs : ℤ) : Prop :=
  if op = ">=" then lhs ≥ rhs else if op = "==" then lhs = rhs else if op = "<=" then lhs ≤ rhs
  else if op = "<" then lhs < rhs else if op = ">" then lhs > rhs else False

def holds (α : Asg) (c : Con) : Prop := cmp_op c.op (wsum α c.terms) c.value

abbrev OSeq := List Con
def olen (o : OSeq) : ℤ := (o.length : ℤ)
def onil : OSeq := []
def osnoc (o : OSeq) (c : Con) : OSeq := o ++ [c]
def otake (o : OSeq) (k : ℤ) : OSeq := o.take k.toNat
def osat (α : Asg) (o : OSeq) : Prop := ∀ c ∈ o, holds α c
def omaxabs (o : OSeq) : ℤ := o.foldr (fun c m => max (tmaxabs c.terms) m) 0
def ohaszero (o : OSeq) : Prop := ∃ c ∈ o, thaszero c.terms
/-- every constraint: coefficients ≥ 0, op in {>=, ==} -/
def onormal (o : OSeq) : Prop := ∀ c ∈ o, tnonneg c.terms ∧ (c.op = ">=" ∨ c.op = "==")

theorem tget_of_lt (t : TSeq) (j : ℤ) (h0 : 0 ≤ j) (h1 : j < tlen t) :
    tget t j = t[j.toNat]'(by unfold tlen at h1; omega) := by
  unfold tlen at h1
  have hlt : j.toNat < t.length := by omega
  unfold tget
  rw [if_pos h0, List.getD_eq_getElem?_getD, List.getElem?_eq_getElem hlt]
  rfl

theorem tget_mem (t : TSeq) (j : ℤ) (h0 : 0 ≤ j) (h1 : j < tlen t) : tget t j ∈ t := by
  rw [tget_of_lt t j h0 h1]; exact List.getElem_mem _

theorem tget_of_ge (t : TSeq) (j : ℤ) (h1 : tlen t ≤ j) : tget t j = (0, 0) := by
  unfold tlen at h1
  unfold tget
  split
  · rw [List.getD_eq_getElem?_getD, List.getElem?_eq_none (by omega)]; rfl
  · rfl

/-! ### `_ltbasic`, `_lobasic` -/

/-- `_ltbasic`[0]: `tlen(t) >= 0` -/
theorem tlen_nonneg (t : TSeq) : tlen t ≥ 0 := by unfold tlen; omega
/-- `_ltbasic`[1]: `tmaxabs(t) >= 0` -/
theorem tmaxabs_nonneg (t : TSeq) : tmaxabs t ≥ 0 := maxabs_nonneg' _
/-- `_ltbasic`[2]: `tnonneg(t) == ForAll([j], Implies(And(0 <= j, j < tlen(t)), tcoef(t, j) >= 0))` -/
theorem tnonneg_def (t : TSeq) : tnonneg t ↔ ∀ j : ℤ, (0 ≤ j ∧ j < tlen t) → tcoef t j ≥ 0 := by
  unfold tnonneg tcoef
  constructor
  · rintro h j ⟨h0, h1⟩
    exact h _ (tget_mem t j h0 h1)
  · intro h p hp
    obtain ⟨n, hn, rfl⟩ := List.getElem_of_mem hp
    have := h (n : ℤ) ⟨by omega, by unfold tlen; omega⟩
    rw [tget_of_lt t n (by omega) (by unfold tlen; omega)] at this
    simpa using this

theorem omaxabs_cons (c : Con) (o : OSeq) : omaxabs (c :: o) = max (tmaxabs c.terms) (omaxabs o) := rfl

theorem omaxabs_nonneg' (o : OSeq) : 0 ≤ omaxabs o := by
  induction o with
  | nil => simp [omaxabs]
  | cons x t ih => rw [omaxabs_cons]; omega

/-- `_lobasic`[0]: `olen(o) >= 0` -/
theorem olen_nonneg (o : OSeq) : olen o ≥ 0 := by unfold olen; omega
/-- `_lobasic`[1]: `omaxabs(o) >= 0` -/
theorem omaxabs_nonneg (o : OSeq) : omaxabs o ≥ 0 := omaxabs_nonneg' o

/-! ### `_opb_on_terms` : `tunit` -/

theorem tlits_tunit (s : ISeq) : tlits (tunit s) = s := by
  unfold tlits tunit; rw [List.map_map]; simp [Function.comp_def]

/-- `tlen(tunit(s)) == ilen(s)` -/
theorem tlen_unit (s : ISeq) : tlen (tunit s) = ilen s := by simp [tlen, tunit, ilen]
/-- `thaszero(tunit(s)) == haszero(s)` -/
theorem thaszero_unit (s : ISeq) : thaszero (tunit s) ↔ haszero s := by
  unfold thaszero; rw [tlits_tunit]
/-- `tmaxabs(tunit(s)) == maxabs(s)` -/
theorem tmaxabs_unit (s : ISeq) : tmaxabs (tunit s) = maxabs s := by
  unfold tmaxabs; rw [tlits_tunit]
/-- `tnonneg(tunit(s))` -/
theorem tnonneg_unit (s : ISeq) : tnonneg (tunit s) := by
  unfold tnonneg tunit
  intro p hp
  obtain ⟨l, _, rfl⟩ := List.mem_map.mp hp
  simp

/-! ### `_opb_on_terms` : `tnegc` -/

theorem tlits_tnegc (t : TSeq) : tlits (tnegc t) = tlits t := by
  unfold tlits tnegc; rw [List.map_map]; rfl

/-- `tlen(tnegc(t)) == tlen(t)` -/
theorem tlen_negc (t : TSeq) : tlen (tnegc t) = tlen t := by simp [tlen, tnegc]
/-- `thaszero(tnegc(t)) == thaszero(t)` -/
theorem thaszero_negc (t : TSeq) : thaszero (tnegc t) ↔ thaszero t := by
  unfold thaszero; rw [tlits_tnegc]
/-- `tmaxabs(tnegc(t)) == tmaxabs(t)` -/
theorem tmaxabs_negc (t : TSeq) : tmaxabs (tnegc t) = tmaxabs t := by
  unfold tmaxabs; rw [tlits_tnegc]

theorem tget_negc (t : TSeq) (j : ℤ) : tget (tnegc t) j = (-(tget t j).1, (tget t j).2) := by
  unfold tget tnegc
  split
  · rw [List.getD_eq_getElem?_getD, List.getD_eq_getElem?_getD, List.getElem?_map]
    cases t[j.toNat]? <;> simp
  · simp

/-- `ForAll([j], And(tcoef(tnegc(t), j) == -tcoef(t, j), tlit(tnegc(t), j) == tlit(t, j)))` -/
theorem tget_negc_forall (t : TSeq) :
    ∀ j : ℤ, tcoef (tnegc t) j = -tcoef t j ∧ tlit (tnegc t) j = tlit t j := by
  intro j
  unfold tcoef tlit
  rw [tget_negc]
  exact ⟨rfl, rfl⟩

/-! ### `_opb_on_terms` : `tset` -/

/-- `tlen(tset(t, i, c, l)) == tlen(t)` -/
theorem tlen_set (t : TSeq) (i c l : ℤ) : tlen (tset t i c l) = tlen t := by
  unfold tlen tset; split <;> simp

/-- read-over-write, STRONGEST TRUE FORM for lists (holds for every `i`, `j`):
    the write is visible at `j = i` only if `i` is a valid index. -/
theorem tget_set_general (t : TSeq) (i c l j : ℤ) :
    tget (tset t i c l) j = if j = i ∧ 0 ≤ i ∧ i < tlen t then (c, l) else tget t j := by
  unfold tset tget tlen
  by_cases hi : 0 ≤ i
  · by_cases hj : 0 ≤ j
    · simp only [hi, hj, if_true, true_and]
      rw [List.getD_eq_getElem?_getD, List.getD_eq_getElem?_getD, List.getElem?_set]
      by_cases hji : j = i
      · subst hji
        by_cases hlt : j < (t.length : ℤ)
        · have : j.toNat < t.length := by omega
          simp [this, hlt]
        · have : ¬ j.toNat < t.length := by omega
          simp [this, hlt]
      · have : i.toNat ≠ j.toNat := by omega
        simp [this, hji]
    · have hji : j ≠ i := by omega
      simp [hi, hj, hji]
  · have : ¬ (j = i ∧ 0 ≤ i ∧ i < (t.length : ℤ)) := by omega
    simp [hi]

/-- `And(0 <= i, i < tlen(t)) -> ForAll([j], And(tcoef(n, j) == If(j == i, c, tcoef(t, j)),
    tlit(n, j) == If(j == i, l, tlit(t, j))))` with `n = tset(t, i, c, l)`.
    DISCREPANCY: specs.py emits the `ForAll` WITHOUT the guard `0 <= i < tlen(t)`; unguarded it is
    false for lists (e.g. `t = []`, `i = 0`, `c = 1`: `tcoef(n, 0) = 0 ≠ 1`). -/
theorem tget_set_forall (t : TSeq) (i c l : ℤ) : (0 ≤ i ∧ i < tlen t) →
    ∀ j : ℤ, tcoef (tset t i c l) j = (if j = i then c else tcoef t j) ∧
             tlit (tset t i c l) j = (if j = i then l else tlit t j) := by
  rintro ⟨h0, h1⟩ j
  unfold tcoef tlit
  rw [tget_set_general]
  by_cases hji : j = i
  · simp [hji, h0, h1]
  · simp [hji]

/-- for `j ≠ i` the read-over-write formula holds without any guard -/
theorem tget_set_ne (t : TSeq) (i c l j : ℤ) (h : j ≠ i) :
    tcoef (tset t i c l) j = tcoef t j ∧ tlit (tset t i c l) j = tlit t j := by
  unfold tcoef tlit
  rw [tget_set_general]
  simp [h]

theorem tlits_set_natAbs (t : TSeq) (i c l : ℤ) (h0 : 0 ≤ i) (h1 : i < tlen t)
    (habs : zabs l = zabs (tlit t i)) :
    (tlits (tset t i c l)).map Int.natAbs = (tlits t).map Int.natAbs := by
  have hg := tget_of_lt t i h0 h1
  unfold tlen at h1
  have hlt : i.toNat < t.length := by omega
  rw [zabs_eq_natAbs, zabs_eq_natAbs] at habs
  unfold tlit at habs
  rw [hg] at habs
  unfold tset tlits
  rw [if_pos h0, List.map_set, List.map_set]
  apply List.ext_getElem
  · simp
  · intro n hn1 hn2
    rw [List.getElem_set]
    split
    · next heq =>
      subst heq
      simp only [List.getElem_map]
      omega
    · rfl

/-- `And(0 <= i, i < tlen(t), zabs(l) == zabs(tlit(t, i))) ->
    And(thaszero(n) == thaszero(t), tmaxabs(n) == tmaxabs(t))`, `n = tset(t, i, c, l)` -/
theorem thaszero_tmaxabs_set (t : TSeq) (i c l : ℤ) :
    (0 ≤ i ∧ i < tlen t ∧ zabs l = zabs (tlit t i)) →
    ((thaszero (tset t i c l) ↔ thaszero t) ∧ tmaxabs (tset t i c l) = tmaxabs t) := by
  rintro ⟨h0, h1, habs⟩
  have := tlits_set_natAbs t i c l h0 h1 habs
  exact ⟨haszero_congr_natAbs _ _ this, maxabs_congr_natAbs _ _ this⟩

/-! ### `_opb_on_terms` : `tlit` -/

theorem tlit_mem (t : TSeq) (i : ℤ) (h0 : 0 ≤ i) (h1 : i < tlen t) : tlit t i ∈ tlits t := by
  unfold tlit tlits
  exact List.mem_map.mpr ⟨tget t i, tget_mem t i h0 h1, rfl⟩

/-- `And(0 <= i, i < tlen(t), Not(thaszero(t))) -> tlit(t, i) != 0` -/
theorem tlit_ne_zero (t : TSeq) (i : ℤ) : (0 ≤ i ∧ i < tlen t ∧ ¬ thaszero t) → tlit t i ≠ 0 := by
  rintro ⟨h0, h1, hz⟩ h
  apply hz
  unfold thaszero haszero
  rw [← h]; exact tlit_mem t i h0 h1

/-- `And(0 <= i, i < tlen(t)) -> zabs(tlit(t, i)) <= tmaxabs(t)` -/
theorem tlit_le_maxabs (t : TSeq) (i : ℤ) : (0 ≤ i ∧ i < tlen t) → zabs (tlit t i) ≤ tmaxabs t := by
  rintro ⟨h0, h1⟩
  rw [zabs_eq_natAbs]
  exact natAbs_le_maxabs _ _ (tlit_mem t i h0 h1)

/-! ### `_opb_on_terms` : `osnoc`, `otake`, constants -/

theorem omaxabs_append (o p : OSeq) : omaxabs (o ++ p) = max (omaxabs o) (omaxabs p) := by
  induction o with
  | nil => have := omaxabs_nonneg' p; simp [omaxabs] at *; omega
  | cons y s ih => rw [List.cons_append, omaxabs_cons, omaxabs_cons, ih]; omega

/-- `olen(osnoc(o, c)) == olen(o) + 1` -/
theorem olen_snoc (o : OSeq) (c : Con) : olen (osnoc o c) = olen o + 1 := by simp [olen, osnoc]

/-- `omaxabs(osnoc(o, c)) == zmax(omaxabs(o), tmaxabs(Con.terms(c)))` -/
theorem omaxabs_snoc (o : OSeq) (c : Con) :
    omaxabs (osnoc o c) = zmax (omaxabs o) (tmaxabs c.terms) := by
  rw [zmax_eq_max]
  unfold osnoc
  rw [omaxabs_append]
  have := tmaxabs_nonneg c.terms
  simp only [omaxabs, List.foldr]
  omega

/-- `ohaszero(osnoc(o, c)) == Or(ohaszero(o), thaszero(Con.terms(c)))` -/
theorem ohaszero_snoc (o : OSeq) (c : Con) :
    ohaszero (osnoc o c) ↔ (ohaszero o ∨ thaszero c.terms) := by
  unfold ohaszero osnoc
  constructor
  · rintro ⟨t, ht, h0⟩
    rcases List.mem_append.mp ht with h | h
    · exact Or.inl ⟨t, h, h0⟩
    · rw [List.mem_singleton] at h; subst h; exact Or.inr h0
  · rintro (⟨t, ht, h0⟩ | h)
    · exact ⟨t, List.mem_append_left _ ht, h0⟩
    · exact ⟨c, List.mem_append_right _ (List.mem_singleton.mpr rfl), h⟩

/-- `onormal(osnoc(o, c)) == And(onormal(o), tnonneg(Con.terms(c)),
    Or(Con.op(c) == '>=', Con.op(c) == '=='))` -/
theorem onormal_snoc (o : OSeq) (c : Con) :
    onormal (osnoc o c) ↔ (onormal o ∧ tnonneg c.terms ∧ (c.op = ">=" ∨ c.op = "==")) := by
  unfold onormal osnoc
  constructor
  · intro h
    exact ⟨fun d hd => h d (List.mem_append_left _ hd),
           h c (List.mem_append_right _ (List.mem_singleton.mpr rfl))⟩
  · rintro ⟨h1, h2⟩ d hd
    rcases List.mem_append.mp hd with h | h
    · exact h1 d h
    · rw [List.mem_singleton] at h; subst h; exact h2

/-- `otake(osnoc(o, c), olen(o)) == o` -/
theorem otake_snoc_len (o : OSeq) (c : Con) : otake (osnoc o c) (olen o) = o := by
  simp [otake, osnoc, olen]

/-- `And(o == osnoc(o2, c2), 0 <= k, k <= olen(o2)) -> otake(o, k) == otake(o2, k)` -/
theorem otake_snoc_le_of_eq (o o2 : OSeq) (c2 : Con) (k : ℤ) :
    (o = osnoc o2 c2 ∧ 0 ≤ k ∧ k ≤ olen o2) → otake o k = otake o2 k := by
  rintro ⟨rfl, h0, h1⟩
  unfold olen at h1
  unfold otake osnoc
  exact List.take_append_of_le_length (by omega)

/-- `k == olen(o) -> otake(o, k) == o` -/
theorem otake_all (o : OSeq) (k : ℤ) : k = olen o → otake o k = o := by
  rintro rfl; simp [otake, olen]

/-- `And(0 <= k, k <= k3, k3 <= olen(o3), o == otake(o3, k3)) -> otake(o, k) == otake(o3, k)` -/
theorem otake_take (o o3 : OSeq) (k k3 : ℤ) :
    (0 ≤ k ∧ k ≤ k3 ∧ k3 ≤ olen o3 ∧ o = otake o3 k3) → otake o k = otake o3 k := by
  rintro ⟨h0, h1, _, rfl⟩
  unfold otake
  rw [List.take_take, min_eq_left (by omega)]

/-- `olen(onil) == 0` -/
theorem olen_nil : olen onil = 0 := rfl
/-- `omaxabs(onil) == 0` -/
theorem omaxabs_nil : omaxabs onil = 0 := rfl
/-- `Not(ohaszero(onil))` -/
theorem ohaszero_nil : ¬ ohaszero onil := by rintro ⟨t, ht, _⟩; cases ht
/-- `onormal(onil)` -/
theorem onormal_nil : onormal onil := by intro c hc; cases hc

/-! ### `_opb_sem` -/

/-- `osat(a, onil)` -/
theorem osat_nil (a : Asg) : osat a onil := by intro c hc; cases hc

/-- `wsum(a, tunit(s)) == count(a, s)` -/
theorem wsum_unit (a : Asg) (s : ISeq) : wsum a (tunit s) = count a s := by
  unfold wsum tunit count countTrue
  induction s with
  | nil => simp
  | cons x t ih =>
    simp only [List.map_cons, List.sum_cons, List.countP_cons, ih, termVal]
    by_cases h : litTrue a x = true
    · simp [h]; ring
    · simp [h]

/-- `wsum(a, tnegc(t)) == -wsum(a, t)` -/
theorem wsum_negc (a : Asg) (t : TSeq) : wsum a (tnegc t) = -wsum a t := by
  unfold wsum tnegc
  induction t with
  | nil => simp
  | cons x t ih =>
    simp only [List.map_cons, List.sum_cons, ih, termVal]
    split <;> ring

theorem wsum_set_nat (a : Asg) (t : TSeq) (n : ℕ) (p : ℤ × ℤ) (h : n < t.length) :
    wsum a (t.set n p) = wsum a t - termVal a t[n] + termVal a p := by
  unfold wsum
  induction t generalizing n with
  | nil => simp at h
  | cons x t ih =>
    cases n with
    | zero => simp; ring
    | succ m =>
      have hm : m < t.length := by simpa using h
      simp only [List.set_cons_succ, List.map_cons, List.sum_cons, List.getElem_cons_succ, ih m hm]
      ring

/-- `And(0 <= i, i < tlen(t)) -> wsum(a, tset(t, i, c, l)) ==
    wsum(a, t) - tcoef(t, i) * b2i(lit_true(a, tlit(t, i))) + c * b2i(lit_true(a, l))` -/
theorem wsum_set (a : Asg) (t : TSeq) (i c l : ℤ) : (0 ≤ i ∧ i < tlen t) →
    wsum a (tset t i c l) =
      wsum a t - tcoef t i * b2i (lit_true a (tlit t i)) + c * b2i (lit_true a l) := by
  rintro ⟨h0, h1⟩
  have hg := tget_of_lt t i h0 h1
  have hlt : i.toNat < t.length := by unfold tlen at h1; omega
  unfold tset tcoef tlit
  rw [if_pos h0, wsum_set_nat a t i.toNat (c, l) hlt, hg]
  unfold termVal b2i lit_true
  by_cases h1 : litTrue a (t[i.toNat]).2 = true <;> by_cases h2 : litTrue a l = true <;> simp [h1, h2]

/-- `osat(a, osnoc(o, c)) == And(osat(a, o), holds(a, c))` -/
theorem osat_snoc (a : Asg) (o : OSeq) (c : Con) : osat a (osnoc o c) ↔ (osat a o ∧ holds a c) := by
  unfold osat osnoc
  constructor
  · intro h
    exact ⟨fun d hd => h d (List.mem_append_left _ hd),
           h c (List.mem_append_right _ (List.mem_singleton.mpr rfl))⟩
  · rintro ⟨h1, h2⟩ d hd
    rcases List.mem_append.mp hd with h | h
    · exact h1 d h
    · rw [List.mem_singleton] at h; subst h; exact h2

/-- `holds(a, c) == cmp_op(Con.op(c), wsum(a, Con.terms(c)), Con.value(c))` (definitional) -/
theorem holds_def (a : Asg) (c : Con) : holds a c ↔ cmp_op c.op (wsum a c.terms) c.value := Iff.rfl

/-! ## mixed radix: `psum(I, W, t) = Σ_{s<t} (I[s]-1)·W[s]`; z3 arrays `Int → Int` are functions `ℤ → ℤ`,
    `Select(I, t) = I t`, `Store(I0, k, v) = Function.update I0 k v` -/

def psumN (I W : ℤ → ℤ) : ℕ → ℤ
  | 0 => 0
  | n + 1 => psumN I W n + (I n - 1) * W n

def psum (I W : ℤ → ℤ) (t : ℤ) : ℤ := psumN I W t.toNat

/-- adequacy: `psumN` is the finite sum -/
theorem psumN_eq_sum (I W : ℤ → ℤ) (n : ℕ) :
    psumN I W n = ∑ s ∈ Finset.range n, (I s - 1) * W s := by
  induction n with
  | zero => simp [psumN]
  | succ n ih => rw [Finset.sum_range_succ, ← ih]; rfl

/-- `t == 0 -> psum(I, W, t) == 0` -/
theorem psum_zero (I W : ℤ → ℤ) (t : ℤ) : t = 0 → psum I W t = 0 := by
  rintro rfl; rfl

/-- `t >= 0 -> psum(I, W, t + 1) == psum(I, W, t) + (Select(I, t) - 1) * Select(W, t)` -/
theorem psum_succ (I W : ℤ → ℤ) (t : ℤ) :
    t ≥ 0 → psum I W (t + 1) = psum I W t + (I t - 1) * W t := by
  intro h
  unfold psum
  have h1 : (t + 1).toNat = t.toNat + 1 := by omega
  have h2 : ((t.toNat : ℕ) : ℤ) = t := by omega
  rw [h1, psumN, h2]

/-- `t >= 1 -> psum(I, W, t) == psum(I, W, t - 1) + (Select(I, t - 1) - 1) * Select(W, t - 1)` -/
theorem psum_pred (I W : ℤ → ℤ) (t : ℤ) :
    t ≥ 1 → psum I W t = psum I W (t - 1) + (I (t - 1) - 1) * W (t - 1) := by
  intro h
  have := psum_succ I W (t - 1) (by omega)
  rwa [sub_add_cancel] at this

/-- `k >= t -> psum(Store(I0, k, v), W, t) == psum(I0, W, t)` -/
theorem psum_store_ge (I0 W : ℤ → ℤ) (k v t : ℤ) :
    k ≥ t → psum (Function.update I0 k v) W t = psum I0 W t := by
  intro h
  unfold psum
  have key : ∀ n : ℕ, (n : ℤ) ≤ k → psumN (Function.update I0 k v) W n = psumN I0 W n := by
    intro n
    induction n with
    | zero => intro _; rfl
    | succ n ih =>
      intro hn
      have hne : (n : ℤ) ≠ k := by omega
      rw [psumN, psumN, ih (by omega), Function.update_of_ne hne]
  by_cases ht : 0 ≤ t
  · exact key _ (by omega)
  · have : t.toNat = 0 := by omega
    rw [this]; rfl

/-! ## `apseq(st, n) = [st, st+1, …, st+n-1]` -/

def apseq (st n : ℤ) : ISeq := (List.range n.toNat).map (fun (i : ℕ) => st + (i : ℤ))

/-- `n >= 0 -> ilen(apseq(st, n)) == n` -/
theorem ilen_apseq (st n : ℤ) : n ≥ 0 → ilen (apseq st n) = n := by
  intro h; simp [ilen, apseq]; omega

/-- `n >= 0 -> haszero(apseq(st, n)) == And(st <= 0, 0 < st + n)` -/
theorem haszero_apseq (st n : ℤ) : n ≥ 0 → (haszero (apseq st n) ↔ (st ≤ 0 ∧ 0 < st + n)) := by
  intro h
  unfold haszero apseq
  rw [List.mem_map]
  constructor
  · rintro ⟨i, hi, h0⟩
    rw [List.mem_range] at hi
    omega
  · rintro ⟨h1, h2⟩
    exact ⟨(-st).toNat, List.mem_range.mpr (by omega), by omega⟩

theorem maxabs_apseq_succ (st : ℤ) (hst : st ≥ 1) (n : ℕ) :
    maxabs ((List.range (n + 1)).map (fun (i : ℕ) => st + (i : ℤ))) = st + n := by
  induction n with
  | zero => simp [maxabs]; omega
  | succ n ih =>
    rw [List.range_succ, List.map_append, maxabs_append, ih]
    simp only [List.map_cons, List.map_nil, maxabs, List.foldr]
    omega

/-- `And(n >= 1, st >= 1) -> maxabs(apseq(st, n)) == st + n - 1` -/
theorem maxabs_apseq (st n : ℤ) : (n ≥ 1 ∧ st ≥ 1) → maxabs (apseq st n) = st + n - 1 := by
  rintro ⟨hn, hst⟩
  unfold apseq
  obtain ⟨m, hm⟩ : ∃ m : ℕ, n.toNat = m + 1 := ⟨n.toNat - 1, by omega⟩
  rw [hm, maxabs_apseq_succ st hst m]
  omega

/-- `n <= 0 -> apseq(st, n) == inil` -/
theorem apseq_nil (st n : ℤ) : n ≤ 0 → apseq st n = inil := by
  intro h
  have : n.toNat = 0 := by omega
  simp [apseq, inil, this]

/-- `And(0 <= i, i < n) -> iget(apseq(st, n), i) == st + i` -/
theorem iget_apseq (st n i : ℤ) : (0 ≤ i ∧ i < n) → iget (apseq st n) i = st + i := by
  rintro ⟨h0, h1⟩
  unfold iget apseq
  have hlt : i.toNat < n.toNat := by omega
  rw [List.getD_eq_getElem?_getD, List.getElem?_map, List.getElem?_range hlt]
  simp
  omega

/-! ## `negunits(s) = [[-l] for l in s]` -/

def negunits (s : ISeq) : CSeq := s.map (fun l => [-l])

/-- `clen(negunits(s)) == ilen(s)` -/
theorem clen_negunits (s : ISeq) : clen (negunits s) = ilen s := by simp [clen, negunits, ilen]

/-- `cmaxabs(negunits(s)) == maxabs(s)` -/
theorem cmaxabs_negunits (s : ISeq) : cmaxabs (negunits s) = maxabs s := by
  unfold negunits
  induction s with
  | nil => rfl
  | cons x t ih =>
    rw [List.map_cons, cmaxabs_cons, maxabs_cons, ih]
    have := maxabs_nonneg' t
    simp only [maxabs, List.foldr, Int.natAbs_neg]
    omega

/-- `chaszero(negunits(s)) == haszero(s)` -/
theorem chaszero_negunits (s : ISeq) : chaszero (negunits s) ↔ haszero s := by
  unfold chaszero negunits haszero
  constructor
  · rintro ⟨c, hc, h0⟩
    obtain ⟨l, hl, rfl⟩ := List.mem_map.mp hc
    rw [List.mem_singleton] at h0
    have : l = 0 := by omega
    exact this ▸ hl
  · intro h
    exact ⟨[-0], List.mem_map.mpr ⟨0, h, rfl⟩, by simp⟩

/-- `Not(haszero(s)) -> sat(a, negunits(s)) == (count(a, s) == 0)` -/
theorem sat_negunits (a : Asg) (s : ISeq) : ¬ haszero s → (sat a (negunits s) ↔ count a s = 0) := by
  intro hz
  unfold sat negunits ctrue count countTrue
  have h0 : ((List.countP (litTrue a) s : ℕ) : ℤ) = 0 ↔ List.countP (litTrue a) s = 0 := by omega
  rw [h0, List.countP_eq_zero]
  constructor
  · intro h l hl hlt
    have hl0 : l ≠ 0 := fun e => hz (show (0:ℤ) ∈ s from e ▸ hl)
    obtain ⟨x, hx, hxt⟩ := h [-l] (List.mem_map.mpr ⟨l, hl, rfl⟩)
    rw [List.mem_singleton] at hx
    subst hx
    rw [litTrue_neg a l hl0, hlt] at hxt
    simp at hxt
  · intro h c hc
    obtain ⟨l, hl, rfl⟩ := List.mem_map.mp hc
    have hl0 : l ≠ 0 := fun e => hz (show (0:ℤ) ∈ s from e ▸ hl)
    refine ⟨-l, List.mem_singleton.mpr rfl, ?_⟩
    rw [litTrue_neg a l hl0]
    have := h l hl
    cases hh : litTrue a l
    · rfl
    · exact absurd hh this

/-! ## sign vectors and the parity filter -/

/-- sign vectors in the order of `itertools.product([1,-1], repeat=n)` -/
def signs : ℕ → List (List ℤ)
  | 0 => [[]]
  | n+1 => (signs n).map (fun s => (1:ℤ) :: s) ++ (signs n).map (fun s => (-1:ℤ) :: s)

def signvecs (n : ℤ) : CSeq := signs n.toNat
/-- product of the entries -/
def sprod (s : ISeq) : ℤ := s.prod
/-- `[l*s for l,s in zip(lits, signs)]` -/
def smul (l s : ISeq) : ISeq := List.zipWith (· * ·) l s
/-- `[smul(l,s) for s in signvecs(len l)[:t] if sprod(s)==d]` -/
def pfilter (l : ISeq) (d t : ℤ) : CSeq :=
  (((signvecs (ilen l)).take t.toNat).filter (fun s => sprod s == d)).map (fun s => smul l s)

theorem length_signs (b : ℕ) : (signs b).length = 2^b := by
  induction b with
  | zero => simp [signs]
  | succ b ih => simp [signs, ih, pow_succ]; ring

theorem signs_spec (n : ℕ) : ∀ s ∈ signs n, s.length = n ∧ ∀ x ∈ s, x.natAbs = 1 := by
  induction n with
  | zero => intro s hs; simp [signs] at hs; subst hs; simp
  | succ n ih =>
    intro s hs
    simp only [signs, List.mem_append, List.mem_map] at hs
    rcases hs with ⟨s', hs', rfl⟩ | ⟨s', hs', rfl⟩
    · obtain ⟨h1, h2⟩ := ih s' hs'
      refine ⟨by simp [h1], ?_⟩
      intro x hx
      rcases List.mem_cons.mp hx with rfl | hx
      · rfl
      · exact h2 x hx
    · obtain ⟨h1, h2⟩ := ih s' hs'
      refine ⟨by simp [h1], ?_⟩
      intro x hx
      rcases List.mem_cons.mp hx with rfl | hx
      · rfl
      · exact h2 x hx

theorem pow2_eq (n : ℤ) : pow2 n = ((2 ^ n.toNat : ℕ) : ℤ) := by unfold pow2; push_cast; rfl

/-- `n >= 0 -> clen(signvecs(n)) == pow2(n)` -/
theorem clen_signvecs (n : ℤ) : n ≥ 0 → clen (signvecs n) = pow2 n := by
  intro _
  unfold clen signvecs
  rw [length_signs, pow2_eq]

theorem smul_natAbs : ∀ (l s : ISeq), s.length = l.length → (∀ x ∈ s, x.natAbs = 1) →
    (smul l s).map Int.natAbs = l.map Int.natAbs
  | [], [], _, _ => rfl
  | [], _ :: _, h, _ => by simp at h
  | _ :: _, [], h, _ => by simp at h
  | x :: l, y :: s, h, hs => by
    have ih := smul_natAbs l s (by simpa using h) (fun z hz => hs z (List.mem_cons_of_mem _ hz))
    have hy := hs y List.mem_cons_self
    unfold smul at *
    simp only [List.zipWith_cons_cons, List.map_cons, ih, Int.natAbs_mul, hy, mul_one]

theorem cget_signvecs_mem (n t : ℤ) (h0 : 0 ≤ t) (h1 : t < pow2 n) :
    cget (signvecs n) t ∈ signs n.toNat := by
  apply cget_mem
  refine ⟨h0, ?_⟩
  unfold clen
  rw [length_signs]; rw [pow2_eq] at h1; exact h1

/-- `And(n == ilen(l), 0 <= t, t < pow2(n)) -> And(maxabs(smul(l, sgn)) == maxabs(l),
    haszero(smul(l, sgn)) == haszero(l), ilen(smul(l, sgn)) == ilen(l))`, `sgn = cget(signvecs(n), t)` -/
theorem smul_signs (l : ISeq) (n t : ℤ) : (n = ilen l ∧ 0 ≤ t ∧ t < pow2 n) →
    (maxabs (smul l (cget (signvecs n) t)) = maxabs l ∧
     (haszero (smul l (cget (signvecs n) t)) ↔ haszero l) ∧
     ilen (smul l (cget (signvecs n) t)) = ilen l) := by
  rintro ⟨hn, h0, h1⟩
  have hm := cget_signvecs_mem n t h0 h1
  obtain ⟨hl, hx⟩ := signs_spec _ _ hm
  have hlen : (cget (signvecs n) t).length = l.length := by
    rw [hl, hn]; simp [ilen]
  have hna := smul_natAbs l _ hlen hx
  refine ⟨maxabs_congr_natAbs _ _ hna, haszero_congr_natAbs _ _ hna, ?_⟩
  have := congrArg List.length hna
  simp only [List.length_map] at this
  unfold ilen; rw [this]

theorem pfilter_mem (l : ISeq) (d t : ℤ) : ∀ c ∈ pfilter l d t,
    c.map Int.natAbs = l.map Int.natAbs := by
  intro c hc
  unfold pfilter at hc
  obtain ⟨s, hs, rfl⟩ := List.mem_map.mp hc
  have hs' : s ∈ signs l.length := by
    have := List.mem_of_mem_take (List.mem_of_mem_filter hs)
    simpa [signvecs, ilen] using this
  obtain ⟨h1, h2⟩ := signs_spec _ _ hs'
  exact smul_natAbs l s h1 h2

/-- `And(0 <= t, t <= pow2(n)) -> cmaxabs(pfilter(l, d, t)) <= maxabs(l)`, `n = ilen(l)`
    (the guard is not needed) -/
theorem pfilter_maxabs (l : ISeq) (d t : ℤ) :
    (0 ≤ t ∧ t ≤ pow2 (ilen l)) → cmaxabs (pfilter l d t) ≤ maxabs l := by
  intro _
  rw [cmaxabs_le_iff _ _ (maxabs_nonneg' l)]
  intro c hc
  rw [maxabs_congr_natAbs _ _ (pfilter_mem l d t c hc)]

/-- `And(0 <= t, t <= pow2(n), Not(haszero(l))) -> Not(chaszero(pfilter(l, d, t)))` -/
theorem pfilter_no_zero (l : ISeq) (d t : ℤ) :
    (0 ≤ t ∧ t ≤ pow2 (ilen l) ∧ ¬ haszero l) → ¬ chaszero (pfilter l d t) := by
  rintro ⟨_, _, hz⟩ ⟨c, hc, h0⟩
  exact hz ((haszero_congr_natAbs _ _ (pfilter_mem l d t c hc)).mp h0)

/-- `t == 0 -> pfilter(l, d, t) == cnil` -/
theorem pfilter_zero (l : ISeq) (d t : ℤ) : t = 0 → pfilter l d t = cnil := by
  rintro rfl; simp [pfilter, cnil]

/-- `And(0 <= t, t < pow2(n)) -> pfilter(l, d, t + 1) ==
    If(sprod(sv) == d, csnoc(pfilter(l, d, t), smul(l, sv)), pfilter(l, d, t))`,
    `n = ilen(l)`, `sv = cget(signvecs(n), t)` -/
theorem pfilter_succ (l : ISeq) (d t : ℤ) : (0 ≤ t ∧ t < pow2 (ilen l)) →
    pfilter l d (t + 1) =
      if sprod (cget (signvecs (ilen l)) t) = d
      then csnoc (pfilter l d t) (smul l (cget (signvecs (ilen l)) t))
      else pfilter l d t := by
  rintro ⟨h0, h1⟩
  have hlen : t.toNat < (signvecs (ilen l)).length := by
    unfold signvecs; rw [length_signs]; rw [pow2_eq] at h1; omega
  have hk : (t + 1).toNat = t.toNat + 1 := by omega
  have hget : cget (signvecs (ilen l)) t = (signvecs (ilen l))[t.toNat] := by
    unfold cget
    rw [List.getD_eq_getElem?_getD, List.getElem?_eq_getElem hlen]; rfl
  unfold pfilter csnoc
  rw [hk, List.take_add_one, List.getElem?_eq_getElem hlen, hget, List.filter_append, List.map_append]
  by_cases hp : sprod (signvecs (ilen l))[t.toNat] = d
  · simp [hp]
  · simp [hp]

/-! ### L6 PARITY (from design_probes/Parity.lean, restated on `sat` / `ctrue`) -/

/-- the clauses `add_parity(lits, ·)` adds, for desired sign product `d` -/
def parityClauses (lits : List ℤ) (d : ℤ) : List (List ℤ) :=
  ((signs lits.length).filter (fun s => s.prod == d)).map (fun s => List.zipWith (· * ·) lits s)

theorem sat_map_cons (α : Asg) (l : ℤ) (C : List (List ℤ)) :
    sat α (C.map (fun c => l :: c)) ↔ (litTrue α l = true ∨ sat α C) := by
  unfold sat ctrue
  constructor
  · intro h
    by_cases hl : litTrue α l = true
    · exact Or.inl hl
    · right
      intro c hc
      obtain ⟨x, hx, hxt⟩ := h (l :: c) (List.mem_map.mpr ⟨c, hc, rfl⟩)
      rcases List.mem_cons.mp hx with rfl | hx'
      · exact absurd hxt hl
      · exact ⟨x, hx', hxt⟩
  · rintro (hl | hC) c hc
    · obtain ⟨c', _, rfl⟩ := List.mem_map.mp hc
      exact ⟨l, List.mem_cons_self, hl⟩
    · obtain ⟨c', hc', rfl⟩ := List.mem_map.mp hc
      obtain ⟨x, hx, hxt⟩ := hC c' hc'
      exact ⟨x, List.mem_cons_of_mem _ hx, hxt⟩

theorem filter_signs_succ (n : ℕ) (d : ℤ) :
    (signs (n+1)).filter (fun s => s.prod == d) =
      ((signs n).filter (fun s => s.prod == d)).map (fun s => (1:ℤ) :: s) ++
      ((signs n).filter (fun s => s.prod == -d)).map (fun s => (-1:ℤ) :: s) := by
  simp only [signs, List.filter_append, List.filter_map]
  congr 1
  · congr 1
    apply List.filter_congr
    intro s _
    simp [Function.comp]
  · congr 1
    apply List.filter_congr
    intro s _
    simp only [Function.comp, List.prod_cons]
    have : (-1 * s.prod == d) = (s.prod == -d) := by
      rw [Bool.eq_iff_iff]; simp only [beq_iff_eq]; constructor <;> intro h <;> omega
    exact this

theorem parityClauses_cons (l : ℤ) (t : List ℤ) (d : ℤ) :
    parityClauses (l :: t) d =
      (parityClauses t d).map (fun c => l :: c) ++ (parityClauses t (-d)).map (fun c => (-l) :: c) := by
  unfold parityClauses
  rw [List.length_cons, filter_signs_succ, List.map_append, List.map_map, List.map_map,
    List.map_map, List.map_map]
  congr 1
  · apply List.map_congr_left
    intro s _
    simp [Function.comp]
  · apply List.map_congr_left
    intro s _
    simp [Function.comp]

theorem countTrue_cons (α : Asg) (l : ℤ) (t : List ℤ) :
    countTrue α (l :: t) = countTrue α t + (if litTrue α l = true then 1 else 0) := by
  unfold countTrue
  rw [List.countP_cons]

/-- L6 PARITY: all clauses of `parityClauses lits d` hold iff (-1)^(number of true literals) ≠ d. -/
theorem parity_main (α : Asg) (lits : List ℤ) (hnz : ∀ l ∈ lits, l ≠ 0) (d : ℤ)
    (hd : d = 1 ∨ d = -1) :
    sat α (parityClauses lits d) ↔ (-1 : ℤ) ^ (countTrue α lits) ≠ d := by
  induction lits generalizing d with
  | nil =>
    unfold parityClauses sat ctrue countTrue
    rcases hd with rfl | rfl <;> simp [signs]
  | cons l t ih =>
    have hl : l ≠ 0 := hnz l List.mem_cons_self
    have ht : ∀ x ∈ t, x ≠ 0 := fun x hx => hnz x (List.mem_cons_of_mem _ hx)
    have hd' : -d = 1 ∨ -d = -1 := by rcases hd with rfl | rfl <;> simp
    have happ := sat_append α ((parityClauses t d).map (fun c => l :: c))
      ((parityClauses t (-d)).map (fun c => (-l) :: c))
    unfold capp at happ
    rw [parityClauses_cons, happ, sat_map_cons, sat_map_cons,
      ih ht d hd, ih ht (-d) hd', litTrue_neg α l hl, countTrue_cons]
    by_cases hlt : litTrue α l = true
    · simp only [hlt, if_true, true_or, true_and, Bool.not_true, pow_succ]
      constructor
      · rintro (h | h)
        · exact absurd h (by simp)
        · intro h2; apply h; linarith
      · intro h; right; intro h2; apply h; linarith
    · have hf : litTrue α l = false := by simpa using hlt
      simp [hf]

theorem pfilter_full (l : ISeq) (d t : ℤ) (ht : t = pow2 (ilen l)) :
    pfilter l d t = parityClauses l d := by
  unfold pfilter parityClauses sprod smul signvecs
  have h1 : (ilen l).toNat = l.length := by simp [ilen]
  rw [h1, List.take_of_length_le]
  rw [length_signs, ht, pow2_eq, h1]
  simp

theorem neg_one_pow_ne (c : ℕ) (d : ℤ) (hd : d = 1 ∨ d = -1) :
    ((-1 : ℤ) ^ c ≠ d) ↔ (((c : ℤ) % 2 = 1) ↔ d = 1) := by
  rcases Nat.even_or_odd c with he | ho
  · have h2 : (c : ℤ) % 2 = 0 := by obtain ⟨k, rfl⟩ := he; push_cast; omega
    rw [he.neg_one_pow]
    rcases hd with rfl | rfl <;> simp [h2]
  · have h2 : (c : ℤ) % 2 = 1 := by obtain ⟨k, rfl⟩ := ho; push_cast; omega
    rw [ho.neg_one_pow]
    rcases hd with rfl | rfl <;> simp [h2]

/-- L6 in z3 form: `And(Or(d == 1, d == -1), Not(haszero(l)), t == pow2(ilen(l))) ->
    sat(a, pfilter(l, d, t)) == ((count(a, l) % 2 == 1) == (d == 1))` -/
theorem pfilter_sat (a : Asg) (l : ISeq) (d t : ℤ) :
    ((d = 1 ∨ d = -1) ∧ ¬ haszero l ∧ t = pow2 (ilen l)) →
    (sat a (pfilter l d t) ↔ ((count a l % 2 = 1) ↔ d = 1)) := by
  rintro ⟨hd, hz, ht⟩
  rw [pfilter_full l d t ht,
    parity_main a l (fun x hx e => hz (show (0:ℤ) ∈ l from e ▸ hx)) d hd]
  unfold count
  exact neg_one_pow_ne _ d hd

/-! ## uninterpreted in specs.py, NO schema emitted (nothing assumed, nothing to prove):
    `m_complete`, `m_functional`, `m_surjective`, `m_injective`, `m_nondecreasing`, `bitlen`, `rnbrs`. -/


/-! # Third batch of schemas -/

/-! ## guarded `tset` read-over-write exactly as now emitted by specs.py -/

/-- `ForAll([j], And(tcoef(n, j) == If(And(j == i, 0 <= i, i < tlen(t)), c, tcoef(t, j)),
    tlit(n, j) == If(And(j == i, 0 <= i, i < tlen(t)), l, tlit(t, j))))`, `n = tset(t, i, c, l)` -/
theorem tget_set_forall_general (t : TSeq) (i c l : ℤ) :
    ∀ j : ℤ, tcoef (tset t i c l) j = (if j = i ∧ 0 ≤ i ∧ i < tlen t then c else tcoef t j) ∧
             tlit (tset t i c l) j = (if j = i ∧ 0 ≤ i ∧ i < tlen t then l else tlit t j) := by
  intro j
  unfold tcoef tlit
  rw [tget_set_general]
  split <;> exact ⟨rfl, rfl⟩

/-! ## `cget_snoc` -/

/-- `ForAll([j], Implies(And(0 <= j, j <= clen(c)), cget(csnoc(c, s), j) == If(j == clen(c), s, cget(c, j))))` -/
theorem cget_snoc (c : CSeq) (s : ISeq) :
    ∀ j : ℤ, (0 ≤ j ∧ j ≤ clen c) → cget (csnoc c s) j = (if j = clen c then s else cget c j) := by
  rintro j ⟨h0, h1⟩
  unfold clen at *
  unfold cget csnoc
  rw [List.getD_eq_getElem?_getD, List.getD_eq_getElem?_getD]
  by_cases hj : j = (c.length : ℤ)
  · have : j.toNat = c.length := by omega
    simp [hj]
  · have hlt : j.toNat < c.length := by omega
    rw [if_neg hj, List.getElem?_append_left hlt]

/-! ## `iget` element schemas and the witnesses `zpos`, `mpos` -/

theorem iget_mem (s : ISeq) (i : ℤ) (h0 : 0 ≤ i) (h1 : i < ilen s) : iget s i ∈ s := by
  unfold ilen at h1
  unfold iget
  have hlt : i.toNat < s.length := by omega
  rw [List.getD_eq_getElem?_getD, List.getElem?_eq_getElem hlt]
  exact List.getElem_mem hlt

/-- `And(0 <= i, i < ilen(s)) -> zabs(iget(s, i)) <= maxabs(s)` -/
theorem iget_le_maxabs (s : ISeq) (i : ℤ) : (0 ≤ i ∧ i < ilen s) → zabs (iget s i) ≤ maxabs s := by
  rintro ⟨h0, h1⟩
  rw [zabs_eq_natAbs]
  exact natAbs_le_maxabs s _ (iget_mem s i h0 h1)

/-- `And(0 <= i, i < ilen(s), Not(haszero(s))) -> iget(s, i) != 0` -/
theorem iget_ne_zero (s : ISeq) (i : ℤ) : (0 ≤ i ∧ i < ilen s ∧ ¬ haszero s) → iget s i ≠ 0 := by
  rintro ⟨h0, h1, hz⟩ h
  apply hz
  unfold haszero
  rw [← h]; exact iget_mem s i h0 h1

/-- first position of a zero literal (`len s` if there is none) -/
def zpos (s : ISeq) : ℤ := ((s.findIdx (fun x => x == 0) : ℕ) : ℤ)
/-- first position of a literal of maximal absolute value (`len s` for the empty list) -/
def mpos (s : ISeq) : ℤ := ((s.findIdx (fun x => (x.natAbs : ℤ) == maxabs s) : ℕ) : ℤ)

theorem findIdx_witness (s : ISeq) (p : ℤ → Bool) (h : ∃ x ∈ s, p x = true) :
    (0 : ℤ) ≤ (s.findIdx p : ℕ) ∧ ((s.findIdx p : ℕ) : ℤ) < ilen s ∧
      p (iget s ((s.findIdx p : ℕ) : ℤ)) = true := by
  have hlt : s.findIdx p < s.length := List.findIdx_lt_length_of_exists h
  refine ⟨by omega, by unfold ilen; omega, ?_⟩
  unfold iget
  rw [Int.toNat_natCast, List.getD_eq_getElem?_getD, List.getElem?_eq_getElem hlt]
  exact List.findIdx_getElem

/-- `haszero(s) -> And(0 <= zpos(s), zpos(s) < ilen(s), iget(s, zpos(s)) == 0)` -/
theorem haszero_witness (s : ISeq) :
    haszero s → (0 ≤ zpos s ∧ zpos s < ilen s ∧ iget s (zpos s) = 0) := by
  intro h
  obtain ⟨h0, h1, h2⟩ := findIdx_witness s (fun x => x == 0) ⟨0, h, by simp⟩
  exact ⟨h0, h1, beq_iff_eq.mp h2⟩

/-- `ilen(s) > 0 -> And(0 <= mpos(s), mpos(s) < ilen(s), zabs(iget(s, mpos(s))) == maxabs(s))` -/
theorem maxabs_witness (s : ISeq) :
    ilen s > 0 → (0 ≤ mpos s ∧ mpos s < ilen s ∧ zabs (iget s (mpos s)) = maxabs s) := by
  intro h
  have hne : s ≠ [] := by rintro rfl; simp [ilen] at h
  obtain ⟨x, hx, hxe⟩ := maxabs_attained s hne
  rw [Int.abs_eq_natAbs] at hxe
  obtain ⟨h0, h1, h2⟩ := findIdx_witness s (fun x => (x.natAbs : ℤ) == maxabs s) ⟨x, hx, by simp [hxe]⟩
  refine ⟨h0, h1, ?_⟩
  rw [zabs_eq_natAbs]
  exact beq_iff_eq.mp h2

/-- `ilen(s) == 0 -> maxabs(s) == 0` -/
theorem maxabs_of_length_zero (s : ISeq) : ilen s = 0 → maxabs s = 0 := by
  intro h; rw [nil_of_length_zero s h]; rfl

/-! ## `imapsub(s, A, n) = [A[l] for l in s]` with python indexing into a list of length `n` -/

def imapsub (s : ISeq) (A : ℤ → ℤ) (n : ℤ) : ISeq := s.map (fun l => if l ≥ 0 then A l else A (n + l))

/-- `ilen(imapsub(s, A, n)) == ilen(s)` -/
theorem ilen_imapsub (s : ISeq) (A : ℤ → ℤ) (n : ℤ) : ilen (imapsub s A n) = ilen s := by
  simp [ilen, imapsub]

/-- `And(0 <= i, i < ilen(s)) -> iget(imapsub(s, A, n), i) == If(l >= 0, Select(A, l), Select(A, n + l))`,
    `l = iget(s, i)` -/
theorem iget_imapsub (s : ISeq) (A : ℤ → ℤ) (n i : ℤ) : (0 ≤ i ∧ i < ilen s) →
    iget (imapsub s A n) i = (if iget s i ≥ 0 then A (iget s i) else A (n + iget s i)) := by
  rintro ⟨h0, h1⟩
  unfold ilen at h1
  have hlt : i.toNat < s.length := by omega
  unfold iget imapsub
  rw [List.getD_eq_getElem?_getD, List.getD_eq_getElem?_getD, List.getElem?_map,
    List.getElem?_eq_getElem hlt]
  rfl

/-! ## permutations stored in arrays: `isperm`, `sortedperm`, `invperm` -/

/-- the index list `[0, …, n-1]` (empty for `n ≤ 0`) -/
def idx (n : ℤ) : List ℤ := (List.range n.toNat).map (fun (i : ℕ) => (i : ℤ))

theorem mem_idx (n j : ℤ) : j ∈ idx n ↔ (0 ≤ j ∧ j < n) := by
  unfold idx
  rw [List.mem_map]
  constructor
  · rintro ⟨i, hi, rfl⟩
    rw [List.mem_range] at hi
    omega
  · rintro ⟨h0, h1⟩
    exact ⟨j.toNat, List.mem_range.mpr (by omega), by omega⟩

theorem length_idx (n : ℤ) : (idx n).length = n.toNat := by simp [idx]

theorem idx_pairwise_lt (n : ℤ) : (idx n).Pairwise (· < ·) := by
  unfold idx
  rw [List.pairwise_map]
  exact (List.pairwise_lt_range).imp (fun h => by omega)

theorem idx_nodup (n : ℤ) : (idx n).Nodup :=
  (idx_pairwise_lt n).imp (fun h => by omega)

/-- `A[0..n)` is a permutation of `base..base+n-1` -/
def isperm (A : ℤ → ℤ) (n base : ℤ) : Prop :=
  List.Perm ((idx n).map A) ((idx n).map (fun j => base + j))
/-- `T[0..n) = sorted(A[0..n))` -/
def sortedperm (T A : ℤ → ℤ) (n : ℤ) : Prop :=
  List.Perm ((idx n).map T) ((idx n).map A) ∧ ((idx n).map T).Pairwise (· ≤ ·)
/-- inverse of a permutation of `0..n-1`: first index `i < n` with `A[i] = j` (0 if none) -/
def invperm (A : ℤ → ℤ) (n : ℤ) : ℤ → ℤ :=
  fun j => ((idx n).find? (fun i => A i == j)).getD 0

/-- `isperm(A, n, base) -> ForAll([j], Implies(And(0 <= j, j < n),
    And(base <= Select(A, j), Select(A, j) < base + n)))` -/
theorem isperm_range (A : ℤ → ℤ) (n base : ℤ) : isperm A n base →
    ∀ j : ℤ, (0 ≤ j ∧ j < n) → (base ≤ A j ∧ A j < base + n) := by
  intro hp j hj
  have h1 : A j ∈ (idx n).map A := List.mem_map.mpr ⟨j, (mem_idx n j).mpr hj, rfl⟩
  have h2 := hp.subset h1
  obtain ⟨i, hi, hie⟩ := List.mem_map.mp h2
  rw [mem_idx] at hi
  omega

theorem invperm_spec (A : ℤ → ℤ) (n : ℤ) (hp : isperm A n 0) (j : ℤ) (hj : 0 ≤ j ∧ j < n) :
    invperm A n j ∈ idx n ∧ A (invperm A n j) = j := by
  have h1 : j ∈ (idx n).map (fun j => (0:ℤ) + j) :=
    List.mem_map.mpr ⟨j, (mem_idx n j).mpr hj, by simp⟩
  obtain ⟨i, hi, hie⟩ := List.mem_map.mp (hp.symm.subset h1)
  unfold invperm
  cases hf : (idx n).find? (fun i => A i == j) with
  | none =>
    rw [List.find?_eq_none] at hf
    exact absurd (by simpa using hie) (hf i hi)
  | some k =>
    have hk := List.find?_some hf
    have hm := List.mem_of_find?_eq_some hf
    simp only [Option.getD_some]
    exact ⟨hm, by simpa using hk⟩

/-- `And(isperm(A, n, base), base == 0) -> And(isperm(invperm(A, n), n, 0), ForAll([j], Implies(And(0 <= j, j < n),
    And(0 <= Select(inv, j), Select(inv, j) < n, Select(A, Select(inv, j)) == j))))`, `inv = invperm(A, n)` -/
theorem invperm_facts (A : ℤ → ℤ) (n base : ℤ) : (isperm A n base ∧ base = 0) →
    (isperm (invperm A n) n 0 ∧
     ∀ j : ℤ, (0 ≤ j ∧ j < n) →
       (0 ≤ invperm A n j ∧ invperm A n j < n ∧ A (invperm A n j) = j)) := by
  rintro ⟨hp, rfl⟩
  have hspec := invperm_spec A n hp
  refine ⟨?_, ?_⟩
  · unfold isperm
    have hid : (idx n).map (fun j => (0:ℤ) + j) = idx n := by simp
    rw [hid]
    have hnd : ((idx n).map (invperm A n)).Nodup := by
      apply List.Nodup.map_on _ (idx_nodup n)
      intro x hx y hy hxy
      have hx' := (hspec x ((mem_idx n x).mp hx)).2
      have hy' := (hspec y ((mem_idx n y).mp hy)).2
      rw [← hx', ← hy', hxy]
    have hsub : (idx n).map (invperm A n) ⊆ idx n := by
      intro y hy
      obtain ⟨x, hx, rfl⟩ := List.mem_map.mp hy
      exact (hspec x ((mem_idx n x).mp hx)).1
    exact (List.subperm_of_subset hnd hsub).perm_of_length_le (by simp)
  · intro j hj
    obtain ⟨h1, h2⟩ := hspec j hj
    rw [mem_idx] at h1
    exact ⟨h1.1, h1.2, h2⟩

/-- `And(sortedperm(T, A, n), n2 == n) -> isperm(A, n, base) ==
    ForAll([j], Implies(And(0 <= j, j < n), Select(T, j) == base + j))`
    (the `isperm` term found in the VC is `isperm(A, n2, base)`; L13a is the core) -/
theorem sortedperm_iff_isperm (T A : ℤ → ℤ) (n n2 base : ℤ) : (sortedperm T A n ∧ n2 = n) →
    (isperm A n base ↔ ∀ j : ℤ, (0 ≤ j ∧ j < n) → T j = base + j) := by
  rintro ⟨⟨hperm, hsorted⟩, _⟩
  have htarget : ((idx n).map (fun j => base + j)).Pairwise (· ≤ ·) := by
    rw [List.pairwise_map]
    exact (idx_pairwise_lt n).imp (fun h => by omega)
  unfold isperm
  constructor
  · intro hp j hj
    have heq : (idx n).map T = (idx n).map (fun j => base + j) :=
      List.Perm.eq_of_pairwise (fun a b _ _ h1 h2 => le_antisymm h1 h2) hsorted htarget (hperm.trans hp)
    exact (List.map_inj_left.mp heq) j ((mem_idx n j).mpr hj)
  · intro h
    have heq : (idx n).map T = (idx n).map (fun j => base + j) :=
      List.map_inj_left.mpr (fun j hj => h j ((mem_idx n j).mp hj))
    rw [← heq]
    exact hperm.symm

/-! ## `card2`: cardinality of a finite set of pairs given by its characteristic array
    `PairSet = Array Int Int Bool := ℤ → ℤ → Bool`; `Store(E, x, y, v)` is the point update.
    `card2 E := Set.ncard {p | E p.1 p.2}` (which is 0 for an infinite set). -/

def pairs (E : ℤ → ℤ → Bool) : Set (ℤ × ℤ) := {p | E p.1 p.2 = true}
noncomputable def card2 (E : ℤ → ℤ → Bool) : ℤ := ((pairs E).ncard : ℤ)
def store2 (E : ℤ → ℤ → Bool) (x y : ℤ) (v : Bool) : ℤ → ℤ → Bool :=
  fun a b => if a = x ∧ b = y then v else E a b

/-- `card2(E) >= 0` -/
theorem card2_nonneg (E : ℤ → ℤ → Bool) : card2 E ≥ 0 := by unfold card2; omega

theorem pairs_store_true (E : ℤ → ℤ → Bool) (x y : ℤ) :
    pairs (store2 E x y true) = insert (x, y) (pairs E) := by
  ext ⟨a, b⟩
  simp only [pairs, store2, Set.mem_ofPred_eq, Set.mem_insert_iff, Prod.mk.injEq]
  by_cases h : a = x ∧ b = y <;> simp [h]

theorem pairs_store_false (E : ℤ → ℤ → Bool) (x y : ℤ) :
    pairs (store2 E x y false) = pairs E \ {(x, y)} := by
  ext ⟨a, b⟩
  simp only [pairs, store2, Set.mem_ofPred_eq, Set.mem_sdiff, Set.mem_singleton_iff, Prod.mk.injEq]
  by_cases h : a = x ∧ b = y <;> simp [h]

/-- `card2(Store(E, x, y, v)) == card2(E) + If(v, If(Select(E, x, y), 0, 1), If(Select(E, x, y), -1, 0))`
    UNDER THE HYPOTHESIS THAT THE SET IS FINITE.  specs.py emits it without any such guard; for an
    infinite `E` no integer-valued `card2` with `card2 >= 0` can satisfy the rule for all stores. -/
theorem card2_store (E : ℤ → ℤ → Bool) (x y : ℤ) (v : Bool) (hfin : (pairs E).Finite) :
    card2 (store2 E x y v) =
      card2 E + (if v = true then (if E x y = true then 0 else 1) else (if E x y = true then -1 else 0)) := by
  unfold card2
  cases v with
  | true =>
    rw [pairs_store_true]
    by_cases h : E x y = true
    · have hm : (x, y) ∈ pairs E := h
      rw [Set.insert_eq_of_mem hm]; simp [h]
    · have hm : (x, y) ∉ pairs E := h
      rw [Set.ncard_insert_of_notMem hm hfin]; simp [h]
  | false =>
    rw [pairs_store_false]
    by_cases h : E x y = true
    · have hm : (x, y) ∈ pairs E := h
      have := Set.ncard_sdiff_singleton_add_one hm hfin
      simp [h]; omega
    · have hm : (x, y) ∉ pairs E := h
      rw [Set.sdiff_singleton_eq_self hm]; simp [h]

/-- finiteness is preserved by `Store`, and the empty set is finite: every array built from the
    empty set by finitely many stores satisfies the hypothesis of `card2_store`. -/
theorem pairs_store_finite (E : ℤ → ℤ → Bool) (x y : ℤ) (v : Bool) (hfin : (pairs E).Finite) :
    (pairs (store2 E x y v)).Finite := by
  cases v with
  | true => rw [pairs_store_true]; exact hfin.insert _
  | false => rw [pairs_store_false]; exact hfin.subset Set.sdiff_subset

theorem pairs_empty_finite : (pairs (fun _ _ => false)).Finite := by
  have : pairs (fun _ _ => false) = ∅ := by ext p; simp [pairs]
  rw [this]; exact Set.finite_empty

/-! ## uninterpreted in specs.py, NO schema emitted: `gdom`, `grng`, `rowlits`, `collits`. -/


/-! # Fourth batch of schemas -/

/-! ## TSeq witnesses `tmpos`, `tzpos` (mirror of `mpos`, `zpos`) -/

def tmpos (t : TSeq) : ℤ := mpos (tlits t)
def tzpos (t : TSeq) : ℤ := zpos (tlits t)

theorem ilen_tlits (t : TSeq) : ilen (tlits t) = tlen t := by simp [ilen, tlits, tlen]

theorem tlit_eq_iget (t : TSeq) (i : ℤ) (h0 : 0 ≤ i) : tlit t i = iget (tlits t) i := by
  unfold tlit tget iget tlits
  rw [if_pos h0, List.getD_eq_getElem?_getD, List.getD_eq_getElem?_getD, List.getElem?_map]
  cases t[i.toNat]? <;> rfl

/-- `tlen(t) > 0 -> And(0 <= tmpos(t), tmpos(t) < tlen(t), zabs(tlit(t, tmpos(t))) == tmaxabs(t))` -/
theorem tmaxabs_witness (t : TSeq) :
    tlen t > 0 → (0 ≤ tmpos t ∧ tmpos t < tlen t ∧ zabs (tlit t (tmpos t)) = tmaxabs t) := by
  intro h
  rw [← ilen_tlits] at h
  obtain ⟨h0, h1, h2⟩ := maxabs_witness (tlits t) h
  rw [ilen_tlits] at h1
  unfold tmpos tmaxabs
  rw [tlit_eq_iget t _ h0]
  exact ⟨h0, h1, h2⟩

/-- `tlen(t) == 0 -> tmaxabs(t) == 0` -/
theorem tmaxabs_of_length_zero (t : TSeq) : tlen t = 0 → tmaxabs t = 0 := by
  intro h
  rw [← ilen_tlits] at h
  exact maxabs_of_length_zero _ h

/-- `thaszero(t) -> And(0 <= tzpos(t), tzpos(t) < tlen(t), tlit(t, tzpos(t)) == 0)` -/
theorem thaszero_witness (t : TSeq) :
    thaszero t → (0 ≤ tzpos t ∧ tzpos t < tlen t ∧ tlit t (tzpos t) = 0) := by
  intro h
  obtain ⟨h0, h1, h2⟩ := haszero_witness (tlits t) h
  rw [ilen_tlits] at h1
  unfold tzpos
  rw [tlit_eq_iget t _ h0]
  exact ⟨h0, h1, h2⟩

/-- `And(0 <= i, i < tlen(t), tlit(t, i) == 0) -> thaszero(t)` -/
theorem thaszero_of_get (t : TSeq) (i : ℤ) : (0 ≤ i ∧ i < tlen t ∧ tlit t i = 0) → thaszero t := by
  rintro ⟨h0, h1, h2⟩
  unfold thaszero haszero
  rw [← h2]; exact tlit_mem t i h0 h1

/-! ## `oappc(O, C)`: `O` followed by the constraint `sum of the clause's literals >= 1` per clause of `C` -/

def clauseCon (cl : ISeq) : Con := ⟨tunit cl, ">=", 1⟩
def oappc (o : OSeq) (c : CSeq) : OSeq := o ++ c.map clauseCon

theorem omaxabs_map_clauseCon (c : CSeq) : omaxabs (c.map clauseCon) = cmaxabs c := by
  induction c with
  | nil => rfl
  | cons x t ih =>
    rw [List.map_cons, omaxabs_cons, cmaxabs_cons, ih]
    simp only [clauseCon, tmaxabs_unit]

/-- `c == cnil -> oappc(o, c) == o` -/
theorem oappc_nil (o : OSeq) (c : CSeq) : c = cnil → oappc o c = o := by
  rintro rfl; simp [oappc, cnil]

/-- `olen(oappc(o, c)) == olen(o) + clen(c)` -/
theorem olen_oappc (o : OSeq) (c : CSeq) : olen (oappc o c) = olen o + clen c := by
  simp [olen, oappc, clen]

/-- `omaxabs(oappc(o, c)) == zmax(omaxabs(o), cmaxabs(c))` -/
theorem omaxabs_oappc (o : OSeq) (c : CSeq) : omaxabs (oappc o c) = zmax (omaxabs o) (cmaxabs c) := by
  rw [zmax_eq_max]
  unfold oappc
  rw [omaxabs_append, omaxabs_map_clauseCon]

/-- `ohaszero(oappc(o, c)) == Or(ohaszero(o), chaszero(c))` -/
theorem ohaszero_oappc (o : OSeq) (c : CSeq) : ohaszero (oappc o c) ↔ (ohaszero o ∨ chaszero c) := by
  unfold ohaszero oappc chaszero
  constructor
  · rintro ⟨d, hd, h0⟩
    rcases List.mem_append.mp hd with h | h
    · exact Or.inl ⟨d, h, h0⟩
    · obtain ⟨cl, hcl, rfl⟩ := List.mem_map.mp h
      exact Or.inr ⟨cl, hcl, (thaszero_unit cl).mp h0⟩
  · rintro (⟨d, hd, h0⟩ | ⟨cl, hcl, h0⟩)
    · exact ⟨d, List.mem_append_left _ hd, h0⟩
    · exact ⟨clauseCon cl, List.mem_append_right _ (List.mem_map.mpr ⟨cl, hcl, rfl⟩),
        (thaszero_unit cl).mpr h0⟩

/-- `onormal(oappc(o, c)) == onormal(o)` -/
theorem onormal_oappc (o : OSeq) (c : CSeq) : onormal (oappc o c) ↔ onormal o := by
  unfold onormal oappc
  constructor
  · intro h d hd; exact h d (List.mem_append_left _ hd)
  · intro h d hd
    rcases List.mem_append.mp hd with h' | h'
    · exact h d h'
    · obtain ⟨cl, _, rfl⟩ := List.mem_map.mp h'
      exact ⟨tnonneg_unit cl, Or.inl rfl⟩

/-- `otake(oappc(o, c), olen(o)) == o` -/
theorem otake_oappc_len (o : OSeq) (c : CSeq) : otake (oappc o c) (olen o) = o := by
  simp [otake, oappc, olen]

/-- `oappc(o, csnoc(c2, s2)) == osnoc(oappc(o, c2), mkcon(tunit(s2), '>=', 1))` -/
theorem oappc_snoc (o : OSeq) (c2 : CSeq) (s2 : ISeq) :
    oappc o (csnoc c2 s2) = osnoc (oappc o c2) ⟨tunit s2, ">=", 1⟩ := by
  simp [oappc, csnoc, osnoc, clauseCon, List.append_assoc]

/-- `c == csnoc(c2, s2) -> oappc(o, c) == osnoc(oappc(o, c2), mkcon(tunit(s2), '>=', 1))` -/
theorem oappc_snoc_of_eq (o : OSeq) (c c2 : CSeq) (s2 : ISeq) :
    c = csnoc c2 s2 → oappc o c = osnoc (oappc o c2) ⟨tunit s2, ">=", 1⟩ := by
  rintro rfl; exact oappc_snoc o c2 s2

theorem holds_clauseCon (a : Asg) (cl : ISeq) : holds a (clauseCon cl) ↔ ctrue a cl := by
  unfold holds clauseCon cmp_op
  simp only [if_true]
  rw [wsum_unit, ctrue_iff_count_pos]

/-- `osat(a, oappc(o, c)) == And(osat(a, o), sat(a, c))` -/
theorem osat_oappc (a : Asg) (o : OSeq) (c : CSeq) : osat a (oappc o c) ↔ (osat a o ∧ sat a c) := by
  unfold osat oappc sat
  constructor
  · intro h
    refine ⟨fun d hd => h d (List.mem_append_left _ hd), fun cl hcl => ?_⟩
    exact (holds_clauseCon a cl).mp
      (h _ (List.mem_append_right _ (List.mem_map.mpr ⟨cl, hcl, rfl⟩)))
  · rintro ⟨h1, h2⟩ d hd
    rcases List.mem_append.mp hd with h | h
    · exact h1 d h
    · obtain ⟨cl, hcl, rfl⟩ := List.mem_map.mp h
      exact (holds_clauseCon a cl).mpr (h2 cl hcl)

/-! ## the `!=` builder: `iflip1`, `iflips`, `idxcombs`, `distinct_idx`, `neqprefix` -/

/-- negate position `i` (no-op when `i` is not a valid position) -/
def flipAt : List ℤ → ℕ → List ℤ
  | [], _ => []
  | x :: t, 0 => (-x) :: t
  | x :: t, n+1 => x :: flipAt t n

/-- `s` with `s[i]` negated; unchanged when `i < 0` or `i ≥ len s` -/
def iflip1 (s : ISeq) (i : ℤ) : ISeq := if 0 ≤ i then flipAt s i.toNat else s
/-- `s` with the positions `F[0..t)` negated one after the other -/
def iflips (s F : ISeq) (t : ℤ) : ISeq := (F.take t.toNat).foldl iflip1 s
/-- `itertools.combinations(range(n), c)` as index tuples, IN ITERTOOLS ORDER (`combsLex`);
    no element when `c < 0` (python raises ValueError). -/
def idxcombs (n c : ℤ) : CSeq := if c < 0 then [] else combsLex c.toNat (idx n)
/-- the entries are pairwise distinct -/
def distinct_idx (F : ISeq) : Prop := F.Nodup
/-- `[iflips(s, F, c) for F in idxcombs(len s, c)[:t]]` -/
def neqprefix (s : ISeq) (c t : ℤ) : CSeq :=
  ((idxcombs (ilen s) c).take t.toNat).map (fun F => iflips s F c)

theorem flipAt_length (s : List ℤ) (i : ℕ) : (flipAt s i).length = s.length := by
  induction s generalizing i with
  | nil => rfl
  | cons x t ih => cases i <;> simp [flipAt, ih]

theorem flipAt_natAbs (s : List ℤ) (i : ℕ) : (flipAt s i).map Int.natAbs = s.map Int.natAbs := by
  induction s generalizing i with
  | nil => rfl
  | cons x t ih => cases i <;> simp [flipAt, ih]

theorem flipAt_getD (s : List ℤ) (i j : ℕ) :
    (flipAt s i)[j]?.getD 0 = if j = i then -(s[j]?.getD 0) else s[j]?.getD 0 := by
  induction s generalizing i j with
  | nil => simp [flipAt]
  | cons x t ih => cases i <;> cases j <;> simp [flipAt, ih]

theorem flipAt_flipAt (s : List ℤ) (i : ℕ) : flipAt (flipAt s i) i = s := by
  induction s generalizing i with
  | nil => rfl
  | cons x t ih => cases i <;> simp [flipAt, ih]

theorem flipAt_comm (s : List ℤ) (i j : ℕ) : flipAt (flipAt s i) j = flipAt (flipAt s j) i := by
  induction s generalizing i j with
  | nil => rfl
  | cons x t ih => cases i <;> cases j <;> simp [flipAt, ih]

theorem iflip1_natAbs (s : ISeq) (i : ℤ) : (iflip1 s i).map Int.natAbs = s.map Int.natAbs := by
  unfold iflip1; split
  · exact flipAt_natAbs _ _
  · rfl

theorem iflip1_iflip1 (s : ISeq) (i : ℤ) : iflip1 (iflip1 s i) i = s := by
  unfold iflip1; split
  · exact flipAt_flipAt _ _
  · rfl

theorem iflip1_comm (s : ISeq) (i j : ℤ) : iflip1 (iflip1 s i) j = iflip1 (iflip1 s j) i := by
  unfold iflip1
  by_cases hi : 0 ≤ i <;> by_cases hj : 0 ≤ j <;> simp only [hi, hj, if_true, if_false]
  exact flipAt_comm _ _ _

theorem foldl_iflip1_natAbs (F : List ℤ) (s : ISeq) :
    (F.foldl iflip1 s).map Int.natAbs = s.map Int.natAbs := by
  induction F generalizing s with
  | nil => rfl
  | cons a F ih => rw [List.foldl_cons, ih, iflip1_natAbs]

theorem iflips_natAbs (s F : ISeq) (t : ℤ) : (iflips s F t).map Int.natAbs = s.map Int.natAbs :=
  foldl_iflip1_natAbs _ _

theorem length_eq_of_natAbs {s s' : ISeq} (h : s.map Int.natAbs = s'.map Int.natAbs) :
    ilen s = ilen s' := by
  have := congrArg List.length h
  simp only [List.length_map] at this
  unfold ilen; rw [this]

/-- `ilen(iflip1(s, i)) == ilen(s)` (no guard on `i`) -/
theorem ilen_iflip1 (s : ISeq) (i : ℤ) : ilen (iflip1 s i) = ilen s :=
  length_eq_of_natAbs (iflip1_natAbs s i)
/-- `maxabs(iflip1(s, i)) == maxabs(s)` (no guard on `i`) -/
theorem maxabs_iflip1 (s : ISeq) (i : ℤ) : maxabs (iflip1 s i) = maxabs s :=
  maxabs_congr_natAbs _ _ (iflip1_natAbs s i)
/-- `haszero(iflip1(s, i)) == haszero(s)` (no guard on `i`) -/
theorem haszero_iflip1 (s : ISeq) (i : ℤ) : haszero (iflip1 s i) ↔ haszero s :=
  haszero_congr_natAbs _ _ (iflip1_natAbs s i)

/-- `t == 0 -> iflips(s, F, t) == s` -/
theorem iflips_zero (s F : ISeq) (t : ℤ) : t = 0 → iflips s F t = s := by
  rintro rfl; simp [iflips]

/-- `And(0 <= t, t < ilen(F)) -> iflips(s, F, t + 1) == iflip1(iflips(s, F, t), iget(F, t))` -/
theorem iflips_succ (s F : ISeq) (t : ℤ) : (0 ≤ t ∧ t < ilen F) →
    iflips s F (t + 1) = iflip1 (iflips s F t) (iget F t) := by
  rintro ⟨h0, h1⟩
  unfold ilen at h1
  have hlt : t.toNat < F.length := by omega
  have hk : (t + 1).toNat = t.toNat + 1 := by omega
  unfold iflips iget
  rw [hk, List.take_add_one, List.getElem?_eq_getElem hlt, List.foldl_append,
    List.getD_eq_getElem?_getD, List.getElem?_eq_getElem hlt]
  rfl

/-- `ilen(iflips(s, F, t)) == ilen(s)` -/
theorem ilen_iflips (s F : ISeq) (t : ℤ) : ilen (iflips s F t) = ilen s :=
  length_eq_of_natAbs (iflips_natAbs s F t)
/-- `maxabs(iflips(s, F, t)) == maxabs(s)` -/
theorem maxabs_iflips (s F : ISeq) (t : ℤ) : maxabs (iflips s F t) = maxabs s :=
  maxabs_congr_natAbs _ _ (iflips_natAbs s F t)
/-- `haszero(iflips(s, F, t)) == haszero(s)` -/
theorem haszero_iflips (s F : ISeq) (t : ℤ) : haszero (iflips s F t) ↔ haszero s :=
  haszero_congr_natAbs _ _ (iflips_natAbs s F t)

theorem idxcombs_mem (n k : ℤ) (F : ISeq) (h : F ∈ idxcombs n k) :
    0 ≤ k ∧ List.Sublist F (idx n) ∧ F.length = k.toNat := by
  unfold idxcombs at h
  by_cases hk : k < 0
  · rw [if_pos hk] at h; cases h
  · rw [if_neg hk, mem_combsLex] at h
    exact ⟨by omega, h.1, h.2⟩

/-- `And(0 <= t, t < clen(idxcombs(n, k))) -> distinct_idx(cget(idxcombs(n, k), t))` -/
theorem idxcombs_distinct (n k t : ℤ) : (0 ≤ t ∧ t < clen (idxcombs n k)) →
    distinct_idx (cget (idxcombs n k) t) := by
  intro h
  obtain ⟨_, hsub, _⟩ := idxcombs_mem n k _ (cget_mem _ t h)
  exact (idx_nodup n).sublist hsub

/-- `And(0 <= t, t < clen(idxcombs(n, k))) -> And(ilen(F) == k, ForAll([j], Implies(And(0 <= j, j < k),
    And(0 <= iget(F, j), iget(F, j) < n))))`, `F = cget(idxcombs(n, k), t)` -/
theorem idxcombs_elem (n k t : ℤ) : (0 ≤ t ∧ t < clen (idxcombs n k)) →
    (ilen (cget (idxcombs n k) t) = k ∧
     ∀ j : ℤ, (0 ≤ j ∧ j < k) → (0 ≤ iget (cget (idxcombs n k) t) j ∧ iget (cget (idxcombs n k) t) j < n)) := by
  intro h
  obtain ⟨hk, hsub, hlen⟩ := idxcombs_mem n k _ (cget_mem _ t h)
  have hl : ilen (cget (idxcombs n k) t) = k := by unfold ilen; omega
  refine ⟨hl, ?_⟩
  rintro j ⟨hj0, hj1⟩
  have := hsub.subset (iget_mem _ j hj0 (by rw [hl]; exact hj1))
  exact (mem_idx n _).mp this

theorem foldl_iflip1_comm (F : List ℤ) (s : ISeq) (a : ℤ) :
    iflip1 (F.foldl iflip1 s) a = F.foldl iflip1 (iflip1 s a) := by
  induction F generalizing s with
  | nil => rfl
  | cons b F ih => rw [List.foldl_cons, List.foldl_cons, ih, iflip1_comm]

theorem foldl_iflip1_twice (F : List ℤ) (s : ISeq) : F.foldl iflip1 (F.foldl iflip1 s) = s := by
  induction F generalizing s with
  | nil => rfl
  | cons a F ih =>
    rw [List.foldl_cons, List.foldl_cons, ← foldl_iflip1_comm F s a, iflip1_iflip1, ih]

/-- un-flipping: `And(F0 == F, t0 == ilen(F), t == ilen(F), distinct_idx(F)) ->
    iflips(iflips(s0, F0, t0), F, t) == s0`.
    Neither `distinct_idx(F)` nor any range condition is used: with `iflip1` a no-op outside the list,
    flips commute and each one is an involution, so a complete second pass always restores `s0`. -/
theorem iflips_unflip (s0 F0 F : ISeq) (t0 t : ℤ) :
    (F0 = F ∧ t0 = ilen F ∧ t = ilen F ∧ distinct_idx F) → iflips (iflips s0 F0 t0) F t = s0 := by
  rintro ⟨rfl, rfl, rfl, _⟩
  unfold iflips ilen
  rw [Int.toNat_natCast, List.take_length]
  exact foldl_iflip1_twice _ _

theorem neqprefix_mem (s : ISeq) (c t : ℤ) : ∀ cl ∈ neqprefix s c t,
    cl.map Int.natAbs = s.map Int.natAbs := by
  intro cl hcl
  unfold neqprefix at hcl
  obtain ⟨F, _, rfl⟩ := List.mem_map.mp hcl
  exact iflips_natAbs s F c

/-- `t == 0 -> neqprefix(s, c, t) == cnil` -/
theorem neqprefix_zero (s : ISeq) (c t : ℤ) : t = 0 → neqprefix s c t = cnil := by
  rintro rfl; simp [neqprefix, cnil]

/-- `And(0 <= t, t < clen(idxcombs(n, c))) -> neqprefix(s, c, t + 1) ==
    csnoc(neqprefix(s, c, t), iflips(s, cget(idxcombs(n, c), t), c))`, `n = ilen(s)` -/
theorem neqprefix_succ (s : ISeq) (c t : ℤ) : (0 ≤ t ∧ t < clen (idxcombs (ilen s) c)) →
    neqprefix s c (t + 1) =
      csnoc (neqprefix s c t) (iflips s (cget (idxcombs (ilen s) c) t) c) := by
  rintro ⟨h0, h1⟩
  unfold clen at h1
  have hlt : t.toNat < (idxcombs (ilen s) c).length := by omega
  have hk : (t + 1).toNat = t.toNat + 1 := by omega
  unfold neqprefix csnoc cget
  rw [hk, List.take_add_one, List.getElem?_eq_getElem hlt, List.map_append,
    List.getD_eq_getElem?_getD, List.getElem?_eq_getElem hlt]
  rfl

/-- `And(0 <= t, t <= clen(idxcombs(n, c))) -> And(cmaxabs(neqprefix(s, c, t)) <= maxabs(s),
    Implies(Not(haszero(s)), Not(chaszero(neqprefix(s, c, t)))))` (the guard is not needed) -/
theorem neqprefix_bounds (s : ISeq) (c t : ℤ) : (0 ≤ t ∧ t ≤ clen (idxcombs (ilen s) c)) →
    (cmaxabs (neqprefix s c t) ≤ maxabs s ∧ (¬ haszero s → ¬ chaszero (neqprefix s c t))) := by
  intro _
  constructor
  · rw [cmaxabs_le_iff _ _ (maxabs_nonneg' s)]
    intro cl hcl
    rw [maxabs_congr_natAbs _ _ (neqprefix_mem s c t cl hcl)]
  · rintro hz ⟨cl, hcl, h0⟩
    exact hz ((haszero_congr_natAbs _ _ (neqprefix_mem s c t cl hcl)).mp h0)

/-! ### L5 NEQ at the literal level -/

/-- L5 over an arbitrary duplicate-free index list (same proof as design_probes/Neq.lean `neq_main`) -/
theorem neq_generic {ι : Type} [DecidableEq ι] (L : List ι) (hnd : L.Nodup) (b : ι → Bool) (c : ℕ) :
    (∀ T ∈ List.sublistsLen c L, ∃ i ∈ L, (i ∈ T ∧ b i = false) ∨ (i ∉ T ∧ b i = true)) ↔
      L.countP b ≠ c := by
  have hsub : List.Sublist (L.filter b) L := List.filter_sublist
  have hlen : (L.filter b).length = L.countP b := by rw [List.countP_eq_length_filter]
  constructor
  · intro h hc
    have hT : L.filter b ∈ List.sublistsLen c L := by
      rw [List.mem_sublistsLen]; exact ⟨hsub, by rw [hlen, hc]⟩
    obtain ⟨i, hi, h1 | h1⟩ := h _ hT
    · have := (List.mem_filter.mp h1.1).2
      rw [this] at h1; exact absurd h1.2 (by simp)
    · exact h1.1 (List.mem_filter.mpr ⟨hi, h1.2⟩)
  · intro hne T hT
    rw [List.mem_sublistsLen] at hT
    by_contra hno
    push Not at hno
    have hmem : ∀ i, i ∈ T ↔ i ∈ L.filter b := by
      intro i
      rw [List.mem_filter]
      constructor
      · intro hiT
        have hin : i ∈ L := hT.1.subset hiT
        refine ⟨hin, ?_⟩
        by_contra hb
        have hb' : b i = false := by simpa using hb
        exact ((hno i hin).1 hiT) hb'
      · rintro ⟨hin, hb⟩
        by_contra hiT
        exact ((hno i hin).2 hiT) hb
    have hperm : T.Perm (L.filter b) :=
      (List.perm_ext_iff_of_nodup (hnd.sublist hT.1) (hnd.sublist hsub)).mpr hmem
    have : T.length = (L.filter b).length := hperm.length_eq
    rw [hlen, hT.2] at this
    exact hne this.symm

theorem iget_iflip1 (s : ISeq) (i j : ℤ) (hj : 0 ≤ j) :
    iget (iflip1 s i) j = if j = i then -(iget s j) else iget s j := by
  unfold iget iflip1
  by_cases hi : 0 ≤ i
  · rw [if_pos hi, List.getD_eq_getElem?_getD, List.getD_eq_getElem?_getD, flipAt_getD]
    have : (j.toNat = i.toNat) ↔ j = i := by omega
    simp only [this]
  · rw [if_neg hi, if_neg (by omega)]

theorem iget_foldl_iflip1 (F : List ℤ) (hnd : F.Nodup) (s : ISeq) (j : ℤ) (hj : 0 ≤ j) :
    iget (F.foldl iflip1 s) j = if j ∈ F then -(iget s j) else iget s j := by
  induction F generalizing s with
  | nil => simp
  | cons a F ih =>
    rw [List.nodup_cons] at hnd
    rw [List.foldl_cons, ih hnd.2, iget_iflip1 s a j hj]
    by_cases hja : j = a
    · subst hja; simp [hnd.1]
    · simp [hja]

theorem iget_natCast (s : ISeq) (n : ℕ) (hn : n < s.length) : iget s (n : ℤ) = s[n] := by
  unfold iget
  rw [Int.toNat_natCast, List.getD_eq_getElem?_getD, List.getElem?_eq_getElem hn]; rfl

theorem ctrue_iff_idx (α : Asg) (s : ISeq) :
    ctrue α s ↔ ∃ i ∈ idx (ilen s), litTrue α (iget s i) = true := by
  unfold ctrue
  constructor
  · rintro ⟨l, hl, ht⟩
    obtain ⟨n, hn, rfl⟩ := List.getElem_of_mem hl
    refine ⟨(n : ℤ), (mem_idx _ _).mpr ⟨by omega, by unfold ilen; omega⟩, ?_⟩
    rw [iget_natCast s n hn]; exact ht
  · rintro ⟨i, hi, ht⟩
    rw [mem_idx] at hi
    exact ⟨iget s i, iget_mem s i hi.1 hi.2, ht⟩

theorem self_eq_map_idx (s : ISeq) : s = (idx (ilen s)).map (iget s) := by
  apply List.ext_getElem
  · simp [idx, ilen]
  · intro n h1 h2
    simp only [idx, ilen, List.getElem_map, List.getElem_range, Int.toNat_natCast]
    rw [iget_natCast s n h1]

theorem countTrue_eq_idx (α : Asg) (s : ISeq) :
    countTrue α s = (idx (ilen s)).countP (fun i => litTrue α (iget s i)) := by
  have := congrArg (List.countP (litTrue α)) (self_eq_map_idx s)
  rw [List.countP_map] at this
  exact this

/-- L5 in z3 form: `And(0 <= c, c <= ilen(s), Not(haszero(s)), t == clen(idxcombs(ilen(s), c))) ->
    sat(a, neqprefix(s, c, t)) == (count(a, s) != c)` -/
theorem neqprefix_sat (a : Asg) (s : ISeq) (c t : ℤ) :
    (0 ≤ c ∧ c ≤ ilen s ∧ ¬ haszero s ∧ t = clen (idxcombs (ilen s) c)) →
    (sat a (neqprefix s c t) ↔ count a s ≠ c) := by
  rintro ⟨hc0, _, hz, rfl⟩
  have hgen := neq_generic (idx (ilen s)) (idx_nodup _) (fun i => litTrue a (iget s i)) c.toNat
  have hcount : count a s ≠ c ↔
      (idx (ilen s)).countP (fun i => litTrue a (iget s i)) ≠ c.toNat := by
    unfold count; rw [countTrue_eq_idx]; omega
  have hgen' : (∀ T ∈ combsLex c.toNat (idx (ilen s)), ∃ i ∈ idx (ilen s),
      (i ∈ T ∧ litTrue a (iget s i) = false) ∨ (i ∉ T ∧ litTrue a (iget s i) = true)) ↔
      (idx (ilen s)).countP (fun i => litTrue a (iget s i)) ≠ c.toNat := by
    simpa only [combsLex_eq_reverse, List.mem_reverse] using hgen
  rw [hcount, ← hgen']
  have hcombs : idxcombs (ilen s) c = combsLex c.toNat (idx (ilen s)) := by
    unfold idxcombs; rw [if_neg (by omega)]
  unfold sat neqprefix clen
  rw [Int.toNat_natCast, List.take_length, hcombs]
  have key : ∀ T ∈ combsLex c.toNat (idx (ilen s)),
      (ctrue a (iflips s T c) ↔
        ∃ i ∈ idx (ilen s), (i ∈ T ∧ litTrue a (iget s i) = false) ∨ (i ∉ T ∧ litTrue a (iget s i) = true)) := by
    intro T hT
    rw [mem_combsLex] at hT
    have hnd : T.Nodup := (idx_nodup _).sublist hT.1
    have hfold : iflips s T c = T.foldl iflip1 s := by
      unfold iflips; rw [List.take_of_length_le (by omega)]
    rw [ctrue_iff_idx, ilen_iflips, hfold]
    apply exists_congr
    intro i
    apply and_congr_right
    intro hi
    have hi' := (mem_idx _ _).mp hi
    rw [iget_foldl_iflip1 T hnd s i hi'.1]
    have hne : iget s i ≠ 0 := iget_ne_zero s i ⟨hi'.1, hi'.2, hz⟩
    by_cases hiT : i ∈ T
    · simp only [hiT, if_true, true_and, not_true_eq_false, false_and, or_false]
      rw [litTrue_neg a _ hne]
      cases litTrue a (iget s i) <;> simp
    · simp [hiT]
  constructor
  · intro h T hT
    exact (key T hT).mp (h _ (List.mem_map.mpr ⟨T, hT, rfl⟩))
  · intro h cl hcl
    obtain ⟨T, hT, rfl⟩ := List.mem_map.mp hcl
    exact (key T hT).mpr (h T hT)


/-! # Fifth batch: substitution / distribution (`apply_substitution`, C05)

`gad : ℤ → ℤ → CSeq` (`gad(sid, lit)`) is an ARBITRARY function: every theorem below is universally
quantified over it, exactly as z3 treats the uninterpreted `gad`.  `CTab = Array Int CSeq := ℤ → CSeq`.
The z3 Skolem functions `dbad`, `lwit`, `lmax`, `lzero` are defined by `Classical.choose` from the
proved existence statements (default 0 when no witness exists), so each schema is proved in exactly
the z3 shape "hypothesis → property of the Skolem term". -/

section Substitution

/-- cartesian product in the order of `itertools.product(*Ds)` (first component varies slowest) -/
def cart {L : Type} : List (List (List L)) → List (List (List L))
  | [] => [[]]
  | D :: Ds => D.flatMap (fun c => (cart Ds).map (fun r => c :: r))

/-- `[tuple(lit for c in ct for lit in c) for ct in itertools.product(*gs)]` -/
def dist (gs : List CSeq) : CSeq := (cart gs).map List.flatten

variable (gad : ℤ → ℤ → CSeq)

/-- distribution over `[gad(sid, l) for l in c]` -/
def cdist (sid : ℤ) (c : ISeq) : CSeq := dist (c.map (gad sid))
/-- distribution over `[T[l] for l in c]`, python indexing into a table of length `L` -/
def cdist_tab (T : ℤ → CSeq) (L : ℤ) (c : ISeq) : CSeq :=
  dist (c.map (fun l => T (if l ≥ 0 then l else L + l)))
/-- `cdist` of the first `t` clauses, concatenated -/
def cdistall (sid : ℤ) (C : CSeq) (t : ℤ) : CSeq := ((C.take t.toNat).map (cdist gad sid)).flatten
/-- some literal `l` of the clause has `sat(a, gad(sid, l))` -/
def cind (a : Asg) (sid : ℤ) (c : ISeq) : Prop := ∃ l ∈ c, sat a (gad sid l)
/-- `cind` for each of the first `t` clauses -/
def satind (a : Asg) (sid : ℤ) (C : CSeq) (t : ℤ) : Prop := ∀ c ∈ C.take t.toNat, cind gad a sid c
/-- induced assignment: variable `v` is true iff `gad(sid, v)` holds under `a` -/
noncomputable def aind (a : Asg) (sid : ℤ) : Asg :=
  fun v => @decide (sat a (gad sid (v : ℤ))) (Classical.propDecidable _)

/-- `satind` by positions, as in the informal definition (`∀ i < t, cind C[i]`) -/
theorem satind_iff_index (a : Asg) (sid : ℤ) (C : CSeq) (t : ℤ) (h : 0 ≤ t ∧ t ≤ clen C) :
    satind gad a sid C t ↔ ∀ i : ℤ, (0 ≤ i ∧ i < t) → cind gad a sid (cget C i) := by
  unfold clen at h
  unfold satind
  constructor
  · rintro hs i ⟨hi0, hi1⟩
    apply hs
    have hlt : i.toNat < C.length := by omega
    unfold cget
    rw [List.getD_eq_getElem?_getD, List.getElem?_eq_getElem hlt]
    exact List.mem_take_iff_getElem.mpr ⟨i.toNat, by simp; omega, rfl⟩
  · intro hs c hc
    obtain ⟨n, hn, rfl⟩ := List.mem_take_iff_getElem.mp hc
    have hn' : n < t.toNat ∧ n < C.length := by simpa using hn
    have := hs (n : ℤ) ⟨by omega, by omega⟩
    unfold cget at this
    rw [Int.toNat_natCast, List.getD_eq_getElem?_getD, List.getElem?_eq_getElem hn'.2] at this
    exact this

theorem ctrue_append (a : Asg) (x y : ISeq) : ctrue a (x ++ y) ↔ ctrue a x ∨ ctrue a y := by
  unfold ctrue
  constructor
  · rintro ⟨l, hl, h⟩
    rcases List.mem_append.mp hl with h1 | h1
    · exact Or.inl ⟨l, h1, h⟩
    · exact Or.inr ⟨l, h1, h⟩
  · rintro (⟨l, hl, h⟩ | ⟨l, hl, h⟩)
    · exact ⟨l, List.mem_append.mpr (Or.inl hl), h⟩
    · exact ⟨l, List.mem_append.mpr (Or.inr hl), h⟩

/-- L8 DIST (design_probes/Dist.lean `dist_main` on `sat`/`ctrue`) -/
theorem sat_dist (a : Asg) (Ds : List CSeq) : sat a (dist Ds) ↔ ∃ D ∈ Ds, sat a D := by
  unfold dist
  induction Ds with
  | nil => simp [cart, sat, ctrue]
  | cons D Ds ih =>
    have key : sat a ((cart (D :: Ds)).map List.flatten) ↔
        (sat a D ∨ sat a ((cart Ds).map List.flatten)) := by
      unfold sat
      simp only [cart, List.mem_map, List.mem_flatMap]
      constructor
      · intro h
        by_contra hno
        push Not at hno
        obtain ⟨⟨c, hc, hcf⟩, ⟨x, ⟨r, hr, rfl⟩, hrf⟩⟩ := hno
        have := h (c ++ r.flatten) ⟨c :: r, ⟨c, hc, r, hr, rfl⟩, by simp⟩
        rw [ctrue_append] at this
        rcases this with h1 | h1
        · exact hcf h1
        · exact hrf h1
      · rintro (h | h) x ⟨cr, ⟨c, hc, r, hr, rfl⟩, rfl⟩
        · simp only [List.flatten_cons]; rw [ctrue_append]; exact Or.inl (h c hc)
        · simp only [List.flatten_cons]; rw [ctrue_append]
          exact Or.inr (h r.flatten ⟨r, hr, rfl⟩)
    rw [key, ih]
    constructor
    · rintro (h | ⟨D', hD', h⟩)
      · exact ⟨D, List.mem_cons_self, h⟩
      · exact ⟨D', List.mem_cons_of_mem _ hD', h⟩
    · rintro ⟨D', hD', h⟩
      rcases List.mem_cons.mp hD' with rfl | h'
      · exact Or.inl h
      · exact Or.inr ⟨D', h', h⟩

/-- every literal of a distributed clause comes from a clause of one of the factors -/
theorem dist_lit_source (Ds : List CSeq) : ∀ d ∈ dist Ds, ∀ x ∈ d, ∃ D ∈ Ds, ∃ cl ∈ D, x ∈ cl := by
  unfold dist
  induction Ds with
  | nil => intro d hd x hx; simp [cart] at hd; subst hd; cases hx
  | cons D Ds ih =>
    intro d hd x hx
    simp only [cart, List.mem_map, List.mem_flatMap] at hd
    obtain ⟨cr, ⟨c, hc, r, hr, rfl⟩, rfl⟩ := hd
    simp only [List.flatten_cons, List.mem_append] at hx
    rcases hx with hx | hx
    · exact ⟨D, List.mem_cons_self, c, hc, hx⟩
    · obtain ⟨D', hD', cl, hcl, hxcl⟩ := ih r.flatten (List.mem_map.mpr ⟨r, hr, rfl⟩) x hx
      exact ⟨D', List.mem_cons_of_mem _ hD', cl, hcl, hxcl⟩

/-! ### schema 2: `cdistall_zero`, `cdistall_succ` -/

/-- `t == 0 -> cdistall(sid, C, t) == cnil` -/
theorem cdistall_zero (sid : ℤ) (C : CSeq) (t : ℤ) : t = 0 → cdistall gad sid C t = cnil := by
  rintro rfl; simp [cdistall, cnil]

/-- `And(0 <= t, t < clen(C)) -> cdistall(sid, C, t + 1) == capp(cdistall(sid, C, t), cdist(sid, cget(C, t)))` -/
theorem cdistall_succ (sid : ℤ) (C : CSeq) (t : ℤ) : (0 ≤ t ∧ t < clen C) →
    cdistall gad sid C (t + 1) = capp (cdistall gad sid C t) (cdist gad sid (cget C t)) := by
  rintro ⟨h0, h1⟩
  unfold clen at h1
  have hlt : t.toNat < C.length := by omega
  have hk : (t + 1).toNat = t.toNat + 1 := by omega
  unfold cdistall capp cget
  rw [hk, List.take_add_one, List.getElem?_eq_getElem hlt, List.map_append, List.flatten_append,
    List.getD_eq_getElem?_getD, List.getElem?_eq_getElem hlt]
  simp

/-! ### schema 3 (L8) and 4 (L9) -/

/-- L8: `sat(a, cdist(sid, c)) == cind(a, sid, c)` -/
theorem sat_cdist (a : Asg) (sid : ℤ) (c : ISeq) : sat a (cdist gad sid c) ↔ cind gad a sid c := by
  unfold cdist cind
  rw [sat_dist]
  constructor
  · rintro ⟨D, hD, h⟩
    obtain ⟨l, hl, rfl⟩ := List.mem_map.mp hD
    exact ⟨l, hl, h⟩
  · rintro ⟨l, hl, h⟩
    exact ⟨gad sid l, List.mem_map.mpr ⟨l, hl, rfl⟩, h⟩

/-- L9: `And(0 <= t, t <= clen(C)) -> sat(a, cdistall(sid, C, t)) == satind(a, sid, C, t)`
    (the guard is not needed with `satind` defined on `C[:t]`) -/
theorem sat_cdistall (a : Asg) (sid : ℤ) (C : CSeq) (t : ℤ) : (0 ≤ t ∧ t ≤ clen C) →
    (sat a (cdistall gad sid C t) ↔ satind gad a sid C t) := by
  intro _
  unfold satind
  have : sat a (cdistall gad sid C t) ↔ ∀ c ∈ C.take t.toNat, sat a (cdist gad sid c) := by
    unfold cdistall sat
    simp only [List.mem_flatten, List.mem_map]
    constructor
    · intro h c hc d hd; exact h d ⟨cdist gad sid c, ⟨c, hc, rfl⟩, hd⟩
    · rintro h d ⟨_, ⟨c, hc, rfl⟩, hd⟩; exact h c hc d hd
  rw [this]
  exact forall_congr' (fun c => imp_congr_right (fun _ => sat_cdist gad a sid c))

/-! ### literals of `C` -/

theorem lit_of_cseq (C : CSeq) (c : ISeq) (hc : c ∈ C) (l : ℤ) (hl : l ∈ c) :
    zabs l ≤ cmaxabs C ∧ (¬ chaszero C → l ≠ 0) := by
  constructor
  · rw [zabs_eq_natAbs]
    exact le_trans (natAbs_le_maxabs c l hl) (maxabs_le_cmaxabs C c hc)
  · intro hz h0
    exact hz ⟨c, hc, show (0:ℤ) ∈ c from h0 ▸ hl⟩

/-- every literal of `cdistall(sid, C, t)` lies in a clause of `gad(sid, l)` for a literal `l` of `C` -/
theorem cdistall_lit_source (sid : ℤ) (C : CSeq) (t : ℤ) :
    ∀ d ∈ cdistall gad sid C t, ∀ x ∈ d,
      ∃ l, zabs l ≤ cmaxabs C ∧ (¬ chaszero C → l ≠ 0) ∧ ∃ cl ∈ gad sid l, x ∈ cl := by
  intro d hd x hx
  unfold cdistall at hd
  simp only [List.mem_flatten, List.mem_map] at hd
  obtain ⟨_, ⟨c, hc, rfl⟩, hd⟩ := hd
  unfold cdist at hd
  obtain ⟨D, hD, cl, hcl, hxcl⟩ := dist_lit_source _ d hd x hx
  obtain ⟨l, hl, rfl⟩ := List.mem_map.mp hD
  obtain ⟨h1, h2⟩ := lit_of_cseq C c (List.mem_of_mem_take hc) l hl
  exact ⟨l, h1, h2, cl, hcl, hxcl⟩

/-! ### schema 1: `cdist_tab` congruence (Skolem position `dbad`) -/

theorem cdist_tab_congr_exists (T : ℤ → CSeq) (L : ℤ) (c : ISeq) (sid : ℤ)
    (hne : cdist_tab T L c ≠ cdist gad sid c) :
    ∃ j : ℤ, 0 ≤ j ∧ j < ilen c ∧ (iget c j ≥ 0 → T (iget c j) ≠ gad sid (iget c j)) ∧
      (iget c j < 0 → T (L + iget c j) ≠ gad sid (iget c j)) := by
  by_contra hno
  apply hne
  unfold cdist_tab cdist
  congr 1
  apply List.map_inj_left.mpr
  intro l hl
  obtain ⟨n, hn, rfl⟩ := List.getElem_of_mem hl
  by_contra hdiff
  apply hno
  refine ⟨(n : ℤ), by omega, by unfold ilen; omega, ?_, ?_⟩ <;> rw [iget_natCast c n hn]
  · intro hge heq; rw [if_pos hge] at hdiff; exact hdiff heq
  · intro hlt heq; rw [if_neg (by omega)] at hdiff; exact hdiff heq

open Classical in
/-- z3 Skolem function `dbad(T, L, c, sid)` -/
noncomputable def dbad (T : ℤ → CSeq) (L : ℤ) (c : ISeq) (sid : ℤ) : ℤ :=
  if h : ∃ j : ℤ, 0 ≤ j ∧ j < ilen c ∧ (iget c j ≥ 0 → T (iget c j) ≠ gad sid (iget c j)) ∧
      (iget c j < 0 → T (L + iget c j) ≠ gad sid (iget c j))
  then Classical.choose h else 0

/-- `cdist_tab(T, L, c) != cdist(sid, c) -> And(0 <= j, j < ilen(c), Implies(l >= 0, Select(T, l) != gad(sid, l)),
    Implies(l < 0, Select(T, L + l) != gad(sid, l)))`, `j = dbad(T, L, c, sid)`, `l = iget(c, j)` -/
theorem cdist_tab_congr (T : ℤ → CSeq) (L : ℤ) (c : ISeq) (sid : ℤ) :
    cdist_tab T L c ≠ cdist gad sid c →
    (0 ≤ dbad gad T L c sid ∧ dbad gad T L c sid < ilen c ∧
     (iget c (dbad gad T L c sid) ≥ 0 →
        T (iget c (dbad gad T L c sid)) ≠ gad sid (iget c (dbad gad T L c sid))) ∧
     (iget c (dbad gad T L c sid) < 0 →
        T (L + iget c (dbad gad T L c sid)) ≠ gad sid (iget c (dbad gad T L c sid)))) := by
  intro hne
  have h := cdist_tab_congr_exists gad T L c sid hne
  unfold dbad
  rw [dif_pos h]
  exact Classical.choose_spec h

/-! ### schema 5: `satind_eq_sat` (Skolem literal `lwit`) -/

theorem satind_eq_sat_exists (a : Asg) (sid : ℤ) (b : Asg) (C : CSeq) (t : ℤ)
    (ht : t = clen C) (hz : ¬ chaszero C) (hne : ¬ (satind gad a sid C t ↔ sat b C)) :
    ∃ l : ℤ, l ≠ 0 ∧ zabs l ≤ cmaxabs C ∧ ¬ (sat a (gad sid l) ↔ lit_true b l) := by
  by_contra hno
  push Not at hno
  apply hne
  subst ht
  unfold satind sat clen
  rw [Int.toNat_natCast, List.take_length]
  apply forall_congr'
  intro c
  apply imp_congr_right
  intro hc
  unfold cind ctrue
  apply exists_congr
  intro l
  apply and_congr_right
  intro hl
  obtain ⟨h1, h2⟩ := lit_of_cseq C c hc l hl
  exact hno l (h2 hz) h1

open Classical in
/-- z3 Skolem function `lwit(a, sid, b, C)` -/
noncomputable def lwit (a : Asg) (sid : ℤ) (b : Asg) (C : CSeq) : ℤ :=
  if h : ∃ l : ℤ, l ≠ 0 ∧ zabs l ≤ cmaxabs C ∧ ¬ (sat a (gad sid l) ↔ lit_true b l)
  then Classical.choose h else 0

/-- `And(t == clen(C), Not(chaszero(C)), satind(a, sid, C, t) != sat(b, C)) ->
    And(l != 0, zabs(l) <= cmaxabs(C), sat(a, gad(sid, l)) != lit_true(b, l))`, `l = lwit(a, sid, b, C)` -/
theorem satind_eq_sat (a : Asg) (sid : ℤ) (b : Asg) (C : CSeq) (t : ℤ) :
    (t = clen C ∧ ¬ chaszero C ∧ ¬ (satind gad a sid C t ↔ sat b C)) →
    (lwit gad a sid b C ≠ 0 ∧ zabs (lwit gad a sid b C) ≤ cmaxabs C ∧
     ¬ (sat a (gad sid (lwit gad a sid b C)) ↔ lit_true b (lwit gad a sid b C))) := by
  rintro ⟨ht, hz, hne⟩
  have h := satind_eq_sat_exists gad a sid b C t ht hz hne
  unfold lwit
  rw [dif_pos h]
  exact Classical.choose_spec h

/-! ### schema 6: `cmaxabs` of the distribution (Skolem literal `lmax`) -/

theorem cmaxabs_attained (C : CSeq) (h : cmaxabs C ≠ 0) : ∃ s ∈ C, cmaxabs C = maxabs s := by
  induction C with
  | nil => exact absurd rfl h
  | cons y t ih =>
    rw [cmaxabs_cons] at h ⊢
    by_cases hle : cmaxabs t ≤ maxabs y
    · exact ⟨y, List.mem_cons_self, by omega⟩
    · have ht : cmaxabs t ≠ 0 := by have := maxabs_nonneg' y; omega
      obtain ⟨s, hs, hse⟩ := ih ht
      exact ⟨s, List.mem_cons_of_mem _ hs, by omega⟩

theorem cmaxabs_cdistall_exists (sid : ℤ) (C : CSeq) (t : ℤ) :
    cmaxabs (cdistall gad sid C t) = 0 ∨
    ∃ l : ℤ, zabs l ≤ cmaxabs C ∧ (¬ chaszero C → l ≠ 0) ∧
      cmaxabs (cdistall gad sid C t) ≤ cmaxabs (gad sid l) := by
  by_cases h0 : cmaxabs (cdistall gad sid C t) = 0
  · exact Or.inl h0
  · right
    obtain ⟨d, hd, hde⟩ := cmaxabs_attained _ h0
    have hdne : d ≠ [] := by
      rintro rfl
      rw [hde] at h0; exact h0 rfl
    obtain ⟨x, hx, hxe⟩ := maxabs_attained d hdne
    obtain ⟨l, h1, h2, cl, hcl, hxcl⟩ := cdistall_lit_source gad sid C t d hd x hx
    refine ⟨l, h1, h2, ?_⟩
    rw [hde, hxe]
    exact le_trans (abs_le_maxabs cl x hxcl) (maxabs_le_cmaxabs _ cl hcl)

open Classical in
/-- z3 Skolem function `lmax(sid, C, t)` -/
noncomputable def lmax (sid : ℤ) (C : CSeq) (t : ℤ) : ℤ :=
  if h : ∃ l : ℤ, zabs l ≤ cmaxabs C ∧ (¬ chaszero C → l ≠ 0) ∧
      cmaxabs (cdistall gad sid C t) ≤ cmaxabs (gad sid l)
  then Classical.choose h else 0

/-- `And(0 <= t, t <= clen(C)) -> Or(cmaxabs(D) == 0, And(zabs(lm) <= cmaxabs(C),
    Implies(Not(chaszero(C)), lm != 0), cmaxabs(D) <= cmaxabs(gad(sid, lm))))`,
    `D = cdistall(sid, C, t)`, `lm = lmax(sid, C, t)` (the guard is not needed) -/
theorem cmaxabs_cdistall (sid : ℤ) (C : CSeq) (t : ℤ) : (0 ≤ t ∧ t ≤ clen C) →
    (cmaxabs (cdistall gad sid C t) = 0 ∨
     (zabs (lmax gad sid C t) ≤ cmaxabs C ∧ (¬ chaszero C → lmax gad sid C t ≠ 0) ∧
      cmaxabs (cdistall gad sid C t) ≤ cmaxabs (gad sid (lmax gad sid C t)))) := by
  intro _
  rcases cmaxabs_cdistall_exists gad sid C t with h | h
  · exact Or.inl h
  · right
    unfold lmax
    rw [dif_pos h]
    exact Classical.choose_spec h

/-! ### schema 7: zero literals of the distribution (Skolem literal `lzero`) -/

theorem chaszero_cdistall_exists (sid : ℤ) (C : CSeq) (t : ℤ)
    (hz : chaszero (cdistall gad sid C t)) :
    ∃ l : ℤ, zabs l ≤ cmaxabs C ∧ (¬ chaszero C → l ≠ 0) ∧ chaszero (gad sid l) := by
  obtain ⟨d, hd, h0⟩ := hz
  obtain ⟨l, h1, h2, cl, hcl, hxcl⟩ := cdistall_lit_source gad sid C t d hd 0 h0
  exact ⟨l, h1, h2, cl, hcl, hxcl⟩

open Classical in
/-- z3 Skolem function `lzero(sid, C, t)` -/
noncomputable def lzero (sid : ℤ) (C : CSeq) (_t : ℤ) : ℤ :=
  if h : ∃ l : ℤ, zabs l ≤ cmaxabs C ∧ (¬ chaszero C → l ≠ 0) ∧ chaszero (gad sid l)
  then Classical.choose h else 0

/-- `And(0 <= t, t <= clen(C), chaszero(D)) -> And(zabs(lz) <= cmaxabs(C), Implies(Not(chaszero(C)), lz != 0),
    chaszero(gad(sid, lz)))`, `D = cdistall(sid, C, t)`, `lz = lzero(sid, C, t)` -/
theorem chaszero_cdistall (sid : ℤ) (C : CSeq) (t : ℤ) :
    (0 ≤ t ∧ t ≤ clen C ∧ chaszero (cdistall gad sid C t)) →
    (zabs (lzero gad sid C t) ≤ cmaxabs C ∧ (¬ chaszero C → lzero gad sid C t ≠ 0) ∧
     chaszero (gad sid (lzero gad sid C t))) := by
  rintro ⟨_, _, hz⟩
  have h := chaszero_cdistall_exists gad sid C t hz
  unfold lzero
  rw [dif_pos h]
  exact Classical.choose_spec h

/-! ### schema 8: the induced assignment -/

/-- `l > 0 -> lit_true(aind(a, sid), l) == sat(a, gad(sid, l))` -/
theorem lit_true_aind (a : Asg) (sid : ℤ) (l : ℤ) :
    l > 0 → (lit_true (aind gad a sid) l ↔ sat a (gad sid l)) := by
  intro h
  have hl : ((l.natAbs : ℕ) : ℤ) = l := by omega
  unfold lit_true litTrue aind
  rw [if_pos h, hl]
  simp

end Substitution


/-! # Sixth batch: `ishift`, `iget_between`, `gtopo`, pebbling in Skolem form -/

/-- every element plus a constant -/
def ishift (s : ISeq) (o : ℤ) : ISeq := s.map (fun x => x + o)

/-- `ilen(ishift(s, o)) == ilen(s)` -/
theorem ilen_ishift (s : ISeq) (o : ℤ) : ilen (ishift s o) = ilen s := by simp [ilen, ishift]

/-- `o == 0 -> ishift(s, o) == s` -/
theorem ishift_zero (s : ISeq) (o : ℤ) : o = 0 → ishift s o = s := by
  rintro rfl; simp [ishift]

/-- `And(o >= 0, Or(ilen(s) == 0, minof(s) >= 1)) ->
    And(Not(haszero(ishift(s, o))), maxabs(ishift(s, o)) <= maxabs(s) + o)` -/
theorem ishift_pos (s : ISeq) (o : ℤ) : (o ≥ 0 ∧ (ilen s = 0 ∨ minof s ≥ 1)) →
    (¬ haszero (ishift s o) ∧ maxabs (ishift s o) ≤ maxabs s + o) := by
  rintro ⟨ho, h⟩
  have hpos : ∀ x ∈ s, 1 ≤ x := by
    intro x hx
    rcases h with h | h
    · rw [nil_of_length_zero s h] at hx; cases hx
    · exact le_trans h (minof_le s x hx)
  constructor
  · unfold haszero ishift
    intro h0
    obtain ⟨x, hx, hx0⟩ := List.mem_map.mp h0
    have := hpos x hx
    omega
  · have hb : 0 ≤ maxabs s + o := by have := maxabs_nonneg' s; omega
    rw [maxabs_le_iff _ _ hb]
    intro y hy
    unfold ishift at hy
    obtain ⟨x, hx, rfl⟩ := List.mem_map.mp hy
    have h1 := hpos x hx
    have h2 := natAbs_le_maxabs s x hx
    omega

/-- `And(0 <= i, i < ilen(s)) -> iget(ishift(s, o), i) == iget(s, i) + o` -/
theorem iget_ishift (s : ISeq) (o i : ℤ) : (0 ≤ i ∧ i < ilen s) →
    iget (ishift s o) i = iget s i + o := by
  rintro ⟨h0, h1⟩
  unfold ilen at h1
  have hlt : i.toNat < s.length := by omega
  unfold iget ishift
  rw [List.getD_eq_getElem?_getD, List.getD_eq_getElem?_getD, List.getElem?_map,
    List.getElem?_eq_getElem hlt]
  rfl

/-- `And(0 <= i, i < ilen(s)) -> And(minof(s) <= iget(s, i), iget(s, i) <= maxof(s))` -/
theorem iget_between (s : ISeq) (i : ℤ) : (0 ≤ i ∧ i < ilen s) →
    (minof s ≤ iget s i ∧ iget s i ≤ maxof s) := by
  rintro ⟨h0, h1⟩
  have := iget_mem s i h0 h1
  exact ⟨minof_le s _ this, le_maxof s _ this⟩

/-! ## abstract digraph views: `preds`, `outdeg`, `gorder` are ARBITRARY functions (uninterpreted in z3) -/

section Pebbling

variable (preds : ℤ → ℤ → ISeq) (outdeg : ℤ → ℤ → ℤ) (gorder : ℤ → ℤ)

/-- every predecessor list holds vertices `1 ≤ p < v` -/
def gtopo (gid : ℤ) : Prop := ∀ v p : ℤ, p ∈ preds gid v → 1 ≤ p ∧ p < v

/-- out-degree 0 ⇔ the vertex is nobody's predecessor (for the vertices `1..gorder`); only a statement
    about the graph views -/
def gsinkok (gid : ℤ) : Prop :=
  ∀ v : ℤ, (1 ≤ v ∧ v ≤ gorder gid) →
    (outdeg gid v = 0 ↔ ∀ w : ℤ, (1 ≤ w ∧ w ≤ gorder gid) → v ∉ preds gid w)

/-- `And(gtopo(gid), ilen(P) > 0) -> And(minof(P) >= 1, maxof(P) < v)`, `P = preds(gid, v)` -/
theorem gtopo_def (gid v : ℤ) : (gtopo preds gid ∧ ilen (preds gid v) > 0) →
    (minof (preds gid v) ≥ 1 ∧ maxof (preds gid v) < v) := by
  rintro ⟨ht, hl⟩
  have hne : preds gid v ≠ [] := by intro h; rw [h] at hl; simp [ilen] at hl
  exact ⟨(ht v _ (minof_mem _ hne)).1, (ht v _ (maxof_mem _ hne)).2⟩

/-- `count a P = ilen P` iff every literal of `P` is true (repetitions are counted on both sides) -/
theorem count_eq_ilen_iff (a : Asg) (s : ISeq) : count a s = ilen s ↔ ∀ l ∈ s, lit_true a l := by
  unfold count countTrue ilen lit_true
  rw [← List.countP_eq_length]
  omega

/-- pebbling axioms of vertex `w` (variable of vertex `w` is `w`) -/
def pebax (a : Asg) (gid w : ℤ) : Prop :=
  (count a (preds gid w) = ilen (preds gid w) → lit_true a w) ∧ (outdeg gid w = 0 → ¬ lit_true a w)

/-- L12 on the graph views (same argument as design_probes/Pebbling.lean `pebbling_unsat`) -/
theorem pebbling_exists (a : Asg) (gid : ℤ)
    (hn : gorder gid ≥ 1) (ht : gtopo preds gid) (hs : gsinkok preds outdeg gorder gid) :
    ∃ w : ℤ, 1 ≤ w ∧ w ≤ gorder gid ∧ ¬ pebax preds outdeg a gid w := by
  by_contra hno
  push Not at hno
  have all : ∀ m : ℕ, ∀ v : ℤ, v.toNat ≤ m → 1 ≤ v → v ≤ gorder gid → lit_true a v := by
    intro m
    induction m with
    | zero => intro v hv h1 _; omega
    | succ m ih =>
      intro v hv h1 h2
      apply (hno v h1 h2).1
      rw [count_eq_ilen_iff]
      intro p hp
      obtain ⟨hp1, hp2⟩ := ht v p hp
      exact ih p (by omega) hp1 (by omega)
  have htrue := all (gorder gid).toNat (gorder gid) le_rfl hn le_rfl
  have hsink : outdeg gid (gorder gid) = 0 := by
    rw [hs (gorder gid) ⟨hn, le_rfl⟩]
    rintro w ⟨_, hw⟩ hmem
    have := (ht w _ hmem).2
    omega
  exact (hno (gorder gid) hn le_rfl).2 hsink htrue

open Classical in
/-- z3 Skolem function `pebwit(a, gid)` -/
noncomputable def pebwit (a : Asg) (gid : ℤ) : ℤ :=
  if h : ∃ w : ℤ, 1 ≤ w ∧ w ≤ gorder gid ∧ ¬ pebax preds outdeg a gid w
  then Classical.choose h else 0

/-- `And(gorder(gid) >= 1, gtopo(gid), gsinkok(gid)) -> And(1 <= w, w <= gorder(gid), Not(ax))`,
    `w = pebwit(a, gid)`, `ax = And(Implies(count(a, P) == ilen(P), lit_true(a, w)),
    Implies(outdeg(gid, w) == 0, Not(lit_true(a, w))))`, `P = preds(gid, w)` -/
theorem pebbling_skolem (a : Asg) (gid : ℤ) :
    (gorder gid ≥ 1 ∧ gtopo preds gid ∧ gsinkok preds outdeg gorder gid) →
    (1 ≤ pebwit preds outdeg gorder a gid ∧ pebwit preds outdeg gorder a gid ≤ gorder gid ∧
     ¬ ((count a (preds gid (pebwit preds outdeg gorder a gid)) =
            ilen (preds gid (pebwit preds outdeg gorder a gid)) →
          lit_true a (pebwit preds outdeg gorder a gid)) ∧
        (outdeg gid (pebwit preds outdeg gorder a gid) = 0 →
          ¬ lit_true a (pebwit preds outdeg gorder a gid)))) := by
  rintro ⟨hn, ht, hs⟩
  have h := pebbling_exists preds outdeg gorder a gid hn ht hs
  unfold pebwit
  rw [dif_pos h]
  exact Classical.choose_spec h

end Pebbling


/-! # Seventh batch: sequence algebra for the writer proofs (output traces) -/

/-- `capp(capp(a, b), c) == capp(a, capp(b, c))` -/
theorem append_assoc (a b c : CSeq) : capp (capp a b) c = capp a (capp b c) := by
  simp [capp, List.append_assoc]

/-- an event is an `ISeq`; the comment event -/
def evcomment : ISeq := []
/-- a formatted piece: template id and two integer arguments -/
def ev3 (tid x y : ℤ) : ISeq := [tid, x, y]
/-- the trace without its comment events -/
def dropc (tr : CSeq) : CSeq := tr.filter (fun e => decide (e ≠ evcomment))
/-- z3 `oget`: the `t`-th constraint (an arbitrary default outside the range) -/
def oget (o : OSeq) (t : ℤ) : Con := o.getD t.toNat ⟨[], "", 0⟩

/-- `ev3(tid, x, y) != evcomment` -/
theorem ev3_ne_comment (tid x y : ℤ) : ev3 tid x y ≠ evcomment := by
  simp [ev3, evcomment]

/-- `tr == cnil -> dropc(tr) == cnil` -/
theorem dropc_nil (tr : CSeq) : tr = cnil → dropc tr = cnil := by
  rintro rfl; rfl

/-- `e == evcomment -> dropc(csnoc(t0, e)) == dropc(t0)` -/
theorem dropc_snoc_comment (t0 : CSeq) (e : ISeq) : e = evcomment → dropc (csnoc t0 e) = dropc t0 := by
  rintro rfl; simp [dropc, csnoc, List.filter_append]

/-- `e != evcomment -> dropc(csnoc(t0, e)) == csnoc(dropc(t0), e)` -/
theorem dropc_snoc_event (t0 : CSeq) (e : ISeq) :
    e ≠ evcomment → dropc (csnoc t0 e) = csnoc (dropc t0) e := by
  intro h; simp [dropc, csnoc, List.filter_append, h]

section Traces

variable (levent : ℤ → ℤ → ISeq) (tevent : ℤ → ℤ → ℤ → ISeq) (cevent : ℤ → ℤ → ℤ → ISeq)

/-- events of the first `j` literals of a clause -/
def dlits (w : ℤ) (c : ISeq) (j : ℤ) : CSeq := (c.take j.toNat).map (levent w)
/-- events of the first `t` clauses, each closed by `ev3(te, 0, 0)` -/
def dclauses (w te : ℤ) (C : CSeq) (t : ℤ) : CSeq :=
  ((C.take t.toNat).map (fun ck => dlits levent w ck (ilen ck) ++ [ev3 te 0 0])).flatten
/-- events of the first `j` terms of a constraint -/
def dterms (w : ℤ) (T : TSeq) (j : ℤ) : CSeq := (T.take j.toNat).map (fun p => tevent w p.1 p.2)
/-- events of the first `t` constraints, each closed by `cevent(w, 1 if op is >= else 0, value)` -/
def dcons (w : ℤ) (O : OSeq) (t : ℤ) : CSeq :=
  ((O.take t.toNat).map (fun ck => dterms tevent w ck.terms (tlen ck.terms) ++
      [cevent w (if ck.op = ">=" then 1 else 0) ck.value])).flatten

/-- `j == 0 -> dlits(w, c, j) == cnil` -/
theorem dlits_zero (w : ℤ) (c : ISeq) (j : ℤ) : j = 0 → dlits levent w c j = cnil := by
  rintro rfl; simp [dlits, cnil]

/-- `And(0 <= j, j < ilen(c)) -> dlits(w, c, j + 1) == csnoc(dlits(w, c, j), levent(w, iget(c, j)))` -/
theorem dlits_succ (w : ℤ) (c : ISeq) (j : ℤ) : (0 ≤ j ∧ j < ilen c) →
    dlits levent w c (j + 1) = csnoc (dlits levent w c j) (levent w (iget c j)) := by
  rintro ⟨h0, h1⟩
  unfold ilen at h1
  have hlt : j.toNat < c.length := by omega
  have hk : (j + 1).toNat = j.toNat + 1 := by omega
  unfold dlits csnoc iget
  rw [hk, List.take_add_one, List.getElem?_eq_getElem hlt, List.map_append,
    List.getD_eq_getElem?_getD, List.getElem?_eq_getElem hlt]
  rfl

/-- `j == 0 -> dterms(w, T, j) == cnil` -/
theorem dterms_zero (w : ℤ) (T : TSeq) (j : ℤ) : j = 0 → dterms tevent w T j = cnil := by
  rintro rfl; simp [dterms, cnil]

/-- `And(0 <= j, j < tlen(T)) -> dterms(w, T, j + 1) == csnoc(dterms(w, T, j), tevent(w, tcoef(T, j), tlit(T, j)))` -/
theorem dterms_succ (w : ℤ) (T : TSeq) (j : ℤ) : (0 ≤ j ∧ j < tlen T) →
    dterms tevent w T (j + 1) = csnoc (dterms tevent w T j) (tevent w (tcoef T j) (tlit T j)) := by
  rintro ⟨h0, h1⟩
  have hg := tget_of_lt T j h0 h1
  unfold tlen at h1
  have hlt : j.toNat < T.length := by omega
  have hk : (j + 1).toNat = j.toNat + 1 := by omega
  unfold dterms csnoc tcoef tlit
  rw [hg, hk, List.take_add_one, List.getElem?_eq_getElem hlt, List.map_append]
  rfl

/-- `t == 0 -> dcons(w, O, t) == cnil` -/
theorem dcons_zero (w : ℤ) (O : OSeq) (t : ℤ) : t = 0 → dcons tevent cevent w O t = cnil := by
  rintro rfl; simp [dcons, cnil]

/-- `And(0 <= t, t < olen(O)) -> dcons(w, O, t + 1) == csnoc(capp(dcons(w, O, t), dterms(w, Con.terms(ck),
    tlen(Con.terms(ck)))), cevent(w, If(Con.op(ck) == '>=', 1, 0), Con.value(ck)))`, `ck = oget(O, t)` -/
theorem dcons_succ (w : ℤ) (O : OSeq) (t : ℤ) : (0 ≤ t ∧ t < olen O) →
    dcons tevent cevent w O (t + 1) =
      csnoc (capp (dcons tevent cevent w O t)
                  (dterms tevent w (oget O t).terms (tlen (oget O t).terms)))
            (cevent w (if (oget O t).op = ">=" then 1 else 0) (oget O t).value) := by
  rintro ⟨h0, h1⟩
  unfold olen at h1
  have hlt : t.toNat < O.length := by omega
  have hk : (t + 1).toNat = t.toNat + 1 := by omega
  have hget : oget O t = O[t.toNat] := by
    unfold oget; rw [List.getD_eq_getElem?_getD, List.getElem?_eq_getElem hlt]; rfl
  rw [hget]
  unfold dcons csnoc capp
  rw [hk, List.take_add_one, List.getElem?_eq_getElem hlt, List.map_append, List.flatten_append]
  simp [List.append_assoc]

/-- `t == 0 -> dclauses(w, te, C, t) == cnil` -/
theorem dclauses_zero (w te : ℤ) (C : CSeq) (t : ℤ) : t = 0 → dclauses levent w te C t = cnil := by
  rintro rfl; simp [dclauses, cnil]

/-- `And(0 <= t, t < clen(C)) -> dclauses(w, te, C, t + 1) ==
    csnoc(capp(dclauses(w, te, C, t), dlits(w, ck, ilen(ck))), ev3(te, 0, 0))`, `ck = cget(C, t)` -/
theorem dclauses_succ (w te : ℤ) (C : CSeq) (t : ℤ) : (0 ≤ t ∧ t < clen C) →
    dclauses levent w te C (t + 1) =
      csnoc (capp (dclauses levent w te C t) (dlits levent w (cget C t) (ilen (cget C t))))
            (ev3 te 0 0) := by
  rintro ⟨h0, h1⟩
  unfold clen at h1
  have hlt : t.toNat < C.length := by omega
  have hk : (t + 1).toNat = t.toNat + 1 := by omega
  have hget : cget C t = C[t.toNat] := by
    unfold cget; rw [List.getD_eq_getElem?_getD, List.getElem?_eq_getElem hlt]; rfl
  rw [hget]
  unfold dclauses csnoc capp
  rw [hk, List.take_add_one, List.getElem?_eq_getElem hlt, List.map_append, List.flatten_append]
  simp [List.append_assoc]

end Traces


/-! # Eighth batch: `idxcombs_one`, the `iflips` step read backwards, `iflip1` twice -/

theorem idxcombs_one_eq (n : ℤ) : idxcombs n 1 = (idx n).map (fun i => [i]) := by
  unfold idxcombs
  rw [if_neg (by omega)]
  exact combsLex_one _

/-- `And(k == 1, n >= 0) -> clen(idxcombs(n, k)) == n` -/
theorem idxcombs_one_len (n k : ℤ) : (k = 1 ∧ n ≥ 0) → clen (idxcombs n k) = n := by
  rintro ⟨rfl, hn⟩
  unfold clen
  rw [idxcombs_one_eq, List.length_map, length_idx]
  omega

/-- `And(k == 1, 0 <= t, t < n) -> And(ilen(cget(idxcombs(n, k), t)) == 1, iget(cget(idxcombs(n, k), t), 0) == t)`
    (this one DOES depend on the enumeration order: itertools order) -/
theorem idxcombs_one_get (n k t : ℤ) : (k = 1 ∧ 0 ≤ t ∧ t < n) →
    (ilen (cget (idxcombs n k) t) = 1 ∧ iget (cget (idxcombs n k) t) 0 = t) := by
  rintro ⟨rfl, h0, h1⟩
  have hlt : t.toNat < n.toNat := by omega
  have hget : cget (idxcombs n 1) t = [t] := by
    unfold cget
    rw [idxcombs_one_eq, List.getD_eq_getElem?_getD, List.getElem?_map]
    unfold idx
    rw [List.getElem?_map, List.getElem?_range hlt]
    simp
    omega
  rw [hget]
  exact ⟨rfl, rfl⟩

/-- `And(1 <= t, t <= ilen(F)) -> iflips(s, F, t) == iflip1(iflips(s, F, t - 1), iget(F, t - 1))` -/
theorem iflips_pred (s F : ISeq) (t : ℤ) : (1 ≤ t ∧ t ≤ ilen F) →
    iflips s F t = iflip1 (iflips s F (t - 1)) (iget F (t - 1)) := by
  rintro ⟨h1, h2⟩
  have := iflips_succ s F (t - 1) ⟨by omega, by omega⟩
  rwa [sub_add_cancel] at this

/-- `And(i0 == i, 0 <= i, i < ilen(s0)) -> iflip1(iflip1(s0, i0), i) == s0`
    (the range guard is not needed: `CnfSem.iflip1_iflip1`) -/
theorem iflip1_iflip1_of_eq (s0 : ISeq) (i0 i : ℤ) : (i0 = i ∧ 0 ≤ i ∧ i < ilen s0) →
    iflip1 (iflip1 s0 i0) i = s0 := by
  rintro ⟨rfl, _, _⟩
  exact iflip1_iflip1 s0 i0


/-! # Ninth batch: `implchain` (all-equal cycle) and the lifting clauses `liftcls` / `liftsem` / `yblock` -/

/-- `[[-X[i-1], X[i]] for i in 1..len-1]`: the implication chain `X[0] → X[1] → …` -/
def implchain : ISeq → CSeq
  | [] => []
  | [_] => []
  | x :: y :: t => [-x, y] :: implchain (y :: t)

theorem length_implchain : ∀ X : ISeq, (implchain X).length = X.length - 1
  | [] => rfl
  | [_] => rfl
  | x :: y :: t => by
    have := length_implchain (y :: t)
    simp only [implchain, List.length_cons] at this ⊢
    omega

theorem mem_implchain : ∀ (X : ISeq) (c : ISeq), c ∈ implchain X → ∃ x ∈ X, ∃ y ∈ X, c = [-x, y]
  | [], c, h => by simp [implchain] at h
  | [_], c, h => by simp [implchain] at h
  | x :: y :: t, c, h => by
    simp only [implchain, List.mem_cons] at h
    rcases h with rfl | h
    · exact ⟨x, by simp, y, by simp, rfl⟩
    · obtain ⟨x', hx', y', hy', rfl⟩ := mem_implchain (y :: t) c h
      exact ⟨x', List.mem_cons_of_mem _ hx', y', List.mem_cons_of_mem _ hy', rfl⟩

/-- `ilen(X) >= 1 -> clen(implchain(X)) == ilen(X) - 1` -/
theorem clen_implchain (X : ISeq) : ilen X ≥ 1 → clen (implchain X) = ilen X - 1 := by
  unfold ilen clen
  intro h
  rw [length_implchain]
  omega

/-- `cmaxabs(implchain(X)) <= maxabs(X)` -/
theorem cmaxabs_implchain (X : ISeq) : cmaxabs (implchain X) ≤ maxabs X := by
  rw [cmaxabs_le_iff _ _ (maxabs_nonneg' X)]
  intro c hc
  obtain ⟨x, hx, y, hy, rfl⟩ := mem_implchain X c hc
  have h1 := natAbs_le_maxabs X x hx
  have h2 := natAbs_le_maxabs X y hy
  have hnil : maxabs ([] : ISeq) = 0 := rfl
  rw [maxabs_cons, maxabs_cons, Int.natAbs_neg, hnil]
  omega

/-- `Not(haszero(X)) -> Not(chaszero(implchain(X)))` -/
theorem chaszero_implchain (X : ISeq) : ¬ haszero X → ¬ chaszero (implchain X) := by
  rintro hz ⟨c, hc, h0⟩
  obtain ⟨x, hx, y, hy, rfl⟩ := mem_implchain X c hc
  unfold haszero at h0 hz
  simp only [List.mem_cons, List.not_mem_nil, or_false] at h0
  rcases h0 with h | h
  · have : x = 0 := by omega
    exact hz (this ▸ hx)
  · exact hz (h ▸ hy)

theorem implchain_forward (a : Asg) : ∀ (x : ℤ) (t : ISeq), ¬ haszero (x :: t) →
    sat a (implchain (x :: t)) → litTrue a x = true → ∀ y ∈ x :: t, litTrue a y = true
  | x, [], _, _, hx, y, hy => by
    simp only [List.mem_singleton] at hy; subst hy; exact hx
  | x, z :: t, hz, hs, hx, y, hy => by
    have hx0 : x ≠ 0 := fun e => hz (by unfold haszero; simp [e])
    have hcl : ctrue a [-x, z] := hs _ (by simp [implchain])
    have hzt : litTrue a z = true := by
      obtain ⟨l, hl, hlt⟩ := hcl
      simp only [List.mem_cons, List.not_mem_nil, or_false] at hl
      rcases hl with rfl | rfl
      · rw [litTrue_neg a x hx0, hx] at hlt; simp at hlt
      · exact hlt
    rcases List.mem_cons.mp hy with rfl | hy'
    · exact hx
    · exact implchain_forward a z t
        (fun h => hz (by unfold haszero at *; exact List.mem_cons_of_mem _ h))
        (fun c hc => hs c (by simp [implchain, hc])) hzt y hy'

theorem implchain_backward (a : Asg) : ∀ (x : ℤ) (t : ISeq), ¬ haszero (x :: t) →
    sat a (implchain (x :: t)) → litTrue a ((x :: t).getLast (by simp)) = false →
    ∀ y ∈ x :: t, litTrue a y = false
  | x, [], _, _, hl, y, hy => by
    simp only [List.mem_singleton] at hy; subst hy; simpa using hl
  | x, z :: t, hz, hs, hl, y, hy => by
    have hx0 : x ≠ 0 := fun e => hz (by unfold haszero; simp [e])
    have hl' : litTrue a ((z :: t).getLast (by simp)) = false := by
      rw [List.getLast_cons_cons] at hl; exact hl
    have ih := implchain_backward a z t
      (fun h => hz (by unfold haszero at *; exact List.mem_cons_of_mem _ h))
      (fun c hc => hs c (by simp [implchain, hc])) hl'
    have hzf : litTrue a z = false := ih z List.mem_cons_self
    rcases List.mem_cons.mp hy with rfl | hy'
    · have hcl : ctrue a [-y, z] := hs _ (by simp [implchain])
      obtain ⟨l, hl2, hlt⟩ := hcl
      simp only [List.mem_cons, List.not_mem_nil, or_false] at hl2
      rcases hl2 with rfl | rfl
      · rw [litTrue_neg a y hx0] at hlt
        cases hh : litTrue a y
        · rfl
        · rw [hh] at hlt; simp at hlt
      · rw [hzf] at hlt; simp at hlt
    · exact ih y hy'

theorem iget_last (X : ISeq) (hne : X ≠ []) : iget X (ilen X - 1) = X.getLast hne := by
  have hpos : 0 < X.length := List.length_pos_of_ne_nil hne
  unfold iget ilen
  have h1 : ((X.length : ℤ) - 1).toNat = X.length - 1 := by omega
  rw [h1, List.getD_eq_getElem?_getD, List.getElem?_eq_getElem (by omega), List.getLast_eq_getElem]
  rfl

theorem count_eq_zero_iff (a : Asg) (s : ISeq) : count a s = 0 ↔ ∀ l ∈ s, litTrue a l = false := by
  unfold count countTrue
  have h0 : ((List.countP (litTrue a) s : ℕ) : ℤ) = 0 ↔ List.countP (litTrue a) s = 0 := by omega
  rw [h0, List.countP_eq_zero]
  constructor
  · intro h l hl; simpa using h l hl
  · intro h l hl; simp [h l hl]

/-- `allequal_cycle`: `And(n >= 1, Not(haszero(X))) -> And(Or(lit_true(a, iget(X, 0)), Not(lit_true(a, iget(X, n - 1)))),
    sat(a, implchain(X))) == Or(count(a, X) == 0, count(a, X) == n)`, `n = ilen(X)` -/
theorem allequal_cycle (a : Asg) (X : ISeq) : (ilen X ≥ 1 ∧ ¬ haszero X) →
    (((lit_true a (iget X 0) ∨ ¬ lit_true a (iget X (ilen X - 1))) ∧ sat a (implchain X)) ↔
     (count a X = 0 ∨ count a X = ilen X)) := by
  rintro ⟨hn, hz⟩
  cases X with
  | nil => simp [ilen] at hn
  | cons x t =>
    have hne : (x :: t) ≠ [] := by simp
    have h0 : iget (x :: t) 0 = x := by simp [iget]
    rw [iget_last _ hne, h0, count_eq_zero_iff, count_eq_ilen_iff]
    unfold lit_true
    constructor
    · rintro ⟨h | h, hs⟩
      · right; exact implchain_forward a x t hz hs h
      · left
        apply implchain_backward a x t hz hs
        simpa using h
    · rintro (h | h)
      · refine ⟨Or.inr ?_, ?_⟩
        · rw [h _ (List.getLast_mem hne)]; simp
        · intro c hc
          obtain ⟨x', hx', y', _, rfl⟩ := mem_implchain _ c hc
          have hx0 : x' ≠ 0 := fun e => hz (show (0:ℤ) ∈ x :: t from e ▸ hx')
          exact ⟨-x', by simp, by rw [litTrue_neg a x' hx0, h x' hx']; rfl⟩
      · refine ⟨Or.inl (h x List.mem_cons_self), ?_⟩
        intro c hc
        obtain ⟨x', _, y', hy', rfl⟩ := mem_implchain _ c hc
        exact ⟨y', by simp, h y' hy'⟩

/-! ## lifting: selector `y_i` picks copy `x_i` -/

/-- `[[-(yo+i), s*(xo+i)] for i in 1..k]` -/
def liftcls (xo yo k s : ℤ) : CSeq :=
  (List.range k.toNat).map (fun (j : ℕ) => [-(yo + ((j : ℤ) + 1)), s * (xo + ((j : ℤ) + 1))])
/-- the `k` selector variables of original variable `v` (lifting layout) -/
def yblock (v k : ℤ) : ISeq := apseq ((v - 1) * 2 * k + k + 1) k
/-- every true selector of variable `v` selects a copy whose value is `pos`
    (`xo = (v-1)*2*k`, `yo = xo + k`) -/
def liftsem (a : Asg) (v k : ℤ) (pos : Prop) : Prop :=
  ∀ i : ℤ, (1 ≤ i ∧ i ≤ k) → lit_true a ((v - 1) * 2 * k + k + i) →
    (lit_true a ((v - 1) * 2 * k + i) ↔ pos)

/-- `yblock(v, k) == apseq((v - 1) * 2 * k + k + 1, k)` (definition) -/
theorem yblock_def (v k : ℤ) : yblock v k = apseq ((v - 1) * 2 * k + k + 1) k := rfl

theorem mem_liftcls (xo yo k s : ℤ) (c : ISeq) :
    c ∈ liftcls xo yo k s ↔ ∃ i : ℤ, (1 ≤ i ∧ i ≤ k) ∧ c = [-(yo + i), s * (xo + i)] := by
  unfold liftcls
  rw [List.mem_map]
  constructor
  · rintro ⟨j, hj, rfl⟩
    rw [List.mem_range] at hj
    exact ⟨(j : ℤ) + 1, ⟨by omega, by omega⟩, rfl⟩
  · rintro ⟨i, ⟨h1, h2⟩, rfl⟩
    refine ⟨(i - 1).toNat, List.mem_range.mpr (by omega), ?_⟩
    have : (((i - 1).toNat : ℕ) : ℤ) + 1 = i := by omega
    rw [this]

theorem mem_apseq (st n x : ℤ) : x ∈ apseq st n ↔ ∃ j : ℤ, (0 ≤ j ∧ j < n) ∧ x = st + j := by
  unfold apseq
  rw [List.mem_map]
  constructor
  · rintro ⟨j, hj, rfl⟩
    rw [List.mem_range] at hj
    exact ⟨(j : ℤ), ⟨by omega, by omega⟩, rfl⟩
  · rintro ⟨j, ⟨h1, h2⟩, rfl⟩
    exact ⟨j.toNat, List.mem_range.mpr (by omega), by omega⟩

/-- `k >= 0 -> clen(liftcls(xo, yo, k, s)) == k` -/
theorem clen_liftcls (xo yo k s : ℤ) : k ≥ 0 → clen (liftcls xo yo k s) = k := by
  intro h; simp [clen, liftcls]; omega

/-- `And(xo >= 0, yo >= 0, Or(s == 1, s == -1)) ->
    And(Not(chaszero(t)), cmaxabs(t) <= zmax(xo, yo) + zmax(k, 0))`, `t = liftcls(xo, yo, k, s)` -/
theorem liftcls_bounds (xo yo k s : ℤ) : (xo ≥ 0 ∧ yo ≥ 0 ∧ (s = 1 ∨ s = -1)) →
    (¬ chaszero (liftcls xo yo k s) ∧ cmaxabs (liftcls xo yo k s) ≤ zmax xo yo + zmax k 0) := by
  rintro ⟨hx, hy, hs⟩
  rw [zmax_eq_max, zmax_eq_max]
  constructor
  · rintro ⟨c, hc, h0⟩
    obtain ⟨i, ⟨h1, h2⟩, rfl⟩ := (mem_liftcls _ _ _ _ c).mp hc
    unfold haszero at h0
    simp only [List.mem_cons, List.not_mem_nil, or_false] at h0
    rcases hs with rfl | rfl <;> omega
  · rw [cmaxabs_le_iff _ _ (by omega)]
    intro c hc
    obtain ⟨i, ⟨h1, h2⟩, rfl⟩ := (mem_liftcls _ _ _ _ c).mp hc
    simp only [maxabs, List.foldr]
    rcases hs with rfl | rfl <;> omega

/-- `sat_liftcls`: `And(k2 == k, k >= 1, v >= 1, xo == (v - 1) * 2 * k, yo == xo + k, Or(s == 1, s == -1),
    pos == (s == 1)) -> sat(a, liftcls(xo, yo, k, s)) == liftsem(a, v, k, pos)` -/
theorem sat_liftcls (a : Asg) (xo yo k s v k2 : ℤ) (pos : Prop) :
    (k2 = k ∧ k ≥ 1 ∧ v ≥ 1 ∧ xo = (v - 1) * 2 * k ∧ yo = xo + k ∧ (s = 1 ∨ s = -1) ∧ (pos ↔ s = 1)) →
    (sat a (liftcls xo yo k s) ↔ liftsem a v k pos) := by
  rintro ⟨_, hk, hv, hxo, rfl, hs, hpos⟩
  have hxo0 : 0 ≤ xo := by
    rw [hxo]; exact mul_nonneg (mul_nonneg (by omega) (by norm_num)) (by omega)
  unfold liftsem
  rw [← hxo]
  have hclause : ∀ i : ℤ, (1 ≤ i ∧ i ≤ k) →
      (ctrue a [-(xo + k + i), s * (xo + i)] ↔
        (lit_true a (xo + k + i) → (lit_true a (xo + i) ↔ pos))) := by
    rintro i ⟨h1, h2⟩
    have hy0 : xo + k + i ≠ 0 := by omega
    have hx0 : xo + i ≠ 0 := by omega
    unfold ctrue lit_true
    simp only [List.mem_cons, List.not_mem_nil, or_false, exists_eq_or_imp, exists_eq_left]
    rw [litTrue_neg a _ hy0]
    rcases hs with rfl | rfl
    · have hp : pos := hpos.mpr rfl
      simp only [one_mul, hp, iff_true]
      cases litTrue a (xo + k + i) <;> simp
    · have hp : ¬ pos := fun h => by have := hpos.mp h; omega
      have : (-1 : ℤ) * (xo + i) = -(xo + i) := by ring
      rw [this, litTrue_neg a _ hx0]
      simp only [hp, iff_false]
      cases litTrue a (xo + k + i) <;> cases litTrue a (xo + i) <;> simp
  unfold sat
  constructor
  · intro h i hi
    exact (hclause i hi).mp (h _ ((mem_liftcls _ _ _ _ _).mpr ⟨i, hi, rfl⟩))
  · intro h c hc
    obtain ⟨i, hi, rfl⟩ := (mem_liftcls _ _ _ _ c).mp hc
    exact (hclause i hi).mpr (h i hi)

theorem countP_eq_one_unique {α : Type} (p : α → Bool) (l : List α) (h : l.countP p = 1) :
    ∃ x ∈ l, p x = true ∧ ∀ y ∈ l, p y = true → y = x := by
  rw [List.countP_eq_length_filter, List.length_eq_one_iff] at h
  obtain ⟨x, hx⟩ := h
  have hxm : x ∈ l.filter p := by rw [hx]; simp
  rw [List.mem_filter] at hxm
  refine ⟨x, hxm.1, hxm.2, ?_⟩
  intro y hy hpy
  have : y ∈ l.filter p := List.mem_filter.mpr ⟨hy, hpy⟩
  rw [hx] at this
  simpa using this

/-- `liftsem_flip`: `And(k >= 1, v >= 1, count(a, yblock(v, k)) == 1) ->
    liftsem(a, v, k, True) == Not(liftsem(a, v, k, False))` -/
theorem liftsem_flip (a : Asg) (v k : ℤ) : (k ≥ 1 ∧ v ≥ 1 ∧ count a (yblock v k) = 1) →
    (liftsem a v k True ↔ ¬ liftsem a v k False) := by
  rintro ⟨_, _, hc⟩
  have hc' : (yblock v k).countP (litTrue a) = 1 := by
    unfold count countTrue at hc; omega
  obtain ⟨x, hx, hxt, huniq⟩ := countP_eq_one_unique _ _ hc'
  unfold yblock at hx huniq
  obtain ⟨j, ⟨hj0, hj1⟩, rfl⟩ := (mem_apseq _ _ _).mp hx
  -- the unique true selector is i0 = j + 1
  have hsel : ∀ i : ℤ, (1 ≤ i ∧ i ≤ k) → lit_true a ((v - 1) * 2 * k + k + i) → i = j + 1 := by
    rintro i ⟨h1, h2⟩ hl
    have hm : (v - 1) * 2 * k + k + i ∈ apseq ((v - 1) * 2 * k + k + 1) k :=
      (mem_apseq _ _ _).mpr ⟨i - 1, ⟨by omega, by omega⟩, by ring⟩
    have := huniq _ hm hl
    linarith
  have hi0 : lit_true a ((v - 1) * 2 * k + k + (j + 1)) := by
    unfold lit_true
    have : (v - 1) * 2 * k + k + (j + 1) = (v - 1) * 2 * k + k + 1 + j := by ring
    rw [this]; exact hxt
  unfold liftsem
  constructor
  · intro hT hF
    have h1 := (hT (j + 1) ⟨by omega, by omega⟩ hi0).mpr trivial
    exact (hF (j + 1) ⟨by omega, by omega⟩ hi0).mp h1
  · intro hnF i hi hl
    have hij := hsel i hi hl
    subst hij
    refine ⟨fun _ => trivial, fun _ => ?_⟩
    by_contra hx
    apply hnF
    intro i' hi' hl'
    have := hsel i' hi' hl'
    subst this
    exact ⟨fun h => hx h, fun h => h.elim⟩


/-! # Tenth batch: `iofarr` (a python list given as array + length) -/

/-- `[A[0], …, A[n-1]]` -/
def iofarr (A : ℤ → ℤ) (n : ℤ) : ISeq := (List.range n.toNat).map (fun (i : ℕ) => A (i : ℤ))

/-- `n >= 0 -> ilen(iofarr(A, n)) == n` -/
theorem iofarr_len (A : ℤ → ℤ) (n : ℤ) : n ≥ 0 → ilen (iofarr A n) = n := by
  intro h; simp [ilen, iofarr]; omega

/-- `And(0 <= i, i < n) -> iget(iofarr(A, n), i) == Select(A, i)` -/
theorem iofarr_get (A : ℤ → ℤ) (n i : ℤ) : (0 ≤ i ∧ i < n) → iget (iofarr A n) i = A i := by
  rintro ⟨h0, h1⟩
  have hlt : i.toNat < n.toNat := by omega
  have hi : ((i.toNat : ℕ) : ℤ) = i := by omega
  unfold iget iofarr
  rw [List.getD_eq_getElem?_getD, List.getElem?_map, List.getElem?_range hlt]
  simp [hi]

/-! uninterpreted in specs.py, NO schema emitted: `arrsum`, `nbrs`, `evar`, `bdegl`, `bdegr`, `navail_p`. -/


/-! # Eleventh batch: row events and `rowsfrom` -/

/-- one `write()` of a whole row: (template id, clause) -/
def evrow (tid : ℤ) (c : ISeq) : ISeq := tid :: 0 :: c

/-- `evrow(tid, c) != evcomment` -/
theorem evrow_ne_comment (tid : ℤ) (c : ISeq) : evrow tid c ≠ evcomment := by
  simp [evrow, evcomment]

section Rows

-- writer `w`: the trace after the events of row `i` were appended: an ARBITRARY function
variable (rowapp : ℤ → CSeq → ℤ → CSeq)

def rowsfromN (w : ℤ) (T : CSeq) : ℕ → CSeq
  | 0 => T
  | n + 1 => rowapp w (rowsfromN w T n) (n : ℤ)

/-- rows `0..t-1` appended to a trace, one after the other -/
def rowsfrom (w : ℤ) (T : CSeq) (t : ℤ) : CSeq := rowsfromN rowapp w T t.toNat

/-- `t == 0 -> rowsfrom(w, T, t) == T` -/
theorem rowsfrom_zero (w : ℤ) (T : CSeq) (t : ℤ) : t = 0 → rowsfrom rowapp w T t = T := by
  rintro rfl; rfl

/-- `t >= 0 -> rowsfrom(w, T, t + 1) == rowapp(w, rowsfrom(w, T, t), t)` -/
theorem rowsfrom_succ (w : ℤ) (T : CSeq) (t : ℤ) :
    t ≥ 0 → rowsfrom rowapp w T (t + 1) = rowapp w (rowsfrom rowapp w T t) t := by
  intro h
  have h1 : (t + 1).toNat = t.toNat + 1 := by omega
  have h2 : ((t.toNat : ℕ) : ℤ) = t := by omega
  unfold rowsfrom
  rw [h1, rowsfromN, h2]

end Rows


/-! # Twelfth batch: clause samplers (C13) -/

/-- `k` literals, variables strictly increasing, inside `1..n` — literally the z3 definition -/
def valid1 (k n : ℤ) (c : ISeq) : Prop :=
  ilen c = k ∧
  (∀ j : ℤ, (0 ≤ j ∧ j < k) → (1 ≤ zabs (iget c j) ∧ zabs (iget c j) ≤ n)) ∧
  (∀ i j : ℤ, (0 ≤ i ∧ i < j ∧ j < k) → zabs (iget c i) < zabs (iget c j))

/-- `valid1(k, n, c) == And(ilen(c) == k, ForAll([j], Implies(And(0 <= j, j < k), And(1 <= zabs(iget(c, j)),
    zabs(iget(c, j)) <= n))), ForAll([i, j], Implies(And(0 <= i, i < j, j < k), zabs(iget(c, i)) < zabs(iget(c, j)))))` -/
theorem valid1_def (k n : ℤ) (c : ISeq) : valid1 k n c ↔
    (ilen c = k ∧
     (∀ j : ℤ, (0 ≤ j ∧ j < k) → (1 ≤ zabs (iget c j) ∧ zabs (iget c j) ≤ n)) ∧
     (∀ i j : ℤ, (0 ≤ i ∧ i < j ∧ j < k) → zabs (iget c i) < zabs (iget c j))) := Iff.rfl

theorem valid1_elem (k n : ℤ) (c : ISeq) (h : valid1 k n c) :
    ∀ x ∈ c, 1 ≤ (x.natAbs : ℤ) ∧ (x.natAbs : ℤ) ≤ n := by
  intro x hx
  obtain ⟨m, hm, rfl⟩ := List.getElem_of_mem hx
  obtain ⟨hl, hb, _⟩ := h
  unfold ilen at hl
  have := hb (m : ℤ) ⟨by omega, by omega⟩
  rw [iget_natCast c m hm, zabs_eq_natAbs] at this
  exact this

/-- `valid1(k, n, c) -> And(Not(haszero(c)), maxabs(c) <= zmax(n, 0))` -/
theorem valid1_bounds (k n : ℤ) (c : ISeq) : valid1 k n c →
    (¬ haszero c ∧ maxabs c ≤ zmax n 0) := by
  intro h
  have he := valid1_elem k n c h
  rw [zmax_eq_max]
  constructor
  · intro h0
    have := he 0 h0
    simp at this
  · rw [maxabs_le_iff _ _ (by omega)]
    intro x hx
    have := he x hx
    omega

section Samplers

-- the clause is satisfied by every planted assignment of the call: an ARBITRARY predicate
variable (psat : ISeq → Prop)

/-- every clause of the list is `valid1` and `psat` -/
def cvalid (k n : ℤ) (L : CSeq) : Prop := ∀ c ∈ L, valid1 k n c ∧ psat c
/-- pairwise distinct clauses -/
def cdistinct (L : CSeq) : Prop := L.Nodup
/-- membership -/
def cmem (c : ISeq) (L : CSeq) : Prop := c ∈ L
/-- the set of the clauses of a list, as a characteristic function (z3 `Array ISeq Bool`);
    `Select(s, c) = s c`, `K(ISeq, False) = fun _ => False`, `Store(s, c, True) = Function.update s c True` -/
def cset (L : CSeq) : ISeq → Prop := fun c => c ∈ L
/-- `R` lists elements of `F` at pairwise distinct positions (`random.sample`) -/
def csubsel (R F : CSeq) : Prop :=
  ∃ p : Fin R.length → Fin F.length, Function.Injective p ∧ ∀ i : Fin R.length, R.get i = F.get (p i)
/-- number of `k`-clauses over `n` variables compatible with the planted assignments -/
noncomputable def navail_p (k n : ℤ) : ℤ := (({c | valid1 k n c ∧ psat c} : Set ISeq).ncard : ℤ)

/-- `L == cnil -> cvalid(k, n, L)` -/
theorem cvalid_nil (k n : ℤ) (L : CSeq) : L = cnil → cvalid psat k n L := by
  rintro rfl c hc; cases hc

/-- `cvalid(k, n, L) -> And(Not(chaszero(L)), cmaxabs(L) <= zmax(n, 0))` -/
theorem cvalid_bounds (k n : ℤ) (L : CSeq) : cvalid psat k n L →
    (¬ chaszero L ∧ cmaxabs L ≤ zmax n 0) := by
  intro h
  constructor
  · rintro ⟨c, hc, h0⟩
    exact (valid1_bounds k n c (h c hc).1).1 h0
  · rw [cmaxabs_le_iff _ _ (by rw [zmax_eq_max]; omega)]
    intro c hc
    exact (valid1_bounds k n c (h c hc).1).2

/-- `cvalid(k, n, csnoc(L0, c)) == And(cvalid(k, n, L0), valid1(k, n, c), psat(c))` -/
theorem cvalid_snoc (k n : ℤ) (L0 : CSeq) (c : ISeq) :
    cvalid psat k n (csnoc L0 c) ↔ (cvalid psat k n L0 ∧ valid1 k n c ∧ psat c) := by
  unfold cvalid csnoc
  constructor
  · intro h
    exact ⟨fun d hd => h d (List.mem_append_left _ hd),
           h c (List.mem_append_right _ (List.mem_singleton.mpr rfl))⟩
  · rintro ⟨h1, h2⟩ d hd
    rcases List.mem_append.mp hd with h | h
    · exact h1 d h
    · rw [List.mem_singleton] at h; subst h; exact h2

/-- all lists of length `m` over a finite alphabet -/
def allLists (A : Finset ℤ) : ℕ → Finset (List ℤ)
  | 0 => {[]}
  | m + 1 => (A ×ˢ allLists A m).image (fun p => p.1 :: p.2)

theorem mem_allLists (A : Finset ℤ) : ∀ (c : List ℤ) (m : ℕ), c.length = m → (∀ x ∈ c, x ∈ A) →
    c ∈ allLists A m
  | [], m, hl, _ => by
    subst hl; simp [allLists]
  | x :: t, m, hl, hA => by
    cases m with
    | zero => simp at hl
    | succ m =>
      have ht := mem_allLists A t m (by simpa using hl) (fun y hy => hA y (List.mem_cons_of_mem _ hy))
      simp only [allLists, Finset.mem_image, Finset.mem_product, Prod.exists]
      exact ⟨x, t, ⟨hA x List.mem_cons_self, ht⟩, rfl⟩

theorem valid1_finite (k n : ℤ) : ({c | valid1 k n c} : Set ISeq).Finite := by
  apply Set.Finite.subset (Finset.finite_toSet (allLists (Finset.Icc (-n) n) k.toNat))
  intro c hc
  have he := valid1_elem k n c hc
  have hl : c.length = k.toNat := by
    have := hc.1; unfold ilen at this; omega
  apply mem_allLists _ c _ hl
  intro x hx
  have := he x hx
  rw [Finset.mem_Icc]
  omega

theorem avail_finite (k n : ℤ) : ({c | valid1 k n c ∧ psat c} : Set ISeq).Finite :=
  (valid1_finite k n).subset (fun _ hc => hc.1)

/-- the counting lemma: `And(cvalid(k, n, L), cdistinct(L)) -> clen(L) <= navail_p(k, n)` -/
theorem distinct_valid_le_card (k n : ℤ) (L : CSeq) :
    (cvalid psat k n L ∧ cdistinct L) → clen L ≤ navail_p psat k n := by
  rintro ⟨hv, hd⟩
  unfold clen navail_p
  have hsub : (↑L.toFinset : Set ISeq) ⊆ {c | valid1 k n c ∧ psat c} := by
    intro c hc
    have : c ∈ L := by simpa using hc
    exact hv c this
  have h1 := Set.ncard_le_ncard hsub (avail_finite psat k n)
  rw [Set.ncard_coe_finset, List.toFinset_card_of_nodup hd] at h1
  exact_mod_cast h1

/-- `L == cnil -> cdistinct(L)` -/
theorem cdistinct_nil (L : CSeq) : L = cnil → cdistinct L := by
  rintro rfl; exact List.nodup_nil

/-- `cdistinct(csnoc(L0, c)) == And(cdistinct(L0), Not(cmem(c, L0)))` -/
theorem cdistinct_snoc (L0 : CSeq) (c : ISeq) :
    cdistinct (csnoc L0 c) ↔ (cdistinct L0 ∧ ¬ cmem c L0) := by
  unfold cdistinct csnoc cmem
  rw [List.nodup_append]
  constructor
  · rintro ⟨h1, _, h3⟩
    exact ⟨h1, fun hc => h3 c hc c (List.mem_singleton.mpr rfl) rfl⟩
  · rintro ⟨h1, h2⟩
    refine ⟨h1, List.nodup_singleton c, ?_⟩
    intro a ha b hb hab
    rw [List.mem_singleton] at hb
    subst hb; subst hab
    exact h2 ha

/-- `L == cnil -> Not(cmem(c, L))` -/
theorem cmem_nil (c : ISeq) (L : CSeq) : L = cnil → ¬ cmem c L := by
  rintro rfl h; cases h

/-- `cmem(c, L) == Select(cset(L), c)` -/
theorem cmem_iff_cset (c : ISeq) (L : CSeq) : cmem c L ↔ cset L c := Iff.rfl

/-- `cmem(c, csnoc(L0, d)) == Or(cmem(c, L0), c == d)` -/
theorem cmem_snoc (c : ISeq) (L0 : CSeq) (d : ISeq) : cmem c (csnoc L0 d) ↔ (cmem c L0 ∨ c = d) := by
  unfold cmem csnoc
  rw [List.mem_append, List.mem_singleton]

/-- `L == cnil -> cset(L) == K(ISeq, False)` -/
theorem cset_nil (L : CSeq) : L = cnil → cset L = (fun _ => False) := by
  rintro rfl
  funext c
  simp [cset, cnil]

/-- `cset(csnoc(L0, c)) == Store(cset(L0), c, True)` -/
theorem cset_snoc (L0 : CSeq) (c : ISeq) : cset (csnoc L0 c) = Function.update (cset L0) c True := by
  funext d
  unfold cset csnoc
  by_cases h : d = c
  · subst h; simp
  · rw [Function.update_of_ne h]
    simp [h]

theorem csubsel_subset (R F : CSeq) (h : csubsel R F) : ∀ c ∈ R, c ∈ F := by
  obtain ⟨p, _, hp⟩ := h
  intro c hc
  obtain ⟨i, rfl⟩ := List.get_of_mem hc
  rw [hp i]
  exact List.get_mem F (p i)

/-- `csubsel(R, F) -> And(Implies(cdistinct(F), cdistinct(R)), clen(R) <= clen(F),
    cmaxabs(R) <= cmaxabs(F), Implies(chaszero(R), chaszero(F)))` -/
theorem csubsel_props (R F : CSeq) : csubsel R F →
    ((cdistinct F → cdistinct R) ∧ clen R ≤ clen F ∧ cmaxabs R ≤ cmaxabs F ∧
     (chaszero R → chaszero F)) := by
  intro h
  have hsub := csubsel_subset R F h
  obtain ⟨p, hinj, hp⟩ := h
  refine ⟨?_, ?_, ?_, ?_⟩
  · unfold cdistinct
    intro hF
    rw [List.nodup_iff_injective_get] at hF ⊢
    intro i j hij
    apply hinj
    apply hF
    rw [← hp i, ← hp j, hij]
  · unfold clen
    have := Fintype.card_le_of_injective p hinj
    simp only [Fintype.card_fin] at this
    exact_mod_cast this
  · rw [cmaxabs_le_iff _ _ (cmaxabs_nonneg' F)]
    intro c hc
    exact maxabs_le_cmaxabs F c (hsub c hc)
  · rintro ⟨c, hc, h0⟩
    exact ⟨c, hsub c hc, h0⟩

/-- `And(csubsel(R, F), cvalid(k, n, F)) -> cvalid(k, n, R)` -/
theorem csubsel_cvalid (k n : ℤ) (R F : CSeq) :
    (csubsel R F ∧ cvalid psat k n F) → cvalid psat k n R := by
  rintro ⟨hs, hv⟩ c hc
  exact hv c (csubsel_subset R F hs c hc)

end Samplers


/-! # Thirteenth batch: the dense enumeration of all planted-compatible clauses -/

/-- sign vectors in the order of `itertools.product([-1, 1], repeat=n)` (first coordinate slowest, -1 first) -/
def signsm : ℕ → List (List ℤ)
  | 0 => [[]]
  | n+1 => (signsm n).map (fun s => (-1:ℤ) :: s) ++ (signsm n).map (fun s => (1:ℤ) :: s)

def signvecsm (k : ℤ) : CSeq := signsm k.toNat

theorem length_signsm (b : ℕ) : (signsm b).length = 2^b := by
  induction b with
  | zero => simp [signsm]
  | succ b ih => simp [signsm, ih, pow_succ]; ring

/-- `n >= 0 -> clen(signvecsm(n)) == pow2(n)` -/
theorem clen_signvecsm (n : ℤ) : n ≥ 0 → clen (signvecsm n) = pow2 n := by
  intro _
  unfold clen signvecsm
  rw [length_signsm, pow2_eq]

theorem mem_signsm (k : ℕ) (s : List ℤ) :
    s ∈ signsm k ↔ s.length = k ∧ ∀ x ∈ s, x = -1 ∨ x = 1 := by
  induction k generalizing s with
  | zero =>
    simp only [signsm, List.mem_singleton]
    constructor
    · rintro rfl; simp
    · rintro ⟨h, _⟩; exact List.eq_nil_of_length_eq_zero h
  | succ k ih =>
    simp only [signsm, List.mem_append, List.mem_map]
    constructor
    · rintro (⟨t, ht, rfl⟩ | ⟨t, ht, rfl⟩)
      · obtain ⟨h1, h2⟩ := (ih t).mp ht
        refine ⟨by simp [h1], ?_⟩
        intro x hx
        rcases List.mem_cons.mp hx with rfl | hx
        · exact Or.inl rfl
        · exact h2 x hx
      · obtain ⟨h1, h2⟩ := (ih t).mp ht
        refine ⟨by simp [h1], ?_⟩
        intro x hx
        rcases List.mem_cons.mp hx with rfl | hx
        · exact Or.inr rfl
        · exact h2 x hx
    · rintro ⟨hl, hx⟩
      cases s with
      | nil => simp at hl
      | cons x t =>
        have ht : t ∈ signsm k :=
          (ih t).mpr ⟨by simpa using hl, fun y hy => hx y (List.mem_cons_of_mem _ hy)⟩
        rcases hx x List.mem_cons_self with rfl | rfl
        · exact Or.inl ⟨t, ht, rfl⟩
        · exact Or.inr ⟨t, ht, rfl⟩

theorem signsm_nodup (k : ℕ) : (signsm k).Nodup := by
  induction k with
  | zero => simp [signsm]
  | succ k ih =>
    rw [signsm]
    apply List.Nodup.append
    · exact ih.map (fun _ _ h => (List.cons.inj h).2)
    · exact ih.map (fun _ _ h => (List.cons.inj h).2)
    · intro c h1 h2
      obtain ⟨t, _, rfl⟩ := List.mem_map.mp h1
      obtain ⟨t', _, h⟩ := List.mem_map.mp h2
      have := (List.cons.inj h).1
      omega

/-- `|.|` and sign of a product of a sign vector with a positive vector -/
theorem smul_decomp : ∀ (s dom : List ℤ), s.length = dom.length →
    (∀ x ∈ s, x = -1 ∨ x = 1) → (∀ y ∈ dom, 1 ≤ y) →
    ((smul s dom).map (fun x => (x.natAbs : ℤ)) = dom ∧ (smul s dom).map Int.sign = s)
  | [], [], _, _, _ => ⟨rfl, rfl⟩
  | [], _ :: _, h, _, _ => by simp at h
  | _ :: _, [], h, _, _ => by simp at h
  | x :: s, y :: dom, h, hs, hd => by
    obtain ⟨ih1, ih2⟩ := smul_decomp s dom (by simpa using h)
      (fun z hz => hs z (List.mem_cons_of_mem _ hz)) (fun z hz => hd z (List.mem_cons_of_mem _ hz))
    have hx := hs x List.mem_cons_self
    have hy := hd y List.mem_cons_self
    unfold smul at *
    simp only [List.zipWith_cons_cons, List.map_cons, ih1, ih2]
    have hsy : Int.sign y = 1 := Int.sign_eq_one_of_pos (by omega)
    constructor
    · congr 1
      show ((x * y).natAbs : ℤ) = y
      rcases hx with rfl | rfl <;> omega
    · congr 1
      show Int.sign (x * y) = x
      rw [Int.sign_mul, hsy]
      rcases hx with rfl | rfl <;> simp

theorem smul_sign_abs (c : List ℤ) :
    smul (c.map Int.sign) (c.map (fun x => (x.natAbs : ℤ))) = c := by
  induction c with
  | nil => rfl
  | cons x t ih =>
    unfold smul at *
    simp only [List.map_cons, List.zipWith_cons_cons, ih, Int.sign_mul_natAbs]

/-- `valid1` in terms of the list of absolute values -/
theorem valid1_iff_abs (k n : ℤ) (c : ISeq) : valid1 k n c ↔
    (c.length = k.toNat ∧ 0 ≤ k ∧ (∀ y ∈ c.map (fun x => (x.natAbs : ℤ)), 1 ≤ y ∧ y ≤ n) ∧
     (c.map (fun x => (x.natAbs : ℤ))).Pairwise (· < ·)) := by
  constructor
  · intro h
    have he := valid1_elem k n c h
    obtain ⟨hl, _, hp⟩ := h
    unfold ilen at hl
    refine ⟨by omega, by omega, ?_, ?_⟩
    · intro y hy
      obtain ⟨x, hx, rfl⟩ := List.mem_map.mp hy
      exact he x hx
    · rw [List.pairwise_iff_getElem]
      intro i j hi hj hij
      simp only [List.length_map] at hi hj
      have := hp (i : ℤ) (j : ℤ) ⟨by omega, by omega, by omega⟩
      rw [iget_natCast c i hi, iget_natCast c j hj, zabs_eq_natAbs, zabs_eq_natAbs] at this
      simpa using this
  · rintro ⟨hl, hk, hb, hp⟩
    refine ⟨by unfold ilen; omega, ?_, ?_⟩
    · rintro j ⟨hj0, hj1⟩
      have hlt : j.toNat < c.length := by omega
      have hj : ((j.toNat : ℕ) : ℤ) = j := by omega
      have := hb _ (List.mem_map.mpr ⟨c[j.toNat], List.getElem_mem hlt, rfl⟩)
      rw [← hj, iget_natCast c _ hlt, zabs_eq_natAbs]
      exact this
    · rintro i j ⟨hi0, hij, hj1⟩
      rw [List.pairwise_iff_getElem] at hp
      have hi : i.toNat < c.length := by omega
      have hj : j.toNat < c.length := by omega
      have := hp i.toNat j.toNat (by simpa using hi) (by simpa using hj) (by omega)
      have hi' : ((i.toNat : ℕ) : ℤ) = i := by omega
      have hj' : ((j.toNat : ℕ) : ℤ) = j := by omega
      rw [← hi', ← hj', iget_natCast c _ hi, iget_natCast c _ hj, zabs_eq_natAbs, zabs_eq_natAbs]
      simpa using this

theorem apseq_pairwise_lt (st n : ℤ) : (apseq st n).Pairwise (· < ·) := by
  unfold apseq
  rw [List.pairwise_map]
  exact (List.pairwise_lt_range).imp (fun h => by omega)

/-- the domains: `k`-subsets of `1..n` as increasing lists, in `itertools.combinations` order -/
def ydomains (k n : ℤ) : CSeq := combs (apseq 1 n) k

theorem ydomains_mem (k n : ℤ) (dom : ISeq) (h : dom ∈ ydomains k n) :
    dom.length = k.toNat ∧ (∀ y ∈ dom, 1 ≤ y ∧ y ≤ n) ∧ dom.Pairwise (· < ·) := by
  unfold ydomains combs at h
  rw [mem_combsLex] at h
  refine ⟨h.2, ?_, (apseq_pairwise_lt 1 n).sublist h.1⟩
  intro y hy
  obtain ⟨j, ⟨hj0, hj1⟩, rfl⟩ := (mem_apseq 1 n y).mp (h.1.subset hy)
  omega

theorem ydomains_nodup (k n : ℤ) : (ydomains k n).Nodup := by
  unfold ydomains combs
  rw [combsLex_eq_reverse, List.nodup_reverse]
  exact List.nodup_sublistsLen _ ((apseq_pairwise_lt 1 n).imp (fun h => by omega))

/-- all clauses `smul s dom` (unfiltered), domain by domain -/
def allcl (k n : ℤ) : CSeq :=
  ((ydomains k n).map (fun dom => (signvecsm k).map (fun s => smul s dom))).flatten

theorem mem_allcl (k n : ℤ) (hk : 0 ≤ k) (c : ISeq) : c ∈ allcl k n ↔ valid1 k n c := by
  unfold allcl signvecsm
  simp only [List.mem_flatten, List.mem_map]
  rw [valid1_iff_abs]
  constructor
  · rintro ⟨l, ⟨dom, hdom, rfl⟩, hc⟩
    obtain ⟨s, hs, rfl⟩ := List.mem_map.mp hc
    obtain ⟨hdl, hdb, hdp⟩ := ydomains_mem k n dom hdom
    obtain ⟨hsl, hsx⟩ := (mem_signsm _ s).mp hs
    obtain ⟨h1, _⟩ := smul_decomp s dom (by omega) hsx (fun y hy => (hdb y hy).1)
    have hlen : (smul s dom).length = k.toNat := by
      have := congrArg List.length h1
      simp only [List.length_map] at this
      omega
    rw [h1]
    exact ⟨hlen, hk, hdb, hdp⟩
  · rintro ⟨hl, _, hb, hp⟩
    refine ⟨_, ⟨c.map (fun x => (x.natAbs : ℤ)), ?_, rfl⟩,
      List.mem_map.mpr ⟨c.map Int.sign, ?_, smul_sign_abs c⟩⟩
    · unfold ydomains combs
      rw [mem_combsLex]
      refine ⟨?_, by simp [hl]⟩
      have hsub : c.map (fun x => (x.natAbs : ℤ)) ⊆ apseq 1 n := by
        intro y hy
        have := hb y hy
        exact (mem_apseq 1 n y).mpr ⟨y - 1, ⟨by omega, by omega⟩, by ring⟩
      have hnd : (c.map (fun x => (x.natAbs : ℤ))).Nodup := hp.imp (fun h => by omega)
      exact List.sublist_of_subperm_of_pairwise (r := (· ≤ ·)) (List.subperm_of_subset hnd hsub)
        (hp.imp (fun h => by omega)) ((apseq_pairwise_lt 1 n).imp (fun h => by omega))
    · rw [mem_signsm]
      refine ⟨by simp [hl], ?_⟩
      intro x hx
      obtain ⟨z, hz, rfl⟩ := List.mem_map.mp hx
      have := hb _ (List.mem_map.mpr ⟨z, hz, rfl⟩)
      rcases lt_trichotomy z 0 with h | h | h
      · exact Or.inl (Int.sign_eq_neg_one_of_neg h)
      · subst h; simp at this
      · exact Or.inr (Int.sign_eq_one_of_pos h)

theorem allcl_nodup (k n : ℤ) : (allcl k n).Nodup := by
  unfold allcl
  rw [List.nodup_flatten]
  constructor
  · intro l hl
    obtain ⟨dom, hdom, rfl⟩ := List.mem_map.mp hl
    obtain ⟨hdl, hdb, _⟩ := ydomains_mem k n dom hdom
    apply List.Nodup.map_on _ (signsm_nodup _)
    intro s hs s' hs' heq
    obtain ⟨hsl, hsx⟩ := (mem_signsm _ s).mp hs
    obtain ⟨hsl', hsx'⟩ := (mem_signsm _ s').mp hs'
    have h1 := (smul_decomp s dom (by omega) hsx (fun y hy => (hdb y hy).1)).2
    have h2 := (smul_decomp s' dom (by omega) hsx' (fun y hy => (hdb y hy).1)).2
    rw [← h1, ← h2, heq]
  · rw [List.pairwise_map]
    apply List.Pairwise.imp_of_mem _ (ydomains_nodup k n)
    intro dom dom' hdom hdom' hne
    rw [List.disjoint_left]
    intro c hc hc'
    apply hne
    obtain ⟨s, hs, rfl⟩ := List.mem_map.mp hc
    obtain ⟨s', hs', heq⟩ := List.mem_map.mp hc'
    obtain ⟨hdl, hdb, _⟩ := ydomains_mem k n dom hdom
    obtain ⟨hdl', hdb', _⟩ := ydomains_mem k n dom' hdom'
    obtain ⟨hsl, hsx⟩ := (mem_signsm _ s).mp hs
    obtain ⟨hsl', hsx'⟩ := (mem_signsm _ s').mp hs'
    have h1 := (smul_decomp s dom (by omega) hsx (fun y hy => (hdb y hy).1)).1
    have h2 := (smul_decomp s' dom' (by omega) hsx' (fun y hy => (hdb' y hy).1)).1
    rw [← h1, ← h2, heq]

section Dense

variable (psat : ISeq → Prop)

open Classical in
/-- the planted-compatible clauses among the first `j` sign patterns over the domain `d` -/
noncomputable def ysign (k : ℤ) (d : ISeq) (j : ℤ) : CSeq :=
  (((signvecsm k).take j.toNat).map (fun s => smul s d)).filter (fun c => decide (psat c))

/-- the same over the first `t` domains -/
noncomputable def ydom (k n t : ℤ) : CSeq :=
  (((ydomains k n).take t.toNat).map (fun dom => ysign psat k dom (pow2 k))).flatten

/-- `j == 0 -> ysign(k, d, j) == cnil` -/
theorem ysign_zero (k : ℤ) (d : ISeq) (j : ℤ) : j = 0 → ysign psat k d j = cnil := by
  rintro rfl; simp [ysign, cnil]

/-- `And(0 <= j, j < pow2(k), k >= 0) -> ysign(k, d, j + 1) == If(psat(c), csnoc(ysign(k, d, j), c), ysign(k, d, j))`,
    `c = smul(cget(signvecsm(k), j), d)` -/
theorem ysign_succ (k : ℤ) (d : ISeq) (j : ℤ) : (0 ≤ j ∧ j < pow2 k ∧ k ≥ 0) →
    ysign psat k d (j + 1) =
      (open Classical in
       if psat (smul (cget (signvecsm k) j) d)
       then csnoc (ysign psat k d j) (smul (cget (signvecsm k) j) d)
       else ysign psat k d j) := by
  rintro ⟨h0, h1, _⟩
  have hlen : j.toNat < (signvecsm k).length := by
    unfold signvecsm; rw [length_signsm]; rw [pow2_eq] at h1; omega
  have hk : (j + 1).toNat = j.toNat + 1 := by omega
  have hget : cget (signvecsm k) j = (signvecsm k)[j.toNat] := by
    unfold cget
    rw [List.getD_eq_getElem?_getD, List.getElem?_eq_getElem hlen]; rfl
  unfold ysign csnoc
  rw [hk, List.take_add_one, List.getElem?_eq_getElem hlen, hget, List.map_append, List.filter_append]
  by_cases hp : psat (smul (signvecsm k)[j.toNat] d)
  · simp [hp]
  · simp [hp]

/-- `t == 0 -> ydom(k, n, t) == cnil` -/
theorem ydom_zero (k n t : ℤ) : t = 0 → ydom psat k n t = cnil := by
  rintro rfl; simp [ydom, cnil]

/-- `And(0 <= t, t < clen(D)) -> ydom(k, n, t + 1) == capp(ydom(k, n, t), ysign(k, cget(D, t), pow2(k)))`,
    `D = combs(apseq(1, n), k)` -/
theorem ydom_succ (k n t : ℤ) : (0 ≤ t ∧ t < clen (combs (apseq 1 n) k)) →
    ydom psat k n (t + 1) =
      capp (ydom psat k n t) (ysign psat k (cget (combs (apseq 1 n) k) t) (pow2 k)) := by
  rintro ⟨h0, h1⟩
  unfold clen at h1
  have hlt : t.toNat < (ydomains k n).length := by unfold ydomains; omega
  have hk : (t + 1).toNat = t.toNat + 1 := by omega
  have hget : cget (combs (apseq 1 n) k) t = (ydomains k n)[t.toNat] := by
    unfold cget ydomains
    rw [List.getD_eq_getElem?_getD, List.getElem?_eq_getElem (by unfold ydomains at hlt; exact hlt)]; rfl
  rw [hget]
  unfold ydom capp
  rw [hk, List.take_add_one, List.getElem?_eq_getElem hlt, List.map_append, List.flatten_append]
  simp

open Classical in
theorem ydom_full (k n t : ℤ) (_hk : k ≥ 0) (ht : t = clen (combs (apseq 1 n) k)) :
    ydom psat k n t = (allcl k n).filter (fun c => decide (psat c)) := by
  subst ht
  have hfull : ∀ dom : ISeq, ysign psat k dom (pow2 k) =
      ((signvecsm k).map (fun s => smul s dom)).filter (fun c => decide (psat c)) := by
    intro dom
    unfold ysign
    rw [List.take_of_length_le]
    unfold signvecsm
    rw [length_signsm, pow2_eq]
    simp
  unfold ydom allcl clen
  rw [Int.toNat_natCast]
  have : (ydomains k n).take (combs (apseq 1 n) k).length = ydomains k n := by
    unfold ydomains; exact List.take_length
  rw [this, List.filter_flatten, List.map_map]
  congr 1
  apply List.map_congr_left
  intro dom _
  exact hfull dom

/-- MAIN LEMMA `all_clauses_spec`: `And(k >= 0, n >= 0, t == clen(D)) -> And(cdistinct(ydom(k, n, t)),
    cvalid(k, n, ydom(k, n, t)), clen(ydom(k, n, t)) == navail_p(k, n))`, `D = combs(apseq(1, n), k)` -/
theorem all_clauses_spec (k n t : ℤ) : (k ≥ 0 ∧ n ≥ 0 ∧ t = clen (combs (apseq 1 n) k)) →
    (cdistinct (ydom psat k n t) ∧ cvalid psat k n (ydom psat k n t) ∧
     clen (ydom psat k n t) = navail_p psat k n) := by
  classical
  rintro ⟨hk, _, ht⟩
  rw [ydom_full psat k n t hk ht]
  have hnd : ((allcl k n).filter (fun c => decide (psat c))).Nodup := (allcl_nodup k n).filter _
  have hmem : ∀ c, c ∈ (allcl k n).filter (fun c => decide (psat c)) ↔ (valid1 k n c ∧ psat c) := by
    intro c
    rw [List.mem_filter, mem_allcl k n hk c]
    simp
  refine ⟨hnd, fun c hc => (hmem c).mp hc, ?_⟩
  unfold clen navail_p
  have hset : ({c | valid1 k n c ∧ psat c} : Set ISeq) =
      ↑((allcl k n).filter (fun c => decide (psat c))).toFinset := by
    ext c
    simp only [Set.mem_ofPred_eq, Finset.mem_coe, List.mem_toFinset]
    exact (hmem c).symm
  rw [hset, Set.ncard_coe_finset, List.toFinset_card_of_nodup hnd]

end Dense


/-! # Fourteenth batch: parity samplers (`ifront`, `ilast`, `valid1x`, `cvalidx`, `navail_x`) -/

/-- all but the last element -/
def ifront (A : ISeq) : ISeq := A.dropLast
/-- the last element (0 for the empty list) -/
def ilast (A : ISeq) : ℤ := A.getLast?.getD 0

/-- `ifront(isnoc(s, x)) == s` -/
theorem ifront_snoc (s : ISeq) (x : ℤ) : ifront (isnoc s x) = s := by simp [ifront, isnoc]
/-- `ilast(isnoc(s, x)) == x` -/
theorem ilast_snoc (s : ISeq) (x : ℤ) : ilast (isnoc s x) = x := by simp [ilast, isnoc]

/-- `ilen(A) >= 1 -> And(A == isnoc(ifront(A), ilast(A)), ilen(ifront(A)) == ilen(A) - 1)` -/
theorem front_last (A : ISeq) : ilen A ≥ 1 →
    (A = isnoc (ifront A) (ilast A) ∧ ilen (ifront A) = ilen A - 1) := by
  intro h
  rcases List.eq_nil_or_concat A with rfl | ⟨L, b, rfl⟩
  · simp [ilen] at h
  · rw [List.concat_eq_append] at h ⊢
    have h1 : ifront (L ++ [b]) = L := ifront_snoc L b
    have h2 : ilast (L ++ [b]) = b := ilast_snoc L b
    rw [h1, h2]
    exact ⟨rfl, by simp [ilen]⟩

/-- `X + [b]`: `k` strictly increasing variables of `1..n`, then a bit — literally the z3 definition -/
def valid1x (k n : ℤ) (A : ISeq) : Prop :=
  ilen A = k + 1 ∧ k ≥ 0 ∧ (ilast A = 0 ∨ ilast A = 1) ∧
  (∀ j : ℤ, (0 ≤ j ∧ j < k) → (1 ≤ iget (ifront A) j ∧ iget (ifront A) j ≤ n)) ∧
  (∀ i j : ℤ, (0 ≤ i ∧ i < j ∧ j < k) → iget (ifront A) i < iget (ifront A) j)

/-- `valid1x(k, n, A) == And(ilen(A) == k + 1, k >= 0, Or(b == 0, b == 1), ForAll([j], Implies(And(0 <= j, j < k),
    And(1 <= iget(X, j), iget(X, j) <= n))), ForAll([i, j], Implies(And(0 <= i, i < j, j < k), iget(X, i) < iget(X, j))))`,
    `X = ifront(A)`, `b = ilast(A)` -/
theorem valid1x_def (k n : ℤ) (A : ISeq) : valid1x k n A ↔
    (ilen A = k + 1 ∧ k ≥ 0 ∧ (ilast A = 0 ∨ ilast A = 1) ∧
     (∀ j : ℤ, (0 ≤ j ∧ j < k) → (1 ≤ iget (ifront A) j ∧ iget (ifront A) j ≤ n)) ∧
     (∀ i j : ℤ, (0 ≤ i ∧ i < j ∧ j < k) → iget (ifront A) i < iget (ifront A) j)) := Iff.rfl

theorem valid1x_front (k n : ℤ) (A : ISeq) (h : valid1x k n A) :
    ilen (ifront A) = k ∧ ∀ x ∈ ifront A, 1 ≤ x ∧ x ≤ n := by
  obtain ⟨hl, hk, _, hb, _⟩ := h
  have hlen : ilen (ifront A) = k := by
    have := (front_last A (by omega)).2
    omega
  refine ⟨hlen, ?_⟩
  intro x hx
  obtain ⟨m, hm, rfl⟩ := List.getElem_of_mem hx
  unfold ilen at hlen
  have := hb (m : ℤ) ⟨by omega, by omega⟩
  rw [iget_natCast _ m hm] at this
  exact this

/-- `valid1x(k, n, A) -> And(Not(haszero(X)), maxabs(X) <= zmax(n, 0), ilen(X) == k)`, `X = ifront(A)` -/
theorem valid1x_bounds (k n : ℤ) (A : ISeq) : valid1x k n A →
    (¬ haszero (ifront A) ∧ maxabs (ifront A) ≤ zmax n 0 ∧ ilen (ifront A) = k) := by
  intro h
  obtain ⟨hlen, he⟩ := valid1x_front k n A h
  rw [zmax_eq_max]
  refine ⟨?_, ?_, hlen⟩
  · intro h0
    have := he 0 h0
    omega
  · rw [maxabs_le_iff _ _ (by omega)]
    intro x hx
    have := he x hx
    omega

theorem valid1x_finite (k n : ℤ) : ({A | valid1x k n A} : Set ISeq).Finite := by
  apply Set.Finite.subset (Finset.finite_toSet (allLists (Finset.Icc 0 (max n 1)) (k + 1).toNat))
  intro A hA
  obtain ⟨_, he⟩ := valid1x_front k n A hA
  obtain ⟨hl, hk, hb, _, _⟩ := hA
  have hlen : A.length = (k + 1).toNat := by unfold ilen at hl; omega
  apply mem_allLists _ A _ hlen
  intro x hx
  rw [Finset.mem_Icc]
  have hA' := (front_last A (by omega)).1
  rw [hA'] at hx
  unfold isnoc at hx
  rcases List.mem_append.mp hx with h | h
  · have := he x h; omega
  · rw [List.mem_singleton] at h
    rcases hb with hb | hb <;> omega

section ParitySamplers

-- the parity X + [b] holds under every planted assignment of the call: an ARBITRARY predicate
variable (psatx : ISeq → Prop)

/-- every element is `valid1x` and `psatx` -/
def cvalidx (k n : ℤ) (L : CSeq) : Prop := ∀ A ∈ L, valid1x k n A ∧ psatx A
/-- number of `k`-parities over `n` variables compatible with the planted assignments -/
noncomputable def navail_x (k n : ℤ) : ℤ := (({A | valid1x k n A ∧ psatx A} : Set ISeq).ncard : ℤ)

/-- `L == cnil -> cvalidx(k, n, L)` -/
theorem cvalidx_nil (k n : ℤ) (L : CSeq) : L = cnil → cvalidx psatx k n L := by
  rintro rfl A hA; cases hA

/-- `And(cvalidx(k, n, L), cdistinct(L)) -> clen(L) <= navail_x(k, n)` -/
theorem distinct_validx_le_card (k n : ℤ) (L : CSeq) :
    (cvalidx psatx k n L ∧ cdistinct L) → clen L ≤ navail_x psatx k n := by
  rintro ⟨hv, hd⟩
  unfold clen navail_x
  have hfin : ({A | valid1x k n A ∧ psatx A} : Set ISeq).Finite :=
    (valid1x_finite k n).subset (fun _ h => h.1)
  have hsub : (↑L.toFinset : Set ISeq) ⊆ {A | valid1x k n A ∧ psatx A} := by
    intro A hA
    have : A ∈ L := by simpa using hA
    exact hv A this
  have h1 := Set.ncard_le_ncard hsub hfin
  rw [Set.ncard_coe_finset, List.toFinset_card_of_nodup hd] at h1
  exact_mod_cast h1

/-- `cvalidx(k, n, csnoc(L0, A)) == And(cvalidx(k, n, L0), valid1x(k, n, A), psatx(A))` -/
theorem cvalidx_snoc (k n : ℤ) (L0 : CSeq) (A : ISeq) :
    cvalidx psatx k n (csnoc L0 A) ↔ (cvalidx psatx k n L0 ∧ valid1x k n A ∧ psatx A) := by
  unfold cvalidx csnoc
  constructor
  · intro h
    exact ⟨fun d hd => h d (List.mem_append_left _ hd),
           h A (List.mem_append_right _ (List.mem_singleton.mpr rfl))⟩
  · rintro ⟨h1, h2⟩ d hd
    rcases List.mem_append.mp hd with h | h
    · exact h1 d h
    · rw [List.mem_singleton] at h; subst h; exact h2

/-- `And(cvalidx(k, n, L), 0 <= i, i < clen(L)) -> And(valid1x(k, n, cget(L, i)), psatx(cget(L, i)))` -/
theorem cvalidx_get (k n : ℤ) (L : CSeq) (i : ℤ) :
    (cvalidx psatx k n L ∧ 0 ≤ i ∧ i < clen L) → (valid1x k n (cget L i) ∧ psatx (cget L i)) := by
  rintro ⟨hv, h0, h1⟩
  exact hv _ (cget_mem L i ⟨h0, h1⟩)

/-- `And(csubsel(R, L), cvalidx(k, n, L)) -> cvalidx(k, n, R)` -/
theorem csubsel_cvalidx (k n : ℤ) (R L : CSeq) :
    (csubsel R L ∧ cvalidx psatx k n L) → cvalidx psatx k n R := by
  rintro ⟨hs, hv⟩ A hA
  exact hv A (csubsel_subset R L hs A hA)

end ParitySamplers


/-! # Fifteenth batch: opaque events -/

/-- one `write()` of text the contract does not look into (any fixed event; this choice also differs
    from `evcomment`, every `ev3` and every `evrow`, although no schema asks for that) -/
def evopaque : ISeq := [0]
/-- `k` such events in a row -/
def opq (k : ℤ) : CSeq := List.replicate k.toNat evopaque

/-- `k == 0 -> opq(k) == cnil` -/
theorem opq_zero (k : ℤ) : k = 0 → opq k = cnil := by
  rintro rfl; rfl

/-- `k >= 0 -> opq(k + 1) == csnoc(opq(k), evopaque)` -/
theorem opq_succ (k : ℤ) : k ≥ 0 → opq (k + 1) = csnoc (opq k) evopaque := by
  intro h
  have h1 : (k + 1).toNat = k.toNat + 1 := by omega
  unfold opq csnoc
  rw [h1, List.replicate_succ']

/-! uninterpreted in specs.py, NO schema emitted: `wid`. -/


/-! # Sixteenth batch: the dense enumeration of all planted-compatible parities -/

theorem mem_ydomains_iff (k n : ℤ) (X : ISeq) :
    X ∈ ydomains k n ↔ (X.length = k.toNat ∧ (∀ y ∈ X, 1 ≤ y ∧ y ≤ n) ∧ X.Pairwise (· < ·)) := by
  constructor
  · exact ydomains_mem k n X
  · rintro ⟨hl, hb, hp⟩
    unfold ydomains combs
    rw [mem_combsLex]
    refine ⟨?_, hl⟩
    have hsub : X ⊆ apseq 1 n := by
      intro y hy
      have := hb y hy
      exact (mem_apseq 1 n y).mpr ⟨y - 1, ⟨by omega, by omega⟩, by ring⟩
    have hnd : X.Nodup := hp.imp (fun h => by omega)
    exact List.sublist_of_subperm_of_pairwise (r := (· ≤ ·)) (List.subperm_of_subset hnd hsub)
      (hp.imp (fun h => by omega)) ((apseq_pairwise_lt 1 n).imp (fun h => by omega))

/-- index form (as in the z3 definitions) versus list form of "entries in `1..n`, strictly increasing" -/
theorem idxform_iff (k n : ℤ) (X : ISeq) (hl : X.length = k.toNat) (hk : 0 ≤ k) :
    ((∀ j : ℤ, (0 ≤ j ∧ j < k) → (1 ≤ iget X j ∧ iget X j ≤ n)) ∧
     (∀ i j : ℤ, (0 ≤ i ∧ i < j ∧ j < k) → iget X i < iget X j)) ↔
    ((∀ y ∈ X, 1 ≤ y ∧ y ≤ n) ∧ X.Pairwise (· < ·)) := by
  constructor
  · rintro ⟨hb, hp⟩
    constructor
    · intro y hy
      obtain ⟨m, hm, rfl⟩ := List.getElem_of_mem hy
      have := hb (m : ℤ) ⟨by omega, by omega⟩
      rw [iget_natCast X m hm] at this
      exact this
    · rw [List.pairwise_iff_getElem]
      intro i j hi hj hij
      have := hp (i : ℤ) (j : ℤ) ⟨by omega, by omega, by omega⟩
      rw [iget_natCast X i hi, iget_natCast X j hj] at this
      exact this
  · rintro ⟨hb, hp⟩
    constructor
    · rintro j ⟨hj0, hj1⟩
      have hlt : j.toNat < X.length := by omega
      have hj : ((j.toNat : ℕ) : ℤ) = j := by omega
      rw [← hj, iget_natCast X _ hlt]
      exact hb _ (List.getElem_mem hlt)
    · rintro i j ⟨hi0, hij, hj1⟩
      rw [List.pairwise_iff_getElem] at hp
      have hi : i.toNat < X.length := by omega
      have hj : j.toNat < X.length := by omega
      have hi' : ((i.toNat : ℕ) : ℤ) = i := by omega
      have hj' : ((j.toNat : ℕ) : ℤ) = j := by omega
      rw [← hi', ← hj', iget_natCast X _ hi, iget_natCast X _ hj]
      exact hp i.toNat j.toNat hi hj (by omega)

/-- all parities `X ++ [0]`, `X ++ [1]` (unfiltered), domain by domain -/
def allx (k n : ℤ) : CSeq := ((ydomains k n).map (fun X => [isnoc X 0, isnoc X 1])).flatten

theorem mem_allx (k n : ℤ) (hk : 0 ≤ k) (A : ISeq) : A ∈ allx k n ↔ valid1x k n A := by
  unfold allx
  simp only [List.mem_flatten, List.mem_map]
  constructor
  · rintro ⟨l, ⟨X, hX, rfl⟩, hA⟩
    obtain ⟨hl, hb, hp⟩ := (mem_ydomains_iff k n X).mp hX
    have hidx := (idxform_iff k n X hl hk).mpr ⟨hb, hp⟩
    have key : ∀ b : ℤ, (b = 0 ∨ b = 1) → valid1x k n (isnoc X b) := by
      intro b hb01
      unfold valid1x
      rw [ifront_snoc, ilast_snoc, ilen_snoc]
      exact ⟨by unfold ilen; omega, hk, hb01, hidx.1, hidx.2⟩
    simp only [List.mem_cons, List.not_mem_nil, or_false] at hA
    rcases hA with rfl | rfl
    · exact key 0 (Or.inl rfl)
    · exact key 1 (Or.inr rfl)
  · intro h
    have hv := h
    obtain ⟨hl, _, hb01, hb, hp⟩ := h
    obtain ⟨hA, hfl⟩ := front_last A (by omega)
    have hXl : (ifront A).length = k.toNat := by unfold ilen at hfl hl; omega
    have hlist := (idxform_iff k n (ifront A) hXl hk).mp ⟨hb, hp⟩
    refine ⟨_, ⟨ifront A, (mem_ydomains_iff k n _).mpr ⟨hXl, hlist.1, hlist.2⟩, rfl⟩, ?_⟩
    simp only [List.mem_cons, List.not_mem_nil, or_false]
    rcases hb01 with h0 | h1
    · left; rw [← h0]; exact hA
    · right; rw [← h1]; exact hA

theorem allx_nodup (k n : ℤ) : (allx k n).Nodup := by
  unfold allx
  rw [List.nodup_flatten]
  constructor
  · intro l hl
    obtain ⟨X, _, rfl⟩ := List.mem_map.mp hl
    simp [isnoc]
  · rw [List.pairwise_map]
    apply List.Pairwise.imp _ (ydomains_nodup k n)
    intro X X' hne
    rw [List.disjoint_left]
    intro A hA hA'
    apply hne
    have h1 : ifront A = X := by
      simp only [List.mem_cons, List.not_mem_nil, or_false] at hA
      rcases hA with rfl | rfl <;> exact ifront_snoc _ _
    have h2 : ifront A = X' := by
      simp only [List.mem_cons, List.not_mem_nil, or_false] at hA'
      rcases hA' with rfl | rfl <;> exact ifront_snoc _ _
    rw [← h1, ← h2]

section DenseParities

variable (psatx : ISeq → Prop)

open Classical in
/-- the planted-compatible parities `X+[0]`, `X+[1]` over the first `t` domains -/
noncomputable def yxdom (k n t : ℤ) : CSeq :=
  ((((ydomains k n).take t.toNat).map (fun X => [isnoc X 0, isnoc X 1])).flatten).filter
    (fun A => decide (psatx A))

/-- `t == 0 -> yxdom(k, n, t) == cnil` -/
theorem yxdom_zero (k n t : ℤ) : t = 0 → yxdom psatx k n t = cnil := by
  rintro rfl; simp [yxdom, cnil]

/-- `And(0 <= t, t < clen(D)) -> yxdom(k, n, t + 1) == If(psatx(isnoc(X, 1)), csnoc(y1, isnoc(X, 1)), y1)`,
    `y1 = If(psatx(isnoc(X, 0)), csnoc(yxdom(k, n, t), isnoc(X, 0)), yxdom(k, n, t))`,
    `X = cget(D, t)`, `D = combs(apseq(1, n), k)` -/
theorem yxdom_succ (k n t : ℤ) : (0 ≤ t ∧ t < clen (combs (apseq 1 n) k)) →
    yxdom psatx k n (t + 1) =
      (open Classical in
       if psatx (isnoc (cget (combs (apseq 1 n) k) t) 1)
       then csnoc (if psatx (isnoc (cget (combs (apseq 1 n) k) t) 0)
                   then csnoc (yxdom psatx k n t) (isnoc (cget (combs (apseq 1 n) k) t) 0)
                   else yxdom psatx k n t)
                  (isnoc (cget (combs (apseq 1 n) k) t) 1)
       else (if psatx (isnoc (cget (combs (apseq 1 n) k) t) 0)
             then csnoc (yxdom psatx k n t) (isnoc (cget (combs (apseq 1 n) k) t) 0)
             else yxdom psatx k n t)) := by
  rintro ⟨h0, h1⟩
  unfold clen at h1
  have hlt : t.toNat < (ydomains k n).length := by unfold ydomains; omega
  have hk : (t + 1).toNat = t.toNat + 1 := by omega
  have hget : cget (combs (apseq 1 n) k) t = (ydomains k n)[t.toNat] := by
    unfold cget ydomains
    rw [List.getD_eq_getElem?_getD, List.getElem?_eq_getElem (by unfold ydomains at hlt; exact hlt)]; rfl
  rw [hget]
  unfold yxdom csnoc
  rw [hk, List.take_add_one, List.getElem?_eq_getElem hlt, List.map_append, List.flatten_append,
    List.filter_append]
  by_cases hp0 : psatx (isnoc (ydomains k n)[t.toNat] 0) <;>
  by_cases hp1 : psatx (isnoc (ydomains k n)[t.toNat] 1) <;>
  simp [hp0, hp1]

open Classical in
theorem yxdom_full (k n t : ℤ) (ht : t = clen (combs (apseq 1 n) k)) :
    yxdom psatx k n t = (allx k n).filter (fun A => decide (psatx A)) := by
  subst ht
  unfold yxdom allx clen
  rw [Int.toNat_natCast]
  have : (ydomains k n).take (combs (apseq 1 n) k).length = ydomains k n := by
    unfold ydomains; exact List.take_length
  rw [this]

/-- MAIN LEMMA `all_parities_spec`: `And(k >= 0, n >= 0, t == clen(D)) -> And(cdistinct(yxdom(k, n, t)),
    cvalidx(k, n, yxdom(k, n, t)), clen(yxdom(k, n, t)) == navail_x(k, n))`, `D = combs(apseq(1, n), k)` -/
theorem all_parities_spec (k n t : ℤ) : (k ≥ 0 ∧ n ≥ 0 ∧ t = clen (combs (apseq 1 n) k)) →
    (cdistinct (yxdom psatx k n t) ∧ cvalidx psatx k n (yxdom psatx k n t) ∧
     clen (yxdom psatx k n t) = navail_x psatx k n) := by
  classical
  rintro ⟨hk, _, ht⟩
  rw [yxdom_full psatx k n t ht]
  have hnd : ((allx k n).filter (fun A => decide (psatx A))).Nodup := (allx_nodup k n).filter _
  have hmem : ∀ A, A ∈ (allx k n).filter (fun A => decide (psatx A)) ↔ (valid1x k n A ∧ psatx A) := by
    intro A
    rw [List.mem_filter, mem_allx k n hk A]
    simp
  refine ⟨hnd, fun A hA => (hmem A).mp hA, ?_⟩
  unfold clen navail_x
  have hset : ({A | valid1x k n A ∧ psatx A} : Set ISeq) =
      ↑((allx k n).filter (fun A => decide (psatx A))).toFinset := by
    ext A
    simp only [Set.mem_ofPred_eq, Finset.mem_coe, List.mem_toFinset]
    exact (hmem A).symm
  rw [hset, Set.ncard_coe_finset, List.toFinset_card_of_nodup hnd]

end DenseParities


/-! # Seventeenth batch: edge events -/

section Edges

-- e-th edge of the edge view of graph g: first / second endpoint; ARBITRARY functions
variable (gedge1 gedge2 : ℤ → ℤ → ℤ)

/-- one event per edge of the first `t` edges -/
def dedges (tid g t : ℤ) : CSeq :=
  (List.range t.toNat).map (fun (i : ℕ) => ev3 tid (gedge1 g (i : ℤ)) (gedge2 g (i : ℤ)))

/-- `t == 0 -> dedges(tid, g, t) == cnil` -/
theorem dedges_zero (tid g t : ℤ) : t = 0 → dedges gedge1 gedge2 tid g t = cnil := by
  rintro rfl; rfl

/-- `t >= 0 -> dedges(tid, g, t + 1) == csnoc(dedges(tid, g, t), ev3(tid, gedge1(g, t), gedge2(g, t)))` -/
theorem dedges_succ (tid g t : ℤ) : t ≥ 0 →
    dedges gedge1 gedge2 tid g (t + 1) =
      csnoc (dedges gedge1 gedge2 tid g t) (ev3 tid (gedge1 g t) (gedge2 g t)) := by
  intro h
  have h1 : (t + 1).toNat = t.toNat + 1 := by omega
  have h2 : ((t.toNat : ℕ) : ℤ) = t := by omega
  unfold dedges csnoc
  rw [h1, List.range_succ, List.map_append, List.map_singleton, h2]

end Edges

/-! uninterpreted in specs.py, NO schema emitted: `evnest` (and `gedge1`, `gedge2` are arbitrary functions). -/


/-! # Eighteenth batch: `degsum` (and the `iapp` schemas found alongside) -/

/-- `ilen(iapp(s, t)) == ilen(s) + ilen(t)` -/
theorem ilen_iapp (s t : ISeq) : ilen (iapp s t) = ilen s + ilen t := by simp [ilen, iapp]
/-- `haszero(iapp(s, t)) == Or(haszero(s), haszero(t))` -/
theorem haszero_iapp (s t : ISeq) : haszero (iapp s t) ↔ (haszero s ∨ haszero t) := by
  unfold haszero iapp; exact List.mem_append
/-- `maxabs(iapp(s, t)) == zmax(maxabs(s), maxabs(t))` -/
theorem maxabs_iapp (s t : ISeq) : maxabs (iapp s t) = zmax (maxabs s) (maxabs t) := by
  rw [zmax_eq_max]; exact maxabs_append s t
/-- `count(a, iapp(s, t)) == count(a, s) + count(a, t)` -/
theorem count_iapp (a : Asg) (s t : ISeq) : count a (iapp s t) = count a s + count a t := by
  unfold count countTrue iapp
  rw [List.countP_append]; push_cast; rfl

section DegSum

-- right neighbours of left vertex u in the bipartite graph g: an ARBITRARY function
variable (rnbrs : ℤ → ℤ → ISeq)

def degsumN (g : ℤ) : ℕ → ℤ
  | 0 => 0
  | m + 1 => degsumN g m + ilen (rnbrs g ((m : ℤ) + 1))

/-- number of edges at the left vertices `1..u` (0 for `u < 0`) -/
def degsum (g u : ℤ) : ℤ := degsumN rnbrs g u.toNat

/-- `u == 0 -> degsum(g, u) == 0` -/
theorem degsum_zero (g u : ℤ) : u = 0 → degsum rnbrs g u = 0 := by
  rintro rfl; rfl

/-- `u >= 0 -> degsum(g, u + 1) == degsum(g, u) + ilen(rnbrs(g, u + 1))` -/
theorem degsum_succ (g u : ℤ) :
    u ≥ 0 → degsum rnbrs g (u + 1) = degsum rnbrs g u + ilen (rnbrs g (u + 1)) := by
  intro h
  have h1 : (u + 1).toNat = u.toNat + 1 := by omega
  have h2 : ((u.toNat : ℕ) : ℤ) = u := by omega
  unfold degsum
  rw [h1, degsumN, h2]

/-- `u >= 1 -> degsum(g, u) == degsum(g, u - 1) + ilen(rnbrs(g, u))` -/
theorem degsum_pred (g u : ℤ) :
    u ≥ 1 → degsum rnbrs g u = degsum rnbrs g (u - 1) + ilen (rnbrs g u) := by
  intro h
  have := degsum_succ rnbrs g (u - 1) (by omega)
  rwa [sub_add_cancel] at this

theorem degsumN_nonneg (g : ℤ) (m : ℕ) : 0 ≤ degsumN rnbrs g m := by
  induction m with
  | zero => exact le_rfl
  | succ m ih =>
    rw [degsumN]
    have := len_nonneg (rnbrs g ((m : ℤ) + 1))
    omega

theorem degsumN_mono (g : ℤ) (m m' : ℕ) (h : m ≤ m') : degsumN rnbrs g m ≤ degsumN rnbrs g m' := by
  induction m' with
  | zero =>
    have : m = 0 := by omega
    subst this; exact le_rfl
  | succ m' ih =>
    by_cases hm : m = m' + 1
    · subst hm; exact le_rfl
    · have := ih (by omega)
      rw [degsumN]
      have h2 := len_nonneg (rnbrs g ((m' : ℤ) + 1))
      omega

/-- `u >= 0 -> degsum(g, u) >= 0` -/
theorem degsum_nonneg (g u : ℤ) : u ≥ 0 → degsum rnbrs g u ≥ 0 := by
  intro _; exact degsumN_nonneg rnbrs g _

/-- `ilen(rnbrs(g, u)) >= 0` -/
theorem ilen_rnbrs_nonneg (g u : ℤ) : ilen (rnbrs g u) ≥ 0 := len_nonneg _

/-- `And(0 <= u2, u2 <= u) -> degsum(g, u2) <= degsum(g, u)` -/
theorem degsum_mono (g u2 u : ℤ) : (0 ≤ u2 ∧ u2 ≤ u) → degsum rnbrs g u2 ≤ degsum rnbrs g u := by
  rintro ⟨h0, h1⟩
  exact degsumN_mono rnbrs g _ _ (by omega)

end DegSum


/-! # Nineteenth batch: `isorted` and min / max algebra for `iapp`, `isnoc` -/

/-- python `sorted(X)` -/
def isorted (X : ISeq) : ISeq := X.mergeSort (fun a b => decide (a ≤ b))

theorem isorted_perm (X : ISeq) : (isorted X).Perm X := List.mergeSort_perm X _

/-- adequacy: the result is sorted -/
theorem isorted_sorted (X : ISeq) : (isorted X).Pairwise (· ≤ ·) := by
  have := List.pairwise_mergeSort (le := fun a b : ℤ => decide (a ≤ b))
    (fun a b c hab hbc => by simp only [decide_eq_true_eq] at *; omega)
    (fun a b => by simp only [Bool.or_eq_true, decide_eq_true_eq]; omega) X
  exact this.imp (fun h => by simpa using h)

theorem minof_eq_of (s : ISeq) (m : ℤ) (hm : m ∈ s) (hle : ∀ x ∈ s, m ≤ x) : minof s = m :=
  le_antisymm (minof_le s m hm) (hle _ (minof_mem s (List.ne_nil_of_mem hm)))

theorem maxof_eq_of (s : ISeq) (m : ℤ) (hm : m ∈ s) (hle : ∀ x ∈ s, x ≤ m) : maxof s = m :=
  le_antisymm (hle _ (maxof_mem s (List.ne_nil_of_mem hm))) (le_maxof s m hm)

theorem minof_perm {s t : ISeq} (h : s.Perm t) : minof s = minof t := by
  by_cases hs : s = []
  · subst hs; rw [h.symm.eq_nil]
  · have ht : t ≠ [] := fun e => hs (by subst e; exact h.eq_nil)
    exact minof_eq_of s _ (h.symm.subset (minof_mem t ht)) (fun x hx => minof_le t x (h.subset hx))

theorem maxof_perm {s t : ISeq} (h : s.Perm t) : maxof s = maxof t := by
  by_cases hs : s = []
  · subst hs; rw [h.symm.eq_nil]
  · have ht : t ≠ [] := fun e => hs (by subst e; exact h.eq_nil)
    exact maxof_eq_of s _ (h.symm.subset (maxof_mem t ht)) (fun x hx => le_maxof t x (h.subset hx))

theorem maxabs_perm {s t : ISeq} (h : s.Perm t) : maxabs s = maxabs t := by
  apply le_antisymm
  · rw [maxabs_le_iff _ _ (maxabs_nonneg' t)]
    exact fun x hx => natAbs_le_maxabs t x (h.subset hx)
  · rw [maxabs_le_iff _ _ (maxabs_nonneg' s)]
    exact fun x hx => natAbs_le_maxabs s x (h.symm.subset hx)

/-- (s1) `ilen(isorted(X)) == ilen(X)` -/
theorem ilen_isorted (X : ISeq) : ilen (isorted X) = ilen X := by
  unfold ilen; rw [(isorted_perm X).length_eq]

/-- (s2) `minof(isorted(X)) == minof(X)` (no guard needed) -/
theorem minof_isorted (X : ISeq) : minof (isorted X) = minof X := minof_perm (isorted_perm X)
/-- (s2) `maxof(isorted(X)) == maxof(X)` (no guard needed) -/
theorem maxof_isorted (X : ISeq) : maxof (isorted X) = maxof X := maxof_perm (isorted_perm X)

/-- (s3) `haszero(isorted(X)) == haszero(X)` -/
theorem haszero_isorted (X : ISeq) : haszero (isorted X) ↔ haszero X := (isorted_perm X).mem_iff
/-- (s3) `maxabs(isorted(X)) == maxabs(X)` -/
theorem maxabs_isorted (X : ISeq) : maxabs (isorted X) = maxabs X := maxabs_perm (isorted_perm X)

/-- (s4) `count(a, isorted(X)) == count(a, X)` -/
theorem count_isorted (a : Asg) (X : ISeq) : count a (isorted X) = count a X := by
  unfold count countTrue; rw [(isorted_perm X).countP_eq]

/-- (s4') `count(a, ishift(isorted(X), o)) == count(a, ishift(X, o))` -/
theorem count_ishift_isorted (a : Asg) (X : ISeq) (o : ℤ) :
    count a (ishift (isorted X) o) = count a (ishift X o) := by
  unfold count countTrue ishift
  rw [((isorted_perm X).map _).countP_eq]

/-- (m1) `And(ilen(s) >= 1, ilen(t) >= 1) -> And(minof(iapp(s, t)) == zmin(minof(s), minof(t)),
    maxof(iapp(s, t)) == zmax(maxof(s), maxof(t)))` -/
theorem minmax_iapp (s t : ISeq) : (ilen s ≥ 1 ∧ ilen t ≥ 1) →
    (minof (iapp s t) = zmin (minof s) (minof t) ∧ maxof (iapp s t) = zmax (maxof s) (maxof t)) := by
  rintro ⟨hs, ht⟩
  have hsne : s ≠ [] := by rintro rfl; simp [ilen] at hs
  have htne : t ≠ [] := by rintro rfl; simp [ilen] at ht
  rw [zmin_eq_min, zmax_eq_max]
  unfold iapp
  constructor
  · apply minof_eq_of
    · rcases min_cases (minof s) (minof t) with ⟨h, _⟩ | ⟨h, _⟩ <;> rw [h]
      · exact List.mem_append_left _ (minof_mem s hsne)
      · exact List.mem_append_right _ (minof_mem t htne)
    · intro x hx
      rcases List.mem_append.mp hx with h | h
      · have := minof_le s x h; omega
      · have := minof_le t x h; omega
  · apply maxof_eq_of
    · rcases max_cases (maxof s) (maxof t) with ⟨h, _⟩ | ⟨h, _⟩ <;> rw [h]
      · exact List.mem_append_left _ (maxof_mem s hsne)
      · exact List.mem_append_right _ (maxof_mem t htne)
    · intro x hx
      rcases List.mem_append.mp hx with h | h
      · have := le_maxof s x h; omega
      · have := le_maxof t x h; omega

/-- (m2) `ilen(t) == 0 -> iapp(s, t) == s` -/
theorem iapp_nil_right (s t : ISeq) : ilen t = 0 → iapp s t = s := by
  intro h; rw [nil_of_length_zero t h]; simp [iapp, inil]
/-- (m2) `ilen(s) == 0 -> iapp(s, t) == t` -/
theorem iapp_nil_left (s t : ISeq) : ilen s = 0 → iapp s t = t := by
  intro h; rw [nil_of_length_zero s h]; simp [iapp, inil]

/-- (m3) `ilen(s) == 0 -> And(minof(isnoc(s, x)) == x, maxof(isnoc(s, x)) == x)` -/
theorem minmax_snoc_nil (s : ISeq) (x : ℤ) : ilen s = 0 →
    (minof (isnoc s x) = x ∧ maxof (isnoc s x) = x) := by
  intro h; rw [nil_of_length_zero s h]; exact ⟨rfl, rfl⟩

/-- (m3) `ilen(s) >= 1 -> And(minof(isnoc(s, x)) == zmin(minof(s), x), maxof(isnoc(s, x)) == zmax(maxof(s), x))` -/
theorem minmax_snoc (s : ISeq) (x : ℤ) : ilen s ≥ 1 →
    (minof (isnoc s x) = zmin (minof s) x ∧ maxof (isnoc s x) = zmax (maxof s) x) := by
  intro h
  have := minmax_iapp s [x] ⟨h, by simp [ilen]⟩
  simpa [iapp, isnoc, minof, maxof] using this


/-! # Twentieth batch: more `iofarr` -/

/-- `n <= 0 -> iofarr(A, n) == inil` -/
theorem iofarr_nil (A : ℤ → ℤ) (n : ℤ) : n ≤ 0 → iofarr A n = inil := by
  intro h
  have : n.toNat = 0 := by omega
  simp [iofarr, inil, this]

/-- (p) `m >= 1 -> iofarr(A, m) == isnoc(iofarr(A, m - 1), Select(A, m - 1))` -/
theorem iofarr_pred (A : ℤ → ℤ) (m : ℤ) : m ≥ 1 → iofarr A m = isnoc (iofarr A (m - 1)) (A (m - 1)) := by
  intro h
  have h1 : m.toNat = (m - 1).toNat + 1 := by omega
  have h2 : (((m - 1).toNat : ℕ) : ℤ) = m - 1 := by omega
  unfold iofarr isnoc
  rw [h1, List.range_succ, List.map_append, List.map_singleton, h2]

/-- (g) `k >= m -> iofarr(Store(A, k, x), m) == iofarr(A, m)` -/
theorem iofarr_store_ge (A : ℤ → ℤ) (k x m : ℤ) :
    k ≥ m → iofarr (Function.update A k x) m = iofarr A m := by
  intro h
  unfold iofarr
  apply List.map_congr_left
  intro i hi
  rw [List.mem_range] at hi
  exact Function.update_of_ne (by omega) _ _

/-! ## rows / columns of a mapping group (`mvar` arbitrary); schemas found alongside pass 20 -/

section Mapping

variable (mvar : ℤ → ℤ → ℤ → ℤ)

/-- the variables `p[u,1..m]`, in order -/
def mrow (g u m : ℤ) : ISeq := (List.range m.toNat).map (fun (j : ℕ) => mvar g u ((j : ℤ) + 1))
/-- the variables `p[1..n,v]`, in order -/
def mcol (g v n : ℤ) : ISeq := (List.range n.toNat).map (fun (j : ℕ) => mvar g ((j : ℤ) + 1) v)

/-- `m >= 0 -> ilen(mrow(g, u, m)) == m` -/
theorem ilen_mrow (g u m : ℤ) : m ≥ 0 → ilen (mrow mvar g u m) = m := by
  intro h; simp [ilen, mrow]; omega
/-- `n >= 0 -> ilen(mcol(g, v, n)) == n` -/
theorem ilen_mcol (g v n : ℤ) : n ≥ 0 → ilen (mcol mvar g v n) = n := by
  intro h; simp [ilen, mcol]; omega

/-- `And(0 <= i, i < m) -> iget(mrow(g, u, m), i) == mvar(g, u, i + 1)` -/
theorem iget_mrow (g u m i : ℤ) : (0 ≤ i ∧ i < m) → iget (mrow mvar g u m) i = mvar g u (i + 1) := by
  rintro ⟨h0, h1⟩
  have hlt : i.toNat < m.toNat := by omega
  have hi : ((i.toNat : ℕ) : ℤ) = i := by omega
  unfold iget mrow
  rw [List.getD_eq_getElem?_getD, List.getElem?_map, List.getElem?_range hlt]
  simp [hi]

/-- `And(0 <= i, i < n) -> iget(mcol(g, v, n), i) == mvar(g, i + 1, v)` -/
theorem iget_mcol (g v n i : ℤ) : (0 ≤ i ∧ i < n) → iget (mcol mvar g v n) i = mvar g (i + 1) v := by
  rintro ⟨h0, h1⟩
  have hlt : i.toNat < n.toNat := by omega
  have hi : ((i.toNat : ℕ) : ℤ) = i := by omega
  unfold iget mcol
  rw [List.getD_eq_getElem?_getD, List.getElem?_map, List.getElem?_range hlt]
  simp [hi]

end Mapping


/-! # Twenty-first batch: the enumeration `combs(apseq(s, n), k)` lists pairwise distinct subsets -/

theorem combs_nodup (S : ISeq) (k : ℤ) (h : S.Nodup) : (combs S k).Nodup := by
  unfold combs
  rw [combsLex_eq_reverse, List.nodup_reverse]
  exact List.nodup_sublistsLen _ h

theorem cget_eq_getElem (C : CSeq) (i : ℤ) (h0 : 0 ≤ i) (h1 : i < clen C) :
    cget C i = C[i.toNat]'(by unfold clen at h1; omega) := by
  unfold clen at h1
  have hlt : i.toNat < C.length := by omega
  unfold cget
  rw [List.getD_eq_getElem?_getD, List.getElem?_eq_getElem hlt]; rfl

/-- (d) `And(0 <= i, i < j, j < clen(combs(apseq(s, n), k))) ->
    cget(combs(apseq(s, n), k), i) != cget(combs(apseq(s, n), k), j)` (no guard on `s`, `n`, `k`) -/
theorem combs_apseq_distinct (s n k i j : ℤ) :
    (0 ≤ i ∧ i < j ∧ j < clen (combs (apseq s n) k)) →
    cget (combs (apseq s n) k) i ≠ cget (combs (apseq s n) k) j := by
  rintro ⟨h0, hij, hj⟩
  have hnd : (combs (apseq s n) k).Nodup :=
    combs_nodup _ k ((apseq_pairwise_lt s n).imp (fun h => by omega))
  rw [cget_eq_getElem _ i h0 (by omega), cget_eq_getElem _ j (by omega) hj]
  intro heq
  have := (List.Nodup.getElem_inj_iff hnd).mp heq
  omega

/-- (m) `And(k >= 0, 0 <= i, i < clen(combs(S, k))) -> ilen(cget(combs(S, k), i)) == k`
    (any list `S`; `k >= 0` is needed: for `k < 0` the model has the single element `[]`) -/
theorem combs_elem_len (S : ISeq) (k i : ℤ) :
    (k ≥ 0 ∧ 0 ≤ i ∧ i < clen (combs S k)) → ilen (cget (combs S k) i) = k := by
  rintro ⟨hk, h0, h1⟩
  have hm : cget (combs S k) i ∈ combsLex k.toNat S := cget_mem (combs S k) i ⟨h0, h1⟩
  rw [mem_combsLex] at hm
  unfold ilen
  omega


/-! # Twenty-second batch: `sqr` -/

def sqr (t : ℤ) : ℤ := t * t

/-- `sqr(t) >= 0` -/
theorem sqr_nonneg (t : ℤ) : sqr t ≥ 0 := mul_self_nonneg t
/-- `(sqr(t) == 0) == (t == 0)` -/
theorem sqr_eq_zero_iff (t : ℤ) : sqr t = 0 ↔ t = 0 := by
  unfold sqr; exact mul_self_eq_zero
/-- `sqr(t) >= t` -/
theorem sqr_ge_self (t : ℤ) : sqr t ≥ t := by
  unfold sqr; nlinarith [mul_self_nonneg t, mul_self_nonneg (t - 1)]
/-- `sqr(t) >= -t` -/
theorem sqr_ge_neg (t : ℤ) : sqr t ≥ -t := by
  unfold sqr; nlinarith [mul_self_nonneg t, mul_self_nonneg (t + 1)]
/-- the four facts together -/
theorem sqr_facts (t : ℤ) : sqr t ≥ 0 ∧ (sqr t = 0 ↔ t = 0) ∧ sqr t ≥ t ∧ sqr t ≥ -t :=
  ⟨sqr_nonneg t, sqr_eq_zero_iff t, sqr_ge_self t, sqr_ge_neg t⟩


/-! # Twenty-third batch: sorted subsets of a progression, `pairlits` -/

/-- (a) `And(k >= 0, 0 <= i, i < clen(C), 0 <= p, p < q, q < ilen(cget(C, i))) ->
    And(s <= iget(cget(C, i), p), iget(cget(C, i), p) < iget(cget(C, i), q), iget(cget(C, i), q) < s + n)`,
    `C = combs(apseq(s, n), k)` (the guard `k >= 0` is not needed) -/
theorem combs_apseq_sorted (s n k i p q : ℤ) :
    (k ≥ 0 ∧ 0 ≤ i ∧ i < clen (combs (apseq s n) k) ∧ 0 ≤ p ∧ p < q ∧
      q < ilen (cget (combs (apseq s n) k) i)) →
    (s ≤ iget (cget (combs (apseq s n) k) i) p ∧
     iget (cget (combs (apseq s n) k) i) p < iget (cget (combs (apseq s n) k) i) q ∧
     iget (cget (combs (apseq s n) k) i) q < s + n) := by
  rintro ⟨_, hi0, hi1, hp0, hpq, hq⟩
  have hm : cget (combs (apseq s n) k) i ∈ combsLex k.toNat (apseq s n) :=
    cget_mem (combs (apseq s n) k) i ⟨hi0, hi1⟩
  rw [mem_combsLex] at hm
  generalize cget (combs (apseq s n) k) i = F at hm hq ⊢
  have hpw : F.Pairwise (· < ·) := (apseq_pairwise_lt s n).sublist hm.1
  unfold ilen at hq
  have hpl : p.toNat < F.length := by omega
  have hql : q.toNat < F.length := by omega
  have e1 : iget F p = F[p.toNat] := by
    unfold iget; rw [List.getD_eq_getElem?_getD, List.getElem?_eq_getElem hpl]; rfl
  have e2 : iget F q = F[q.toNat] := by
    unfold iget; rw [List.getD_eq_getElem?_getD, List.getElem?_eq_getElem hql]; rfl
  rw [e1, e2]
  have hlt := (List.pairwise_iff_getElem.mp hpw) p.toNat q.toNat hpl hql (by omega)
  obtain ⟨j1, ⟨hj1, _⟩, h1⟩ := (mem_apseq s n _).mp (hm.1.subset (List.getElem_mem hpl))
  obtain ⟨j2, ⟨_, hj2⟩, h2⟩ := (mem_apseq s n _).mp (hm.1.subset (List.getElem_mem hql))
  omega

theorem combsLex_map {α β : Type} (f : α → β) (k : ℕ) (l : List α) :
    combsLex k (l.map f) = (combsLex k l).map (List.map f) := by
  induction l generalizing k with
  | nil => cases k <;> simp [combsLex]
  | cons a l ih =>
    cases k with
    | zero => simp [combsLex]
    | succ k => simp [combsLex, ih, List.map_map, Function.comp_def]

theorem length_combsLex_two {α : Type} (l : List α) :
    (2 : ℤ) * ((combsLex 2 l).length : ℤ) = (l.length : ℤ) * ((l.length : ℤ) - 1) := by
  induction l with
  | nil => simp [combsLex]
  | cons a l ih =>
    have h : combsLex 2 (a :: l) = (combsLex 1 l).map (fun r => a :: r) ++ combsLex 2 l := rfl
    rw [h, combsLex_one, List.length_append, List.length_map, List.length_map, List.length_cons]
    push_cast
    linear_combination ih

section PairLits

-- variable of the pair u < v in combinations group g: an ARBITRARY function
variable (cvar : ℤ → ℤ → ℤ → ℤ)

/-- `[cvar(g, S[p], S[q]) for p < q]` in `itertools.combinations(S, 2)` order -/
def pairlits (g : ℤ) (S : ISeq) : ISeq :=
  (combsLex 2 S).map (fun pr => cvar g (pr.getD 0 0) (pr.getD 1 0))

/-- the position pairs `[p, q]`, `p < q < n`, in `itertools.combinations(range(n), 2)` order -/
def pospairs (n : ℕ) : List (List ℕ) := combsLex 2 (List.range n)
/-- first / second position of the `t`-th pair of `itertools.combinations(S, 2)` (depend on `len S` and `t` only) -/
def pl1 (S : ISeq) (t : ℤ) : ℤ := ((((pospairs S.length).getD t.toNat []).getD 0 0 : ℕ) : ℤ)
def pl2 (S : ISeq) (t : ℤ) : ℤ := ((((pospairs S.length).getD t.toNat []).getD 1 0 : ℕ) : ℤ)

/-- (b) `2 * ilen(pairlits(g, S)) == ilen(S) * (ilen(S) - 1)` -/
theorem ilen_pairlits (g : ℤ) (S : ISeq) : 2 * ilen (pairlits cvar g S) = ilen S * (ilen S - 1) := by
  unfold ilen pairlits
  rw [List.length_map]
  exact length_combsLex_two S

theorem pospairs_mem (n : ℕ) (pr : List ℕ) (h : pr ∈ pospairs n) :
    ∃ p q : ℕ, pr = [p, q] ∧ p < q ∧ q < n := by
  unfold pospairs at h
  rw [mem_combsLex] at h
  obtain ⟨hsub, hlen⟩ := h
  match pr, hlen with
  | [p, q], _ =>
    have hpw : [p, q].Pairwise (· < ·) := (List.pairwise_lt_range).sublist hsub
    have hq : q ∈ List.range n := hsub.subset (by simp)
    simp only [List.pairwise_cons, List.mem_singleton, forall_eq] at hpw
    exact ⟨p, q, rfl, hpw.1, List.mem_range.mp hq⟩

theorem pairlits_eq (g : ℤ) (S : ISeq) :
    pairlits cvar g S =
      (pospairs S.length).map (fun pr => cvar g (S.getD (pr.getD 0 0) 0) (S.getD (pr.getD 1 0) 0)) := by
  have hS : S = (List.range S.length).map (fun i => S.getD i 0) := by
    apply List.ext_getElem
    · simp
    · intro i h1 h2
      simp only [List.getElem_map, List.getElem_range]
      rw [List.getD_eq_getElem?_getD, List.getElem?_eq_getElem h1]; rfl
  unfold pairlits pospairs
  conv_lhs => rw [hS, combsLex_map, List.map_map]
  apply List.map_congr_left
  intro pr hpr
  obtain ⟨p, q, rfl, _, _⟩ := pospairs_mem S.length pr hpr
  simp

/-- (c') `And(0 <= t, t < ilen(pairlits(g, S))) -> And(0 <= pl1(S, t), pl1(S, t) < pl2(S, t), pl2(S, t) < ilen(S),
    iget(pairlits(g, S), t) == cvar(g, iget(S, pl1(S, t)), iget(S, pl2(S, t))))` -/
theorem iget_pairlits (g : ℤ) (S : ISeq) (t : ℤ) : (0 ≤ t ∧ t < ilen (pairlits cvar g S)) →
    (0 ≤ pl1 S t ∧ pl1 S t < pl2 S t ∧ pl2 S t < ilen S ∧
     iget (pairlits cvar g S) t = cvar g (iget S (pl1 S t)) (iget S (pl2 S t))) := by
  rintro ⟨h0, h1⟩
  rw [pairlits_eq] at h1 ⊢
  unfold ilen at h1
  rw [List.length_map] at h1
  have hlt : t.toNat < (pospairs S.length).length := by omega
  have hmem : (pospairs S.length)[t.toNat] ∈ pospairs S.length := List.getElem_mem hlt
  obtain ⟨p, q, hpq, hlt1, hlt2⟩ := pospairs_mem _ _ hmem
  have hget : (pospairs S.length).getD t.toNat [] = [p, q] := by
    rw [List.getD_eq_getElem?_getD, List.getElem?_eq_getElem hlt]; exact hpq
  have e1 : pl1 S t = (p : ℤ) := by unfold pl1; rw [hget]; rfl
  have e2 : pl2 S t = (q : ℤ) := by unfold pl2; rw [hget]; rfl
  rw [e1, e2]
  refine ⟨by omega, by omega, by unfold ilen; omega, ?_⟩
  unfold iget
  rw [List.getD_eq_getElem?_getD, List.getElem?_map, List.getElem?_eq_getElem hlt, hpq]
  simp

end PairLits


/-! # Twenty-fourth batch: `imem`, `ipos`, `imemp`, `cntstar`, `combs_apseq_range` -/

/-- `x` occurs in the list `S` -/
def imem (S : ISeq) (x : ℤ) : Prop := x ∈ S
instance (S : ISeq) (x : ℤ) : Decidable (imem S x) := by unfold imem; infer_instance
/-- the first position of `x` in `S` (`len S` if there is none) -/
def ipos (S : ISeq) (x : ℤ) : ℤ := ((S.findIdx (fun y => y == x) : ℕ) : ℤ)
/-- `x` occurs among the first `n` entries of `S` -/
def imemp (S : ISeq) (n x : ℤ) : Prop := x ∈ S.take n.toNat

/-- (i1) `imem(S, x) -> And(0 <= ipos(S, x), ipos(S, x) < ilen(S), iget(S, ipos(S, x)) == x)` -/
theorem imem_witness (S : ISeq) (x : ℤ) :
    imem S x → (0 ≤ ipos S x ∧ ipos S x < ilen S ∧ iget S (ipos S x) = x) := by
  intro h
  obtain ⟨h0, h1, h2⟩ := findIdx_witness S (fun y => y == x) ⟨x, h, by simp⟩
  exact ⟨h0, h1, beq_iff_eq.mp h2⟩

/-- (i2) `And(0 <= k, k < ilen(S), iget(S, k) == x) -> imem(S, x)` -/
theorem imem_of_get (S : ISeq) (k x : ℤ) : (0 ≤ k ∧ k < ilen S ∧ iget S k = x) → imem S x := by
  rintro ⟨h0, h1, rfl⟩
  exact iget_mem S k h0 h1

/-- (p0) `n <= 0 -> Not(imemp(S, n, x))` -/
theorem imemp_zero (S : ISeq) (n x : ℤ) : n ≤ 0 → ¬ imemp S n x := by
  intro h
  have : n.toNat = 0 := by omega
  simp [imemp, this]

/-- (p1) `And(0 <= n, n < ilen(S)) -> imemp(S, n + 1, x) == Or(imemp(S, n, x), iget(S, n) == x)` -/
theorem imemp_succ (S : ISeq) (n x : ℤ) : (0 ≤ n ∧ n < ilen S) →
    (imemp S (n + 1) x ↔ (imemp S n x ∨ iget S n = x)) := by
  rintro ⟨h0, h1⟩
  unfold ilen at h1
  have hlt : n.toNat < S.length := by omega
  have hk : (n + 1).toNat = n.toNat + 1 := by omega
  unfold imemp iget
  rw [hk, List.take_add_one, List.getElem?_eq_getElem hlt, List.getD_eq_getElem?_getD,
    List.getElem?_eq_getElem hlt]
  simp only [Option.toList_some, List.mem_append, List.mem_singleton, Option.getD_some]
  constructor
  · rintro (h | h)
    · exact Or.inl h
    · exact Or.inr h.symm
  · rintro (h | h)
    · exact Or.inl h
    · exact Or.inr h.symm

/-- (p2) `And(1 <= n, n <= ilen(S)) -> imemp(S, n, x) == Or(imemp(S, n - 1, x), iget(S, n - 1) == x)` -/
theorem imemp_pred (S : ISeq) (n x : ℤ) : (1 ≤ n ∧ n ≤ ilen S) →
    (imemp S n x ↔ (imemp S (n - 1) x ∨ iget S (n - 1) = x)) := by
  rintro ⟨h1, h2⟩
  have := imemp_succ S (n - 1) x ⟨by omega, by omega⟩
  rwa [sub_add_cancel] at this

/-- (p3) `n >= ilen(S) -> imemp(S, n, x) == imem(S, x)` -/
theorem imemp_full (S : ISeq) (n x : ℤ) : n ≥ ilen S → (imemp S n x ↔ imem S x) := by
  intro h
  unfold ilen at h
  unfold imemp imem
  rw [List.take_of_length_le (by omega)]

def cntstarN (a : Asg) (off : ℤ) (C : CSeq) (i : ℤ) : ℕ → ℤ
  | 0 => 0
  | m + 1 => cntstarN a off C i m +
      (if imem (cget C (m : ℤ)) i ∧ lit_true a (off + 1 + (m : ℤ)) then 1 else 0)

/-- the number of `0 ≤ j < t` with `imem(cget(C, j), i)` and `lit_true(a, off + 1 + j)` -/
def cntstar (a : Asg) (off : ℤ) (C : CSeq) (i t : ℤ) : ℤ := cntstarN a off C i t.toNat

/-- (c0) `t == 0 -> cntstar(a, off, C, i, t) == 0` -/
theorem cntstar_zero (a : Asg) (off : ℤ) (C : CSeq) (i t : ℤ) : t = 0 → cntstar a off C i t = 0 := by
  rintro rfl; rfl

/-- (c1) `t >= 0 -> cntstar(a, off, C, i, t + 1) == cntstar(a, off, C, i, t) +
    If(And(imem(cget(C, t), i), lit_true(a, off + 1 + t)), 1, 0)` -/
theorem cntstar_succ (a : Asg) (off : ℤ) (C : CSeq) (i t : ℤ) : t ≥ 0 →
    cntstar a off C i (t + 1) = cntstar a off C i t +
      (if imem (cget C t) i ∧ lit_true a (off + 1 + t) then 1 else 0) := by
  intro h
  have h1 : (t + 1).toNat = t.toNat + 1 := by omega
  have h2 : ((t.toNat : ℕ) : ℤ) = t := by omega
  unfold cntstar
  rw [h1, cntstarN, h2]

/-- (c2) `t >= 1 -> cntstar(a, off, C, i, t) == cntstar(a, off, C, i, t - 1) +
    If(And(imem(cget(C, t - 1), i), lit_true(a, off + 1 + (t - 1))), 1, 0)` (literal form of specs.py) -/
theorem cntstar_pred (a : Asg) (off : ℤ) (C : CSeq) (i t : ℤ) : t ≥ 1 →
    cntstar a off C i t = cntstar a off C i (t - 1) +
      (if imem (cget C (t - 1)) i ∧ lit_true a (off + 1 + (t - 1)) then 1 else 0) := by
  intro h
  have := cntstar_succ a off C i (t - 1) (by omega)
  rwa [sub_add_cancel] at this

/-- (c2) with the literal argument simplified: `off + 1 + (t - 1) = off + t` -/
theorem cntstar_pred' (a : Asg) (off : ℤ) (C : CSeq) (i t : ℤ) : t ≥ 1 →
    cntstar a off C i t = cntstar a off C i (t - 1) +
      (if imem (cget C (t - 1)) i ∧ lit_true a (off + t) then 1 else 0) := by
  intro h
  have := cntstar_pred a off C i t h
  have e : off + 1 + (t - 1) = off + t := by ring
  rwa [e] at this

/-- (r) `And(k >= 0, 0 <= i, i < clen(C), 0 <= p, p < ilen(cget(C, i))) ->
    And(s <= iget(cget(C, i), p), iget(cget(C, i), p) < s + n)`, `C = combs(apseq(s, n), k)` -/
theorem combs_apseq_range (s n k i p : ℤ) :
    (k ≥ 0 ∧ 0 ≤ i ∧ i < clen (combs (apseq s n) k) ∧ 0 ≤ p ∧
      p < ilen (cget (combs (apseq s n) k) i)) →
    (s ≤ iget (cget (combs (apseq s n) k) i) p ∧ iget (cget (combs (apseq s n) k) i) p < s + n) := by
  rintro ⟨_, hi0, hi1, hp0, hp1⟩
  have hm : cget (combs (apseq s n) k) i ∈ combsLex k.toNat (apseq s n) :=
    cget_mem (combs (apseq s n) k) i ⟨hi0, hi1⟩
  rw [mem_combsLex] at hm
  have := hm.1.subset (iget_mem _ p hp0 hp1)
  obtain ⟨j, ⟨hj0, hj1⟩, h⟩ := (mem_apseq s n _).mp this
  omega


/-! # Twenty-fifth batch: listed subsets of a progression are strictly increasing, hence duplicate-free -/

theorem combs_apseq_elem_pairwise (s n0 k i : ℤ) (h : 0 ≤ i ∧ i < clen (combs (apseq s n0) k)) :
    (cget (combs (apseq s n0) k) i).Pairwise (· < ·) := by
  have hm : cget (combs (apseq s n0) k) i ∈ combsLex k.toNat (apseq s n0) :=
    cget_mem (combs (apseq s n0) k) i h
  rw [mem_combsLex] at hm
  exact (apseq_pairwise_lt s n0).sublist hm.1

theorem iget_eq_getElem (F : ISeq) (p : ℤ) (h0 : 0 ≤ p) (h1 : p < ilen F) :
    iget F p = F[p.toNat]'(by unfold ilen at h1; omega) := by
  unfold ilen at h1
  have hpl : p.toNat < F.length := by omega
  unfold iget; rw [List.getD_eq_getElem?_getD, List.getElem?_eq_getElem hpl]; rfl

/-- (g) `And(0 <= i, i < clen(C), 0 <= p, p < q, q < ilen(cget(C, i))) -> iget(cget(C, i), p) < iget(cget(C, i), q)`,
    `C = combs(apseq(s, n0), k)` (no guard on `k`) -/
theorem combs_apseq_lt (s n0 k i p q : ℤ) :
    (0 ≤ i ∧ i < clen (combs (apseq s n0) k) ∧ 0 ≤ p ∧ p < q ∧
      q < ilen (cget (combs (apseq s n0) k) i)) →
    iget (cget (combs (apseq s n0) k) i) p < iget (cget (combs (apseq s n0) k) i) q := by
  rintro ⟨hi0, hi1, hp0, hpq, hq⟩
  have hpw := combs_apseq_elem_pairwise s n0 k i ⟨hi0, hi1⟩
  generalize cget (combs (apseq s n0) k) i = F at hpw hq ⊢
  rw [iget_eq_getElem F p hp0 (by omega), iget_eq_getElem F q (by omega) hq]
  unfold ilen at hq
  exact (List.pairwise_iff_getElem.mp hpw) p.toNat q.toNat (by omega) (by omega) (by omega)

/-- (f) `And(0 <= i, i < clen(C), 0 <= n, n < ilen(cget(C, i))) ->
    Not(imemp(cget(C, i), n, iget(cget(C, i), n)))`, `C = combs(apseq(s, n0), k)` -/
theorem combs_apseq_fresh (s n0 k i n : ℤ) :
    (0 ≤ i ∧ i < clen (combs (apseq s n0) k) ∧ 0 ≤ n ∧ n < ilen (cget (combs (apseq s n0) k) i)) →
    ¬ imemp (cget (combs (apseq s n0) k) i) n (iget (cget (combs (apseq s n0) k) i) n) := by
  rintro ⟨hi0, hi1, hn0, hn1⟩ hmem
  have hpw := combs_apseq_elem_pairwise s n0 k i ⟨hi0, hi1⟩
  generalize cget (combs (apseq s n0) k) i = F at hpw hn1 hmem
  unfold imemp at hmem
  rw [iget_eq_getElem F n hn0 hn1] at hmem
  unfold ilen at hn1
  obtain ⟨m, hm, heq⟩ := List.mem_take_iff_getElem.mp hmem
  have hm' : m < n.toNat ∧ m < F.length := by simpa using hm
  have := (List.pairwise_iff_getElem.mp hpw) m n.toNat hm'.2 (by omega) hm'.1
  omega

end CnfSem
