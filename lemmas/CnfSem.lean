import Mathlib.Data.List.Basic
import Mathlib.Data.List.Sublists
import Mathlib.Tactic

/-!
# CnfSem: definitions of the abstract z3 functions of `/verif/pyvc/specs.py` and proofs of every
lemma schema that `specs.py` instantiates (functions `_l_len`, `_l_clen`, `_l2`, `_lct`, `_lbasic`,
`_lcbasic`, `_on_terms`, `_sem_on_terms`).

Interpretation of the z3 sorts:   Asg := ℕ → Bool,   ISeq := List ℤ,   CSeq := List (List ℤ).
Every z3 function of sort `Int` is ℤ-valued here as well (casts of lengths etc. are inside the
definitions), z3 `Bool`-valued functions are `Prop`s, z3 `==` between Booleans is `↔`,
`zmax / zmin / zabs / b2i` are defined with the same `if` as the python helpers, so each theorem
below is a literal transcription of the z3 formula named in its doc-string.

The file is self contained (`lean CnfSem.lean`); every statement below is proved, nothing is postulated.
-/

namespace CnfSem

abbrev Asg := ℕ → Bool
abbrev ISeq := List ℤ
abbrev CSeq := List (List ℤ)

/-! ## python helpers `zmax`, `zmin`, `zabs`, `b2i` (same `If` as in specs.py) -/

def zmax (a b : ℤ) : ℤ := if a ≥ b then a else b
def zmin (a b : ℤ) : ℤ := if a ≤ b then a else b
def zabs (a : ℤ) : ℤ := if a ≥ 0 then a else -a
def b2i (b : Prop) [Decidable b] : ℤ := if b then 1 else 0

theorem zmax_eq_max (a b : ℤ) : zmax a b = max a b := by unfold zmax; split <;> omega
theorem zmin_eq_min (a b : ℤ) : zmin a b = min a b := by unfold zmin; split <;> omega
theorem zabs_eq_natAbs (a : ℤ) : zabs a = (a.natAbs : ℤ) := by unfold zabs; split <;> omega
theorem zabs_eq_abs (a : ℤ) : zabs a = |a| := by
  rw [zabs_eq_natAbs]; exact (Int.abs_eq_natAbs a).symm

/-! ## integer sequences -/

def ilen (s : ISeq) : ℤ := (s.length : ℤ)
def iget (s : ISeq) (i : ℤ) : ℤ := s.getD i.toNat 0
def inil : ISeq := []
def isnoc (s : ISeq) (x : ℤ) : ISeq := s ++ [x]
def iapp (s t : ISeq) : ISeq := s ++ t
/-- `[-l for l in s]` -/
def ineg (s : ISeq) : ISeq := s.map (fun l => -l)
/-- `0 in s` -/
def haszero (s : ISeq) : Prop := (0 : ℤ) ∈ s

/-- maximum of a non-empty list (0 for the empty list; no schema depends on that value) -/
def maxof : ISeq → ℤ
  | [] => 0
  | [x] => x
  | x :: y :: t => max x (maxof (y :: t))

/-- minimum of a non-empty list (0 for the empty list; no schema depends on that value) -/
def minof : ISeq → ℤ
  | [] => 0
  | [x] => x
  | x :: y :: t => min x (minof (y :: t))

/-- `max |l|` over the list, 0 for the empty list -/
def maxabs (s : ISeq) : ℤ := s.foldr (fun x m => max (x.natAbs : ℤ) m) 0

/-! ## semantics -/

/-- truth of the integer literal `l` (`l ≠ 0`) under `α`; same definition as design_probes/Count.lean -/
def litTrue (α : Asg) (l : ℤ) : Bool := if 0 < l then α l.natAbs else !(α l.natAbs)
/-- z3 `lit_true` -/
def lit_true (α : Asg) (l : ℤ) : Prop := litTrue α l = true
instance (α : Asg) (l : ℤ) : Decidable (lit_true α l) := by unfold lit_true; infer_instance

def countTrue (α : Asg) (s : ISeq) : ℕ := s.countP (litTrue α)
/-- z3 `count`: number of true literals -/
def count (α : Asg) (s : ISeq) : ℤ := (countTrue α s : ℤ)
/-- z3 `ctrue`: some literal of the clause is true -/
def ctrue (α : Asg) (s : ISeq) : Prop := ∃ l ∈ s, litTrue α l = true

/-! ## clause sequences -/

def clen (c : CSeq) : ℤ := (c.length : ℤ)
def cget (c : CSeq) (i : ℤ) : ISeq := c.getD i.toNat []
def cnil : CSeq := []
def csnoc (c : CSeq) (s : ISeq) : CSeq := c ++ [s]
def capp (c d : CSeq) : CSeq := c ++ d
/-- `c[:k]` for `0 ≤ k` (python slicing with `k ≤ len c`; for `k < 0` this is `[]`) -/
def ctake (c : CSeq) (k : ℤ) : CSeq := c.take k.toNat
/-- `itertools.combinations(s, k)` as a list of clauses.  `List.sublistsLen` enumerates the
    `k`-element sublists in a different ORDER than itertools (itertools is lexicographic in
    positions; `List.sublistsLen 2 [1,2,3,4] = [[3,4],[2,4],[2,3],[1,4],[1,3],[1,2]]`, i.e. the
    reverse on this example).  None of the schemas currently stated in specs.py depends on the
    order: they only speak about `sat`, `cmaxabs`, `chaszero` of the whole family, which are
    invariant under permutation of the clauses.  If a schema about `cget(combs(..), i)` or
    `ctake(combs(..), k)` is ever added, this definition must be revisited.
    For `k < 0` python raises ValueError whereas this gives `[[]]`; the unguarded schemas
    (`combs_maxabs_le`, `combs_no_zero`) hold for that value as well. -/
def combs (s : ISeq) (k : ℤ) : CSeq := List.sublistsLen k.toNat s
/-- z3 `sat`: every clause true -/
def sat (α : Asg) (c : CSeq) : Prop := ∀ s ∈ c, ctrue α s
/-- max |literal| over all clauses, 0 if none -/
def cmaxabs (c : CSeq) : ℤ := c.foldr (fun s m => max (maxabs s) m) 0
/-- some clause contains the literal 0 -/
def chaszero (c : CSeq) : Prop := ∃ s ∈ c, haszero s
/-- `2**x` for `x ≥ 0` -/
def pow2 (x : ℤ) : ℤ := 2 ^ x.toNat

/-! ## adequacy of the recursive definitions (not schemas; they pin down the intended meaning) -/

theorem maxabs_cons (x : ℤ) (t : ISeq) : maxabs (x :: t) = max (x.natAbs : ℤ) (maxabs t) := rfl
theorem cmaxabs_cons (s : ISeq) (t : CSeq) : cmaxabs (s :: t) = max (maxabs s) (cmaxabs t) := rfl

theorem maxabs_nonneg' (s : ISeq) : 0 ≤ maxabs s := by
  induction s with
  | nil => simp [maxabs]
  | cons x t ih => rw [maxabs_cons]; omega

theorem cmaxabs_nonneg' (c : CSeq) : 0 ≤ cmaxabs c := by
  induction c with
  | nil => simp [cmaxabs]
  | cons x t ih => rw [cmaxabs_cons]; omega

/-- `maxabs` is an upper bound of all `|x|` … -/
theorem abs_le_maxabs (s : ISeq) : ∀ x ∈ s, |x| ≤ maxabs s := by
  induction s with
  | nil => intro x hx; cases hx
  | cons y t ih =>
    intro x hx
    rw [maxabs_cons]
    rcases List.mem_cons.mp hx with rfl | h
    · rw [Int.abs_eq_natAbs]; omega
    · have := ih x h; omega

/-- … and is attained on non-empty lists. -/
theorem maxabs_attained (s : ISeq) (h : s ≠ []) : ∃ x ∈ s, maxabs s = |x| := by
  induction s with
  | nil => exact absurd rfl h
  | cons y t ih =>
    rw [maxabs_cons]
    by_cases ht : t = []
    · subst ht
      refine ⟨y, List.mem_cons_self, ?_⟩
      rw [Int.abs_eq_natAbs]; simp [maxabs]
    · obtain ⟨x, hx, hxe⟩ := ih ht
      by_cases hle : maxabs t ≤ (y.natAbs : ℤ)
      · exact ⟨y, List.mem_cons_self, by rw [Int.abs_eq_natAbs]; omega⟩
      · exact ⟨x, List.mem_cons_of_mem _ hx, by rw [← hxe]; omega⟩

theorem le_maxof (s : ISeq) : ∀ x ∈ s, x ≤ maxof s := by
  induction s with
  | nil => intro x hx; cases hx
  | cons y t ih =>
    cases t with
    | nil => intro x hx; simp at hx; subst hx; simp [maxof]
    | cons z t' =>
      intro x hx
      simp only [maxof]
      rcases List.mem_cons.mp hx with rfl | h
      · omega
      · have := ih x h; omega

theorem maxof_mem (s : ISeq) (h : s ≠ []) : maxof s ∈ s := by
  induction s with
  | nil => exact absurd rfl h
  | cons y t ih =>
    cases t with
    | nil => simp [maxof]
    | cons z t' =>
      simp only [maxof]
      have := ih (by simp)
      by_cases hle : maxof (z :: t') ≤ y
      · rw [max_eq_left hle]; exact List.mem_cons_self
      · rw [max_eq_right (by omega)]; exact List.mem_cons_of_mem _ this

theorem minof_le (s : ISeq) : ∀ x ∈ s, minof s ≤ x := by
  induction s with
  | nil => intro x hx; cases hx
  | cons y t ih =>
    cases t with
    | nil => intro x hx; simp at hx; subst hx; simp [minof]
    | cons z t' =>
      intro x hx
      simp only [minof]
      rcases List.mem_cons.mp hx with rfl | h
      · omega
      · have := ih x h; omega

theorem minof_mem (s : ISeq) (h : s ≠ []) : minof s ∈ s := by
  induction s with
  | nil => exact absurd rfl h
  | cons y t ih =>
    cases t with
    | nil => simp [minof]
    | cons z t' =>
      simp only [minof]
      have := ih (by simp)
      by_cases hle : y ≤ minof (z :: t')
      · rw [min_eq_left hle]; exact List.mem_cons_self
      · rw [min_eq_right (by omega)]; exact List.mem_cons_of_mem _ this

theorem maxabs_le_iff (s : ISeq) (b : ℤ) (hb : 0 ≤ b) :
    maxabs s ≤ b ↔ ∀ x ∈ s, (x.natAbs : ℤ) ≤ b := by
  induction s with
  | nil => simp [maxabs, hb]
  | cons y t ih =>
    rw [maxabs_cons]
    constructor
    · intro h x hx
      rcases List.mem_cons.mp hx with rfl | hx'
      · omega
      · exact (ih.mp (by omega)) x hx'
    · intro h
      have h1 := h y List.mem_cons_self
      have h2 := ih.mpr (fun x hx => h x (List.mem_cons_of_mem _ hx))
      omega

theorem cmaxabs_le_iff (c : CSeq) (b : ℤ) (hb : 0 ≤ b) :
    cmaxabs c ≤ b ↔ ∀ s ∈ c, maxabs s ≤ b := by
  induction c with
  | nil => simp [cmaxabs, hb]
  | cons y t ih =>
    rw [cmaxabs_cons]
    constructor
    · intro h x hx
      rcases List.mem_cons.mp hx with rfl | hx'
      · omega
      · exact (ih.mp (by omega)) x hx'
    · intro h
      have h1 := h y List.mem_cons_self
      have h2 := ih.mpr (fun x hx => h x (List.mem_cons_of_mem _ hx))
      omega

theorem maxabs_le_cmaxabs (c : CSeq) : ∀ s ∈ c, maxabs s ≤ cmaxabs c :=
  (cmaxabs_le_iff c (cmaxabs c) (cmaxabs_nonneg' c)).mp le_rfl

theorem natAbs_le_maxabs (s : ISeq) : ∀ x ∈ s, (x.natAbs : ℤ) ≤ maxabs s :=
  (maxabs_le_iff s (maxabs s) (maxabs_nonneg' s)).mp le_rfl

theorem maxabs_append (s t : ISeq) : maxabs (s ++ t) = max (maxabs s) (maxabs t) := by
  induction s with
  | nil => have := maxabs_nonneg' t; simp [maxabs] at *; omega
  | cons y s ih => rw [List.cons_append, maxabs_cons, maxabs_cons, ih]; omega

theorem cmaxabs_append (c d : CSeq) : cmaxabs (c ++ d) = max (cmaxabs c) (cmaxabs d) := by
  induction c with
  | nil => have := cmaxabs_nonneg' d; simp [cmaxabs] at *; omega
  | cons y s ih => rw [List.cons_append, cmaxabs_cons, cmaxabs_cons, ih]; omega

theorem litTrue_neg (α : Asg) (l : ℤ) (h : l ≠ 0) : litTrue α (-l) = !(litTrue α l) := by
  unfold litTrue
  rcases lt_trichotomy l 0 with hl | hl | hl
  · have h1 : (0:ℤ) < -l := by omega
    have h2 : ¬ (0:ℤ) < l := by omega
    simp [h2]; omega
  · exact absurd hl h
  · have h1 : ¬ (0:ℤ) < -l := by omega
    simp [hl]; omega

/-! # Schemas of specs.py -/

/-! ## `LEMMAS` (sort-indexed schemas) -/

/-- `_l_len`: `ilen(s) >= 0` -/
theorem len_nonneg (s : ISeq) : ilen s ≥ 0 := by unfold ilen; omega

/-- `_l_clen`: `clen(c) >= 0` -/
theorem clen_nonneg (c : CSeq) : clen c ≥ 0 := by unfold clen; omega

/-- `_l2` (L2) first conjunct: `count(a, s) >= 0` -/
theorem count_nonneg (a : Asg) (s : ISeq) : count a s ≥ 0 := by unfold count; omega

/-- `_l2` (L2) second conjunct: `count(a, s) <= ilen(s)` -/
theorem count_le_length (a : Asg) (s : ISeq) : count a s ≤ ilen s := by
  unfold count ilen countTrue
  exact_mod_cast List.countP_le_length

/-- `_l2` as one statement -/
theorem count_bounds (a : Asg) (s : ISeq) : count a s ≥ 0 ∧ count a s ≤ ilen s :=
  ⟨count_nonneg a s, count_le_length a s⟩

/-- `_lct`: `ctrue(a, s) == (count(a, s) >= 1)` -/
theorem ctrue_iff_count_pos (a : Asg) (s : ISeq) : ctrue a s ↔ count a s ≥ 1 := by
  unfold ctrue count countTrue
  have : (1 : ℤ) ≤ ((List.countP (litTrue a) s : ℕ) : ℤ) ↔ 0 < List.countP (litTrue a) s := by omega
  rw [ge_iff_le, this, List.countP_pos_iff]

/-- `_lbasic`[0]: `ilen(s) == 0 -> s == inil` -/
theorem nil_of_length_zero (s : ISeq) : ilen s = 0 → s = inil := by
  unfold ilen inil
  intro h
  exact List.eq_nil_of_length_eq_zero (by exact_mod_cast h)

/-- `_lbasic`[1]: `haszero(s) -> ilen(s) > 0` -/
theorem haszero_pos (s : ISeq) : haszero s → ilen s > 0 := by
  unfold haszero ilen
  intro h
  have := List.length_pos_of_mem h
  omega

/-- `_lbasic`[2]: `maxabs(s) >= 0` -/
theorem maxabs_nonneg (s : ISeq) : maxabs s ≥ 0 := maxabs_nonneg' s

/-- `_lbasic`[3]: `ilen(s) > 0 -> maxabs(s) == zmax(maxof(s), -minof(s))` -/
theorem maxabs_eq_max_min (s : ISeq) : ilen s > 0 → maxabs s = zmax (maxof s) (-minof s) := by
  rw [zmax_eq_max]
  induction s with
  | nil => intro h; simp [ilen] at h
  | cons y t ih =>
    intro _
    cases t with
    | nil => simp only [maxabs, maxof, minof, List.foldr]; omega
    | cons z t' =>
      have := ih (by simp [ilen])
      rw [maxabs_cons, this]
      simp only [maxof, minof]
      omega

/-- `_lcbasic`[0]: `clen(c) == 0 -> c == cnil` -/
theorem cnil_of_length_zero (c : CSeq) : clen c = 0 → c = cnil := by
  unfold clen cnil
  intro h
  exact List.eq_nil_of_length_eq_zero (by exact_mod_cast h)

/-- `_lcbasic`[1]: `cmaxabs(c) >= 0` -/
theorem cmaxabs_nonneg (c : CSeq) : cmaxabs c ≥ 0 := cmaxabs_nonneg' c

/-! ## `_on_terms` : `ineg` -/

/-- `ilen(ineg(s)) == ilen(s)` -/
theorem ilen_neg (s : ISeq) : ilen (ineg s) = ilen s := by simp [ilen, ineg]

/-- `Not(haszero(s)) -> Not(haszero(ineg(s)))` -/
theorem haszero_neg (s : ISeq) : ¬ haszero s → ¬ haszero (ineg s) := by
  unfold haszero ineg
  intro h h'
  obtain ⟨x, hx, hx0⟩ := List.mem_map.mp h'
  have : x = 0 := by omega
  exact h (this ▸ hx)

/-- `maxabs(ineg(s)) == maxabs(s)` -/
theorem maxabs_neg (s : ISeq) : maxabs (ineg s) = maxabs s := by
  unfold ineg
  induction s with
  | nil => rfl
  | cons y t ih => rw [List.map_cons, maxabs_cons, maxabs_cons, ih]; simp

/-! ## `_on_terms` : `isnoc` -/

/-- `ilen(isnoc(s, x)) == ilen(s) + 1` -/
theorem ilen_snoc (s : ISeq) (x : ℤ) : ilen (isnoc s x) = ilen s + 1 := by simp [ilen, isnoc]

/-- `maxabs(isnoc(s, x)) == zmax(maxabs(s), zabs(x))` -/
theorem maxabs_snoc (s : ISeq) (x : ℤ) : maxabs (isnoc s x) = zmax (maxabs s) (zabs x) := by
  rw [zmax_eq_max, zabs_eq_natAbs]
  unfold isnoc
  rw [maxabs_append]
  simp [maxabs]

/-- `haszero(isnoc(s, x)) == Or(haszero(s), x == 0)` -/
theorem haszero_snoc (s : ISeq) (x : ℤ) : haszero (isnoc s x) ↔ (haszero s ∨ x = 0) := by
  unfold haszero isnoc
  rw [List.mem_append, List.mem_singleton]
  constructor <;> rintro (h | h)
  · exact Or.inl h
  · exact Or.inr h.symm
  · exact Or.inl h
  · exact Or.inr h.symm

/-! ## `_on_terms` : `csnoc` -/

/-- `chaszero(csnoc(c, s)) == Or(chaszero(c), haszero(s))` -/
theorem chaszero_snoc (c : CSeq) (s : ISeq) : chaszero (csnoc c s) ↔ (chaszero c ∨ haszero s) := by
  unfold chaszero csnoc
  constructor
  · rintro ⟨t, ht, h0⟩
    rcases List.mem_append.mp ht with h | h
    · exact Or.inl ⟨t, h, h0⟩
    · rw [List.mem_singleton] at h; subst h; exact Or.inr h0
  · rintro (⟨t, ht, h0⟩ | h)
    · exact ⟨t, List.mem_append_left _ ht, h0⟩
    · exact ⟨s, List.mem_append_right _ (List.mem_singleton.mpr rfl), h⟩

/-- `csnoc(capp(x, y), s) == capp(x, csnoc(y, s))`  (syntactic-match branch `c.eq(capp(x, y))`) -/
theorem app_snoc (x y : CSeq) (s : ISeq) : csnoc (capp x y) s = capp x (csnoc y s) := by
  simp [csnoc, capp, List.append_assoc]

/-- `c == capp(x, y) -> csnoc(c, s) == capp(x, csnoc(y, s))`  (guarded branch) -/
theorem app_snoc_of_eq (c x y : CSeq) (s : ISeq) :
    c = capp x y → csnoc c s = capp x (csnoc y s) := by
  rintro rfl; exact app_snoc x y s

/-- `clen(csnoc(c, s)) == clen(c) + 1` -/
theorem clen_snoc (c : CSeq) (s : ISeq) : clen (csnoc c s) = clen c + 1 := by simp [clen, csnoc]

/-- `csnoc(c, s) == capp(c, csnoc(cnil, s))` -/
theorem snoc_eq_app_single (c : CSeq) (s : ISeq) : csnoc c s = capp c (csnoc cnil s) := by
  simp [csnoc, capp, cnil]

/-- `cmaxabs(csnoc(c, s)) == zmax(cmaxabs(c), maxabs(s))` -/
theorem cmaxabs_snoc (c : CSeq) (s : ISeq) : cmaxabs (csnoc c s) = zmax (cmaxabs c) (maxabs s) := by
  rw [zmax_eq_max]
  unfold csnoc
  rw [cmaxabs_append]
  have := maxabs_nonneg' s
  simp only [cmaxabs, List.foldr]
  omega

/-! ## `_on_terms` : `capp` -/

/-- `chaszero(capp(c, d)) == Or(chaszero(c), chaszero(d))` -/
theorem chaszero_app (c d : CSeq) : chaszero (capp c d) ↔ (chaszero c ∨ chaszero d) := by
  unfold chaszero capp
  constructor
  · rintro ⟨t, ht, h0⟩
    rcases List.mem_append.mp ht with h | h
    · exact Or.inl ⟨t, h, h0⟩
    · exact Or.inr ⟨t, h, h0⟩
  · rintro (⟨t, ht, h0⟩ | ⟨t, ht, h0⟩)
    · exact ⟨t, List.mem_append_left _ ht, h0⟩
    · exact ⟨t, List.mem_append_right _ ht, h0⟩

/-- `clen(capp(c, d)) == clen(c) + clen(d)` -/
theorem clen_app (c d : CSeq) : clen (capp c d) = clen c + clen d := by simp [clen, capp]

/-- `cmaxabs(capp(c, d)) == zmax(cmaxabs(c), cmaxabs(d))` -/
theorem cmaxabs_app (c d : CSeq) : cmaxabs (capp c d) = zmax (cmaxabs c) (cmaxabs d) := by
  rw [zmax_eq_max]; exact cmaxabs_append c d

/-- `d == cnil -> capp(c, d) == c` -/
theorem app_nil_right (c d : CSeq) : d = cnil → capp c d = c := by
  rintro rfl; simp [capp, cnil]

/-- `c == cnil -> capp(c, d) == d` -/
theorem app_nil_left (c d : CSeq) : c = cnil → capp c d = d := by
  rintro rfl; simp [capp, cnil]

/-! ## `_on_terms` : `ctake` -/

/-- `And(0 <= k, k <= clen(x)) -> ctake(capp(x, y), k) == ctake(x, k)` -/
theorem take_append_le (x y : CSeq) (k : ℤ) :
    (0 ≤ k ∧ k ≤ clen x) → ctake (capp x y) k = ctake x k := by
  unfold clen ctake capp
  rintro ⟨h0, h1⟩
  exact List.take_append_of_le_length (by omega)

/-- `And(c == capp(x, y), 0 <= k, k <= clen(x)) -> ctake(c, k) == ctake(x, k)` -/
theorem take_append_le_of_eq (c x y : CSeq) (k : ℤ) :
    (c = capp x y ∧ 0 ≤ k ∧ k ≤ clen x) → ctake c k = ctake x k := by
  rintro ⟨rfl, h⟩; exact take_append_le x y k h

/-- `And(0 <= k, k <= clen(x)) -> ctake(csnoc(x, y), k) == ctake(x, k)` -/
theorem take_snoc_le (x : CSeq) (y : ISeq) (k : ℤ) :
    (0 ≤ k ∧ k ≤ clen x) → ctake (csnoc x y) k = ctake x k := by
  unfold clen ctake csnoc
  rintro ⟨h0, h1⟩
  exact List.take_append_of_le_length (by omega)

/-- `And(c == csnoc(x, y), 0 <= k, k <= clen(x)) -> ctake(c, k) == ctake(x, k)` -/
theorem take_snoc_le_of_eq (c x : CSeq) (y : ISeq) (k : ℤ) :
    (c = csnoc x y ∧ 0 ≤ k ∧ k ≤ clen x) → ctake c k = ctake x k := by
  rintro ⟨rfl, h⟩; exact take_snoc_le x y k h

/-- `And(0 <= k, k <= k2, k2 <= clen(c2), c == ctake(c2, k2)) -> ctake(c, k) == ctake(c2, k)` -/
theorem take_take (c c2 : CSeq) (k k2 : ℤ) :
    (0 ≤ k ∧ k ≤ k2 ∧ k2 ≤ clen c2 ∧ c = ctake c2 k2) → ctake c k = ctake c2 k := by
  rintro ⟨h0, h1, _, rfl⟩
  unfold ctake
  rw [List.take_take, min_eq_left (by omega)]

/-- `Not(chaszero(c)) -> Not(chaszero(ctake(c, k)))`  (no side condition on `k`) -/
theorem chaszero_take (c : CSeq) (k : ℤ) : ¬ chaszero c → ¬ chaszero (ctake c k) := by
  unfold chaszero ctake
  rintro h ⟨t, ht, h0⟩
  exact h ⟨t, List.mem_of_mem_take ht, h0⟩

/-- `k == 0 -> ctake(c, k) == cnil` -/
theorem take_zero (c : CSeq) (k : ℤ) : k = 0 → ctake c k = cnil := by
  rintro rfl; simp [ctake, cnil]

/-- `k == clen(c) -> ctake(c, k) == c` -/
theorem take_all (c : CSeq) (k : ℤ) : k = clen c → ctake c k = c := by
  rintro rfl; simp [ctake, clen]

/-- `And(0 <= k, k <= clen(c)) -> clen(ctake(c, k)) == k` -/
theorem length_take (c : CSeq) (k : ℤ) : (0 ≤ k ∧ k ≤ clen c) → clen (ctake c k) = k := by
  unfold clen ctake
  rintro ⟨h0, h1⟩
  rw [List.length_take, min_eq_left (by omega)]
  omega

/-- `And(0 <= k, k < clen(c)) -> ctake(c, k + 1) == csnoc(ctake(c, k), cget(c, k))` -/
theorem take_succ_snoc (c : CSeq) (k : ℤ) :
    (0 ≤ k ∧ k < clen c) → ctake c (k + 1) = csnoc (ctake c k) (cget c k) := by
  unfold clen ctake csnoc cget
  rintro ⟨h0, h1⟩
  have hk : (k + 1).toNat = k.toNat + 1 := by omega
  have hlt : k.toNat < c.length := by omega
  rw [hk, List.take_add_one, List.getD_eq_getElem?_getD, List.getElem?_eq_getElem hlt]
  simp

/-- `And(0 <= k, k <= clen(c)) -> cmaxabs(ctake(c, k)) <= cmaxabs(c)` (holds for every `k`) -/
theorem cmaxabs_take_le (c : CSeq) (k : ℤ) :
    (0 ≤ k ∧ k ≤ clen c) → cmaxabs (ctake c k) ≤ cmaxabs c := by
  intro _
  unfold ctake
  rw [cmaxabs_le_iff _ _ (cmaxabs_nonneg' c)]
  intro s hs
  exact maxabs_le_cmaxabs c s (List.mem_of_mem_take hs)

/-! ## `_on_terms` : `combs` -/

/-- `cmaxabs(combs(s, k)) <= maxabs(s)`  (no side condition on `k`) -/
theorem combs_maxabs_le (s : ISeq) (k : ℤ) : cmaxabs (combs s k) ≤ maxabs s := by
  unfold combs
  rw [cmaxabs_le_iff _ _ (maxabs_nonneg' s)]
  intro t ht
  rw [List.mem_sublistsLen] at ht
  rw [maxabs_le_iff _ _ (maxabs_nonneg' s)]
  intro x hx
  exact natAbs_le_maxabs s x (ht.1.subset hx)

/-- `Not(haszero(s)) -> Not(chaszero(combs(s, k)))` -/
theorem combs_no_zero (s : ISeq) (k : ℤ) : ¬ haszero s → ¬ chaszero (combs s k) := by
  unfold haszero chaszero combs
  rintro h ⟨t, ht, h0⟩
  rw [List.mem_sublistsLen] at ht
  exact h (ht.1.subset h0)

/-! ## `_on_terms` : `cget` -/

theorem cget_mem (c : CSeq) (i : ℤ) (h : 0 ≤ i ∧ i < clen c) : cget c i ∈ c := by
  unfold clen at h
  unfold cget
  have hlt : i.toNat < c.length := by omega
  rw [List.getD_eq_getElem?_getD, List.getElem?_eq_getElem hlt]
  exact List.getElem_mem hlt

/-- `And(0 <= i, i < clen(c)) -> maxabs(cget(c, i)) <= cmaxabs(c)` -/
theorem cget_maxabs_le (c : CSeq) (i : ℤ) :
    (0 ≤ i ∧ i < clen c) → maxabs (cget c i) ≤ cmaxabs c :=
  fun h => maxabs_le_cmaxabs c _ (cget_mem c i h)

/-- `And(0 <= i, i < clen(c), Not(chaszero(c))) -> Not(haszero(cget(c, i)))` -/
theorem cget_no_zero (c : CSeq) (i : ℤ) :
    (0 ≤ i ∧ i < clen c ∧ ¬ chaszero c) → ¬ haszero (cget c i) := by
  rintro ⟨h0, h1, h⟩ hz
  exact h ⟨cget c i, cget_mem c i ⟨h0, h1⟩, hz⟩

/-! ## `_on_terms` : `pow2` -/

/-- `x >= 0 -> pow2(x) >= 1` -/
theorem pow2_pos (x : ℤ) : x ≥ 0 → pow2 x ≥ 1 := by
  intro _
  unfold pow2
  have : (0:ℤ) < 2 ^ x.toNat := by positivity
  omega

/-- `x == 0 -> pow2(x) == 1` -/
theorem pow2_zero (x : ℤ) : x = 0 → pow2 x = 1 := by
  rintro rfl; simp [pow2]

/-- `x >= 0 -> pow2(x + 1) == 2 * pow2(x)` -/
theorem pow2_succ (x : ℤ) : x ≥ 0 → pow2 (x + 1) = 2 * pow2 x := by
  intro h
  unfold pow2
  have : (x + 1).toNat = x.toNat + 1 := by omega
  rw [this, pow_succ]; ring

/-- `x >= 1 -> pow2(x) == 2 * pow2(x - 1)` -/
theorem pow2_pred (x : ℤ) : x ≥ 1 → pow2 x = 2 * pow2 (x - 1) := by
  intro h
  have := pow2_succ (x - 1) (by omega)
  rwa [sub_add_cancel] at this

/-! ## `_on_terms` : constants -/

/-- `clen(cnil) == 0` -/
theorem clen_nil : clen cnil = 0 := rfl
/-- `ilen(inil) == 0` -/
theorem ilen_nil : ilen inil = 0 := rfl
/-- `cmaxabs(cnil) == 0` -/
theorem cmaxabs_nil : cmaxabs cnil = 0 := rfl
/-- `Not(chaszero(cnil))` -/
theorem chaszero_nil : ¬ chaszero cnil := by rintro ⟨t, ht, _⟩; cases ht
/-- `maxabs(inil) == 0` -/
theorem maxabs_nil : maxabs inil = 0 := rfl
/-- `Not(haszero(inil))` -/
theorem haszero_nil : ¬ haszero inil := by intro h; cases h

/-! ## `_sem_on_terms` -/

/-- `sat(a, cnil)` -/
theorem sat_nil (a : Asg) : sat a cnil := by intro s hs; cases hs

/-- `count(a, inil) == 0` -/
theorem count_nil (a : Asg) : count a inil = 0 := rfl

/-- L3 on naturals: negating every (non-zero) literal complements the count -/
theorem countTrue_neg (α : Asg) (ls : List ℤ) (hnz : ∀ l ∈ ls, l ≠ 0) :
    countTrue α (ls.map (fun l => -l)) + countTrue α ls = ls.length := by
  induction ls with
  | nil => simp [countTrue]
  | cons l t ih =>
    have hl : l ≠ 0 := hnz l List.mem_cons_self
    have ht : ∀ x ∈ t, x ≠ 0 := fun x hx => hnz x (List.mem_cons_of_mem _ hx)
    have := ih ht
    unfold countTrue at *
    rw [List.countP_map] at this
    simp only [List.map_cons, List.countP_cons, List.length_cons, litTrue_neg α l hl]
    by_cases h : litTrue α l = true
    · simp [h]; omega
    · have hf : litTrue α l = false := by simpa using h
      simp [hf]; omega

/-- L3: `Not(haszero(s)) -> count(a, ineg(s)) == ilen(s) - count(a, s)` -/
theorem count_neg (a : Asg) (s : ISeq) : ¬ haszero s → count a (ineg s) = ilen s - count a s := by
  intro h
  have := countTrue_neg a s (fun l hl h0 => h (show (0:ℤ) ∈ s from h0 ▸ hl))
  unfold count ilen ineg
  omega

/-- `count(a, isnoc(s, x)) == count(a, s) + b2i(lit_true(a, x))` -/
theorem count_snoc (a : Asg) (s : ISeq) (x : ℤ) :
    count a (isnoc s x) = count a s + b2i (lit_true a x) := by
  unfold count countTrue isnoc b2i lit_true
  rw [List.countP_append]
  by_cases h : litTrue a x = true
  · simp [h]
  · simp [h]

/-- L1: `sat(a, capp(c, d)) == And(sat(a, c), sat(a, d))` -/
theorem sat_append (a : Asg) (c d : CSeq) : sat a (capp c d) ↔ (sat a c ∧ sat a d) := by
  unfold sat capp
  simp only [List.mem_append]
  constructor
  · intro h; exact ⟨fun s hs => h s (Or.inl hs), fun s hs => h s (Or.inr hs)⟩
  · rintro ⟨h1, h2⟩ s (hs | hs)
    · exact h1 s hs
    · exact h2 s hs

/-- L1 instance: `sat(a, csnoc(c, s)) == And(sat(a, c), ctrue(a, s))` -/
theorem sat_snoc (a : Asg) (c : CSeq) (s : ISeq) : sat a (csnoc c s) ↔ (sat a c ∧ ctrue a s) := by
  have := sat_append a c [s]
  unfold capp at this
  unfold csnoc
  rw [this]
  constructor
  · rintro ⟨h1, h2⟩; exact ⟨h1, h2 s (List.mem_singleton.mpr rfl)⟩
  · rintro ⟨h1, h2⟩
    refine ⟨h1, ?_⟩
    intro t ht
    rw [List.mem_singleton] at ht
    subst ht; exact h2

/-! ### L4 BLAST -/

theorem length_filter_not_add {β} (p : β → Bool) (l : List β) :
    (l.filter (fun x => !p x)).length + l.countP p = l.length := by
  induction l with
  | nil => simp
  | cons a t ih =>
    by_cases h : p a = true
    · simp [h]; omega
    · simp [h]; omega

theorem blast_generic {β} (p : β → Bool) (l : List β) (k : ℕ) (_hk : 1 ≤ k) (hkn : k ≤ l.length) :
    (∀ s ∈ List.sublistsLen k l, ∃ x ∈ s, p x = true) ↔ l.length - k + 1 ≤ l.countP p := by
  have hlen := length_filter_not_add p l
  constructor
  · intro h
    by_contra hlt
    push Not at hlt
    have hF : k ≤ (l.filter (fun x => !p x)).length := by omega
    have hs : (l.filter (fun x => !p x)).take k ∈ List.sublistsLen k l := by
      rw [List.mem_sublistsLen]
      refine ⟨(List.take_sublist _ _).trans List.filter_sublist, ?_⟩
      simp [List.length_take, hF]
    obtain ⟨x, hx, hpx⟩ := h _ hs
    have hx' : x ∈ l.filter (fun x => !p x) := List.mem_of_mem_take hx
    simp [List.mem_filter] at hx'
    simp [hx'.2] at hpx
  · intro h s hs
    rw [List.mem_sublistsLen] at hs
    by_contra hno
    push Not at hno
    have hsub : List.Sublist (s.filter (fun x => !p x)) (l.filter (fun x => !p x)) := hs.1.filter _
    have hall : s.filter (fun x => !p x) = s := by
      rw [List.filter_eq_self]
      intro a ha
      have := hno a ha
      simp [this]
    rw [hall] at hsub
    have := hsub.length_le
    omega

/-- L4: `And(1 <= k, k <= ilen(s)) -> sat(a, combs(s, k)) == (count(a, s) >= ilen(s) - k + 1)` -/
theorem blast (a : Asg) (s : ISeq) (k : ℤ) :
    (1 ≤ k ∧ k ≤ ilen s) → (sat a (combs s k) ↔ count a s ≥ ilen s - k + 1) := by
  unfold ilen
  rintro ⟨h1, h2⟩
  have hg := blast_generic (litTrue a) s k.toNat (by omega) (by omega)
  unfold sat ctrue combs count countTrue
  rw [hg]
  omega

end CnfSem
