import Mathlib.Data.List.Basic
import Mathlib.Tactic

/-! DIST: distributing a disjunction of CNFs by cartesian product (apply_substitution). -/

variable {L : Type}

def clauseT (t : L → Prop) (c : List L) : Prop := ∃ l ∈ c, t l
def cnfT (t : L → Prop) (F : List (List L)) : Prop := ∀ c ∈ F, clauseT t c

/-- cartesian product in the order of `itertools.product(*Ds)` -/
def cart : List (List (List L)) → List (List (List L))
  | [] => [[]]
  | D :: Ds => D.flatMap (fun c => (cart Ds).map (fun r => c :: r))

theorem clauseT_append (t : L → Prop) (a b : List L) :
    clauseT t (a ++ b) ↔ clauseT t a ∨ clauseT t b := by
  unfold clauseT
  constructor
  · rintro ⟨l, hl, h⟩
    rcases List.mem_append.mp hl with h1 | h1
    · exact Or.inl ⟨l, h1, h⟩
    · exact Or.inr ⟨l, h1, h⟩
  · rintro (⟨l, hl, h⟩ | ⟨l, hl, h⟩)
    · exact ⟨l, List.mem_append.mpr (Or.inl hl), h⟩
    · exact ⟨l, List.mem_append.mpr (Or.inr hl), h⟩

/-- the clauses produced for one original clause: flatten every tuple of the product -/
theorem dist_main (t : L → Prop) (Ds : List (List (List L))) :
    cnfT t ((cart Ds).map List.flatten) ↔ ∃ D ∈ Ds, cnfT t D := by
  induction Ds with
  | nil =>
    simp [cart, cnfT, clauseT]
  | cons D Ds ih =>
    have key : cnfT t ((cart (D :: Ds)).map List.flatten) ↔
        (cnfT t D ∨ cnfT t ((cart Ds).map List.flatten)) := by
      unfold cnfT
      simp only [cart, List.mem_map, List.mem_flatMap]
      constructor
      · intro h
        by_contra hno
        push Not at hno
        obtain ⟨⟨c, hc, hcf⟩, ⟨x, ⟨r, hr, rfl⟩, hrf⟩⟩ := hno
        have := h (c ++ r.flatten) ⟨c :: r, ⟨c, hc, r, hr, rfl⟩, by simp⟩
        rw [clauseT_append] at this
        rcases this with h1 | h1
        · exact hcf h1
        · exact hrf h1
      · rintro (h | h) x ⟨cr, ⟨c, hc, r, hr, rfl⟩, rfl⟩
        · simp only [List.flatten_cons]; rw [clauseT_append]; exact Or.inl (h c hc)
        · simp only [List.flatten_cons]; rw [clauseT_append]
          exact Or.inr (h r.flatten ⟨r, hr, rfl⟩)
    rw [key, ih]
    constructor
    · rintro (h | ⟨D', hD', h⟩)
      · exact ⟨D, List.mem_cons_self, h⟩
      · exact ⟨D', List.mem_cons_of_mem _ hD', h⟩
    · rintro ⟨D', hD', h⟩
      rcases List.mem_cons.mp hD' with rfl | h'
      · exact Or.inl h
      · exact Or.inr ⟨D', h', h⟩
