import Mathlib.Data.List.Basic
import Mathlib.Tactic

/-! Semantics of CNF over integer literals and the parity encoding of `add_parity`. -/

def litTrue (α : ℕ → Bool) (l : ℤ) : Bool := if 0 < l then α l.natAbs else !(α l.natAbs)

theorem litTrue_neg (α : ℕ → Bool) (l : ℤ) (h : l ≠ 0) : litTrue α (-l) = !(litTrue α l) := by
  unfold litTrue
  rcases lt_trichotomy l 0 with hl | hl | hl
  · have h1 : (0:ℤ) < -l := by omega
    have h2 : ¬ (0:ℤ) < l := by omega
    simp [h1, h2] <;> omega
  · exact absurd hl h
  · have h1 : ¬ (0:ℤ) < -l := by omega
    simp [h1, hl] <;> omega

def clauseTrue (α : ℕ → Bool) (c : List ℤ) : Prop := ∃ l ∈ c, litTrue α l = true
def cnfTrue (α : ℕ → Bool) (F : List (List ℤ)) : Prop := ∀ c ∈ F, clauseTrue α c
def countTrue (α : ℕ → Bool) (ls : List ℤ) : ℕ := ls.countP (litTrue α)

/-- sign vectors in the order of `itertools.product([1,-1], repeat=n)` -/
def signs : ℕ → List (List ℤ)
  | 0 => [[]]
  | n+1 => (signs n).map (fun s => (1:ℤ) :: s) ++ (signs n).map (fun s => (-1:ℤ) :: s)

/-- the clauses `add_parity(lits, ·)` adds, for desired sign product `d` -/
def parityClauses (lits : List ℤ) (d : ℤ) : List (List ℤ) :=
  ((signs lits.length).filter (fun s => s.prod == d)).map (fun s => List.zipWith (· * ·) lits s)

theorem cnfTrue_append (α) (A B : List (List ℤ)) :
    cnfTrue α (A ++ B) ↔ cnfTrue α A ∧ cnfTrue α B := by
  unfold cnfTrue
  simp only [List.mem_append]
  constructor
  · intro h; exact ⟨fun c hc => h c (Or.inl hc), fun c hc => h c (Or.inr hc)⟩
  · rintro ⟨h1, h2⟩ c (hc | hc)
    · exact h1 c hc
    · exact h2 c hc

theorem cnfTrue_map_cons (α) (l : ℤ) (C : List (List ℤ)) :
    cnfTrue α (C.map (fun c => l :: c)) ↔ (litTrue α l = true ∨ cnfTrue α C) := by
  unfold cnfTrue clauseTrue
  constructor
  · intro h
    by_cases hl : litTrue α l = true
    · exact Or.inl hl
    · right
      intro c hc
      obtain ⟨x, hx, hxt⟩ := h (l :: c) (List.mem_map.mpr ⟨c, hc, rfl⟩)
      rcases List.mem_cons.mp hx with rfl | hx'
      · exact absurd hxt hl
      · exact ⟨x, hx', hxt⟩
  · rintro (hl | hC) c hc
    · obtain ⟨c', _, rfl⟩ := List.mem_map.mp hc
      exact ⟨l, List.mem_cons_self, hl⟩
    · obtain ⟨c', hc', rfl⟩ := List.mem_map.mp hc
      obtain ⟨x, hx, hxt⟩ := hC c' hc'
      exact ⟨x, List.mem_cons_of_mem _ hx, hxt⟩

theorem filter_signs_succ (n : ℕ) (d : ℤ) :
    (signs (n+1)).filter (fun s => s.prod == d) =
      ((signs n).filter (fun s => s.prod == d)).map (fun s => (1:ℤ) :: s) ++
      ((signs n).filter (fun s => s.prod == -d)).map (fun s => (-1:ℤ) :: s) := by
  simp only [signs, List.filter_append, List.filter_map]
  congr 1
  · congr 1
    apply List.filter_congr
    intro s _
    simp [Function.comp]
  · congr 1
    apply List.filter_congr
    intro s _
    simp only [Function.comp, List.prod_cons]
    have : (-1 * s.prod == d) = (s.prod == -d) := by
      rw [Bool.eq_iff_iff]; simp only [beq_iff_eq]; constructor <;> intro h <;> omega
    exact this

theorem parityClauses_cons (l : ℤ) (t : List ℤ) (d : ℤ) :
    parityClauses (l :: t) d =
      (parityClauses t d).map (fun c => l :: c) ++ (parityClauses t (-d)).map (fun c => (-l) :: c) := by
  unfold parityClauses
  rw [List.length_cons, filter_signs_succ, List.map_append, List.map_map, List.map_map,
    List.map_map, List.map_map]
  congr 1
  · apply List.map_congr_left
    intro s _
    simp [Function.comp]
  · apply List.map_congr_left
    intro s _
    simp [Function.comp]

theorem countTrue_cons (α) (l : ℤ) (t : List ℤ) :
    countTrue α (l :: t) = countTrue α t + (if litTrue α l = true then 1 else 0) := by
  unfold countTrue
  rw [List.countP_cons]

/-- PARITY: all clauses of `parityClauses lits d` hold iff (-1)^(number of true literals) ≠ d. -/
theorem parity_main (α : ℕ → Bool) (lits : List ℤ) (hnz : ∀ l ∈ lits, l ≠ 0) (d : ℤ)
    (hd : d = 1 ∨ d = -1) :
    cnfTrue α (parityClauses lits d) ↔ (-1 : ℤ) ^ (countTrue α lits) ≠ d := by
  induction lits generalizing d with
  | nil =>
    unfold parityClauses cnfTrue clauseTrue countTrue
    rcases hd with rfl | rfl <;> simp [signs]
  | cons l t ih =>
    have hl : l ≠ 0 := hnz l List.mem_cons_self
    have ht : ∀ x ∈ t, x ≠ 0 := fun x hx => hnz x (List.mem_cons_of_mem _ hx)
    have hd' : -d = 1 ∨ -d = -1 := by rcases hd with rfl | rfl <;> simp
    rw [parityClauses_cons, cnfTrue_append, cnfTrue_map_cons, cnfTrue_map_cons,
      ih ht d hd, ih ht (-d) hd', litTrue_neg α l hl, countTrue_cons]
    by_cases hlt : litTrue α l = true
    · simp only [hlt, if_true, true_or, true_and, Bool.not_true, pow_succ]
      constructor
      · rintro (h | h)
        · exact absurd h (by simp)
        · intro h2; apply h; linarith
      · intro h; right; intro h2; apply h; linarith
    · have hf : litTrue α l = false := by simpa using hlt
      simp [hf]
