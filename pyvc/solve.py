"""Discharge obligations: z3 (python API, in a process pool) -> on unknown: /usr/bin/cvc5, /usr/bin/z3 (4.8).

verdicts: proved | refuted (model) | undecided.  Budgets are far above observed solve times so that
verdicts do not flip under load (DESIGN 2.6).
"""
import multiprocessing as mp
import os
import subprocess
import tempfile
import time

import z3

from pyvc import specs

Z3_TIMEOUT_MS = int(os.environ.get('PYVC_Z3_TIMEOUT_MS', '90000'))
CLI_TIMEOUT_S = int(os.environ.get('PYVC_CLI_TIMEOUT_S', '240'))


_SK = [0]


def skolemize_goal(g):
    """forall x. phi(x) is valid iff phi(c) is valid for fresh constants c: a goal that is a universal statement is proved for
    fresh constants, so that the ground lemma schemas see the terms built from them (z3 would skolemize the negated goal the
    same way, but only after the instances have been generated)"""
    while z3.is_quantifier(g) and g.is_forall():
        n = g.num_vars()
        _SK[0] += 1
        consts = [z3.Const('sk!{}!{}'.format(g.var_name(i), _SK[0]), g.var_sort(i)) for i in range(n)]
        g = z3.substitute_vars(g.body(), *reversed(consts))
    return g


def to_smt2(ob, use_lemmas=True):
    s = z3.Solver()
    for h in ob.hyps:
        s.add(h)
    goal = skolemize_goal(ob.goal)
    if use_lemmas:
        for inst in specs.instances(list(ob.hyps), goal=goal):
            s.add(inst)
    s.add(z3.Not(goal))
    return s.to_smt2()


_OBS = None        # obligations of the current discharge() call, inherited by the forked workers


def _solve_one(args):
    idx, smt2 = args
    if smt2 is None:
        # the SMT-LIB text (with its ground lemma instances) is produced in the worker: instance generation is the
        # expensive python part and runs in parallel this way (the z3 terms are inherited through fork, read-only)
        smt2 = to_smt2(_OBS[idx])
    t0 = time.time()
    if z3.is_false(_OBS[idx].goal):
        # a goal that is literally False (a clause that cannot be expressed, an undeclared frame): it holds only on an infeasible path -
        # a short look, no portfolio
        s0 = z3.Solver()
        s0.set('timeout', 5000)
        s0.from_string(smt2)
        r0 = s0.check()
        return idx, ('proved' if r0 == z3.unsat else 'refuted' if r0 == z3.sat else 'undecided'), None, 'z3-api', time.time() - t0
    # attempt 1: products of two unknowns treated as uninterpreted (sound for `unsat`: fewer axioms). Most VCs need
    # only congruence on such products; this avoids the unstable nonlinear engine. Any other answer is discarded.
    r = z3.unknown
    if '(* ' in smt2:
        s0 = z3.SolverFor('ALL') if False else z3.Solver()
        s0.set('timeout', min(Z3_TIMEOUT_MS, 20000))
        s0.set('random_seed', 1)
        try:
            s0.set('smt.arith.nl', False)
            s0.from_string(smt2)
            if s0.check() == z3.unsat:
                return idx, 'proved', None, 'z3-api', time.time() - t0
        except z3.Z3Exception:
            pass
    # a small portfolio of seeds: quantified VCs with div/mod are sensitive to the instantiation order, a second seed usually
    # answers in seconds what the first one does not answer in a minute (and machine load must not flip a verdict)
    r = z3.unknown
    s = None
    budget = Z3_TIMEOUT_MS
    for seed, share in ((1, 0.25), (7, 0.25), (3, 0.25), (13, 0.4)):
        s = z3.Solver()
        s.set('timeout', max(1000, int(budget * share)))
        s.set('random_seed', seed)
        s.set('smt.random_seed', seed)
        s.from_string(smt2)
        r = s.check()
        if r != z3.unknown:
            break
    model = None
    backend = 'z3-api'
    if r == z3.sat:
        m = s.model()
        model = {str(d): str(m[d]) for d in m.decls() if d.arity() == 0}
        verdict = 'refuted'
    elif r == z3.unsat:
        verdict = 'proved'
    else:
        verdict = 'undecided'
        # second opinions on the SMT-LIB dump
        for name, cmd in (('cvc5', ['/usr/bin/cvc5', '--tlimit={}'.format(CLI_TIMEOUT_S * 1000), '--strings-exp']),
                          ('z3-cli', ['/usr/bin/z3', '-T:{}'.format(CLI_TIMEOUT_S)])):
            if not os.path.exists(cmd[0]):
                continue
            with tempfile.NamedTemporaryFile('w', suffix='.smt2', delete=False) as f:
                f.write(smt2 if 'check-sat' in smt2 else smt2 + '\n(check-sat)\n')
                path = f.name
            try:
                out = subprocess.run(cmd + [path], capture_output=True, text=True, timeout=CLI_TIMEOUT_S + 10).stdout
            except subprocess.TimeoutExpired:
                out = ''
            finally:
                os.unlink(path)
            first = out.strip().splitlines()[0] if out.strip() else ''
            if first == 'unsat':
                verdict, backend = 'proved', name
                break
            if first == 'sat':
                verdict, backend = 'refuted', name
                break
    return idx, verdict, model, backend, time.time() - t0


def _cvc5_one(args):
    idx, smt2 = args
    if smt2 is None:
        smt2 = to_smt2(_OBS[idx])
    with tempfile.NamedTemporaryFile('w', suffix='.smt2', delete=False) as f:
        f.write('(set-logic ALL)\n' + smt2 + ('' if 'check-sat' in smt2 else '\n(check-sat)\n'))
        path = f.name
    try:
        out = subprocess.run(['/usr/bin/cvc5', '--tlimit=20000', '--strings-exp', path], capture_output=True, text=True, timeout=40).stdout
    except subprocess.TimeoutExpired:
        out = ''
    finally:
        os.unlink(path)
    first = out.strip().splitlines()[0] if out.strip() else 'unknown'
    return idx, first if first in ('sat', 'unsat') else 'unknown'


def cross_check(obligations, procs=16):
    """thorough tier: every non-trivial VC is also given to cvc5 (20 s); a proved/refuted DISAGREEMENT is an engine problem.
    returns dict(agree=, unknown=, disagree=[idents])"""
    global _OBS
    _OBS = obligations
    jobs = [(i, None) for i, ob in enumerate(obligations) if ob.backend != 'trivial' and ob.verdict in ('proved', 'refuted')]
    res = {'agree': 0, 'unknown': 0, 'disagree': []}
    if not jobs or not os.path.exists('/usr/bin/cvc5'):
        return res
    ctx = mp.get_context('fork')
    with ctx.Pool(min(procs, len(jobs))) as pool:
        for idx, ans in pool.map(_cvc5_one, jobs):
            ob = obligations[idx]
            want = 'unsat' if ob.verdict == 'proved' else 'sat'
            if ans == 'unknown':
                res['unknown'] += 1
            elif ans == want:
                res['agree'] += 1
            else:
                res['disagree'].append(ob.ident)
    return res


def discharge(obligations, procs=None):
    """fills verdict/model/backend/time of each obligation; returns total solver seconds"""
    jobs = []
    for i, ob in enumerate(obligations):
        g = z3.simplify(ob.goal)
        if z3.is_true(g):
            ob.verdict, ob.backend, ob.time = 'proved', 'trivial', 0.0
            continue
        jobs.append((i, None))
    total = 0.0
    global _OBS
    _OBS = obligations
    if jobs:
        procs = procs or min(16, len(jobs))
        if procs <= 1 or len(jobs) <= 2:
            results = list(map(_solve_one, jobs))
        else:
            ctx = mp.get_context('fork')
            with ctx.Pool(procs) as pool:
                results = pool.map(_solve_one, jobs, chunksize=max(1, len(jobs) // (procs * 4)))
        for idx, verdict, model, backend, t in results:
            ob = obligations[idx]
            ob.verdict, ob.model, ob.backend, ob.time = verdict, model, backend, t
            total += t
    return total
