"""verify a set of functions: python -m pyvc.run contracts.graphs_dag [funcname-substring]"""
import importlib
import sys
import time

from pyvc import engine, solve
from vlib import core


def load_contracts(modnames):
    contracts, models = {}, {}
    for m in modnames:
        mod = importlib.import_module(m)
        if not isinstance(getattr(mod, 'CONTRACTS', None), dict) or getattr(mod, 'NOT_PYVC', False):
            continue          # other tiers (uf mode, effects) keep their contracts in their own format
        for k, c in mod.CONTRACTS.items():
            if k in contracts and contracts[k] != c:
                # contract keys are global: a second, different contract for the same function would silently replace the
                # first one in every proof that uses it
                raise RuntimeError('two different contracts for {} (second one in {})'.format(k, m))
            contracts[k] = c
        for k, c in getattr(mod, 'CLASSMODELS', {}).items():
            if k in models and models[k] != c:
                raise RuntimeError('two different class models named {} (second one in {})'.format(k, m))
            models[k] = c
    # The builder interface as the family proofs see it (assumed contracts on an abstract formula) carries the precondition of the
    # PROVED builder contracts (formula_cnf.py / formula_opb.py) for unchecked calls: with check=False the literals must already be
    # non-zero variables of the formula.  Stated once here, for every assumed builder contract; the family proofs discharge it at
    # each call with check=False; tools/refine_check.py checks that the assumed contracts then follow from the proved ones.
    for (rel, qual), c in contracts.items():
        if c.get('assumed') and rel == 'cnfgen/formula/cnf.py' and '.' in qual and qual.split('.', 1)[1] in BUILDER_INTERFACE and 'check' in c.get('params', {}):
            arg = next((x for x in ('lits', 'clause', 'clauses') if x in c['params']), None)
            if arg is None:
                continue
            pre = ('implies(not check, cmaxabs({0}) <= self._numvar and not chaszero({0}))' if arg == 'clauses' else
                   'implies(not check, maxabs({0}) <= self._numvar and not haszero({0}))').format(arg)
            if pre not in c.get('requires', []):
                c['requires'] = list(c.get('requires', [])) + [pre]
    return contracts, models


BUILDER_INTERFACE = ('add_clause', 'add_clauses_from', 'cardinality_eq', 'cardinality_leq', 'cardinality_geq', 'cardinality_neq', 'add_parity',
                     'add_loose_majority', 'add_loose_minority', 'add_strict_majority', 'add_strict_minority', 'add_linear')


def variants_of(c):
    """a contract may list `variants`: dicts overriding keys (typically `params` for polymorphic arguments)"""
    if 'variants' not in c:
        return [(None, c)]
    out = []
    import os
    for name, v in c['variants'].items():
        if os.environ.get('PYVC_VARIANT') and os.environ['PYVC_VARIANT'] != name:
            continue
        if c.get('quick_variants') and os.environ.get('VERIF_TIER', 'quick') != 'thorough' and not os.environ.get('PYVC_VARIANT') \
                and name not in c['quick_variants']:
            continue           # the remaining combinations are proved by the thorough tier
        cv = {k: x for k, x in c.items() if k not in ('variants', 'quick_variants')}
        for k, x in v.items():
            if k.endswith('!'):
                cv[k[:-1]] = x                    # `ensures!`: replace the base clause list instead of extending it
            elif k in ('requires', 'ensures') and k in cv:
                cv[k] = list(cv[k]) + list(x)
            elif isinstance(x, dict) and isinstance(cv.get(k), dict):
                cv[k] = {**cv[k], **x}
            else:
                cv[k] = x
        out.append((name, cv))
    return out


def all_modules():
    import os
    d = os.path.join(core.VERIF, 'contracts')
    return ['contracts.' + f[:-3] for f in sorted(os.listdir(d)) if f.endswith('.py') and f != '__init__.py']


def verify_functions(modnames, only=None, verbose=True):
    contracts, models = load_contracts(all_modules())
    mine, _ = load_contracts(modnames)
    repo = engine.Repo(core.REPO)
    results = []
    for (rel, qual), c in mine.items():
        if c.get('inline_always') or c.get('trusted') or c.get('assumed'):
            continue
        if only and only not in qual:
            continue
        eng = engine.Engine(repo, contracts, models)
        t0 = time.time()
        try:
            obs = []
            for label, cv in variants_of(c):
                obs += eng.verify(rel, qual, contract=cv, label=label)
            status = 'ok'
        except engine.Unsupported as e:
            obs = []
            status = 'UNSUPPORTED: {}'.format(e)
        tgen = time.time() - t0
        tsolve = solve.discharge(obs)
        results.append(dict(rel=rel, qual=qual, contract=c, obligations=obs, status=status, tgen=tgen, tsolve=tsolve,
                            exits=eng.exits, paths=eng.paths))
        if verbose:
            print('== {}:{}  {}  paths={} obligations={} gen={:.2f}s solve={:.2f}s exits={}'.format(
                rel, qual, status, eng.paths, len(obs), tgen, tsolve, eng.exits))
            for ob in obs:
                if ob.verdict != 'proved' or verbose > 1 or ob.time > 5:
                    print('   L{:<5} {:11s} {:9s} {:5.1f}s {} {}'.format(ob.line, ob.kind, ob.verdict, ob.time, ob.backend, ob.name[:110]))
                    if ob.verdict == 'refuted' and ob.model:
                        print('          model:', {k: v for k, v in ob.model.items() if 'val!' not in v})
    return results


if __name__ == '__main__':
    verify_functions([sys.argv[1]], sys.argv[2] if len(sys.argv) > 2 else None, verbose=2 if '-v' in sys.argv else 1)
