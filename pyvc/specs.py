"""Abstract sorts, spec functions and lemma schemas used by contracts.

Every lemma schema below is a statement about *lists and assignments*, independent of cnfgen;
each names the Lean theorem (lemmas/*.lean, re-checked by `lean` on every run) or, where no Lean
proof exists, is flagged `assumed` and validated natively (pyvc/lemma_validation.py).
In VCs lemmas are NOT quantified axioms: they are ground-instantiated over the terms of the right
sorts occurring in the VC (two saturation rounds) - DESIGN 2.5.
"""
import itertools
import z3

Int = z3.IntSort()
Bool = z3.BoolSort()
Asg = z3.DeclareSort('Asg')      # truth assignment
ISeq = z3.DeclareSort('ISeq')    # finite sequence of ints (literals)
CSeq = z3.DeclareSort('CSeq')    # finite sequence of clauses (ISeq)

# ---- ints sequences --------------------------------------------------------------
ilen = z3.Function('ilen', ISeq, Int)
iget = z3.Function('iget', ISeq, Int, Int)
inil = z3.Const('inil', ISeq)
isnoc = z3.Function('isnoc', ISeq, Int, ISeq)
iapp = z3.Function('iapp', ISeq, ISeq, ISeq)
ineg = z3.Function('ineg', ISeq, ISeq)            # [-l for l in s]
haszero = z3.Function('haszero', ISeq, Bool)      # 0 in s
maxof = z3.Function('maxof', ISeq, Int)
minof = z3.Function('minof', ISeq, Int)
maxabs = z3.Function('maxabs', ISeq, Int)         # max |l| (0 for empty)
# ---- semantics -------------------------------------------------------------------
lit_true = z3.Function('lit_true', Asg, Int, Bool)
count = z3.Function('count', Asg, ISeq, Int)      # number of true literals
ctrue = z3.Function('ctrue', Asg, ISeq, Bool)     # clause true = some literal true
# ---- clause sequences ------------------------------------------------------------
clen = z3.Function('clen', CSeq, Int)
cget = z3.Function('cget', CSeq, Int, ISeq)
cnil = z3.Const('cnil', CSeq)
csnoc = z3.Function('csnoc', CSeq, ISeq, CSeq)
capp = z3.Function('capp', CSeq, CSeq, CSeq)
ctake = z3.Function('ctake', CSeq, Int, CSeq)
combs = z3.Function('combs', ISeq, Int, CSeq)     # itertools.combinations(s,k) as clauses, in order
sat = z3.Function('sat', Asg, CSeq, Bool)         # every clause true
cmaxabs = z3.Function('cmaxabs', CSeq, Int)       # max |literal| over all clauses (0 if none)
chaszero = z3.Function('chaszero', CSeq, Bool)    # some clause contains the literal 0
m_complete = z3.Function('m_complete', Asg, Int, Bool)      # relational meanings of a mapping group (by group id)
m_functional = z3.Function('m_functional', Asg, Int, Bool)
m_surjective = z3.Function('m_surjective', Asg, Int, Bool)
m_injective = z3.Function('m_injective', Asg, Int, Bool)
m_nondecreasing = z3.Function('m_nondecreasing', Asg, Int, Bool)
mvar = z3.Function('mvar', Int, Int, Int, Int)             # identifier of the pair (u,v) in mapping group g
gorder = z3.Function('gorder', Int, Int)                   # abstract graph: number of vertices
gnedges = z3.Function('gnedges', Int, Int)                 # number of edges
bdegl = z3.Function('bdegl', Int, Int, Int)                # bipartite graph: degree of a left vertex
bdegr = z3.Function('bdegr', Int, Int, Int)                # bipartite graph: degree of a right vertex
# --- samplers (C13): lists of pairwise distinct, well-shaped clauses compatible with the planted assignments
SeqSet = z3.ArraySort(ISeq, z3.BoolSort())
psat = z3.Function('psat', ISeq, Bool)                 # the clause is satisfied by every planted assignment of the call (uninterpreted)
valid1 = z3.Function('valid1', Int, Int, ISeq, Bool)   # k literals, variables strictly increasing, inside 1..n
cvalid = z3.Function('cvalid', Int, Int, CSeq, Bool)   # every clause of the list is valid1 and psat
cdistinct = z3.Function('cdistinct', CSeq, Bool)       # pairwise distinct clauses
cmem = z3.Function('cmem', ISeq, CSeq, Bool)           # membership
cset = z3.Function('cset', CSeq, SeqSet)               # the set of the clauses of a list
csubsel = z3.Function('csubsel', CSeq, CSeq, Bool)     # R lists elements of F at pairwise distinct positions (random.sample)
ifront = z3.Function('ifront', ISeq, ISeq)             # all but the last element
ilast = z3.Function('ilast', ISeq, Int)                # the last element
psatx = z3.Function('psatx', ISeq, Bool)               # the parity X + [b] holds under every planted assignment of the call (uninterpreted)
valid1x = z3.Function('valid1x', Int, Int, ISeq, Bool) # X + [b]: k strictly increasing variables of 1..n, then a bit
cvalidx = z3.Function('cvalidx', Int, Int, CSeq, Bool) # every element is valid1x and psatx
signvecsm = z3.Function('signvecsm', Int, CSeq)         # itertools.product([-1, 1], repeat=k): all sign vectors, -1 first
yxdom = z3.Function('yxdom', Int, Int, Int, CSeq)      # (k, n, t): the planted-compatible parities X+[0], X+[1] over the first t domains
ysign = z3.Function('ysign', Int, ISeq, Int, CSeq)     # (k, domain, j): the planted-compatible clauses among the first j sign patterns over the domain
ydom = z3.Function('ydom', Int, Int, Int, CSeq)        # (k, n, t): the same over the first t domains (k-subsets of 1..n in itertools order)
navail_x = z3.Function('navail_x', Int, Int, Int)          # number of k-parities over n variables compatible with the planted assignments (uninterpreted)
navail_p = z3.Function('navail_p', Int, Int, Int)          # number of k-clauses over n variables compatible with the planted assignments of the call (uninterpreted)
gedge1 = z3.Function('gedge1', Int, Int, Int)              # e-th edge (as enumerated by G.edges()): first endpoint
gedge2 = z3.Function('gedge2', Int, Int, Int)              # second endpoint
gdom = z3.Function('gdom', Int, Int)                        # domain size of mapping group g
grng = z3.Function('grng', Int, Int)                        # range size
rowlits = z3.Function('rowlits', Int, Int, ISeq)            # the variables f(u,v) of domain element u, v over its allowed images
collits = z3.Function('collits', Int, Int, ISeq)            # the variables f(u,v) of range element v, u over its allowed preimages
bsel = z3.Function('bsel', Asg, Int, Int, Int)           # the number (0-based) spelled by the bits of element i of binary mapping g under the assignment
bitlen = z3.Function('bitlen', Int, Int)                    # number of bits of a binary mapping with m images
rnbrs = z3.Function('rnbrs', Int, Int, ISeq)       # right neighbours of left vertex u in the (abstract) bipartite graph g
apseq = z3.Function('apseq', Int, Int, ISeq)       # [start, start+1, ..., start+n-1]
negunits = z3.Function('negunits', ISeq, CSeq)     # [[-l] for l in s]
idxcombs = z3.Function('idxcombs', Int, Int, CSeq)  # itertools.combinations(range(n), c): index tuples, in order
iflip1 = z3.Function('iflip1', ISeq, Int, ISeq)     # s with s[i] negated
iflips = z3.Function('iflips', ISeq, ISeq, Int, ISeq)   # s with the positions F[0..t) negated
neqprefix = z3.Function('neqprefix', ISeq, Int, Int, CSeq)  # [iflips(s, F, c) for F in idxcombs(len s, c)[:t]]
signvecs = z3.Function('signvecs', Int, CSeq)     # itertools.product([1,-1], repeat=n), in order
sprod = z3.Function('sprod', ISeq, Int)           # product of the entries
smul = z3.Function('smul', ISeq, ISeq, ISeq)      # [l*s for l,s in zip(lits, signs)]
pfilter = z3.Function('pfilter', ISeq, Int, Int, CSeq)  # [smul(l,s) for s in signvecs(len l)[:t] if sprod(s)==d]
Str = z3.DeclareSort('Str')            # opaque text (content not modelled): only length and character codes
slen = z3.Function('slen', Str, Int)
charat = z3.Function('charat', Str, Int, Int)
SSeq = z3.DeclareSort('SSeq')          # sequence of opaque texts (lines, tokens)
sslen = z3.Function('sslen', SSeq, Int)
ssget = z3.Function('ssget', SSeq, Int, Str)
isperm = z3.Function('isperm', z3.ArraySort(Int, Int), Int, Int, Bool)      # A[0..n) is a permutation of base..base+n-1
sortedperm = z3.Function('sortedperm', z3.ArraySort(Int, Int), z3.ArraySort(Int, Int), Int, Bool)  # T[0..n) = sorted(A[0..n))
invperm = z3.Function('invperm', z3.ArraySort(Int, Int), Int, z3.ArraySort(Int, Int))   # inverse of a permutation of 0..n-1
imapsub = z3.Function('imapsub', ISeq, z3.ArraySort(Int, Int), Int, ISeq)    # [A[l] for l in s] with python indexing into a list of length n
zpos = z3.Function('zpos', ISeq, Int)              # a position of a zero literal, if any
mpos = z3.Function('mpos', ISeq, Int)              # a position of a literal of maximal absolute value (non-empty list)
PairSet = z3.ArraySort(Int, Int, Bool)
card2 = z3.Function('card2', PairSet, Int)           # cardinality of a finite set of pairs
cvar = z3.Function('cvar', Int, Int, Int, Int)
gadj = z3.Function('gadj', Int, Int, Int, z3.BoolSort())    # simple graph g: u and v are adjacent (has_edge view)
lnbrs = z3.Function('lnbrs', Int, Int, ISeq)       # left neighbours of right vertex v in the (abstract) bipartite graph g
pvar = z3.Function('pvar', Int, Int, Int, Int)          # permutations group: the variable of the ordered pair (u, v)
cnb = z3.Function('cnb', Int, Int, ISeq)            # simple graph g: the closed neighbourhood of v (v and its neighbours) as a sorted list
nbj = z3.Function('nbj', Int, Int, Int)             # position of v's closed neighbourhood in the duplicate-free list of neighbourhoods
nbv = z3.Function('nbv', Int, Int, Int)             # a vertex whose closed neighbourhood is the j-th listed one
isorted = z3.Function('isorted', ISeq, ISeq)        # sorted(X): a function of the list (no schema needed where only its identity matters)
cntstar = z3.Function('cntstar', Asg, Int, CSeq, Int, Int, Int)   # cntstar(a, off, C, i, t): how many of the variables off+1+j, j < t, with i in C[j] are true
ipos = z3.Function('ipos', ISeq, Int, Int)            # a position of x in the list (Skolem witness of imem)
imemp = z3.Function('imemp', ISeq, Int, Int, Bool)     # x occurs among the first n entries
imem = z3.Function('imem', ISeq, Int, Bool)           # x occurs in the list
aps = z3.Function('aps', Int, Int, CSeq)               # the arithmetic progressions of length k inside 1..N, in the order _vdw_ap_generator yields them
pairlits = z3.Function('pairlits', Int, ISeq, ISeq)   # [cvar(g, S[p], S[q]) for p < q] in combinations(S, 2) order
pl1 = z3.Function('pl1', ISeq, Int, Int)              # position p of the t-th pair of combinations(S, 2)
pl2 = z3.Function('pl2', ISeq, Int, Int)              # position q of the t-th pair
sqr = z3.Function('sqr', Int, Int)                    # t**2, kept symbolic (only linear facts about squares are used)
isqf = z3.Function('isqf', Int, Int)                  # int(math.sqrt(w)) as the float library computes it (uninterpreted: floats are not modelled)
degsum = z3.Function('degsum', Int, Int, Int)             # bipartite graph g: number of edges at the left vertices 1..u (sum of their degrees)         # combinations group (pairs): the variable of the pair {u, v}, u < v
mrow = z3.Function('mrow', Int, Int, Int, ISeq)        # (group, u, m): the variables p[u,1..m] of a unary mapping, in order
mcol = z3.Function('mcol', Int, Int, Int, ISeq)        # (group, v, n): the variables p[1..n,v], in order
IArr = z3.ArraySort(Int, Int)
psum = z3.Function('psum', IArr, IArr, Int, Int)   # psum(I,W,t) = sum_{s<t} (I[s]-1)*W[s]   (mixed-radix value)
pow2 = z3.Function('pow2', Int, Int)              # 2**x for x >= 0

# ---- pseudo-Boolean terms / constraints ---------------------------------------------
TSeq = z3.DeclareSort('TSeq')    # finite sequence of (coefficient, literal) pairs
tlen = z3.Function('tlen', TSeq, Int)
tcoef = z3.Function('tcoef', TSeq, Int, Int)
tlit = z3.Function('tlit', TSeq, Int, Int)
tunit = z3.Function('tunit', ISeq, TSeq)              # [(1,l) for l in s]
tnegc = z3.Function('tnegc', TSeq, TSeq)              # [(-c,l) for (c,l) in t]
tset = z3.Function('tset', TSeq, Int, Int, Int, TSeq)  # t with t[i] := (c,l)
wsum = z3.Function('wsum', Asg, TSeq, Int)            # sum of c_i over the true literals l_i
thaszero = z3.Function('thaszero', TSeq, Bool)        # some literal is 0
tmaxabs = z3.Function('tmaxabs', TSeq, Int)           # max |literal| (0 if empty)
tnonneg = z3.Function('tnonneg', TSeq, Bool)          # every coefficient >= 0
tmpos = z3.Function('tmpos', TSeq, Int)               # a position of a literal of maximal absolute value (non-empty list)
tzpos = z3.Function('tzpos', TSeq, Int)               # a position of a zero literal, if any
Con = z3.Datatype('Con')
Con.declare('mkcon', ('terms', TSeq), ('op', z3.StringSort()), ('value', Int))
Con = Con.create()
mkcon = Con.mkcon
OSeq = z3.DeclareSort('OSeq')    # finite sequence of constraints
olen = z3.Function('olen', OSeq, Int)
onil = z3.Const('onil', OSeq)
osnoc = z3.Function('osnoc', OSeq, Con, OSeq)
otake = z3.Function('otake', OSeq, Int, OSeq)
oget = z3.Function('oget', OSeq, Int, Con)
holds = z3.Function('holds', Asg, Con, Bool)
osat = z3.Function('osat', Asg, OSeq, Bool)
oappc = z3.Function('oappc', OSeq, CSeq, OSeq)         # O followed by one constraint  (sum of the clause's literals >= 1)  per clause of C
omaxabs = z3.Function('omaxabs', OSeq, Int)
ohaszero = z3.Function('ohaszero', OSeq, Bool)
onormal = z3.Function('onormal', OSeq, Bool)          # every constraint: coefficients >= 0, op in {>=, ==}


IArr = z3.ArraySort(Int, Int)
iofarr = z3.Function('iofarr', IArr, Int, ISeq)        # the python list (array, length) as an abstract literal list
arrsum = z3.Function('arrsum', IArr, Int, Int)         # sum of the first n entries (uninterpreted)
nbrs = z3.Function('nbrs', Int, Int, ISeq)             # sorted neighbour list of vertex v in the abstract simple graph
evar = z3.Function('evar', Int, Int, Int, Int)         # edge-variable group: the variable of edge {u, v}
liftcls = z3.Function('liftcls', Int, Int, Int, Int, CSeq)   # [[-(yo+i), s*(xo+i)] for i in 1..k]: selector i picks copy i with sign s
liftsem = z3.Function('liftsem', Asg, Int, Int, Bool, Bool)  # (a, v, k, pos): every true selector of variable v selects a copy whose value is pos
yblock = z3.Function('yblock', Int, Int, ISeq)               # the k selector variables of original variable v (lifting layout)
implchain = z3.Function('implchain', ISeq, CSeq)       # [[-X[i-1], X[i]] for i in 1..len-1]: the implication chain X[0] -> X[1] -> ...
ishift = z3.Function('ishift', ISeq, Int, ISeq)        # every element plus a constant  (variables x(p) = offset + p of a block)
preds = z3.Function('preds', Int, Int, ISeq)           # predecessors of vertex v in the abstract digraph gid
outdeg = z3.Function('outdeg', Int, Int, Int)          # out-degree of vertex v
gtopo = z3.Function('gtopo', Int, Bool)                # every predecessor list holds vertices 1 <= p < v  (topologically sorted DAG: is_dag())
gsinkok = z3.Function('gsinkok', Int, Bool)            # out-degree 0  <=>  the vertex is nobody's predecessor (views agree; C16)
pebwit = z3.Function('pebwit', Asg, Int, Int)          # Skolem: a vertex whose pebbling axiom fails under a
# --- output traces of the writers (C06 / C12): what is written is a sequence of EVENTS, one per write() call.  An event is an
# ISeq: the comment event, or ev3(template id, x, y) for a formatted piece with (up to two) integer arguments.
evcomment = z3.Const('evcomment', ISeq)
ev3 = z3.Function('ev3', Int, Int, Int, ISeq)
dropc = z3.Function('dropc', CSeq, CSeq)               # the trace without its comment events
levent = z3.Function('levent', Int, Int, ISeq)         # writer w: the event written for literal l (defined per writer by its contract)
tevent = z3.Function('tevent', Int, Int, Int, ISeq)    # writer w: the event written for a pseudo-Boolean term (coefficient, literal)
evopaque = z3.Const('evopaque', ISeq)                  # one write() of text the contract does not look into (titles, header values, user text)
opq = z3.Function('opq', Int, CSeq)                    # k such events in a row
wid = z3.Function('wid', Int, Int, Int)                # writer id of the row renderer for given (split_every, compact): one definition of rowapp per parameter choice
evnest = z3.Function('evnest', Int, CSeq, ISeq)        # one write() of a text assembled in a buffer: (template id of the wrapping, the buffer's trace)
dedges = z3.Function('dedges', Int, Int, Int, CSeq)    # (template id, graph, t): one event per edge of the first t edges of the edge view
evrow = z3.Function('evrow', Int, ISeq, ISeq)          # one write() whose text is prefix + sep.join(text_of(l) for l in clause) + suffix: (template id, clause)
rowapp = z3.Function('rowapp', Int, CSeq, Int, CSeq)   # writer w: the trace after the events of row i were appended (defined by the writer's contract)
rowsfrom = z3.Function('rowsfrom', Int, CSeq, Int, CSeq)   # rows 0..t-1 appended to a trace, one after the other
cevent = z3.Function('cevent', Int, Int, Int, ISeq)    # writer w: the event that closes a pseudo-Boolean constraint (1 if the relation is >= else 0, degree)
dterms = z3.Function('dterms', Int, TSeq, Int, CSeq)   # events of the first j terms of a constraint
dcons = z3.Function('dcons', Int, OSeq, Int, CSeq)     # events of the first t constraints
dlits = z3.Function('dlits', Int, ISeq, Int, CSeq)     # events of the first j literals of a clause
dclauses = z3.Function('dclauses', Int, Int, CSeq, Int, CSeq)   # (writer, end-of-clause template, clauses, t): the first t clauses
# --- substitution / distribution (apply_substitution): gadget function, clause distribution ----------------------
CTab = z3.ArraySort(Int, CSeq)
gad = z3.Function('gad', Int, Int, CSeq)              # gad(sid, lit): the CNF the gadget function `sid` returns for a literal (pure function)
cdist_tab = z3.Function('cdist_tab', CTab, Int, ISeq, CSeq)   # distribution (cartesian product, each tuple flattened) of [T[l] for l in clause], python indexing into a table of length L
cdist = z3.Function('cdist', Int, ISeq, CSeq)         # the same over [gad(sid, l) for l in clause]
cdistall = z3.Function('cdistall', Int, CSeq, Int, CSeq)      # cdist of the first t clauses, concatenated
cind = z3.Function('cind', Asg, Int, ISeq, Bool)      # some literal l of the clause has sat(a, gad(sid, l))
satind = z3.Function('satind', Asg, Int, CSeq, Int, Bool)     # cind for each of the first t clauses
dbad = z3.Function('dbad', CTab, Int, ISeq, Int, Int)         # Skolem witness: a position where the table and gad differ
aind = z3.Function('aind', Asg, Int, Asg)             # induced assignment: variable v is true iff the gadget CNF gad(sid, v) holds under a
lwit = z3.Function('lwit', Asg, Int, Asg, CSeq, Int)  # Skolem witness: a literal on which gadget and assignment b disagree
lmax = z3.Function('lmax', Int, CSeq, Int, Int)       # Skolem witness: a literal whose gadget attains the largest variable of the distribution
lzero = z3.Function('lzero', Int, CSeq, Int, Int)     # Skolem witness: a literal whose gadget contains a zero literal


def cmp_op(op, lhs, rhs):
    S = z3.StringVal
    return z3.If(op == S('>='), lhs >= rhs, z3.If(op == S('=='), lhs == rhs, z3.If(op == S('<='), lhs <= rhs,
                 z3.If(op == S('<'), lhs < rhs, z3.If(op == S('>'), lhs > rhs, z3.BoolVal(False))))))


FUNCS = dict(bsel=bsel, cntstar=cntstar, imemp=imemp, imem=imem, ipos=ipos, aps=aps, pairlits=pairlits, pl1=pl1, pl2=pl2, sqr=sqr, isqf=isqf, isorted=isorted, cnb=cnb, nbj=nbj, nbv=nbv, pvar=pvar, lnbrs=lnbrs, gadj=gadj, degsum=degsum, cvar=cvar, tlen=tlen, tcoef=tcoef, tlit=tlit, tunit=tunit, tnegc=tnegc, tset=tset, wsum=wsum, thaszero=thaszero,
             tmaxabs=tmaxabs, tnonneg=tnonneg, tmpos=tmpos, tzpos=tzpos, mkcon=mkcon, olen=olen, osnoc=osnoc, otake=otake, holds=holds,
             osat=osat, oappc=oappc, omaxabs=omaxabs, ohaszero=ohaszero, onormal=onormal,
             ilen=ilen, iget=iget, inil=inil, isnoc=isnoc, iapp=iapp, ineg=ineg, haszero=haszero,
             maxof=maxof, minof=minof, maxabs=maxabs, lit_true=lit_true, count=count, ctrue=ctrue,
             clen=clen, cget=cget, cnil=cnil, csnoc=csnoc, capp=capp, ctake=ctake, combs=combs, sat=sat,
             cmaxabs=cmaxabs, pow2=pow2, chaszero=chaszero, psum=psum, card2=card2, isperm=isperm, sortedperm=sortedperm, invperm=invperm, imapsub=imapsub, zpos=zpos, mpos=mpos, rnbrs=rnbrs, apseq=apseq, negunits=negunits, idxcombs=idxcombs, iflip1=iflip1, iflips=iflips, neqprefix=neqprefix, signvecs=signvecs, sprod=sprod, smul=smul, pfilter=pfilter, mrow=mrow, mcol=mcol, iofarr=iofarr, nbrs=nbrs, evar=evar, liftcls=liftcls, liftsem=liftsem, yblock=yblock, ifront=ifront, ilast=ilast, psatx=psatx, valid1x=valid1x, cvalidx=cvalidx, yxdom=yxdom, signvecsm=signvecsm, ysign=ysign, ydom=ydom, psat=psat, valid1=valid1, cvalid=cvalid, cdistinct=cdistinct, cmem=cmem, cset=cset, csubsel=csubsel, implchain=implchain, ishift=ishift, preds=preds, outdeg=outdeg, gtopo=gtopo, gsinkok=gsinkok,
             ev3=ev3, evnest=evnest, dedges=dedges, opq=opq, wid=wid, evrow=evrow, rowapp=rowapp, rowsfrom=rowsfrom, dropc=dropc, dterms=dterms, dcons=dcons, tevent=tevent, cevent=cevent, dlits=dlits, dclauses=dclauses, levent=levent, gad=gad, cdist_tab=cdist_tab, cdist=cdist, cdistall=cdistall, cind=cind, satind=satind, aind=aind)


def zmax(a, b):
    return z3.If(a >= b, a, b)


def zmin(a, b):
    return z3.If(a <= b, a, b)


def zabs(a):
    return z3.If(a >= 0, a, -a)


def b2i(b):
    return z3.If(b, 1, 0)


# schemas used in VCs whose Lean proof is not (yet) in lemmas/: reported as ASSUMED LEMMAS in every evidence file
ASSUMED_SCHEMAS = ['isqf(w) >= 0: int(math.sqrt(w)) is never negative (a fact about the float library, used by PythagoreanTriples only)',
                   'card2_store side condition: proved in Lean (CnfSem.card2_store) for FINITE pair sets only; that every edge set '
                   'is finite (built from the empty set by finitely many add/remove) is not expressible in the VCs']

# ---------------------------------------------------------------------------------
# lemma schemas: (name, lean theorem or 'assumed', variable sorts, builder)
# builder(*terms) -> list of z3 formulas (instances)
LEMMAS = []


def lemma(name, lean, sorts):
    def deco(f):
        LEMMAS.append((name, lean, sorts, f))
        return f
    return deco


@lemma('len_nonneg', 'trivial: List.length >= 0', [ISeq])
def _l_len(s):
    return [ilen(s) >= 0]


@lemma('clen_nonneg', 'trivial', [CSeq])
def _l_clen(c):
    return [clen(c) >= 0]


@lemma('L2_count_bounds', 'CnfSem.count_le_length (Count.lean)', [Asg, ISeq])
def _l2(a, s):
    return [count(a, s) >= 0, count(a, s) <= ilen(s)]


@lemma('ctrue_iff_count', 'CnfSem.ctrue_iff_count_pos (Count.lean)', [Asg, ISeq])
def _lct(a, s):
    return [ctrue(a, s) == (count(a, s) >= 1)]


@lemma('iseq_basic', 'Seq.lean: nil_of_length_zero, haszero_pos, maxabs_nonneg, maxabs_eq_max_min', [ISeq])
def _lbasic(s):
    return [z3.Implies(ilen(s) == 0, s == inil), z3.Implies(haszero(s), ilen(s) > 0), maxabs(s) >= 0,
            z3.Implies(ilen(s) > 0, maxabs(s) == zmax(maxof(s), -minof(s)))]


@lemma('str_basic', 'trivial: lengths are non negative', [Str])
def _lstr(x):
    return [slen(x) >= 0]


@lemma('sseq_basic', 'trivial', [SSeq])
def _lsseq(x):
    return [sslen(x) >= 0]


@lemma('tseq_basic', 'Opb.lean: tlen_nonneg, tmaxabs_nonneg, tnonneg_def', [TSeq])
def _ltbasic(t):
    j = z3.Int('j!nn')
    return [tlen(t) >= 0, tmaxabs(t) >= 0,
            tnonneg(t) == z3.ForAll([j], z3.Implies(z3.And(0 <= j, j < tlen(t)), tcoef(t, j) >= 0))]


@lemma('oseq_basic', 'Opb.lean', [OSeq])
def _lobasic(o):
    return [olen(o) >= 0, omaxabs(o) >= 0]


@lemma('cseq_basic', 'Seq.lean: cnil_of_length_zero, cmaxabs_nonneg', [CSeq])
def _lcbasic(c):
    return [z3.Implies(clen(c) == 0, c == cnil), cmaxabs(c) >= 0]


def _is_symbol(e):
    """a named sequence: a ghost / havoc symbol, or the comment-free view of a trace symbol"""
    if z3.is_app(e) and e.decl().name() == 'dropc' and e.num_args() == 1:
        return True
    return z3.is_const(e) and e.decl().kind() == z3.Z3_OP_UNINTERPRETED


def _on_terms(terms_by_decl):
    """extra instances keyed on applications (decl name -> list of arg tuples)"""
    out = []
    for (s,) in terms_by_decl.get('ineg', []):
        out.append(ilen(ineg(s)) == ilen(s))
        out.append(z3.Implies(z3.Not(haszero(s)), z3.Not(haszero(ineg(s)))))
        out.append(maxabs(ineg(s)) == maxabs(s))
    for (s, t_) in terms_by_decl.get('iapp', []):
        # Seq.lean iapp_*: length, zero membership, largest magnitude of a concatenation
        out += [ilen(iapp(s, t_)) == ilen(s) + ilen(t_), haszero(iapp(s, t_)) == z3.Or(haszero(s), haszero(t_)),
                maxabs(iapp(s, t_)) == zmax(maxabs(s), maxabs(t_))]
    for (s, x) in terms_by_decl.get('isnoc', []):
        out.append(ilen(isnoc(s, x)) == ilen(s) + 1)
        out.append(maxabs(isnoc(s, x)) == zmax(maxabs(s), zabs(x)))
        out.append(haszero(isnoc(s, x)) == z3.Or(haszero(s), x == 0))
    jc = z3.Int('j!cs')
    for (c, s) in terms_by_decl.get('csnoc', []):
        # Seq.lean cget_snoc: reading a sequence extended by one clause
        out.append(_forall([jc], z3.Implies(z3.And(0 <= jc, jc <= clen(c)),
                                            cget(csnoc(c, s), jc) == z3.If(jc == clen(c), s, cget(c, jc))), [cget(csnoc(c, s), jc)]))
        out.append(chaszero(csnoc(c, s)) == z3.Or(chaszero(c), haszero(s)))
        for (x, y) in terms_by_decl.get('capp', []):
            if c.eq(capp(x, y)):
                out.append(csnoc(c, s) == capp(x, csnoc(y, s)))           # Seq.lean app_snoc
            elif _is_symbol(c):
                # only for NAMED sequences (ghost / havoc symbols): for compound terms the equation would have to be guessed
                # for every pair, which is quadratic in the size of the VC
                out.append(z3.Implies(c == capp(x, y), csnoc(c, s) == capp(x, csnoc(y, s))))
        out.append(clen(csnoc(c, s)) == clen(c) + 1)
        out.append(csnoc(c, s) == capp(c, csnoc(cnil, s)))
        out.append(cmaxabs(csnoc(c, s)) == zmax(cmaxabs(c), maxabs(s)))
    for (c, d) in terms_by_decl.get('capp', []):
        if z3.is_app(c) and c.decl().name() == 'capp':
            out.append(capp(c, d) == capp(c.arg(0), capp(c.arg(1), d)))          # Seq.lean append_assoc

        out.append(chaszero(capp(c, d)) == z3.Or(chaszero(c), chaszero(d)))
        out.append(clen(capp(c, d)) == clen(c) + clen(d))
        out.append(cmaxabs(capp(c, d)) == zmax(cmaxabs(c), cmaxabs(d)))
        out.append(z3.Implies(d == cnil, capp(c, d) == c))
        out.append(z3.Implies(c == cnil, capp(c, d) == d))
    takes = terms_by_decl.get('ctake', [])
    for (c, k) in takes:
        for nm, mk in (('capp', capp), ('csnoc', csnoc)):
            for (x, y) in terms_by_decl.get(nm, []):
                if c.eq(mk(x, y)):          # Seq.lean take_append_le / take_snoc_le
                    out.append(z3.Implies(z3.And(0 <= k, k <= clen(x)), ctake(c, k) == ctake(x, k)))
                elif not (z3.is_app(c) and c.decl().name() in ('capp', 'csnoc')):
                    out.append(z3.Implies(z3.And(c == mk(x, y), 0 <= k, k <= clen(x)), ctake(c, k) == ctake(x, k)))
        for (c2, k2) in takes:
            # Seq.lean take_take: j <= k -> take j (take k c) = take j c ; instantiated when take k c2 is named c
            out.append(z3.Implies(z3.And(0 <= k, k <= k2, k2 <= clen(c2), c == ctake(c2, k2)), ctake(c, k) == ctake(c2, k)))
        out.append(z3.Implies(z3.Not(chaszero(c)), z3.Not(chaszero(ctake(c, k)))))
        out.append(z3.Implies(k == 0, ctake(c, k) == cnil))
        out.append(z3.Implies(k == clen(c), ctake(c, k) == c))
        out.append(z3.Implies(z3.And(0 <= k, k <= clen(c)), clen(ctake(c, k)) == k))
        # take step: ctake(c,k+1) == csnoc(ctake(c,k), cget(c,k))
        out.append(z3.Implies(z3.And(0 <= k, k < clen(c)), ctake(c, k + 1) == csnoc(ctake(c, k), cget(c, k))))
        out.append(z3.Implies(z3.And(0 <= k, k <= clen(c)), cmaxabs(ctake(c, k)) <= cmaxabs(c)))
    for (s, k) in terms_by_decl.get('combs', []):
        out.append(cmaxabs(combs(s, k)) <= maxabs(s))
        out.append(z3.Implies(z3.Not(haszero(s)), z3.Not(chaszero(combs(s, k)))))
    for (g, u, m) in terms_by_decl.get('mrow', []):
        out.append(z3.Implies(m >= 0, ilen(mrow(g, u, m)) == m))                         # definitions (row / column of a mapping)
    for (g, v, n) in terms_by_decl.get('mcol', []):
        out.append(z3.Implies(n >= 0, ilen(mcol(g, v, n)) == n))
    for (sq, i) in terms_by_decl.get('iget', []):
        if z3.is_app(sq) and sq.decl().name() == 'mrow':
            g, u, m = sq.children()
            out.append(z3.Implies(z3.And(0 <= i, i < m), iget(sq, i) == mvar(g, u, i + 1)))
        if z3.is_app(sq) and sq.decl().name() == 'mcol':
            g, v, n = sq.children()
            out.append(z3.Implies(z3.And(0 <= i, i < n), iget(sq, i) == mvar(g, i + 1, v)))
    for (A, n) in terms_by_decl.get('iofarr', []):
        out.append(z3.Implies(n >= 0, ilen(iofarr(A, n)) == n))                          # Seq.lean iofarr_len
        # CnfSem.lean iofarr_pred: the list of length n is the list of length n-1 plus its last entry
        last = z3.Select(A, n - 1)
        out.append(z3.Implies(n >= 1, iofarr(A, n) == isnoc(iofarr(A, n - 1), z3.simplify(last) if z3.is_quantifier(A) else last)))
        if z3.is_app(A) and A.decl().kind() == z3.Z3_OP_STORE:
            # CnfSem.lean iofarr_store_ge: a store at or beyond the length is invisible
            out.append(z3.Implies(A.arg(1) >= n, iofarr(A, n) == iofarr(A.arg(0), n)))
        if z3.is_app(A) and A.decl().kind() == z3.Z3_OP_SELECT and z3.is_app(A.arg(0)) and A.arg(0).decl().kind() == z3.Z3_OP_STORE:
            # a row of an updated table: the updated row or an untouched one (array axioms + congruence; gives the schemas above their terms)
            R, j, NR = A.arg(0).children()
            n2 = n
            if z3.is_app(n) and n.decl().kind() == z3.Z3_OP_SELECT and z3.is_app(n.arg(0)) and n.arg(0).decl().kind() == z3.Z3_OP_STORE and z3.eq(n.arg(1), A.arg(1)):
                LR, j2, NL = n.arg(0).children()
                if z3.eq(j, j2):
                    out.append(z3.Implies(A.arg(1) == j, iofarr(A, n) == iofarr(NR, NL)))
                    out.append(z3.Implies(A.arg(1) != j, iofarr(A, n) == iofarr(z3.Select(R, A.arg(1)), z3.Select(LR, A.arg(1)))))
                    continue
            out.append(z3.Implies(A.arg(1) == j, iofarr(A, n) == iofarr(NR, n)))
            out.append(z3.Implies(A.arg(1) != j, iofarr(A, n) == iofarr(z3.Select(R, A.arg(1)), n)))
    for (sq, i) in terms_by_decl.get('iget', []):
        if z3.is_app(sq) and sq.decl().name() == 'iofarr':
            A, n = sq.children()
            r = z3.Select(A, i)
            out.append(z3.Implies(z3.And(0 <= i, i < n), iget(sq, i) == (z3.simplify(r) if z3.is_quantifier(A) else r)))    # Seq.lean iofarr_get
    for (v, k) in terms_by_decl.get('yblock', []):
        out.append(yblock(v, k) == apseq((v - 1) * 2 * k + k + 1, k))                     # definition (lifting layout)
    for (xo, yo, k, sg) in terms_by_decl.get('liftcls', []):
        t = liftcls(xo, yo, k, sg)
        # Subst.lean liftcls_*: k two-literal clauses over the two blocks
        out += [z3.Implies(k >= 0, clen(t) == k),
                z3.Implies(z3.And(xo >= 0, yo >= 0, z3.Or(sg == 1, sg == -1)), z3.And(z3.Not(chaszero(t)), cmaxabs(t) <= zmax(xo, yo) + zmax(k, 0)))]
    # --- samplers
    for (s_, x) in terms_by_decl.get('isnoc', []):
        out += [ifront(isnoc(s_, x)) == s_, ilast(isnoc(s_, x)) == x]                     # Seq.lean front_last_snoc
    for (A,) in terms_by_decl.get('ifront', []):
        out.append(z3.Implies(ilen(A) >= 1, z3.And(A == isnoc(ifront(A), ilast(A)), ilen(ifront(A)) == ilen(A) - 1)))
    for (k, n, A) in terms_by_decl.get('valid1x', []):
        # Sample.lean valid1x_def: the variables part is a valid positive k-list, the last entry a bit
        X, b = ifront(A), ilast(A)
        jx, ix = z3.Int('j!vx'), z3.Int('i!vx')
        out.append(valid1x(k, n, A) == z3.And(ilen(A) == k + 1, k >= 0, z3.Or(b == 0, b == 1),
                                              _forall([jx], z3.Implies(z3.And(0 <= jx, jx < k), z3.And(1 <= iget(X, jx), iget(X, jx) <= n)), [iget(X, jx)]),
                                              z3.ForAll([ix, jx], z3.Implies(z3.And(0 <= ix, ix < jx, jx < k), iget(X, ix) < iget(X, jx)))))
        out.append(z3.Implies(valid1x(k, n, A), z3.And(z3.Not(haszero(X)), maxabs(X) <= zmax(n, 0), ilen(X) == k)))
    for (k, n, L) in terms_by_decl.get('cvalidx', []):
        out.append(z3.Implies(L == cnil, cvalidx(k, n, L)))
        out.append(z3.Implies(z3.And(cvalidx(k, n, L), cdistinct(L)), clen(L) <= navail_x(k, n)))      # Sample.lean distinct_validx_le_card
        if z3.is_app(L) and L.decl().name() == 'csnoc':
            out.append(cvalidx(k, n, L) == z3.And(cvalidx(k, n, L.arg(0)), valid1x(k, n, L.arg(1)), psatx(L.arg(1))))
        for (C_, i_) in terms_by_decl.get('cget', []):
            if C_.eq(L):
                out.append(z3.Implies(z3.And(cvalidx(k, n, L), 0 <= i_, i_ < clen(L)), z3.And(valid1x(k, n, cget(L, i_)), psatx(cget(L, i_)))))
        for (R_, F_) in terms_by_decl.get('csubsel', []):
            if F_.eq(L):
                out.append(z3.Implies(z3.And(csubsel(R_, L), cvalidx(k, n, L)), cvalidx(k, n, R_)))
    for (k, d, j) in terms_by_decl.get('ysign', []):
        # Sample.lean ysign_zero / ysign_succ: filter of the sign patterns by the planted assignments
        c = smul(cget(signvecsm(k), j), d)
        out.append(z3.Implies(j == 0, ysign(k, d, j) == cnil))
        out.append(z3.Implies(z3.And(0 <= j, j < pow2(k), k >= 0),
                              ysign(k, d, j + 1) == z3.If(psat(c), csnoc(ysign(k, d, j), c), ysign(k, d, j))))
    for (k, n, t) in terms_by_decl.get('yxdom', []):
        # Sample.lean yxdom_zero / yxdom_succ / all_parities_spec
        D = combs(apseq(z3.IntVal(1), n), k)
        X = cget(D, t)
        y0 = yxdom(k, n, t)
        y1 = z3.If(psatx(isnoc(X, z3.IntVal(0))), csnoc(y0, isnoc(X, z3.IntVal(0))), y0)
        out.append(z3.Implies(t == 0, yxdom(k, n, t) == cnil))
        out.append(z3.Implies(z3.And(0 <= t, t < clen(D)),
                              yxdom(k, n, t + 1) == z3.If(psatx(isnoc(X, z3.IntVal(1))), csnoc(y1, isnoc(X, z3.IntVal(1))), y1)))
        out.append(z3.Implies(z3.And(k >= 0, n >= 0, t == clen(D)),
                              z3.And(cdistinct(yxdom(k, n, t)), cvalidx(k, n, yxdom(k, n, t)), clen(yxdom(k, n, t)) == navail_x(k, n))))
    for (k, n, t) in terms_by_decl.get('ydom', []):
        D = combs(apseq(z3.IntVal(1), n), k)
        out.append(z3.Implies(t == 0, ydom(k, n, t) == cnil))
        out.append(z3.Implies(z3.And(0 <= t, t < clen(D)), ydom(k, n, t + 1) == capp(ydom(k, n, t), ysign(k, cget(D, t), pow2(k)))))
        # Sample.lean all_clauses_spec: the full enumeration lists every compatible clause exactly once
        out.append(z3.Implies(z3.And(k >= 0, n >= 0, t == clen(D)),
                              z3.And(cdistinct(ydom(k, n, t)), cvalid(k, n, ydom(k, n, t)), clen(ydom(k, n, t)) == navail_p(k, n))))
    jv, iv2 = z3.Int('j!v1'), z3.Int('i!v1')
    for (k, n, c) in terms_by_decl.get('valid1', []):
        # definition (Sample.lean valid1_def) and its consequences for the literal bounds
        out.append(valid1(k, n, c) == z3.And(ilen(c) == k,
                                             _forall([jv], z3.Implies(z3.And(0 <= jv, jv < k), z3.And(1 <= zabs(iget(c, jv)), zabs(iget(c, jv)) <= n)), [iget(c, jv)]),
                                             z3.ForAll([iv2, jv], z3.Implies(z3.And(0 <= iv2, iv2 < jv, jv < k), zabs(iget(c, iv2)) < zabs(iget(c, jv))))))
        out.append(z3.Implies(valid1(k, n, c), z3.And(z3.Not(haszero(c)), maxabs(c) <= zmax(n, 0))))
    for (k, n, L) in terms_by_decl.get('cvalid', []):
        out.append(z3.Implies(L == cnil, cvalid(k, n, L)))
        out.append(z3.Implies(cvalid(k, n, L), z3.And(z3.Not(chaszero(L)), cmaxabs(L) <= zmax(n, 0))))      # Sample.lean cvalid_bounds
        # the counting lemma (Sample.lean distinct_valid_le_card): pairwise distinct valid clauses are at most as many as there are
        out.append(z3.Implies(z3.And(cvalid(k, n, L), cdistinct(L)), clen(L) <= navail_p(k, n)))
        if z3.is_app(L) and L.decl().name() == 'csnoc':
            L0, c = L.arg(0), L.arg(1)
            out.append(cvalid(k, n, L) == z3.And(cvalid(k, n, L0), valid1(k, n, c), psat(c)))
    for (L,) in terms_by_decl.get('cdistinct', []):
        out.append(z3.Implies(L == cnil, cdistinct(L)))
        if z3.is_app(L) and L.decl().name() == 'csnoc':
            L0, c = L.arg(0), L.arg(1)
            out.append(cdistinct(L) == z3.And(cdistinct(L0), z3.Not(cmem(c, L0))))
    for (c, L) in terms_by_decl.get('cmem', []):
        out.append(z3.Implies(L == cnil, z3.Not(cmem(c, L))))
        out.append(cmem(c, L) == z3.Select(cset(L), c))
        if z3.is_app(L) and L.decl().name() == 'csnoc':
            out.append(cmem(c, L) == z3.Or(cmem(c, L.arg(0)), c == L.arg(1)))
    for (L,) in terms_by_decl.get('cset', []):
        out.append(z3.Implies(L == cnil, cset(L) == z3.K(ISeq, z3.BoolVal(False))))
        if z3.is_app(L) and L.decl().name() == 'csnoc':
            out.append(cset(L) == z3.Store(cset(L.arg(0)), L.arg(1), z3.BoolVal(True)))
    for (R, F) in terms_by_decl.get('csubsel', []):
        # Sample.lean subsel_*: a selection at distinct positions inherits distinctness, validity and the bounds
        out.append(z3.Implies(csubsel(R, F), z3.And(z3.Implies(cdistinct(F), cdistinct(R)), clen(R) <= clen(F),
                                                    cmaxabs(R) <= cmaxabs(F), z3.Implies(chaszero(R), chaszero(F)))))
        for (k, n, L) in terms_by_decl.get('cvalid', []):
            if L.eq(F):
                out.append(z3.Implies(z3.And(csubsel(R, F), cvalid(k, n, F)), cvalid(k, n, R)))
    for (X,) in terms_by_decl.get('implchain', []):
        # Seq.lean implchain_*: n-1 two-literal clauses over the literals of X
        out += [z3.Implies(ilen(X) >= 1, clen(implchain(X)) == ilen(X) - 1), cmaxabs(implchain(X)) <= maxabs(X),
                z3.Implies(z3.Not(haszero(X)), z3.Not(chaszero(implchain(X))))]
    for (X,) in terms_by_decl.get('isorted', []):
        # CnfSem.lean isorted_*: sorting permutes - length, extrema, zero membership, magnitude unchanged
        t = isorted(X)
        out += [ilen(t) == ilen(X), minof(t) == minof(X), maxof(t) == maxof(X), haszero(t) == haszero(X), maxabs(t) == maxabs(X)]
        # ilen_isorted, minof_isorted, maxof_isorted, haszero_isorted, maxabs_isorted
    for (s_, t_) in terms_by_decl.get('iapp', []):
        # CnfSem.lean iapp_min_max / iapp_nil
        out += [z3.Implies(z3.And(ilen(s_) >= 1, ilen(t_) >= 1), z3.And(minof(iapp(s_, t_)) == zmin(minof(s_), minof(t_)), maxof(iapp(s_, t_)) == zmax(maxof(s_), maxof(t_)))),
                z3.Implies(ilen(t_) == 0, iapp(s_, t_) == s_), z3.Implies(ilen(s_) == 0, iapp(s_, t_) == t_)]
    for (s_, x) in terms_by_decl.get('isnoc', []):
        # CnfSem.lean isnoc_min_max
        out += [z3.Implies(ilen(s_) == 0, z3.And(minof(isnoc(s_, x)) == x, maxof(isnoc(s_, x)) == x)),
                z3.Implies(ilen(s_) >= 1, z3.And(minof(isnoc(s_, x)) == zmin(minof(s_), x), maxof(isnoc(s_, x)) == zmax(maxof(s_), x)))]
    for (sq, t_) in terms_by_decl.get('iget', []):
        if z3.is_app(sq) and sq.decl().name() == 'pairlits':
            # CnfSem.lean iget_pairlits: the t-th entry is the variable of the t-th pair of positions
            g_, S_ = sq.children()
            out.append(z3.Implies(z3.And(0 <= t_, t_ < ilen(sq)),
                                  z3.And(0 <= pl1(S_, t_), pl1(S_, t_) < pl2(S_, t_), pl2(S_, t_) < ilen(S_),
                                         iget(sq, t_) == cvar(g_, iget(S_, pl1(S_, t_)), iget(S_, pl2(S_, t_))))))
    for (a_, off_, C_, i_, t_) in terms_by_decl.get('cntstar', []):
        # CnfSem.lean cntstar_zero / cntstar_succ / cntstar_pred (definition by recursion on t)
        step = lambda tt: z3.If(z3.And(imem(cget(C_, tt), i_), lit_true(a_, off_ + 1 + tt)), 1, 0)
        out += [z3.Implies(t_ == 0, cntstar(a_, off_, C_, i_, t_) == 0),
                z3.Implies(t_ >= 0, cntstar(a_, off_, C_, i_, t_ + 1) == cntstar(a_, off_, C_, i_, t_) + step(t_)),
                z3.Implies(t_ >= 1, cntstar(a_, off_, C_, i_, t_) == cntstar(a_, off_, C_, i_, t_ - 1) + step(t_ - 1))]
    for (S_, x_) in terms_by_decl.get('imem', []):
        # CnfSem.lean imem_witness (Skolem position mpos2) / imem_of_get
        out.append(z3.Implies(imem(S_, x_), z3.And(0 <= ipos(S_, x_), ipos(S_, x_) < ilen(S_), iget(S_, ipos(S_, x_)) == x_)))
    for (S_, k_) in terms_by_decl.get('iget', []):
        for (S2_, x_) in terms_by_decl.get('imem', []):
            if S_.eq(S2_):
                out.append(z3.Implies(z3.And(0 <= k_, k_ < ilen(S_), iget(S_, k_) == x_), imem(S_, x_)))
    for (S_, n_, x_) in terms_by_decl.get('imemp', []):
        # CnfSem.lean imemp_zero / imemp_succ / imemp_pred / imemp_full
        out += [z3.Implies(n_ <= 0, z3.Not(imemp(S_, n_, x_))),
                z3.Implies(z3.And(0 <= n_, n_ < ilen(S_)), imemp(S_, n_ + 1, x_) == z3.Or(imemp(S_, n_, x_), iget(S_, n_) == x_)),
                z3.Implies(z3.And(1 <= n_, n_ <= ilen(S_)), imemp(S_, n_, x_) == z3.Or(imemp(S_, n_ - 1, x_), iget(S_, n_ - 1) == x_)),
                z3.Implies(n_ >= ilen(S_), imemp(S_, n_, x_) == imem(S_, x_))]
        if z3.is_app(S_) and S_.decl().name() == 'cget' and z3.is_app(S_.arg(0)) and S_.arg(0).decl().name() == 'combs' \
                and z3.is_app(S_.arg(0).arg(0)) and S_.arg(0).arg(0).decl().name() == 'apseq':
            # CnfSem.lean combs_apseq_fresh: a listed subset of a progression has no repeated entry
            C_, i_ = S_.arg(0), S_.arg(1)
            for m_ in (n_, n_ - 1):
                out.append(z3.Implies(z3.And(0 <= i_, i_ < clen(C_), 0 <= m_, m_ < ilen(S_)), z3.Not(imemp(S_, m_, iget(S_, m_)))))
    # CnfSem.lean combs_apseq_range: every entry of a listed subset lies in the progression
    for (sq, p_) in terms_by_decl.get('iget', []):
        if z3.is_app(sq) and sq.decl().name() == 'cget' and z3.is_app(sq.arg(0)) and sq.arg(0).decl().name() == 'combs' \
                and z3.is_app(sq.arg(0).arg(0)) and sq.arg(0).arg(0).decl().name() == 'apseq':
            C_, i_ = sq.arg(0), sq.arg(1)
            st_, n_, k_ = C_.arg(0).arg(0), C_.arg(0).arg(1), C_.arg(1)
            out.append(z3.Implies(z3.And(k_ >= 0, 0 <= i_, i_ < clen(C_), 0 <= p_, p_ < ilen(sq)), z3.And(st_ <= iget(sq, p_), iget(sq, p_) < st_ + n_)))
    for (g_, S_) in terms_by_decl.get('pairlits', []):
        # the same facts at the two witness positions (a zero entry, an entry of largest magnitude), spelled out in ONE round so that
        # "no zero literal / all variables of the formula" follows without deep chains of instance rounds
        X_ = pairlits(g_, S_)
        out.append(z3.Implies(haszero(X_), z3.And(0 <= zpos(X_), zpos(X_) < ilen(X_), iget(X_, zpos(X_)) == 0)))        # Seq.lean haszero_witness
        out.append(z3.Implies(ilen(X_) > 0, z3.And(0 <= mpos(X_), mpos(X_) < ilen(X_), zabs(iget(X_, mpos(X_))) == maxabs(X_))))
        out.append(z3.Implies(ilen(X_) == 0, maxabs(X_) == 0))
        for t_ in (zpos(X_), mpos(X_)):
            p_, q_ = pl1(S_, t_), pl2(S_, t_)
            out.append(z3.Implies(z3.And(0 <= t_, t_ < ilen(X_)),
                                  z3.And(0 <= p_, p_ < q_, q_ < ilen(S_), iget(X_, t_) == cvar(g_, iget(S_, p_), iget(S_, q_)))))      # iget_pairlits
            if z3.is_app(S_) and S_.decl().name() == 'cget' and z3.is_app(S_.arg(0)) and S_.arg(0).decl().name() == 'combs' \
                    and z3.is_app(S_.arg(0).arg(0)) and S_.arg(0).arg(0).decl().name() == 'apseq':
                C_, i_ = S_.arg(0), S_.arg(1)
                st_, n_, k_ = C_.arg(0).arg(0), C_.arg(0).arg(1), C_.arg(1)
                out.append(z3.Implies(z3.And(k_ >= 0, 0 <= i_, i_ < clen(C_), 0 <= p_, p_ < q_, q_ < ilen(S_)),
                                      z3.And(st_ <= iget(S_, p_), iget(S_, p_) < iget(S_, q_), iget(S_, q_) < st_ + n_)))             # combs_apseq_sorted
    # CnfSem.lean combs_apseq_sorted: the subsets of a progression are listed as strictly increasing lists inside it
    _ig = [(sq, t_) for (sq, t_) in terms_by_decl.get('iget', []) if z3.is_app(sq) and sq.decl().name() == 'cget' and z3.is_app(sq.arg(0))
           and sq.arg(0).decl().name() == 'combs' and z3.is_app(sq.arg(0).arg(0)) and sq.arg(0).arg(0).decl().name() == 'apseq']
    for a_ in range(len(_ig)):
        for b_ in range(len(_ig)):
            (s1, p_), (s2, q_) = _ig[a_], _ig[b_]
            if a_ != b_ and s1.eq(s2):
                C_, i_ = s1.arg(0), s1.arg(1)
                st_, n_, k_ = C_.arg(0).arg(0), C_.arg(0).arg(1), C_.arg(1)
                out.append(z3.Implies(z3.And(k_ >= 0, 0 <= i_, i_ < clen(C_), 0 <= p_, p_ < q_, q_ < ilen(s1)),
                                      z3.And(st_ <= iget(s1, p_), iget(s1, p_) < iget(s1, q_), iget(s1, q_) < st_ + n_)))
    for (t_,) in terms_by_decl.get('sqr', []):
        # linear facts about t*t over the integers (CnfSem.lean sqr_facts): non-negative, zero only at zero, at least |t|
        out += [sqr(t_) >= 0, (sqr(t_) == 0) == (t_ == 0), sqr(t_) >= t_, sqr(t_) >= -t_]
    for (w_,) in terms_by_decl.get('isqf', []):
        out.append(isqf(w_) >= 0)           # ASSUMED library fact: math.sqrt returns a non-negative float, int() of it is >= 0
    for (g, u) in terms_by_decl.get('degsum', []):
        # CnfSem.lean degsum_zero / degsum_pred / degsum_succ / degsum_nonneg / ilen_rnbrs_nonneg (definition by recursion on u)
        out += [z3.Implies(u == 0, degsum(g, u) == 0),
                z3.Implies(u >= 1, degsum(g, u) == degsum(g, u - 1) + ilen(rnbrs(g, u))),
                z3.Implies(u >= 0, degsum(g, u + 1) == degsum(g, u) + ilen(rnbrs(g, u + 1))),
                z3.Implies(u >= 0, degsum(g, u) >= 0), ilen(rnbrs(g, u)) >= 0]
        # CnfSem.lean degsum_mono: more vertices, more edges
        out += [z3.Implies(z3.And(0 <= u2, u2 <= u), degsum(g2, u2) <= degsum(g, u)) for (g2, u2) in terms_by_decl.get('degsum', [])
                if g2.eq(g) and not u2.eq(u)]
    for (sq, o) in terms_by_decl.get('ishift', []):
        # Seq.lean ishift_*: length, no zero / bounded when the elements are positive and the offset non-negative, identity
        t = ishift(sq, o)
        out += [ilen(t) == ilen(sq), z3.Implies(o == 0, t == sq),
                z3.Implies(z3.And(o >= 0, z3.Or(ilen(sq) == 0, minof(sq) >= 1)), z3.And(z3.Not(haszero(t)), maxabs(t) <= maxabs(sq) + o))]
    for (sq, i) in terms_by_decl.get('iget', []):
        if z3.is_app(sq) and sq.decl().name() == 'ishift':
            out.append(z3.Implies(z3.And(0 <= i, i < ilen(sq.arg(0))), iget(sq, i) == iget(sq.arg(0), i) + sq.arg(1)))
        # Seq.lean iget_between: every element lies between the minimum and the maximum
        out.append(z3.Implies(z3.And(0 <= i, i < ilen(sq)), z3.And(minof(sq) <= iget(sq, i), iget(sq, i) <= maxof(sq))))
    for (gid, v) in terms_by_decl.get('preds', []):
        P = preds(gid, v)
        # definition of gtopo on this vertex (Pebbling.lean gtopo_def): predecessors are vertices 1 <= p < v
        out.append(z3.Implies(z3.And(gtopo(gid), ilen(P) > 0), z3.And(minof(P) >= 1, maxof(P) < v)))
        out.append(z3.Implies(ilen(P) > 0, maxabs(P) == zmax(maxof(P), -minof(P))))
    # --- output traces
    for (tid, x, y) in terms_by_decl.get('ev3', []):
        out.append(ev3(tid, x, y) != evcomment)                                   # Trace.lean ev3_ne_comment (tid >= 0 by construction)
    for (tid, g, t) in terms_by_decl.get('dedges', []):
        # Trace.lean dedges_zero / dedges_succ
        out.append(z3.Implies(t == 0, dedges(tid, g, t) == cnil))
        out.append(z3.Implies(t >= 0, dedges(tid, g, t + 1) == csnoc(dedges(tid, g, t), ev3(tid, gedge1(g, t), gedge2(g, t)))))
    for (k,) in terms_by_decl.get('opq', []):
        # Trace.lean opq_zero / opq_succ
        out.append(z3.Implies(k == 0, opq(k) == cnil))
        out.append(z3.Implies(k >= 0, opq(k + 1) == csnoc(opq(k), evopaque)))
    for (tid, c) in terms_by_decl.get('evrow', []):
        out.append(evrow(tid, c) != evcomment)                                    # Trace.lean evrow_ne_comment
    for (w, T, t) in terms_by_decl.get('rowsfrom', []):
        # Trace.lean rowsfrom_zero / rowsfrom_succ
        out.append(z3.Implies(t == 0, rowsfrom(w, T, t) == T))
        out.append(z3.Implies(t >= 0, rowsfrom(w, T, t + 1) == rowapp(w, rowsfrom(w, T, t), t)))
    for (tr,) in terms_by_decl.get('dropc', []):
        out.append(z3.Implies(tr == cnil, dropc(tr) == cnil))
        if z3.is_app(tr) and tr.decl().name() == 'csnoc':
            t0, e = tr.arg(0), tr.arg(1)
            # Trace.lean dropc_snoc: a comment event disappears, any other event stays last
            out.append(z3.Implies(e == evcomment, dropc(tr) == dropc(t0)))
            out.append(z3.Implies(e != evcomment, dropc(tr) == csnoc(dropc(t0), e)))
    for (w, c, j) in terms_by_decl.get('dlits', []):
        out.append(z3.Implies(j == 0, dlits(w, c, j) == cnil))
        out.append(z3.Implies(z3.And(0 <= j, j < ilen(c)), dlits(w, c, j + 1) == csnoc(dlits(w, c, j), levent(w, iget(c, j)))))
    for (w, T, j) in terms_by_decl.get('dterms', []):
        out.append(z3.Implies(j == 0, dterms(w, T, j) == cnil))
        out.append(z3.Implies(z3.And(0 <= j, j < tlen(T)), dterms(w, T, j + 1) == csnoc(dterms(w, T, j), tevent(w, tcoef(T, j), tlit(T, j)))))
    for (w, O, t) in terms_by_decl.get('dcons', []):
        out.append(z3.Implies(t == 0, dcons(w, O, t) == cnil))
        ck = oget(O, t)
        out.append(z3.Implies(z3.And(0 <= t, t < olen(O)),
                              dcons(w, O, t + 1) == csnoc(capp(dcons(w, O, t), dterms(w, Con.terms(ck), tlen(Con.terms(ck)))),
                                                                 cevent(w, z3.If(Con.op(ck) == z3.StringVal('>='), z3.IntVal(1), z3.IntVal(0)), Con.value(ck)))))
    for (w, te, C, t) in terms_by_decl.get('dclauses', []):
        out.append(z3.Implies(t == 0, dclauses(w, te, C, t) == cnil))
        ck = cget(C, t)
        out.append(z3.Implies(z3.And(0 <= t, t < clen(C)),
                              dclauses(w, te, C, t + 1) == csnoc(capp(dclauses(w, te, C, t), dlits(w, ck, ilen(ck))), ev3(te, 0, 0))))
    sids = []
    for nm in ('cdistall', 'cdist', 'gad'):
        for args in terms_by_decl.get(nm, []):
            if not any(args[0].eq(x) for x in sids):
                sids.append(args[0])
    for (T, L, c) in terms_by_decl.get('cdist_tab', []):
        for sid in sids:
            # Dist.lean cdist_tab_congr: equal components give equal distributions; contrapositive with a Skolem position
            j = dbad(T, L, c, sid)
            l = iget(c, j)
            out.append(z3.Implies(cdist_tab(T, L, c) != cdist(sid, c),
                                  z3.And(0 <= j, j < ilen(c),
                                         z3.Implies(l >= 0, z3.Select(T, l) != gad(sid, l)),
                                         z3.Implies(l < 0, z3.Select(T, L + l) != gad(sid, l)))))
    for (sid, C, t) in terms_by_decl.get('cdistall', []):
        # Subst.lean cmaxabs_cdistall / chaszero_cdistall: the largest variable (a zero literal) of the distributed clauses
        # comes from the gadget CNF of some literal of C
        D = cdistall(sid, C, t)
        lm, lz = lmax(sid, C, t), lzero(sid, C, t)
        out.append(z3.Implies(z3.And(0 <= t, t <= clen(C)),
                              z3.Or(cmaxabs(D) == 0,
                                    z3.And(zabs(lm) <= cmaxabs(C), z3.Implies(z3.Not(chaszero(C)), lm != 0), cmaxabs(D) <= cmaxabs(gad(sid, lm))))))
        out.append(z3.Implies(z3.And(0 <= t, t <= clen(C), chaszero(D)),
                              z3.And(zabs(lz) <= cmaxabs(C), z3.Implies(z3.Not(chaszero(C)), lz != 0), chaszero(gad(sid, lz)))))
        # Dist.lean cdistall_zero / cdistall_succ
        out.append(z3.Implies(t == 0, cdistall(sid, C, t) == cnil))
        out.append(z3.Implies(z3.And(0 <= t, t < clen(C)), cdistall(sid, C, t + 1) == capp(cdistall(sid, C, t), cdist(sid, cget(C, t)))))
    for (c, i) in terms_by_decl.get('cget', []):
        out.append(z3.Implies(z3.And(0 <= i, i < clen(c)), maxabs(cget(c, i)) <= cmaxabs(c)))
        out.append(z3.Implies(z3.And(0 <= i, i < clen(c), z3.Not(chaszero(c))), z3.Not(haszero(cget(c, i)))))
    # CnfSem.lean combs_apseq_distinct: the k-subsets of a progression are listed without repetition
    _cg = [(c, i) for (c, i) in terms_by_decl.get('cget', []) if z3.is_app(c) and c.decl().name() == 'combs'
           and z3.is_app(c.arg(0)) and c.arg(0).decl().name() == 'apseq']
    for a_ in range(len(_cg)):
        for b_ in range(len(_cg)):
            (c1, i1), (c2, i2) = _cg[a_], _cg[b_]
            if a_ != b_ and c1.eq(c2):
                out.append(z3.Implies(z3.And(0 <= i1, i1 < i2, i2 < clen(c1)), cget(c1, i1) != cget(c1, i2)))
    for (x,) in terms_by_decl.get('pow2', []):
        # Nat.one_le_two_pow, pow_succ (trivial arithmetic; Lean: Bits.lean pow2_facts)
        out.append(z3.Implies(x >= 0, pow2(x) >= 1))
        out.append(z3.Implies(x == 0, pow2(x) == 1))
        out.append(z3.Implies(x >= 1, pow2(x) == 2 * pow2(x - 1)))
        out.append(z3.Implies(x >= 0, pow2(x + 1) == 2 * pow2(x)))
    out += _opb_on_terms(terms_by_decl)
    for (st, n) in terms_by_decl.get('apseq', []):
        # Seq.lean apseq_*: length, bounds, zero membership
        sq = apseq(st, n)
        out += [z3.Implies(n >= 0, ilen(sq) == n),
                z3.Implies(n >= 0, haszero(sq) == z3.And(st <= 0, 0 < st + n)),
                z3.Implies(z3.And(n >= 1, st >= 1), maxabs(sq) == st + n - 1),
                z3.Implies(n <= 0, sq == inil)]
    for (sq, i) in terms_by_decl.get('iget', []):
        if z3.is_app(sq) and sq.decl().name() == 'apseq':
            st, n = sq.children()
            out.append(z3.Implies(z3.And(0 <= i, i < n), iget(sq, i) == st + i))
    for (s_,) in terms_by_decl.get('negunits', []):
        nu = negunits(s_)
        out += [clen(nu) == ilen(s_), cmaxabs(nu) == maxabs(s_), chaszero(nu) == haszero(s_)]
    for (sq, F, t) in terms_by_decl.get('iflips', []):
        # Neq.lean iflips_*: flipping positions one after the other; sizes and literal magnitudes are unchanged
        out += [z3.Implies(t == 0, iflips(sq, F, t) == sq),
                z3.Implies(z3.And(0 <= t, t < ilen(F)), iflips(sq, F, t + 1) == iflip1(iflips(sq, F, t), iget(F, t))),
                ilen(iflips(sq, F, t)) == ilen(sq), maxabs(iflips(sq, F, t)) == maxabs(sq), haszero(iflips(sq, F, t)) == haszero(sq)]
    for (sq, F, t) in terms_by_decl.get('iflips', []):
        # the same step read backwards (Neq.lean iflips_succ), so that a single flip iflips(s, [p], 1) unfolds to iflip1(s, p)
        out.append(z3.Implies(z3.And(1 <= t, t <= ilen(F)), iflips(sq, F, t) == iflip1(iflips(sq, F, t - 1), iget(F, t - 1))))
    for (sq, i) in terms_by_decl.get('iflip1', []):
        out += [ilen(iflip1(sq, i)) == ilen(sq), maxabs(iflip1(sq, i)) == maxabs(sq), haszero(iflip1(sq, i)) == haszero(sq)]
        if z3.is_app(sq) and sq.decl().name() == 'iflip1':
            # Neq.lean iflip1_iflip1: negating the same position twice restores the list
            out.append(z3.Implies(z3.And(sq.arg(1) == i, 0 <= i, i < ilen(sq.arg(0))), iflip1(sq, i) == sq.arg(0)))
    for (c_, t) in terms_by_decl.get('cget', []):
        if z3.is_app(c_) and c_.decl().name() == 'idxcombs':
            n, k = c_.children()
            F = cget(c_, t)
            jf = z3.Int('j!ic')
            # Neq.lean idxcombs_elem: every element is a strictly increasing k-tuple of positions 0..n-1;
            # flipping it twice (in the same order) restores the list
            out += [z3.Implies(z3.And(0 <= t, t < clen(c_)), distinct_idx(F)),
                    z3.Implies(z3.And(0 <= t, t < clen(c_)), z3.And(ilen(F) == k,
                    z3.ForAll([jf], z3.Implies(z3.And(0 <= jf, jf < k), z3.And(0 <= iget(F, jf), iget(F, jf) < n)))))]
    for (n, k) in terms_by_decl.get('idxcombs', []):
        # Neq.lean idxcombs_one: the 1-subsets of range(n), in order, are [0], [1], ..., [n-1]
        out.append(z3.Implies(z3.And(k == 1, n >= 0), clen(idxcombs(n, k)) == n))
    for (c_, t) in terms_by_decl.get('cget', []):
        if z3.is_app(c_) and c_.decl().name() == 'idxcombs':
            n, k = c_.children()
            out.append(z3.Implies(z3.And(k == 1, 0 <= t, t < n), z3.And(ilen(cget(c_, t)) == 1, iget(cget(c_, t), 0) == t)))
    for (sq, F, t) in terms_by_decl.get('iflips', []):
        # un-flipping: applying the same positions again, in the same order, after a complete pass
        if z3.is_app(sq) and sq.decl().name() == 'iflips':
            s0, F0, t0 = sq.children()
            out.append(z3.Implies(z3.And(F0 == F, t0 == ilen(F), t == ilen(F), _distinct_idx(F)), iflips(sq, F, t) == s0))
    for (sq, c, t) in terms_by_decl.get('neqprefix', []):
        n = ilen(sq)
        out += [z3.Implies(t == 0, neqprefix(sq, c, t) == cnil),
                z3.Implies(z3.And(0 <= t, t < clen(idxcombs(n, c))),
                           neqprefix(sq, c, t + 1) == csnoc(neqprefix(sq, c, t), iflips(sq, cget(idxcombs(n, c), t), c))),
                z3.Implies(z3.And(0 <= t, t <= clen(idxcombs(n, c))), z3.And(cmaxabs(neqprefix(sq, c, t)) <= maxabs(sq),
                           z3.Implies(z3.Not(haszero(sq)), z3.Not(chaszero(neqprefix(sq, c, t))))))]
    for (n,) in terms_by_decl.get('signvecsm', []):
        out.append(z3.Implies(n >= 0, clen(signvecsm(n)) == pow2(n)))          # Bits.lean length_signs (same enumeration, other order)
    for (n,) in terms_by_decl.get('signvecs', []):
        out.append(z3.Implies(n >= 0, clen(signvecs(n)) == pow2(n)))           # Bits.lean length_signs
    for (l, d, t) in terms_by_decl.get('pfilter', []):
        n = ilen(l)
        sv = cget(signvecs(n), t)
        out.append(z3.Implies(z3.And(0 <= t, t <= pow2(n)), cmaxabs(pfilter(l, d, t)) <= maxabs(l)))      # Parity.lean pfilter_maxabs
        out.append(z3.Implies(z3.And(0 <= t, t <= pow2(n), z3.Not(haszero(l))), z3.Not(chaszero(pfilter(l, d, t)))))
        out.append(z3.Implies(t == 0, pfilter(l, d, t) == cnil))                  # Parity.lean pfilter_zero / pfilter_succ
        out.append(z3.Implies(z3.And(0 <= t, t < pow2(n)),
                              pfilter(l, d, t + 1) == z3.If(sprod(sv) == d, csnoc(pfilter(l, d, t), smul(l, sv)), pfilter(l, d, t))))
    for (l, sgn) in terms_by_decl.get('smul', []):
        # Parity.lean smul_signs_*: multiplying by a sign vector keeps |.| and non-zeroness
        if z3.is_app(sgn) and sgn.decl().name() == 'cget' and z3.is_app(sgn.arg(0)) and sgn.arg(0).decl().name() == 'signvecs':
            n, t = sgn.arg(0).arg(0), sgn.arg(1)
            ok = z3.And(n == ilen(l), 0 <= t, t < pow2(n))
            out.append(z3.Implies(ok, z3.And(maxabs(smul(l, sgn)) == maxabs(l), haszero(smul(l, sgn)) == haszero(l),
                                             ilen(smul(l, sgn)) == ilen(l))))
    jq = z3.Int('j!perm')
    for (A, n, base) in terms_by_decl.get('isperm', []):
        # Perm.lean isperm_range: every entry lies in base..base+n-1
        out.append(z3.Implies(isperm(A, n, base), z3.ForAll([jq], z3.Implies(z3.And(0 <= jq, jq < n),
                   z3.And(base <= z3.Select(A, jq), z3.Select(A, jq) < base + n)))))
        if base.eq(z3.IntVal(0)) or True:
            inv = invperm(A, n)
            # Perm.lean invperm_*: the inverse of a permutation of 0..n-1 is a permutation and inverts it
            out.append(z3.Implies(z3.And(isperm(A, n, base), base == 0), z3.And(
                isperm(inv, n, 0),
                z3.ForAll([jq], z3.Implies(z3.And(0 <= jq, jq < n), z3.And(0 <= z3.Select(inv, jq), z3.Select(inv, jq) < n,
                                                                        z3.Select(A, z3.Select(inv, jq)) == jq))))))
    for (T, A, n) in terms_by_decl.get('sortedperm', []):
        for (A2, n2, base) in terms_by_decl.get('isperm', []):
            if A2.eq(A):
                # Perm.lean sorted_perm_range (L13a): sorted(A) is base..base+n-1 position-wise  <=>  A is a permutation of it
                out.append(z3.Implies(z3.And(sortedperm(T, A, n), n2 == n),
                                      isperm(A, n, base) == z3.ForAll([jq], z3.Implies(z3.And(0 <= jq, jq < n), z3.Select(T, jq) == base + jq))))
    for (sq, A, n) in terms_by_decl.get('imapsub', []):
        out.append(ilen(imapsub(sq, A, n)) == ilen(sq))
    for (sq, i) in terms_by_decl.get('iget', []):
        out.append(z3.Implies(z3.And(0 <= i, i < ilen(sq)), zabs(iget(sq, i)) <= maxabs(sq)))          # Seq.lean iget_le_maxabs
        out.append(z3.Implies(z3.And(0 <= i, i < ilen(sq), z3.Not(haszero(sq))), iget(sq, i) != 0))      # Seq.lean iget_ne_zero
        if z3.is_app(sq) and sq.decl().name() == 'imapsub':
            s0, A, n = sq.children()
            l = iget(s0, i)
            out.append(z3.Implies(z3.And(0 <= i, i < ilen(s0)), iget(sq, i) == z3.If(l >= 0, z3.Select(A, l), z3.Select(A, n + l))))
    for (sq,) in terms_by_decl.get('haszero', []):
        # witness of a zero literal (Seq.lean haszero_witness)
        out.append(z3.Implies(haszero(sq), z3.And(0 <= zpos(sq), zpos(sq) < ilen(sq), iget(sq, zpos(sq)) == 0)))
    for (sq,) in terms_by_decl.get('maxabs', []):
        out.append(z3.Implies(ilen(sq) > 0, z3.And(0 <= mpos(sq), mpos(sq) < ilen(sq), zabs(iget(sq, mpos(sq))) == maxabs(sq))))
        out.append(z3.Implies(ilen(sq) == 0, maxabs(sq) == 0))
    for (st,) in terms_by_decl.get('card2', []):
        out.append(card2(st) >= 0)
        if z3.is_quantifier(st) and st.is_lambda() and z3.is_false(st.body()):
            out.append(card2(st) == 0)            # the empty set
        if z3.is_app(st) and st.decl().kind() == z3.Z3_OP_STORE:
            base, x, y, val = st.children()
            # Graph.lean card_insert / card_erase
            out.append(card2(st) == card2(base) + z3.If(val, z3.If(z3.Select(base, x, y), 0, 1), z3.If(z3.Select(base, x, y), -1, 0)))
    ps = terms_by_decl.get('psum', [])
    for (I, W, t) in ps:
        # Block.lean psum_zero / psum_succ / psum_store_ge
        out.append(z3.Implies(t == 0, psum(I, W, t) == 0))
        out.append(z3.Implies(t >= 0, psum(I, W, t + 1) == psum(I, W, t) + (z3.Select(I, t) - 1) * z3.Select(W, t)))
        out.append(z3.Implies(t >= 1, psum(I, W, t) == psum(I, W, t - 1) + (z3.Select(I, t - 1) - 1) * z3.Select(W, t - 1)))
        if z3.is_app(I) and I.decl().kind() == z3.Z3_OP_STORE:
            I0, k, v = I.children()
            out.append(z3.Implies(k >= t, psum(I, W, t) == psum(I0, W, t)))
    out.append(clen(cnil) == 0)
    out.append(ilen(inil) == 0)
    out.append(cmaxabs(cnil) == 0)
    out.append(z3.Not(chaszero(cnil)))
    out.append(maxabs(inil) == 0)
    out.append(z3.Not(haszero(inil)))
    return out


def _has_ite(e):
    stack, seen = [e], set()
    while stack:
        x = stack.pop()
        if x.get_id() in seen:
            continue
        seen.add(x.get_id())
        if z3.is_app(x) and x.decl().kind() == z3.Z3_OP_ITE:
            return True
        stack.extend(x.children())
    return False


distinct_idx = z3.Function('distinct_idx', ISeq, Bool)     # the entries are pairwise distinct


def _distinct_idx(F):
    return distinct_idx(F)


def _forall(vs, body, patterns):
    if any(_has_ite(p) for p in patterns):
        return z3.ForAll(vs, body)
    return z3.ForAll(vs, body, patterns=patterns)


def _opb_on_terms(d):
    out = []
    j = z3.Int('j!row')
    for (s,) in d.get('tunit', []):
        t = tunit(s)
        out += [tlen(t) == ilen(s), thaszero(t) == haszero(s), tmaxabs(t) == maxabs(s), tnonneg(t)]
    for (t,) in d.get('tnegc', []):
        n = tnegc(t)
        out += [tlen(n) == tlen(t), thaszero(n) == thaszero(t), tmaxabs(n) == tmaxabs(t),
                _forall([j], z3.And(tcoef(n, j) == -tcoef(t, j), tlit(n, j) == tlit(t, j)), [tcoef(n, j), tlit(n, j)])]
    for (t, i, c, l) in d.get('tset', []):
        n = tset(t, i, c, l)
        out += [tlen(n) == tlen(t),
                # CnfSem.tget_set_general (the update only takes effect inside the list)
                _forall([j], z3.And(tcoef(n, j) == z3.If(z3.And(j == i, 0 <= i, i < tlen(t)), c, tcoef(t, j)),
                                    tlit(n, j) == z3.If(z3.And(j == i, 0 <= i, i < tlen(t)), l, tlit(t, j))),
                        [tcoef(n, j), tlit(n, j)]),
                # Opb.lean thaszero_set / tmaxabs_set (the replaced literal has the same absolute value in normalize_opb)
                z3.Implies(z3.And(0 <= i, i < tlen(t), zabs(l) == zabs(tlit(t, i))),
                           z3.And(thaszero(n) == thaszero(t), tmaxabs(n) == tmaxabs(t)))]
    for (t,) in d.get('tmaxabs', []):
        # witness of the maximum (CnfSem: tmaxabs_witness), and empty case
        out.append(z3.Implies(tlen(t) > 0, z3.And(0 <= tmpos(t), tmpos(t) < tlen(t), zabs(tlit(t, tmpos(t))) == tmaxabs(t))))
        out.append(z3.Implies(tlen(t) == 0, tmaxabs(t) == 0))
    for (t,) in d.get('thaszero', []):
        out.append(z3.Implies(thaszero(t), z3.And(0 <= tzpos(t), tzpos(t) < tlen(t), tlit(t, tzpos(t)) == 0)))
    for (t, i) in d.get('tlit', []):
        out.append(z3.Implies(z3.And(0 <= i, i < tlen(t), tlit(t, i) == 0), thaszero(t)))          # CnfSem: thaszero_of_get
        # Opb.lean tlit_ne_zero / tlit_le_maxabs
        out.append(z3.Implies(z3.And(0 <= i, i < tlen(t), z3.Not(thaszero(t))), tlit(t, i) != 0))
        out.append(z3.Implies(z3.And(0 <= i, i < tlen(t)), zabs(tlit(t, i)) <= tmaxabs(t)))
    for (o, c) in d.get('osnoc', []):
        n = osnoc(o, c)
        out += [olen(n) == olen(o) + 1,
                omaxabs(n) == zmax(omaxabs(o), tmaxabs(Con.terms(c))),
                ohaszero(n) == z3.Or(ohaszero(o), thaszero(Con.terms(c))),
                onormal(n) == z3.And(onormal(o), tnonneg(Con.terms(c)),
                                     z3.Or(Con.op(c) == z3.StringVal('>='), Con.op(c) == z3.StringVal('=='))),
                z3.Implies(z3.And(True), otake(n, olen(o)) == o)]
    for (o, k) in d.get('otake', []):
        for (o2, c2) in d.get('osnoc', []):
            out.append(z3.Implies(z3.And(o == osnoc(o2, c2), 0 <= k, k <= olen(o2)), otake(o, k) == otake(o2, k)))
        out.append(z3.Implies(k == olen(o), otake(o, k) == o))
        for (o3, k3) in d.get('otake', []):
            out.append(z3.Implies(z3.And(0 <= k, k <= k3, k3 <= olen(o3), o == otake(o3, k3)), otake(o, k) == otake(o3, k)))
    S = z3.StringVal
    for (o, c) in d.get('oappc', []):
        n = oappc(o, c)
        # Opb.lean oappc_*: clauses rendered as PB constraints, appended
        out += [z3.Implies(c == cnil, n == o),
                olen(n) == olen(o) + clen(c),
                omaxabs(n) == zmax(omaxabs(o), cmaxabs(c)),
                ohaszero(n) == z3.Or(ohaszero(o), chaszero(c)),
                onormal(n) == onormal(o),
                z3.Implies(True, otake(n, olen(o)) == o)]
        for (c2, s2) in d.get('csnoc', []):
            if c.eq(csnoc(c2, s2)):
                out.append(n == osnoc(oappc(o, c2), mkcon(tunit(s2), S('>='), z3.IntVal(1))))
            else:
                out.append(z3.Implies(c == csnoc(c2, s2), n == osnoc(oappc(o, c2), mkcon(tunit(s2), S('>='), z3.IntVal(1)))))
    out.append(olen(onil) == 0)
    out.append(omaxabs(onil) == 0)
    out.append(z3.Not(ohaszero(onil)))
    out.append(onormal(onil))
    return out


def _opb_sem(asgs, d, by_sort):
    out = []
    for a in asgs:
        out.append(osat(a, onil))
        for (s,) in d.get('tunit', []):
            out.append(wsum(a, tunit(s)) == count(a, s))                       # Opb.lean wsum_unit
        for (t,) in d.get('tnegc', []):
            out.append(wsum(a, tnegc(t)) == -wsum(a, t))                       # Opb.lean wsum_negc
        for (t, i, c, l) in d.get('tset', []):
            out.append(z3.Implies(z3.And(0 <= i, i < tlen(t)),                  # Opb.lean wsum_set
                                  wsum(a, tset(t, i, c, l)) == wsum(a, t) - tcoef(t, i) * b2i(lit_true(a, tlit(t, i)))
                                  + c * b2i(lit_true(a, l))))
        for (o, c) in d.get('osnoc', []):
            out.append(osat(a, osnoc(o, c)) == z3.And(osat(a, o), holds(a, c)))
        for (o, c) in d.get('oappc', []):
            out.append(osat(a, oappc(o, c)) == z3.And(osat(a, o), sat(a, c)))          # Opb.lean osat_oappc
        for c in by_sort.get('Con', []):
            out.append(holds(a, c) == cmp_op(Con.op(c), wsum(a, Con.terms(c)), Con.value(c)))
    return out


def _lit_neg(asgs, exprs_lits):
    # Count.lean litTrue_neg: l != 0 -> lit_true(a,-l) = not lit_true(a,l); instantiated on every lit_true argument
    out = []
    for a in asgs:
        for l in exprs_lits:
            out.append(z3.Implies(l != 0, lit_true(a, -l) == z3.Not(lit_true(a, l))))
    return out


def _sem_on_terms(asgs, terms_by_decl):
    """semantic lemma instances for every assignment term"""
    out = []
    for a in asgs:
        out.append(sat(a, cnil))
        out.append(count(a, inil) == 0)
        for (s,) in terms_by_decl.get('ineg', []):
            # L3 (Count.lean count_neg): no zero literal => count(neg s) = len s - count s
            out.append(z3.Implies(z3.Not(haszero(s)), count(a, ineg(s)) == ilen(s) - count(a, s)))
        for (s, x) in terms_by_decl.get('isnoc', []):
            out.append(count(a, isnoc(s, x)) == count(a, s) + b2i(lit_true(a, x)))
        for (s, t_) in terms_by_decl.get('iapp', []):
            out.append(count(a, iapp(s, t_)) == count(a, s) + count(a, t_))          # Count.lean count_append
        for (X,) in terms_by_decl.get('isorted', []):
            out.append(count(a, isorted(X)) == count(a, X))                          # CnfSem.count_isorted
        for (sq, o) in terms_by_decl.get('ishift', []):
            if z3.is_app(sq) and sq.decl().name() == 'isorted':
                out.append(count(a, ishift(sq, o)) == count(a, ishift(sq.arg(0), o)))   # CnfSem.count_ishift_isorted
        for (c, s) in terms_by_decl.get('csnoc', []):
            out.append(sat(a, csnoc(c, s)) == z3.And(sat(a, c), ctrue(a, s)))     # L1 instance
        for (c, d) in terms_by_decl.get('capp', []):
            out.append(sat(a, capp(c, d)) == z3.And(sat(a, c), sat(a, d)))        # L1 (Parity.lean sat_append)
        for (s_,) in terms_by_decl.get('negunits', []):
            # every literal false  (Count.lean sat_negunits): needs non-zero literals
            out.append(z3.Implies(z3.Not(haszero(s_)), sat(a, negunits(s_)) == (count(a, s_) == 0)))
        for (sq, c, t) in terms_by_decl.get('neqprefix', []):
            # L5 NEQ (Neq.lean neq_main): flipping every c-subset of positions gives clauses that are all true iff count != c
            out.append(z3.Implies(z3.And(0 <= c, c <= ilen(sq), z3.Not(haszero(sq)), t == clen(idxcombs(ilen(sq), c))),
                                  sat(a, neqprefix(sq, c, t)) == (count(a, sq) != c)))
        for (l, d, t) in terms_by_decl.get('pfilter', []):
            # L6 PARITY (Parity.lean parity_main): the sign patterns of product d over non-zero literals
            out.append(z3.Implies(z3.And(z3.Or(d == 1, d == -1), z3.Not(haszero(l)), t == pow2(ilen(l))),
                                  sat(a, pfilter(l, d, t)) == ((count(a, l) % 2 == 1) == (d == 1))))
        for (sid, c) in terms_by_decl.get('cdist', []):
            # L8 (Dist.lean sat_cdist): the distributed clauses hold iff some literal's gadget CNF holds
            out.append(sat(a, cdist(sid, c)) == cind(a, sid, c))
        for (sid, C, t) in terms_by_decl.get('cdistall', []) + terms_by_decl.get('satind', [])[:0]:
            # L9 (Subst.lean sat_cdistall): by induction over the clauses
            out.append(z3.Implies(z3.And(0 <= t, t <= clen(C)), sat(a, cdistall(sid, C, t)) == satind(a, sid, C, t)))
        for (a0, sid, C, t) in [x for x in terms_by_decl.get('satind', []) if x[0].eq(a)]:
            for b in asgs:
                if b.eq(a):
                    continue
                # L9 (Subst.lean satind_eq_sat): if the gadget CNF of every literal of C holds under a exactly when the literal
                # is true under b, the distributed formula holds under a iff C holds under b; contrapositive, Skolem literal
                l = lwit(a, sid, b, C)
                out.append(z3.Implies(z3.And(t == clen(C), z3.Not(chaszero(C)), satind(a, sid, C, t) != sat(b, C)),
                                      z3.And(l != 0, zabs(l) <= cmaxabs(C), sat(a, gad(sid, l)) != lit_true(b, l))))
        for (b0, l) in terms_by_decl.get('lit_true', []):
            if z3.is_app(b0) and b0.decl().name() == 'aind' and b0.arg(0).eq(a):
                # definition of the induced assignment on variables
                out.append(z3.Implies(l > 0, lit_true(b0, l) == sat(a, gad(b0.arg(1), l))))
        lsems = [x for x in terms_by_decl.get('liftsem', []) if x[0].eq(a)]
        for (xo, yo, k, sg) in terms_by_decl.get('liftcls', []):
            for (_a, v, k2, pos) in lsems:
                # Subst.lean sat_liftcls: the clauses (selector i false or copy i has the sign) hold iff every true selector
                # selects a copy with that value - for the blocks of variable v in the lifting layout
                out.append(z3.Implies(z3.And(k2 == k, k >= 1, v >= 1, xo == (v - 1) * 2 * k, yo == xo + k, z3.Or(sg == 1, sg == -1), pos == (sg == 1)),
                                      sat(a, liftcls(xo, yo, k, sg)) == liftsem(a, v, k, pos)))
        for (_a, v, k, pos) in lsems:
            # Subst.lean liftsem_flip: with exactly one selector true, "the selected copy is true" and "is false" are complementary
            out.append(z3.Implies(z3.And(k >= 1, v >= 1, count(a, yblock(v, k)) == 1),
                                  liftsem(a, v, k, z3.BoolVal(True)) == z3.Not(liftsem(a, v, k, z3.BoolVal(False)))))
        for (X,) in terms_by_decl.get('implchain', []):
            # Subst.lean allequal_cycle: the chain X[0] -> ... -> X[n-1] closed by X[n-1] -> X[0] holds iff all literals agree
            n = ilen(X)
            out.append(z3.Implies(z3.And(n >= 1, z3.Not(haszero(X))),
                                  z3.And(z3.Or(lit_true(a, iget(X, 0)), z3.Not(lit_true(a, iget(X, n - 1)))), sat(a, implchain(X)))
                                  == z3.Or(count(a, X) == 0, count(a, X) == n)))
        for (gid,) in terms_by_decl.get('gtopo', []):
            # L12 (Pebbling.lean pebbling_unsat, contrapositive with a Skolem vertex): on a topologically sorted DAG with at
            # least one vertex whose sink view agrees with the predecessor lists, some vertex violates its pebbling axiom
            # (all predecessors pebbled -> pebbled;  sink -> not pebbled), variable of vertex v = v
            w = pebwit(a, gid)
            P = preds(gid, w)
            ax = z3.And(z3.Implies(count(a, P) == ilen(P), lit_true(a, w)), z3.Implies(outdeg(gid, w) == 0, z3.Not(lit_true(a, w))))
            out.append(z3.Implies(z3.And(gorder(gid) >= 1, gtopo(gid), gsinkok(gid)),
                                  z3.And(1 <= w, w <= gorder(gid), z3.Not(ax))))
        for (s, k) in terms_by_decl.get('combs', []):
            # L4 BLAST (Blast.lean): 1<=k<=len s  ->  all k-subsets hit  <->  count >= len-k+1
            out.append(z3.Implies(z3.And(1 <= k, k <= ilen(s)),
                                  sat(a, combs(s, k)) == (count(a, s) >= ilen(s) - k + 1)))
    return out


def _collect(exprs):
    """ground terms by sort and applications by declaration name"""
    seen = set()
    by_sort = {'Asg': [], 'ISeq': [], 'CSeq': [], 'TSeq': [], 'OSeq': [], 'Con': [], 'Str': [], 'SSeq': []}
    by_decl = {}
    stack = list(exprs)
    while stack:
        e = stack.pop()
        if e.get_id() in seen:
            continue
        seen.add(e.get_id())
        if z3.is_quantifier(e):
            continue                      # never instantiate below binders
        if z3.is_app(e):
            sn = e.sort().name()
            if sn in by_sort and not _has_bound(e):
                by_sort[sn].append(e)
            d = e.decl().name()
            if e.num_args() and (d in FUNCS or d == 'select') and not _has_bound(e):
                by_decl.setdefault(d, []).append(tuple(e.children()))
            stack.extend(e.children())
    return by_sort, by_decl


def _is_neg(e):
    # -x is (* -1 x) or (- x)
    return z3.is_app(e) and ((e.decl().kind() == z3.Z3_OP_UMINUS) or
                             (e.decl().kind() == z3.Z3_OP_MUL and e.num_args() == 2 and z3.is_int_value(e.arg(0)) and e.arg(0).as_long() == -1))


def _unneg(e):
    """t for a term of the shape -t, else the term itself"""
    if _is_neg(e):
        return e.arg(0) if e.decl().kind() == z3.Z3_OP_UMINUS else e.arg(1)
    return e


def _has_bound(e):
    """does the term mention a variable bound OUTSIDE it?  (binders inside the term, e.g. a lambda array, are fine:
    _collect never descends below a quantifier, so every term it meets is outside all binders)"""
    stack = [e]
    while stack:
        x = stack.pop()
        if z3.is_var(x):
            return True
        if z3.is_quantifier(x):
            continue
        stack.extend(x.children())
    return False


def _quantifier_instances(exprs, by_decl):
    """instances of the hypotheses' own quantified facts (contracts of function values, definitions) at the ground terms
    that match their single one-variable pattern f(.., X, ..): logically redundant (z3 instantiates them itself), but it
    makes the resulting terms visible to the ground lemma schemas of the next round"""
    out = []
    for q in exprs:
        if not (z3.is_quantifier(q) and q.is_forall() and q.num_vars() == 1 and q.num_patterns() == 1):
            continue
        pat = q.pattern(0)
        if pat.num_args() != 1:
            continue
        p = pat.arg(0)
        if not z3.is_app(p) or p.decl().name() not in by_decl:
            continue
        pos = [i for i in range(p.num_args()) if z3.is_var(p.arg(i))]
        if len(pos) != 1 or any(_has_bound(p.arg(i)) for i in range(p.num_args()) if i != pos[0]):
            continue
        for args in by_decl[p.decl().name()]:
            if len(args) == p.num_args() and all(args[i].eq(p.arg(i)) for i in range(len(args)) if i != pos[0]) \
                    and args[pos[0]].sort() == q.var_sort(0):
                out.append(z3.substitute_vars(q.body(), args[pos[0]]))
    return out


def instances(exprs, rounds=3, goal=None):
    """ground lemma instances for the VC made of the hypotheses `exprs` and the `goal`: lemma schemas are instantiated at the
    ground terms of both, the hypotheses' own quantified facts are instantiated too - the goal's NEVER (that would assume it)"""
    out = []
    seen = set()
    hyps = list(exprs)
    cur = hyps + ([goal] if goal is not None else [])
    for _ in range(rounds):
        by_sort, by_decl = _collect(cur + out)
        new = []
        new += _quantifier_instances(hyps, by_decl)
        new += _on_terms(by_decl)
        new += _sem_on_terms(by_sort['Asg'], by_decl)
        new += _opb_sem(by_sort['Asg'], by_decl, by_sort)
        new += _lit_neg(by_sort['Asg'], [_unneg(args[1]) for args in by_decl.get('lit_true', [])])
        for name, lean, sorts, f in LEMMAS:
            pools = [by_sort[s.name()] for s in sorts]
            for combo in itertools.product(*pools):
                new += f(*combo)
        for n in new:
            if n.get_id() not in seen:
                seen.add(n.get_id())
                out.append(n)
    return out
