"""ufmode - uninterpreted-function symbolic execution of the CLI helper layer (DESIGN C17 *P*).

For every helper class of cnfgen/clihelpers/*.py (FormulaHelper / TransformationHelper subclasses) the
REAL source is re-read and parsed from vlib.core.REPO on every run; nothing is imported, no copy of a
helper lives in /verif.

1. shape: the argparse namespace shape is derived mechanically from the add_argument calls of the
   helper's setup_command_line (dest, type, default, nargs, action, mutually exclusive groups, sub-parsers
   combined by compose_two_parsers, custom argparse.Action classes of the same module).
2. execution: build_formula / transform_cnf is executed on a symbolic namespace.  Library generators are
   uninterpreted constructors, calls are normalised to keyword form through the callee's REAL signature
   (defaults explicit).  Every read of a flag forks on "was the option given"; every other condition
   forks with a z3 feasibility check.  The outcome of a path is a term, a refusal (raise) or a hazard.
3. contracts (contracts/cli_helpers.py) are small Python texts over the *command line surface*
   (val('--opt') / given('--flag') / has('dest')) executed by the same evaluator.
4. obligations: (a) term equality per path, (b) attribute reads defined by the shape, (c) formula_class
   threaded, (d) frame on reads, refusals permitted.

Anything outside the supported subset raises Unsupported: the helper is reported UNSUPPORTED.
"""
import ast
import os
import warnings
from collections import OrderedDict

import z3


class Unsupported(Exception):
    pass


class SpecError(Exception):
    """a contract text is ill-formed (checker error, never a verdict)"""


class PathEnd(Exception):
    """infeasible path"""


class _Return(Exception):
    def __init__(self, value):
        self.value = value


class _Refuse(Exception):
    def __init__(self, exc, line):
        self.exc = exc
        self.line = line


class _Hazard(Exception):
    def __init__(self, kind, detail, line=0):
        self.kind = kind
        self.detail = detail
        self.line = line


# ---------------------------------------------------------------------------------------------
# terms
# ---------------------------------------------------------------------------------------------
class Term:
    def key(self):
        raise NotImplementedError

    def __eq__(self, o):
        return isinstance(o, Term) and self.key() == o.key()

    def __hash__(self):
        return hash(self.key())

    def __repr__(self):
        return show(self)


class Const(Term):
    def __init__(self, v):
        self.v = v

    def key(self):
        return ('C', type(self.v).__name__, repr(self.v))


class Sym(Term):
    """a symbolic constant: a value typed on the command line, formula_class, the input formula F"""

    def __init__(self, name, ty='any'):
        self.name = name
        self.ty = ty

    def key(self):
        return ('S', self.name)


class Glob(Term):
    """a global of a repo module (mod = repo relative path) or of an external module (mod = 'ext:<name>')"""

    def __init__(self, mod, name):
        self.mod = mod
        self.name = name

    def key(self):
        return ('G', self.mod, self.name)


class App(Term):
    """call, arguments in keyword form (signature order)"""

    def __init__(self, fn, args):
        self.fn = fn
        self.args = tuple(args)

    def key(self):
        return ('A', self.fn.key(), tuple((n, t.key()) for n, t in self.args))


class Op(Term):
    """python operator / method / builtin / container display"""

    def __init__(self, op, args=(), kw=()):
        self.op = op
        self.args = tuple(args)
        self.kw = tuple(kw)

    def key(self):
        return ('O', self.op, tuple(t.key() for t in self.args), tuple((n, t.key()) for n, t in self.kw))


class Opaque(Term):
    """comprehension / generator expression: source text + captured locals"""

    def __init__(self, kind, src, env, random=False):
        self.kind = kind
        self.src = src
        self.env = tuple(env)
        self.random = random

    def key(self):
        return ('Q', self.kind, self.src, tuple((n, t.key()) for n, t in self.env))


class Wild(Term):
    """contract only: ANY, RANDOM (any term containing a random draw), ANYOF(t1, t2, ...)"""

    def __init__(self, kind, alts=()):
        self.kind = kind
        self.alts = tuple(alts)

    def key(self):
        return ('W', self.kind, tuple(t.key() for t in self.alts))


def show(t):
    if isinstance(t, Const):
        return repr(t.v)
    if isinstance(t, Sym):
        return '<' + t.name + '>'
    if isinstance(t, Glob):
        return t.name if not t.mod.startswith('ext:') else t.mod[4:] + '.' + t.name
    if isinstance(t, App):
        return '{}({})'.format(show(t.fn), ', '.join('{}={}'.format(n, show(a)) for n, a in t.args))
    if isinstance(t, Op):
        a = [show(x) for x in t.args] + ['{}={}'.format(n, show(x)) for n, x in t.kw]
        if t.op == 'list':
            return '[' + ', '.join(a) + ']'
        if t.op == 'tuple':
            return '(' + ', '.join(a) + ',)'
        if len(t.args) == 2 and not t.kw and not t.op[0].isalpha():
            return '({} {} {})'.format(a[0], t.op, a[1])
        if t.op.startswith('method:'):
            return '{}.{}({})'.format(a[0], t.op[7:], ', '.join(a[1:]))
        if t.op.startswith('builtin:'):
            return '{}({})'.format(t.op[8:], ', '.join(a))
        return '{}({})'.format(t.op, ', '.join(a))
    if isinstance(t, Opaque):
        return '{}`{}`{}'.format(t.kind, t.src, '{' + ', '.join('{}={}'.format(n, show(x)) for n, x in t.env) + '}' if t.env else '')
    if isinstance(t, Wild):
        return t.kind.upper() + ('(' + ', '.join(show(x) for x in t.alts) + ')' if t.alts else '')
    return repr(t)


def subterms(t):
    yield t
    if isinstance(t, App):
        yield from subterms(t.fn)
        for _, a in t.args:
            yield from subterms(a)
    elif isinstance(t, Op):
        for a in t.args:
            yield from subterms(a)
        for _, a in t.kw:
            yield from subterms(a)
    elif isinstance(t, Opaque):
        for _, a in t.env:
            yield from subterms(a)
    elif isinstance(t, Wild):
        for a in t.alts:
            yield from subterms(a)


def syms_of(t):
    return {s.name for s in subterms(t) if isinstance(s, Sym)}


def contains_random(t):
    for s in subterms(t):
        if isinstance(s, Glob) and s.mod == 'ext:random':
            return True
        if isinstance(s, Opaque) and s.random:
            return True
    return False


def term_to_json(t):
    if isinstance(t, Const):
        return {'c': t.v} if not isinstance(t.v, (bytes, complex)) else {'c': repr(t.v)}
    if isinstance(t, Sym):
        return {'s': t.name, 'ty': t.ty}
    if isinstance(t, Glob):
        return {'g': [t.mod, t.name]}
    if isinstance(t, App):
        return {'app': term_to_json(t.fn), 'args': [[n, term_to_json(a)] for n, a in t.args]}
    if isinstance(t, Op):
        return {'op': t.op, 'args': [term_to_json(a) for a in t.args], 'kw': [[n, term_to_json(a)] for n, a in t.kw]}
    if isinstance(t, Opaque):
        return {'opaque': t.kind, 'src': t.src}
    if isinstance(t, Wild):
        return {'wild': t.kind, 'alts': [term_to_json(a) for a in t.alts]}
    raise TypeError(t)


# ---------------------------------------------------------------------------------------------
# source access: parsed modules of the repository, import resolution
# ---------------------------------------------------------------------------------------------
class Src:
    def __init__(self, root):
        self.root = root
        self.cache = {}

    def module(self, rel):
        if rel not in self.cache:
            with open(os.path.join(self.root, rel)) as f:
                text = f.read()
            self.cache[rel] = self.parse_module(text, rel)
        return self.cache[rel]

    def parse_module(self, text, rel):
        with warnings.catch_warnings():
            warnings.simplefilter('ignore')
            tree = ast.parse(text)
        funcs, classes, imports, consts = {}, {}, {}, {}
        for n in tree.body:
            if isinstance(n, ast.FunctionDef):
                funcs[n.name] = n
            elif isinstance(n, ast.ClassDef):
                classes[n.name] = n
            elif isinstance(n, ast.ImportFrom):
                for a in n.names:
                    imports[a.asname or a.name] = (n.module or '', a.name, n.level)
            elif isinstance(n, ast.Import):
                for a in n.names:
                    if a.asname:
                        imports[a.asname] = (a.name, None, 0)
                    else:
                        imports[a.name.split('.')[0]] = (a.name.split('.')[0], None, 0)
            elif isinstance(n, ast.Assign) and len(n.targets) == 1 and isinstance(n.targets[0], ast.Name):
                consts[n.targets[0].id] = n.value
        return dict(tree=tree, funcs=funcs, classes=classes, imports=imports, consts=consts, rel=rel)

    def modpath(self, dotted, frm=None, level=0):
        if level:
            base = os.path.dirname(frm)
            for _ in range(level - 1):
                base = os.path.dirname(base)
            dotted = (base.replace('/', '.') + ('.' + dotted if dotted else '')).strip('.')
        rel = dotted.replace('.', '/') + '.py'
        if os.path.exists(os.path.join(self.root, rel)):
            return rel
        rel = dotted.replace('.', '/') + '/__init__.py'
        if os.path.exists(os.path.join(self.root, rel)):
            return rel
        return None

    def resolve(self, rel, name, seen=()):
        """-> ('def'|'class'|'const', rel, node) | ('module', dotted, rel-or-None) | ('ext', module, name) | ('missing', rel, name)"""
        if (rel, name) in seen:
            return ('missing', rel, name)
        m = self.module(rel) if not isinstance(rel, dict) else rel
        if name in m['funcs']:
            return ('def', m['rel'], m['funcs'][name])
        if name in m['classes']:
            return ('class', m['rel'], m['classes'][name])
        if name in m['consts']:
            return ('const', m['rel'], m['consts'][name])
        if name in m['imports']:
            modname, orig, level = m['imports'][name]
            target = self.modpath(modname, m['rel'], level)
            if orig is None:
                return ('module', modname, target)
            if target is None:
                return ('ext', modname, orig)
            r = self.resolve(target, orig, seen + ((m['rel'], name),))
            if r[0] == 'missing':
                sub = self.modpath((modname + '.' + orig) if not level else orig, m['rel'], level)
                if sub:
                    return ('module', modname + '.' + orig, sub)
            return r
        return ('missing', m['rel'], name)

    def class_method(self, rel, cls, meth, depth=0):
        """method node following base classes inside the repo; -> (rel, node) or None"""
        for b in cls.body:
            if isinstance(b, ast.FunctionDef) and b.name == meth:
                return rel, b
        if depth > 4:
            return None
        for base in cls.bases:
            if isinstance(base, ast.Name):
                r = self.resolve(rel, base.id)
                if r[0] == 'class':
                    got = self.class_method(r[1], r[2], meth, depth + 1)
                    if got:
                        return got
        return None

    def class_bases(self, rel, cls, depth=0):
        """names of all (transitive) base classes, as written / resolved"""
        out = []
        for base in cls.bases:
            out.append(ast.unparse(base))
            if isinstance(base, ast.Name) and depth < 5:
                r = self.resolve(rel, base.id)
                if r[0] == 'class':
                    out.extend(self.class_bases(r[1], r[2], depth + 1))
        return out


# ---------------------------------------------------------------------------------------------
# namespace shape, derived from the add_argument calls
# ---------------------------------------------------------------------------------------------
NODEFAULT = ('<no default>',)
INT_TYPES_SEED = {'int'}


class Entry:
    """one add_argument call"""

    def __init__(self, **kw):
        self.names = []          # option strings, or [dest] for a positional
        self.optional = False
        self.dest = None
        self.action = 'store'    # store store_true store_false store_const graph alts
        self.type = 'str'
        self.default = NODEFAULT
        self.nargs = None
        self.const = None
        self.choices = None
        self.required = False
        self.mutex = None
        self.graph_kind = None
        self.alts = None         # for action == 'alts': list of Alt
        self.line = 0
        self.key = None          # surface key, unique in the helper
        self.__dict__.update(kw)

    def describe(self):
        d = {'dest': self.dest, 'names': self.names, 'action': self.action, 'type': self.type,
             'default': None if self.default is NODEFAULT else self.default, 'nargs': self.nargs}
        if self.action == 'store_const':
            d['const'] = self.const
        if self.choices:
            d['choices'] = self.choices
        if self.required:
            d['required'] = True
        if self.mutex is not None:
            d['mutex'] = self.mutex
        if self.graph_kind:
            d['graph'] = self.graph_kind
        if self.alts is not None:
            d['alternatives'] = [a.describe() for a in self.alts]
        return d


class Alt:
    """one alternative namespace extension produced by a custom action (compose_two_parsers / Action subclass)"""

    def __init__(self, label, entries, attrs):
        self.label = label
        self.entries = entries       # Entry list (inner parser merged into the namespace)
        self.attrs = attrs           # names defined by setattr(args, "<name>", ...)

    def dests(self):
        return {e.dest for e in self.entries} | set(self.attrs)

    def describe(self):
        return {'label': self.label, 'entries': [e.describe() for e in self.entries], 'setattr': sorted(self.attrs)}


class Shape:
    def __init__(self):
        self.entries = []
        self.doc = []                # documentation strings met in setup_command_line
        self.nmutex = 0

    def describe(self):
        return [e.describe() for e in self.entries]

    def all_dests(self):
        out = set()
        for e in self.entries:
            out.add(e.dest)
            for a in e.alts or []:
                out |= a.dests()
        return out


def _const(node):
    """python value of a constant expression (Constant, -Constant, list/tuple of those)"""
    if isinstance(node, ast.Constant):
        return node.value
    if isinstance(node, ast.UnaryOp) and isinstance(node.op, ast.USub) and isinstance(node.operand, ast.Constant):
        return -node.operand.value
    if isinstance(node, (ast.List, ast.Tuple)):
        return [_const(e) for e in node.elts]
    raise Unsupported('non-constant expression in add_argument: ' + ast.unparse(node))


class ShapeBuilder:
    def __init__(self, src, rel):
        self.src = src
        self.rel = rel
        self.mod = src.module(rel)

    # -- classification of names used in add_argument ---------------------------------------
    def classify_type(self, node):
        if isinstance(node, ast.Name):
            if node.id in ('int', 'float', 'str'):
                return node.id
            r = self.src.resolve(self.rel, node.id)
            if r[0] == 'def':
                return self._type_of_converter(r[1], r[2], 0)
            raise Unsupported('type= of unknown origin: ' + node.id)
        if isinstance(node, ast.Call) and ast.unparse(node.func) == 'argparse.FileType':
            return 'file:' + (str(_const(node.args[0])) if node.args else 'r')
        raise Unsupported('type= expression: ' + ast.unparse(node))

    def _type_of_converter(self, rel, fn, depth):
        """argparse type function: int if its value flows through int(..), float through float(..)"""
        found = set()
        for n in ast.walk(fn):
            if isinstance(n, ast.Call) and isinstance(n.func, ast.Name):
                if n.func.id in ('int', 'float'):
                    found.add(n.func.id)
                elif depth < 3:
                    r = self.src.resolve(rel, n.func.id)
                    if r[0] == 'def' and r[2] is not fn:
                        found.add(self._type_of_converter(r[1], r[2], depth + 1))
        found.discard('str')
        if found == {'int'}:
            return 'int'
        if found == {'float'}:
            return 'float'
        raise Unsupported('cannot classify argparse type function ' + fn.name)

    def classify_action_name(self, name, local_actions):
        """Name used as action= : local composite, graph action class, custom Action class"""
        if name in local_actions:
            return ('alts', local_actions[name])
        r = self.src.resolve(self.rel, name)
        if r[0] != 'class':
            raise Unsupported('action= of unknown origin: ' + name)
        rel, cls = r[1], r[2]
        bases = self.src.class_bases(rel, cls)
        if not any(b.endswith('Action') for b in bases):
            raise Unsupported('action class {} is not an argparse.Action'.format(name))
        got = self.src.class_method(rel, cls, '__call__')
        if not got:
            raise Unsupported('action class {} has no __call__'.format(name))
        crel, call = got
        kind = self._graph_action_kind(call)
        if kind:
            return ('graph', kind)
        return ('alts', self.custom_alts(crel, cls.name, call))

    @staticmethod
    def _graph_action_kind(call):
        """pattern:  X = make_graph_from_spec('<kind>', values); setattr(args, self.dest, X)"""
        nsname = call.args.args[2].arg
        valname = call.args.args[3].arg
        kind, var, stored = None, None, False
        for n in ast.walk(call):
            if isinstance(n, ast.Assign) and isinstance(n.value, ast.Call) and \
                    ast.unparse(n.value.func) == 'make_graph_from_spec' and len(n.value.args) == 2 and \
                    isinstance(n.value.args[0], ast.Constant) and ast.unparse(n.value.args[1]) == valname and \
                    isinstance(n.targets[0], ast.Name):
                kind, var = n.value.args[0].value, n.targets[0].id
            if isinstance(n, ast.Call) and ast.unparse(n.func) == 'setattr' and len(n.args) == 3 and \
                    ast.unparse(n.args[0]) == nsname and ast.unparse(n.args[1]) == 'self.dest':
                stored = ast.unparse(n.args[2])
        nset = sum(1 for n in ast.walk(call) if isinstance(n, ast.Call) and ast.unparse(n.func) == 'setattr')
        if kind and stored == var and nset == 1:
            return kind
        return None

    def is_parser_ctor(self, node, rel=None):
        if not isinstance(node, ast.Call):
            return False
        f = ast.unparse(node.func)
        if f == 'argparse.ArgumentParser':
            return True
        if isinstance(node.func, ast.Name):
            r = self.src.resolve(rel or self.rel, node.func.id)
            if r[0] == 'class' and any('ArgumentParser' in b for b in self.src.class_bases(r[1], r[2])):
                return True
        return False

    def check_compose(self, node):
        """compose_two_parsers(p1, p2): recognise the combinator structurally in the REAL source"""
        if not (isinstance(node, ast.Call) and isinstance(node.func, ast.Name)):
            return False
        r = self.src.resolve(self.rel, node.func.id)
        if r[0] != 'def' or r[2].name != 'compose_two_parsers':
            return False
        fn = r[2]
        p1, p2 = fn.args.args[0].arg, fn.args.args[1].arg
        calls = [ast.unparse(n) for n in ast.walk(fn) if isinstance(n, ast.Call) and ast.unparse(n.func).endswith('.parse_args')]
        want = ['{}.parse_args(values, namespace=args)'.format(p1), '{}.parse_args(values, namespace=args)'.format(p2)]
        ifs = [n for n in ast.walk(fn) if isinstance(n, ast.If) and len(n.body) == 1 and len(n.orelse) == 1 and
               ast.unparse(n.body[0]) == want[0] and ast.unparse(n.orelse[0]) == want[1]]
        if sorted(calls) != sorted(want) or len(ifs) != 1:
            raise Unsupported('compose_two_parsers no longer has the recognised structure (exactly one of the two parsers fills the namespace)')
        if len(node.args) != 2 or node.keywords:
            raise Unsupported('compose_two_parsers called with a custom test')
        return True

    # -- one add_argument call -----------------------------------------------------------------
    def entry_of(self, call, local_actions, mutex=None, tolerant=False):
        names = []
        for a in call.args:
            v = _const(a)
            if not isinstance(v, str):
                raise Unsupported('add_argument name is not a string')
            names.append(v)
        kw = {}
        for k in call.keywords:
            if k.arg is None:
                raise Unsupported('add_argument(**kwargs)')
            kw[k.arg] = k.value
        unknown = set(kw) - {'help', 'metavar', 'action', 'type', 'nargs', 'default', 'const', 'choices', 'required', 'dest', 'version'}
        if unknown:
            raise Unsupported('add_argument keyword(s) ' + ', '.join(sorted(unknown)))
        e = Entry(names=names, line=call.lineno, mutex=mutex)
        e.optional = names[0].startswith('-')
        if 'dest' in kw:
            e.dest = _const(kw['dest'])
        elif e.optional:
            longs = [n for n in names if n.startswith('--')]
            e.dest = (longs[0][2:] if longs else names[0].lstrip('-')).replace('-', '_')
        else:
            if len(names) != 1:
                raise Unsupported('positional with several names')
            e.dest = names[0]
        if 'action' in kw:
            a = kw['action']
            if isinstance(a, ast.Constant):
                e.action = a.value
            elif isinstance(a, ast.Name):
                kind, info = self.classify_action_name(a.id, local_actions)
                e.action = kind
                if kind == 'graph':
                    e.graph_kind = info
                    e.type = 'graph:' + info
                    if 'nargs' in kw:
                        raise Unsupported('graph action with nargs')
                else:
                    e.alts = info
            elif isinstance(a, ast.Call) and tolerant:
                e.action = 'other'
            else:
                raise Unsupported('action= expression ' + ast.unparse(a))
        if e.action not in ('store', 'store_true', 'store_false', 'store_const', 'graph', 'alts'):
            if tolerant:
                e.action = 'other'
            else:
                raise Unsupported("argparse action '{}'".format(e.action))
        if 'type' in kw and e.action != 'other':
            e.type = self.classify_type(kw['type'])
        if 'nargs' in kw:
            e.nargs = _const(kw['nargs'])
        if 'default' in kw:
            d = kw['default']
            if ast.unparse(d) == 'argparse.SUPPRESS':
                raise Unsupported('default=argparse.SUPPRESS')
            e.default = _const(d)
        if 'const' in kw:
            e.const = _const(kw['const'])
        if 'choices' in kw:
            e.choices = _const(kw['choices'])
        if 'required' in kw:
            e.required = bool(_const(kw['required']))
        if e.action in ('store_true', 'store_false'):
            e.type = 'bool'
            if e.default is NODEFAULT:
                e.default = (e.action == 'store_false')
        if e.action == 'store' and e.nargs not in (None, '?', '*', '+'):
            raise Unsupported('nargs={!r}'.format(e.nargs))
        if e.action == 'alts' and e.optional:
            raise Unsupported('custom action on an option')
        e.key = ('opt:' + ([n for n in names if n.startswith('--')] or names)[0]) if e.optional else 'pos:' + e.dest
        return e

    # -- a parser-building body (setup_command_line, or the inside of a custom action) -----------
    def scan_setup(self, fn, shape, tolerant=False):
        pname = fn.args.args[0].arg
        parsers = {pname: shape.entries}
        groups = {}
        local_actions = {}
        for st in fn.body:
            try:
                self._scan_stmt(st, shape, parsers, groups, local_actions, pname, tolerant)
            except Unsupported:
                if not tolerant:
                    raise
        return shape

    def _collect_doc(self, node, shape):
        for n in ast.walk(node):
            if isinstance(n, ast.Constant) and isinstance(n.value, str):
                shape.doc.append(n.value)
            elif isinstance(n, ast.Name):
                r = self.src.resolve(self.rel, n.id)
                if r[0] == 'const' and isinstance(r[2], ast.Constant) and isinstance(r[2].value, str):
                    shape.doc.append(r[2].value)

    def _scan_stmt(self, st, shape, parsers, groups, local_actions, pname, tolerant):
        if isinstance(st, ast.Pass) or (isinstance(st, ast.Expr) and isinstance(st.value, ast.Constant)):
            return
        if isinstance(st, ast.Assign) and len(st.targets) == 1:
            t = st.targets[0]
            if isinstance(t, ast.Attribute) and isinstance(t.value, ast.Name) and t.value.id in parsers and \
                    t.attr in ('usage', 'description', 'epilog'):
                self._collect_doc(st.value, shape)
                return
            if isinstance(t, ast.Name) and isinstance(st.value, ast.Call):
                v = st.value
                if self.is_parser_ctor(v):
                    parsers[t.id] = []
                    return
                if isinstance(v.func, ast.Attribute) and isinstance(v.func.value, ast.Name) and \
                        v.func.value.id in parsers and v.func.attr == 'add_mutually_exclusive_group':
                    shape.nmutex += 1
                    groups[t.id] = (v.func.value.id, shape.nmutex)
                    return
                if self.check_compose(v):
                    a, b = v.args
                    if not (isinstance(a, ast.Name) and isinstance(b, ast.Name) and a.id in parsers and b.id in parsers
                            and a.id != pname and b.id != pname):
                        raise Unsupported('compose_two_parsers on unknown parsers')
                    for which in (a.id, b.id):
                        for k, e in enumerate(parsers[which]):
                            if e.optional or e.action == 'alts':
                                raise Unsupported('sub-parser of compose_two_parsers with options')
                    local_actions[t.id] = [Alt(a.id, parsers[a.id], ()), Alt(b.id, parsers[b.id], ())]
                    return
        if isinstance(st, ast.Expr) and isinstance(st.value, ast.Call) and isinstance(st.value.func, ast.Attribute) and \
                st.value.func.attr == 'add_argument' and isinstance(st.value.func.value, ast.Name):
            who = st.value.func.value.id
            if who in parsers:
                parsers[who].append(self.entry_of(st.value, local_actions, None, tolerant))
                return
            if who in groups:
                owner, gid = groups[who]
                parsers[owner].append(self.entry_of(st.value, local_actions, gid, tolerant))
                return
        raise Unsupported('statement in setup_command_line outside the supported subset (line {}): {}'.format(
            st.lineno, ast.unparse(st)[:80]))

    # -- custom Action class of the helper module: enumerate the paths of __call__ ------------------
    def custom_alts(self, rel, cname, call):
        sub = ShapeBuilder(self.src, rel) if rel != self.rel else self
        params = [a.arg for a in call.args.args]
        if len(params) < 4:
            raise Unsupported('custom action __call__ signature')
        pname, nsname, valname = params[1], params[2], params[3]
        finals = []

        def copy(s):
            return {'parsers': {k: list(v) for k, v in s['parsers'].items()}, 'merged': list(s['merged']), 'attrs': list(s['attrs'])}

        def is_error(st):
            if isinstance(st, ast.Raise):
                return True
            return isinstance(st, ast.Expr) and isinstance(st.value, ast.Call) and ast.unparse(st.value.func) == pname + '.error'

        def block(stmts, s):
            """-> list of states that fall through"""
            states = [s]
            for st in stmts:
                nxt = []
                for s1 in states:
                    nxt.extend(stmt(st, s1))
                states = nxt
                if not states:
                    break
            return states

        def stmt(st, s):
            if is_error(st):
                return []
            if isinstance(st, ast.Return):
                if st.value is not None:
                    raise Unsupported('custom action returns a value')
                finals.append(s)
                return []
            if isinstance(st, ast.Pass) or (isinstance(st, ast.Expr) and isinstance(st.value, ast.Constant)):
                return [s]
            if isinstance(st, ast.If):
                return block(st.body, copy(s)) + block(st.orelse, copy(s))
            if isinstance(st, ast.Try):
                if st.orelse or st.finalbody:
                    raise Unsupported('try/else/finally in custom action')
                for h in st.handlers:
                    if not (h.body and is_error(h.body[-1])):
                        raise Unsupported('exception handler in custom action does not end in an error')
                return block(st.body, s)
            if isinstance(st, ast.Assign) and len(st.targets) == 1 and isinstance(st.targets[0], ast.Name):
                if sub.is_parser_ctor(st.value, rel):
                    s['parsers'][st.targets[0].id] = []
                    return [s]
                if st.targets[0].id in (nsname, pname) or any(isinstance(n, ast.Call) and ast.unparse(n.func) in ('setattr', 'delattr')
                                                              for n in ast.walk(st.value)):
                    raise Unsupported('custom action rebinds the namespace')
                return [s]          # local value computation: irrelevant for the shape
            if isinstance(st, ast.Expr) and isinstance(st.value, ast.Call):
                c = st.value
                f = ast.unparse(c.func)
                if isinstance(c.func, ast.Attribute) and isinstance(c.func.value, ast.Name) and c.func.value.id in s['parsers']:
                    who = c.func.value.id
                    if c.func.attr == 'add_argument':
                        e = sub.entry_of(c, {}, None)
                        if e.optional or e.action == 'alts':
                            raise Unsupported('inner parser of a custom action with options')
                        s['parsers'][who].append(e)
                        return [s]
                    if c.func.attr == 'parse_args' and len(c.args) == 1 and ast.unparse(c.args[0]) == valname and \
                            len(c.keywords) == 1 and c.keywords[0].arg == 'namespace' and ast.unparse(c.keywords[0].value) == nsname:
                        s['merged'].extend(s['parsers'][who])
                        return [s]
                if f == 'setattr' and len(c.args) == 3 and ast.unparse(c.args[0]) == nsname and \
                        isinstance(c.args[1], ast.Constant) and isinstance(c.args[1].value, str):
                    if c.args[1].value not in s['attrs']:
                        s['attrs'].append(c.args[1].value)
                    return [s]
            raise Unsupported('statement in custom action {} outside the supported subset (line {}): {}'.format(
                cname, st.lineno, ast.unparse(st)[:70]))

        finals.extend(block(call.body, {'parsers': {}, 'merged': [], 'attrs': []}))
        alts, seen = [], set()
        for s in finals:
            sig = (tuple(e.dest for e in s['merged']), tuple(sorted(s['attrs'])))
            if sig in seen:
                continue
            seen.add(sig)
            alts.append(Alt('{}#{}'.format(cname, len(alts)), s['merged'], tuple(sorted(s['attrs']))))
        if not alts:
            raise Unsupported('custom action {} has no normal exit'.format(cname))
        return alts


def derive_shape(src, rel, cls):
    got = src.class_method(rel, cls, 'setup_command_line')
    if not got or got[0] != rel:
        raise Unsupported('no setup_command_line in class')
    sb = ShapeBuilder(src, rel)
    shape = sb.scan_setup(got[1], Shape())
    # unique surface keys
    seen = {}
    for e in shape.entries:
        for k, a in enumerate(e.alts or []):
            for x in a.entries:
                x.key = 'alt{}:{}'.format(k, x.key.split(':', 1)[1] if x.key.startswith('alt') else x.key)
    for e in _all_entries(shape):
        if e.key in seen:
            raise Unsupported('two arguments share the surface key ' + e.key)
        seen[e.key] = e
    return shape


def _all_entries(shape):
    for e in shape.entries:
        yield e
        for a in e.alts or []:
            for x in a.entries:
                yield x


def global_dests(src, rel, fname):
    """dests defined by a top-level tool parser (tolerant scan): reads of these are 'defined' but outside the helper's frame"""
    m = src.module(rel)
    fn = m['funcs'].get(fname)
    out = set()
    if fn is None:
        return out
    for n in ast.walk(fn):
        if isinstance(n, ast.Call) and isinstance(n.func, ast.Attribute):
            if n.func.attr == 'add_argument' and n.args and all(isinstance(a, ast.Constant) for a in n.args):
                kw = {k.arg: k.value for k in n.keywords}
                names = [a.value for a in n.args]
                if 'dest' in kw and isinstance(kw['dest'], ast.Constant):
                    out.add(kw['dest'].value)
                elif names[0].startswith('-'):
                    longs = [x for x in names if x.startswith('--')]
                    out.add((longs[0][2:] if longs else names[0].lstrip('-')).replace('-', '_'))
                else:
                    out.add(names[0])
            if n.func.attr == 'set_defaults':
                out.update(k.arg for k in n.keywords if k.arg)
    return out


# ---------------------------------------------------------------------------------------------
# the symbolic namespace (surface symbols shared by the helper run and the contract run)
# ---------------------------------------------------------------------------------------------
class Namespace:
    def __init__(self, shape, globals_=()):
        self.shape = shape
        self.globals = set(globals_)
        self.constraints = []
        self.given_var = {}
        self.alt_var = {}
        self.by_key = {}
        self.owner_of = {}            # id(entry) -> (owner entry, alt index)
        for e in shape.entries:
            self.by_key[e.key] = e
            if e.alts is not None:
                v = z3.Int('alt!' + e.key)
                self.alt_var[e.key] = v
                self.constraints.append(z3.And(v >= 0, v < len(e.alts)))
                for k, a in enumerate(e.alts):
                    for x in a.entries:
                        self.by_key[x.key] = x
                        self.owner_of[id(x)] = (e, k)
        groups = {}
        for e in shape.entries:
            if e.mutex is not None:
                groups.setdefault(e.mutex, []).append(e)
        for g in groups.values():
            if any(not x.optional for x in g):
                raise Unsupported('positional in a mutually exclusive group')
            self.constraints.append(z3.AtMost(*[self.given(x) for x in g], 1) if len(g) > 1 else z3.BoolVal(True))
        for e in _all_entries(shape):
            if e.optional and e.required:
                self.constraints.append(self.given(e))
            if not e.optional and e.nargs is None and e.action in ('store', 'graph'):
                self.constraints.append(self.given(e))

    def given(self, e):
        if e.key not in self.given_var:
            self.given_var[e.key] = z3.Bool('given!' + e.key)
        return self.given_var[e.key]

    def sym(self, e):
        ty = e.type
        if e.nargs in ('*', '+') and e.action == 'store':
            ty = 'list:' + ty
        s = Sym(e.key, ty)
        s.choices = e.choices
        return s

    def attr_sym(self, owner, name):
        return Sym('attr:' + name, 'any')

    # -- definers of a dest ------------------------------------------------------------------
    def definers(self, dest):
        tops = [e for e in self.shape.entries if e.dest == dest]
        alts = []
        for e in self.shape.entries:
            for k, a in enumerate(e.alts or []):
                for x in a.entries:
                    if x.dest == dest:
                        alts.append((e, k, x))
                if dest in a.attrs:
                    alts.append((e, k, None))
        return tops, alts

    def find_entry(self, key):
        """contract access: index of a top-level positional, an option string, or a dest name"""
        if isinstance(key, int):
            pos = [e for e in self.shape.entries if not e.optional]
            if key >= len(pos):
                raise SpecError('no positional #{}'.format(key))
            return pos[key]
        cands = [e for e in _all_entries(self.shape) if (key in e.names if key.startswith('-') else (not e.optional and e.dest == key))]
        if len(cands) != 1:
            raise SpecError('surface key {!r} matches {} arguments of the helper'.format(key, len(cands)))
        return cands[0]


# ---------------------------------------------------------------------------------------------
# evaluator
# ---------------------------------------------------------------------------------------------
class NSRef:
    """the `args` parameter"""


class ModRef:
    def __init__(self, dotted, rel):
        self.dotted = dotted
        self.rel = rel


class FuncRef:
    def __init__(self, rel, node):
        self.rel = rel
        self.node = node


class Special:
    def __init__(self, name, fn):
        self.name = name
        self.fn = fn


class PathResult:
    def __init__(self, kind, term, ex, line=0, detail=None):
        self.kind = kind            # return | refusal | hazard
        self.term = term
        self.pc = list(ex.pc)
        self.atoms = list(ex.atoms)
        self.reads = list(ex.reads)
        self.hasattrs = list(ex.hasattrs)
        self.line = line
        self.detail = detail

    def cond(self):
        return ' and '.join(self.atoms) or 'always'


BUILTINS = {'len', 'list', 'sum', 'range', 'int', 'str', 'float', 'min', 'max', 'abs', 'sorted', 'tuple', 'set',
            'any', 'all', 'bool', 'enumerate', 'zip', 'dict', 'round', 'reversed'}
DROPPED_CALLS = {'print', 'interactive_msg', 'error_msg'}
DROPPED_CONTEXTS = {'msg_prefix'}
BINOPS = {ast.Add: '+', ast.Sub: '-', ast.Mult: '*', ast.FloorDiv: '//', ast.Mod: '%', ast.Div: '/', ast.Pow: '**'}
CMPOPS = {ast.Eq: '==', ast.NotEq: '!=', ast.Lt: '<', ast.LtE: '<=', ast.Gt: '>', ast.GtE: '>=', ast.In: 'in', ast.NotIn: 'not in'}
MAXPATHS = 600
REFUSAL_EXC = ('ValueError', 'CLIError')


def _safe(s):
    return ''.join(c if c.isalnum() or c in '_:.-' else '_' for c in s)


class Exec:
    def __init__(self, src, ns, timeout_ms=3000):
        self.src = src
        self.ns = ns
        self.solver = z3.Solver()
        self.solver.set('timeout', timeout_ms)
        for c in ns.constraints:
            self.solver.add(c)
        self.solver_calls = 0
        self.script = []
        self.reset()

    def reset(self):
        self.pos = 0
        self.trace = []
        self.pc = []
        self.atoms = []
        self.reads = []
        self.hasattrs = []
        self.depth = 0

    # -- path exploration by re-execution under a decision script ------------------------------------
    def feasible(self, conds):
        self.solver_calls += 1
        self.solver.push()
        try:
            for c in self.pc:
                self.solver.add(c)
            for c in conds:
                self.solver.add(c)
            return self.solver.check() != z3.unsat
        finally:
            self.solver.pop()

    def choose(self, descrs, conds):
        feas = [i for i, c in enumerate(conds) if self.feasible([c])]
        if not feas:
            raise PathEnd()
        if len(feas) == 1:
            i = feas[0]
            self.pc.append(conds[i])
            return i
        if self.pos < len(self.script):
            k = self.script[self.pos]
        else:
            k = 0
            self.script.append(0)
        self.trace.append(len(feas))
        self.pos += 1
        i = feas[k]
        self.pc.append(conds[i])
        self.atoms.append(descrs[i])
        return i

    def fork(self, cond, descr):
        """-> python bool"""
        if z3.is_true(cond):
            return True
        if z3.is_false(cond):
            return False
        return self.choose([descr, 'not ' + descr], [cond, z3.Not(cond)]) == 0

    def explore(self, runner):
        results = []
        self.script = []
        while True:
            self.reset()
            res = None
            try:
                out = runner(self)
                res = PathResult('return', out, self)
            except _Return as r:
                res = PathResult('return', r.value, self)
            except _Refuse as r:
                res = PathResult('refusal', None, self, r.line, r.exc)
            except _Hazard as h:
                res = PathResult('hazard', None, self, h.line, (h.kind, h.detail))
            except PathEnd:
                pass
            if res is not None:
                results.append(res)
            if len(results) > MAXPATHS:
                raise Unsupported('more than {} paths'.format(MAXPATHS))
            script = self.script[:len(self.trace)]
            while script and script[-1] + 1 >= self.trace[len(script) - 1]:
                script.pop()
            if not script:
                return results
            script[-1] += 1
            self.script = script

    # -- namespace -------------------------------------------------------------------------------
    def given(self, e):
        return self.fork(self.ns.given(e), 'given({})'.format(e.key.split(':', 1)[1]))

    def default_of(self, e):
        if e.default is NODEFAULT or e.default is None:
            return Const(None)
        if isinstance(e.default, str) and e.type not in ('str', 'bool'):
            if e.type.startswith('file:'):
                return Op('argparse-default', (Const(e.type), Const(e.default)))
            raise Unsupported('string default converted by type= for ' + e.dest)
        return Const(e.default)

    def entry_value(self, e):
        if e.action == 'store_true':
            return Const(True) if self.given(e) else self.default_of(e)
        if e.action == 'store_false':
            return Const(False) if self.given(e) else self.default_of(e)
        if e.action == 'store_const':
            return Const(e.const) if self.given(e) else self.default_of(e)
        if e.action == 'alts':
            return self.default_of(e)
        if e.action in ('store', 'graph'):
            if e.action == 'store' and e.nargs in ('*', '+'):
                if e.optional:
                    return self.ns.sym(e) if (e.required or self.given(e)) else self.default_of(e)
                if e.nargs == '*' and e.default not in (NODEFAULT, None):
                    raise Unsupported("positional nargs='*' with a default")
                return self.ns.sym(e)
            if not e.optional and e.nargs is None:
                return self.ns.sym(e)
            if e.required:
                return self.ns.sym(e)
            return self.ns.sym(e) if self.given(e) else self.default_of(e)
        raise Unsupported('action ' + e.action)

    def pick_alt(self, owner):
        v = self.ns.alt_var[owner.key]
        n = len(owner.alts)
        return self.choose(['variant {} of <{}>'.format(owner.alts[k].label, owner.dest) for k in range(n)],
                           [v == k for k in range(n)])

    def ns_lookup(self, dest, want_value, line=0):
        """value of args.<dest> (want_value) or hasattr(args, dest)"""
        tops, alts = self.ns.definers(dest)
        if tops:
            if not want_value:
                return True
            if len(tops) == 1:
                return self.entry_value(tops[0])
            if not all(t.action in ('store_const', 'store_true', 'store_false') and t.mutex is not None and
                       t.mutex == tops[0].mutex for t in tops):
                raise Unsupported('dest {} written by several arguments outside one exclusive group'.format(dest))
            for t in tops:
                if self.given(t):
                    return Const({'store_true': True, 'store_false': False}.get(t.action, t.const))
            return self.default_of(tops[0])
        if not alts:
            if dest in self.ns.globals:
                return Sym('global:' + dest, 'any') if want_value else True
            if want_value:
                raise _Hazard('attr-undefined', dest, line)
            return False
        owners = {id(o): o for o, _, _ in alts}
        if len(owners) != 1:
            raise Unsupported('dest {} defined by alternatives of several arguments'.format(dest))
        owner = alts[0][0]
        k = self.pick_alt(owner)
        for o, kk, x in alts:
            if kk == k:
                if not want_value:
                    return True
                return self.entry_value(x) if x is not None else self.ns.attr_sym(owner, dest)
        if want_value:
            raise _Hazard('attr-absent', dest, line)
        return False

    # -- z3 views of terms -----------------------------------------------------------------------
    def is_intlike(self, t):
        if isinstance(t, Const):
            return isinstance(t.v, int) and not isinstance(t.v, bool)
        if isinstance(t, Sym):
            return t.ty == 'int'
        if isinstance(t, Op) and t.op in ('+', '-', '*', '//', '%', 'neg') and not t.kw:
            return all(self.is_intlike(a) for a in t.args)
        return False

    def z3int(self, t):
        if isinstance(t, Const) and isinstance(t.v, int) and not isinstance(t.v, bool):
            return z3.IntVal(t.v)
        if isinstance(t, Sym) and t.ty == 'int':
            return z3.Int('v!' + t.name)
        if isinstance(t, Op) and not t.kw:
            if t.op == 'neg' and len(t.args) == 1:
                return -self.z3int(t.args[0])
            if len(t.args) == 2 and t.op in ('+', '-', '*'):
                a, b = self.z3int(t.args[0]), self.z3int(t.args[1])
                return a + b if t.op == '+' else a - b if t.op == '-' else a * b
            if len(t.args) == 2 and t.op in ('//', '%') and isinstance(t.args[1], Const) and \
                    isinstance(t.args[1].v, int) and t.args[1].v > 0:
                a = self.z3int(t.args[0])
                return a / t.args[1].v if t.op == '//' else a % t.args[1].v
        return z3.Int('opq!' + _safe(show(t)))

    def z3cond(self, op, a, b):
        """z3 Bool for `a op b` (uninterpreted where the theory is not modelled)"""
        if op in ('==', '!=') and isinstance(a, Sym) and a.ty == 'str' and isinstance(b, Const) and isinstance(b.v, str):
            c = z3.String('s!' + a.name) == z3.StringVal(b.v)
            return c if op == '==' else z3.Not(c)
        if op in ('==', '!=', '<', '<=', '>', '>=') and (self.is_intlike(a) or self.is_intlike(b)) and \
                not any(isinstance(x, Const) and not self.is_intlike(x) for x in (a, b)):
            x, y = self.z3int(a), self.z3int(b)
            return {'==': x == y, '!=': x != y, '<': x < y, '<=': x <= y, '>': x > y, '>=': x >= y}[op]
        if op in ('==', '!='):
            if a == b:
                return z3.BoolVal(op == '==')
            ka, kb = sorted([show(a), show(b)])
            c = z3.Bool('opqb!' + _safe(ka + ' == ' + kb))
            return c if op == '==' else z3.Not(c)
        return z3.Bool('opqb!' + _safe('{} {} {}'.format(show(a), op, show(b))))

    def str_domain(self, s):
        ch = getattr(s, 'choices', None)
        if ch:
            v = z3.String('s!' + s.name)
            c = z3.Or(*[v == z3.StringVal(x) for x in ch])
            if not any(c.eq(x) for x in self.pc):
                self.pc.append(c)

    def truth(self, v):
        if isinstance(v, Const):
            return bool(v.v)
        if not isinstance(v, Term):
            raise Unsupported('truth value of a non-term')
        if self.is_intlike(v):
            return self.fork(self.z3int(v) != 0, '{} != 0'.format(show(v)))
        d = 'truthy({})'.format(show(v))
        return self.fork(z3.Bool('opqb!' + _safe(d)), d)

    # -- running a function body -------------------------------------------------------------------
    def run_function(self, rel, fn, bound):
        """bound: dict param -> value; returns the term returned (None -> Const(None))"""
        frame = Frame(self, rel, fn, bound)
        try:
            frame.block(fn.body)
        except _Return as r:
            return r.value
        return Const(None)


class Frame:
    def __init__(self, ex, rel, fn, env, special=None):
        self.ex = ex
        self.src = ex.src
        self.rel = rel
        self.mod = rel if isinstance(rel, dict) else ex.src.module(rel)
        self.fn = fn
        self.env = dict(env)
        self.special = special or {}
        self.locals = set(env)
        for n in ast.walk(fn):
            if isinstance(n, ast.Name) and isinstance(n.ctx, ast.Store):
                self.locals.add(n.id)
        self.owned_lists = set()
        self.aliased = set()

    # ---- statements ----
    def block(self, stmts):
        for s in stmts:
            self.stmt(s)

    def stmt(self, s):
        ex = self.ex
        if isinstance(s, ast.Pass):
            return
        if isinstance(s, ast.Expr):
            if isinstance(s.value, ast.Constant):
                return
            if isinstance(s.value, ast.Call):
                c = s.value
                if isinstance(c.func, ast.Name) and c.func.id in DROPPED_CALLS:
                    return
                if isinstance(c.func, ast.Attribute) and isinstance(c.func.value, ast.Name) and \
                        c.func.attr in ('append', 'extend') and c.func.value.id in self.owned_lists and \
                        len(c.args) == 1 and not c.keywords:
                    name = c.func.value.id
                    if name in self.aliased:
                        raise Unsupported('mutation of an aliased list')
                    self.env[name] = Op('list-' + c.func.attr, (self.env[name], self.expr(c.args[0])))
                    return
            raise Unsupported('expression statement (line {}): {}'.format(s.lineno, ast.unparse(s)[:70]))
        if isinstance(s, ast.Assign):
            v = self.expr(s.value)
            for t in s.targets:
                self.assign(t, v, s)
            return
        if isinstance(s, ast.If):
            if self.cond(s.test):
                self.block(s.body)
            else:
                self.block(s.orelse)
            return
        if isinstance(s, ast.Return):
            raise _Return(self.expr(s.value) if s.value is not None else Const(None))
        if isinstance(s, ast.Raise):
            name = None
            if isinstance(s.exc, ast.Call) and isinstance(s.exc.func, ast.Name):
                name = s.exc.func.id
            elif isinstance(s.exc, ast.Name):
                name = s.exc.id
            if name is None:
                raise Unsupported('raise of a computed exception')
            raise _Refuse(name, s.lineno)
        if isinstance(s, ast.With):
            for it in s.items:
                c = it.context_expr
                if not (isinstance(c, ast.Call) and isinstance(c.func, ast.Name) and c.func.id in DROPPED_CONTEXTS
                        and it.optional_vars is None):
                    raise Unsupported('with-statement on ' + ast.unparse(c)[:50])
            self.block(s.body)
            return
        raise Unsupported('{} statement (line {})'.format(type(s).__name__, s.lineno))

    def assign(self, t, v, s):
        if isinstance(t, ast.Name):
            self.env[t.id] = v
            self.owned_lists.discard(t.id)
            if isinstance(s.value, (ast.List, ast.ListComp, ast.BinOp)) and isinstance(v, (Op, Opaque)):
                self.owned_lists.add(t.id)
                self.aliased.discard(t.id)
            elif isinstance(s.value, ast.Name) and s.value.id in self.owned_lists:
                self.aliased.update((t.id, s.value.id))
                self.owned_lists.add(t.id)
            return
        if isinstance(t, (ast.Tuple, ast.List)) and all(isinstance(e, ast.Name) for e in t.elts):
            if isinstance(v, Op) and v.op in ('tuple', 'list') and len(v.args) == len(t.elts):
                for e, x in zip(t.elts, v.args):
                    self.env[e.id] = x
                return
            if isinstance(v, Term):
                for i, e in enumerate(t.elts):
                    self.env[e.id] = Op('getitem', (v, Const(i)))
                return
        raise Unsupported('assignment target ' + ast.unparse(t))

    # ---- expressions ----
    def cond(self, node):
        return self.ex.truth(self.expr(node))

    def name(self, node):
        n = node.id
        if n in self.env:
            return self.env[n]
        if n in self.locals:
            raise _Hazard('unbound-local', n, node.lineno)
        if n in self.special:
            return self.special[n]
        if n in ('True', 'False', 'None'):
            return Const({'True': True, 'False': False, 'None': None}[n])
        r = self.src.resolve(self.mod, n)
        if r[0] == 'def':
            if r[1] == self.mod['rel']:
                return FuncRef(r[1], r[2])
            return Glob(r[1], r[2].name)
        if r[0] == 'class':
            return Glob(r[1], r[2].name)
        if r[0] == 'const':
            try:
                return Const(_const(r[2]))
            except Unsupported:
                return Glob(r[1], n)
        if r[0] == 'module':
            return ModRef(r[1], r[2])
        if r[0] == 'ext':
            return Glob('ext:' + r[1], r[2])
        if n in BUILTINS or n in ('hasattr', 'getattr', 'isinstance'):
            return Special(n, None)
        raise Unsupported('unknown name ' + n)

    def expr(self, node):
        ex = self.ex
        if isinstance(node, ast.Constant):
            return Const(node.value)
        if isinstance(node, ast.Name):
            return self.name(node)
        if isinstance(node, ast.Attribute):
            base = self.expr(node.value)
            if isinstance(base, NSRef):
                ex.reads.append(node.attr)
                v = ex.ns_lookup(node.attr, True, node.lineno)
                if isinstance(v, Sym) and v.ty == 'str':
                    ex.str_domain(v)
                return v
            if isinstance(base, ModRef):
                if base.rel:
                    r = self.src.resolve(base.rel, node.attr)
                    if r[0] in ('def', 'class'):
                        return Glob(r[1], r[2].name)
                    if r[0] == 'module':
                        return ModRef(r[1], r[2])
                    raise Unsupported('attribute of repo module ' + ast.unparse(node))
                return Glob('ext:' + base.dotted, node.attr)
            if isinstance(base, Glob) and base.mod.startswith('ext:'):
                return Glob(base.mod + '.' + base.name, node.attr)
            if isinstance(base, Term):
                return Op('attr:' + node.attr, (base,))
            raise Unsupported('attribute access ' + ast.unparse(node))
        if isinstance(node, ast.Call):
            return self.call(node)
        if isinstance(node, ast.BinOp) and type(node.op) in BINOPS:
            a, b = self.term(node.left), self.term(node.right)
            op = BINOPS[type(node.op)]
            if isinstance(a, Const) and isinstance(b, Const):
                try:
                    return Const({'+': lambda x, y: x + y, '-': lambda x, y: x - y, '*': lambda x, y: x * y,
                                  '//': lambda x, y: x // y, '%': lambda x, y: x % y, '/': lambda x, y: x / y,
                                  '**': lambda x, y: x ** y}[op](a.v, b.v))
                except Exception:
                    raise _Hazard('arith', ast.unparse(node), node.lineno)
            return Op(op, (a, b))
        if isinstance(node, ast.UnaryOp):
            if isinstance(node.op, ast.Not):
                return Const(not ex.truth(self.expr(node.operand)))
            if isinstance(node.op, ast.USub):
                a = self.term(node.operand)
                return Const(-a.v) if isinstance(a, Const) and isinstance(a.v, (int, float)) else Op('neg', (a,))
            raise Unsupported('unary operator')
        if isinstance(node, ast.BoolOp):
            last = None
            for i, v in enumerate(node.values):
                last = self.expr(v)
                if i == len(node.values) - 1:
                    break
                t = ex.truth(last)
                if isinstance(node.op, ast.And) and not t:
                    return last
                if isinstance(node.op, ast.Or) and t:
                    return last
            return last
        if isinstance(node, ast.Compare):
            if len(node.ops) != 1:
                raise Unsupported('chained comparison')
            a, b = self.term(node.left), self.term(node.comparators[0])
            op = node.ops[0]
            if isinstance(op, (ast.Is, ast.IsNot)):
                if isinstance(b, Const) and b.v is None:
                    if isinstance(a, Sym) and a.ty == 'any' and a.name.startswith('global:'):
                        res = ex.fork(z3.Bool('opqb!' + _safe(show(a) + ' is None')), show(a) + ' is None')
                    else:
                        res = isinstance(a, Const) and a.v is None
                    return Const(res if isinstance(op, ast.Is) else not res)
                raise Unsupported('`is` on something else than None')
            if type(op) not in CMPOPS:
                raise Unsupported('comparison operator')
            o = CMPOPS[type(op)]
            if isinstance(a, Const) and isinstance(b, Const):
                try:
                    return Const({'==': a.v == b.v, '!=': a.v != b.v}[o] if o in ('==', '!=') else
                                 {'<': lambda: a.v < b.v, '<=': lambda: a.v <= b.v, '>': lambda: a.v > b.v,
                                  '>=': lambda: a.v >= b.v, 'in': lambda: a.v in b.v, 'not in': lambda: a.v not in b.v}[o]())
                except TypeError:
                    raise _Hazard('type-error', ast.unparse(node), node.lineno)
            for x in (a, b):
                if isinstance(x, Sym) and x.ty == 'str':
                    ex.str_domain(x)
            return Const(ex.fork(ex.z3cond(o, a, b), '{} {} {}'.format(show(a), o, show(b))))
        if isinstance(node, ast.IfExp):
            return self.expr(node.body) if self.cond(node.test) else self.expr(node.orelse)
        if isinstance(node, (ast.List, ast.Tuple)):
            items = []
            for e in node.elts:
                if isinstance(e, ast.Starred):
                    items.append(Op('star', (self.term(e.value),)))
                else:
                    items.append(self.term(e))
            return Op('list' if isinstance(node, ast.List) else 'tuple', items)
        if isinstance(node, (ast.ListComp, ast.GeneratorExp, ast.SetComp)):
            bound = set()
            for g in node.generators:
                for n in ast.walk(g.target):
                    if isinstance(n, ast.Name):
                        bound.add(n.id)
            env, rnd = [], False
            for n in ast.walk(node):
                if isinstance(n, ast.Name) and isinstance(n.ctx, ast.Load) and n.id not in bound:
                    if n.id in self.env or n.id in self.locals:
                        v = self.name(n)
                        if not isinstance(v, Term):
                            raise Unsupported('comprehension captures a non-term')
                        if all(k != n.id for k, _ in env):
                            env.append((n.id, v))
                    else:
                        r = self.src.resolve(self.mod, n.id)
                        if (r[0] == 'module' and r[1] == 'random') or (r[0] == 'ext' and r[1] == 'random'):
                            rnd = True
                elif isinstance(n, ast.Attribute) and isinstance(n.value, ast.Name) and isinstance(self.env.get(n.value.id), NSRef):
                    raise Unsupported('namespace read inside a comprehension')
            return Opaque(type(node).__name__, ast.unparse(node), sorted(env), rnd)
        if isinstance(node, ast.Subscript):
            a = self.term(node.value)
            i = self.term(node.slice) if not isinstance(node.slice, ast.Slice) else None
            if i is None:
                raise Unsupported('slice')
            if isinstance(a, Op) and a.op in ('list', 'tuple') and isinstance(i, Const) and isinstance(i.v, int) and \
                    not any(isinstance(x, Op) and x.op == 'star' for x in a.args):
                if -len(a.args) <= i.v < len(a.args):
                    return a.args[i.v]
                raise _Hazard('index', ast.unparse(node), node.lineno)
            return Op('getitem', (a, i))
        if isinstance(node, ast.JoinedStr):
            parts = []
            for v in node.values:
                parts.append(self.term(v.value) if isinstance(v, ast.FormattedValue) else self.term(v))
            return Op('fstring', parts)
        raise Unsupported('{} expression (line {})'.format(type(node).__name__, getattr(node, 'lineno', 0)))

    def term(self, node):
        v = self.expr(node)
        if not isinstance(v, Term):
            raise Unsupported('value of {} used as data'.format(ast.unparse(node)[:40]))
        return v

    # ---- calls ----
    def call(self, node):
        ex = self.ex
        f = node.func
        # hasattr(args, 'x')
        if isinstance(f, ast.Name) and f.id == 'hasattr' and 'hasattr' not in self.env:
            if len(node.args) == 2 and isinstance(node.args[1], ast.Constant) and isinstance(self.expr(node.args[0]), NSRef):
                ex.hasattrs.append(node.args[1].value)
                return Const(bool(ex.ns_lookup(node.args[1].value, False, node.lineno)))
            raise Unsupported('hasattr on something else than the namespace')
        # getattr(args, 'x'[, default]): attribute read, with a default when the shape says the attribute may be absent
        if isinstance(f, ast.Name) and f.id == 'getattr' and 'getattr' not in self.env:
            if len(node.args) in (2, 3) and not node.keywords and isinstance(node.args[1], ast.Constant) and \
                    isinstance(node.args[1].value, str) and isinstance(self.expr(node.args[0]), NSRef):
                name = node.args[1].value
                if len(node.args) == 2:
                    ex.reads.append(name)
                    return ex.ns_lookup(name, True, node.lineno)
                ex.hasattrs.append(name)
                if ex.ns_lookup(name, False, node.lineno):
                    ex.reads.append(name)
                    v = ex.ns_lookup(name, True, node.lineno)
                    if isinstance(v, Sym) and v.ty == 'str':
                        ex.str_domain(v)
                    return v
                return self.term(node.args[2])
            raise Unsupported('getattr on something else than the namespace / computed attribute name')
        # method call / module function
        if isinstance(f, ast.Attribute):
            base = self.expr(f.value)
            if isinstance(base, (ModRef, Glob)) and not (isinstance(base, Glob) and not base.mod.startswith('ext:')):
                callee = self.expr(f)
            elif isinstance(base, NSRef):
                raise Unsupported('method call on the namespace')
            elif isinstance(base, Term):
                pos, stars, kws = self.args_of(node)
                if stars:
                    raise Unsupported('star argument in a method call')
                return Op('method:' + f.attr, (base,) + tuple(pos), tuple(kws))
            else:
                raise Unsupported('call of ' + ast.unparse(f))
        else:
            callee = self.expr(f)
        if isinstance(callee, Special):
            if callee.fn is not None:
                return callee.fn(self, node)
            pos, stars, kws = self.args_of(node)
            if stars:
                raise Unsupported('star argument to a builtin')
            return Op('builtin:' + callee.name, pos, kws)
        items, kws = self.call_items(node)
        if isinstance(callee, FuncRef):
            if ex.depth >= 3:
                raise Unsupported('inlining depth')
            bound = self.bind(callee.node.args, callee.rel, items, kws, node, as_env=True)
            ex.depth += 1
            try:
                return ex.run_function(callee.rel, callee.node, bound)
            finally:
                ex.depth -= 1
        if isinstance(callee, Glob) and not callee.mod.startswith('ext:'):
            r = self.src.resolve(callee.mod, callee.name)
            sig, drop = None, False
            if r[0] == 'def':
                sig = r[2].args
            elif r[0] == 'class':
                got = self.src.class_method(r[1], r[2], '__init__')
                if got:
                    sig, drop = got[1].args, True
            if sig is not None:
                return App(callee, list(self.bind(sig, r[1], items, kws, node, drop_first=drop).items()))
        if isinstance(callee, Term):
            args = []
            for i, (k, t) in enumerate(items):
                args.append(('_%d' % i if k == 'pos' else '*%d' % i, t))
            return App(callee, args + list(kws))
        raise Unsupported('call of ' + ast.unparse(f))

    def call_items(self, node):
        items = []
        for a in node.args:
            if isinstance(a, ast.Starred):
                items.append(('star', self.term(a.value)))
            else:
                items.append(('pos', self.term(a)))
        kws = []
        for k in node.keywords:
            if k.arg is None:
                raise Unsupported('**kwargs in a call')
            kws.append((k.arg, self.term(k.value)))
        return items, kws

    def args_of(self, node):
        items, kws = self.call_items(node)
        return [t for k, t in items if k == 'pos'], [t for k, t in items if k == 'star'], kws

    def default_term(self, node, rel):
        try:
            return Const(_const(node))
        except Unsupported:
            pass
        if isinstance(node, ast.Name):
            r = self.src.resolve(rel, node.id)
            if r[0] in ('def', 'class'):
                return Glob(r[1], r[2].name)
            if r[0] == 'ext':
                return Glob('ext:' + r[1], r[2])
        return Opaque('default', ast.unparse(node), ())

    def bind(self, sig, rel, items, kws, node, drop_first=False, as_env=False):
        """normalise a call through the callee's signature -> OrderedDict param -> term (defaults explicit)"""
        params = [a.arg for a in sig.posonlyargs + sig.args]
        defaults = dict(zip(params[len(params) - len(sig.defaults):], sig.defaults)) if sig.defaults else {}
        if drop_first:
            params = params[1:]
        kwonly = [a.arg for a in sig.kwonlyargs]
        kwdef = {a.arg: d for a, d in zip(sig.kwonlyargs, sig.kw_defaults) if d is not None}
        got = {}
        extra = []
        i = 0
        for kind, t in items:
            if kind == 'pos':
                if i < len(params):
                    got[params[i]] = t
                    i += 1
                elif sig.vararg:
                    extra.append(t)
                else:
                    raise _Hazard('call-binding', 'too many positional arguments in ' + ast.unparse(node)[:80], node.lineno)
            else:
                if i >= len(params) and sig.vararg:
                    extra.append(Op('star', (t,)))
                else:
                    raise Unsupported('star argument spread over named parameters')
        kwextra = []
        for k, t in kws:
            if k in got:
                raise _Hazard('call-binding', 'parameter {} given twice in {}'.format(k, ast.unparse(node)[:80]), node.lineno)
            if k in params or k in kwonly:
                got[k] = t
            elif sig.kwarg:
                kwextra.append((k, t))
            else:
                raise _Hazard('call-binding', 'unexpected keyword {} in {}'.format(k, ast.unparse(node)[:80]), node.lineno)
        out = OrderedDict()
        for p in params:
            if p in got:
                out[p] = got[p]
            elif p in defaults:
                out[p] = self.default_term(defaults[p], rel)
            else:
                raise _Hazard('call-binding', 'missing argument {} in {}'.format(p, ast.unparse(node)[:80]), node.lineno)
        if sig.vararg:
            out['*' + sig.vararg.arg] = Op('tuple', extra)
        for p in kwonly:
            if p in got:
                out[p] = got[p]
            elif p in kwdef:
                out[p] = self.default_term(kwdef[p], rel)
            else:
                raise _Hazard('call-binding', 'missing keyword argument {} in {}'.format(p, ast.unparse(node)[:80]), node.lineno)
        if sig.kwarg:
            out['**' + sig.kwarg.arg] = Op('dict', (), kwextra)
        if as_env:
            return {k.lstrip('*'): v for k, v in out.items()}
        return out


# ---------------------------------------------------------------------------------------------
# contract texts ("specs") evaluated by the same machinery
# ---------------------------------------------------------------------------------------------
def _spec_key(frame, node, n=1):
    if len(node.args) != n or node.keywords:
        raise SpecError('bad use of a surface function: ' + ast.unparse(node))
    try:
        return [_const(a) for a in node.args]
    except Unsupported:
        raise SpecError('surface keys must be constants: ' + ast.unparse(node))


def _in_alt(frame, e):
    """make sure the alternative that owns entry e is the current one"""
    ex = frame.ex
    own = ex.ns.owner_of.get(id(e))
    if own is None:
        return
    owner, k = own
    if ex.pick_alt(owner) != k:
        raise SpecError('contract reads <{}> in a variant where it does not exist; guard it with has()'.format(e.dest))


def _sp_val(frame, node):
    key, = _spec_key(frame, node)
    ex = frame.ex
    if isinstance(key, str) and not key.startswith('-'):
        tops, alts = ex.ns.definers(key)
        if not tops and alts and all(x is None for _, _, x in alts):      # attribute set by a custom action
            owner = alts[0][0]
            k = ex.pick_alt(owner)
            if k not in [kk for _, kk, _ in alts]:
                raise SpecError('contract reads <{}> in a variant where it does not exist'.format(key))
            return ex.ns.attr_sym(owner, key)
    e = ex.ns.find_entry(key)
    _in_alt(frame, e)
    if e.action not in ('store', 'graph'):
        raise SpecError('val() of a flag; use given(): ' + str(key))
    s = ex.ns.sym(e)
    if s.ty == 'str':
        ex.str_domain(s)
    return s


def _sp_given(frame, node):
    key, = _spec_key(frame, node)
    e = frame.ex.ns.find_entry(key)
    _in_alt(frame, e)
    return Const(frame.ex.given(e))


def _sp_has(frame, node):
    key, = _spec_key(frame, node)
    return Const(bool(frame.ex.ns_lookup(key, False)))


def _sp_anyof(frame, node):
    return Wild('anyof', [frame.term(a) for a in node.args])


def spec_env(kind):
    env = {'val': Special('val', _sp_val), 'given': Special('given', _sp_given), 'has': Special('has', _sp_has),
           'ANYOF': Special('ANYOF', _sp_anyof), 'ANY': Wild('any'), 'RANDOM': Wild('random'),
           'STDIN': Op('argparse-default', (Const('file:r'), Const('-')))}
    if kind == 'formula':
        env['formula_class'] = Sym('formula_class', 'class')
    else:
        env['F'] = Sym('F', 'formula')
    return env


def parse_spec(text):
    body = '\n'.join('    ' + l for l in text.strip('\n').splitlines())
    try:
        tree = ast.parse('def spec():\n' + body)
    except SyntaxError as e:
        raise SpecError('contract text does not parse: {}'.format(e))
    return tree.body[0]


# ---------------------------------------------------------------------------------------------
# term matching
# ---------------------------------------------------------------------------------------------
def match(ex, obs, exp, pc, path='result'):
    """-> list of (where, observed, expected)"""
    if isinstance(exp, Wild):
        if exp.kind == 'any':
            return []
        if exp.kind == 'random':
            return [] if contains_random(obs) else [(path, obs, exp)]
        if exp.kind == 'anyof':
            for a in exp.alts:
                if not match(ex, obs, a, pc, path):
                    return []
            return [(path, obs, exp)]
    if obs == exp:
        return []
    if isinstance(obs, App) and isinstance(exp, App):
        if obs.fn != exp.fn:
            d = match(ex, obs.fn, exp.fn, pc, path + '.<callee>')
            return d or [(path + '.<callee>', obs.fn, exp.fn)]
        if [n for n, _ in obs.args] != [n for n, _ in exp.args]:
            return [(path, obs, exp)]
        out = []
        for (n, a), (_, b) in zip(obs.args, exp.args):
            out.extend(match(ex, a, b, pc, path + '.' + n))
        return out
    if ex.is_intlike(obs) and ex.is_intlike(exp):
        ex.pc = list(pc)
        if not ex.feasible([ex.z3int(obs) != ex.z3int(exp)]):
            return []
        return [(path, obs, exp)]
    if isinstance(obs, Op) and isinstance(exp, Op) and obs.op == exp.op and len(obs.args) == len(exp.args) and \
            [n for n, _ in obs.kw] == [n for n, _ in exp.kw]:
        out = []
        for i, (a, b) in enumerate(zip(obs.args, exp.args)):
            out.extend(match(ex, a, b, pc, '{}.{}[{}]'.format(path, obs.op, i)))
        for (n, a), (_, b) in zip(obs.kw, exp.kw):
            out.extend(match(ex, a, b, pc, '{}.{}'.format(path, n)))
        return out
    return [(path, obs, exp)]


# ---------------------------------------------------------------------------------------------
# helpers: discovery and the per-helper check
# ---------------------------------------------------------------------------------------------
HELPER_DIR = 'cnfgen/clihelpers'


def discover(src):
    """-> list of (rel, class node, 'formula'|'transformation', cli name)"""
    out = []
    d = os.path.join(src.root, HELPER_DIR)
    for f in sorted(os.listdir(d)):
        if not f.endswith('.py') or f == '__init__.py':
            continue
        rel = HELPER_DIR + '/' + f
        m = src.module(rel)
        for name, cls in m['classes'].items():
            bases = src.class_bases(rel, cls)
            kind = 'formula' if 'FormulaHelper' in bases else 'transformation' if 'TransformationHelper' in bases else None
            if kind is None:
                continue
            cli = None
            for b in cls.body:
                if isinstance(b, ast.Assign) and isinstance(b.targets[0], ast.Name) and b.targets[0].id == 'name' and \
                        isinstance(b.value, ast.Constant):
                    cli = b.value.value
            out.append((rel, cls, kind, cli))
    return out


class Obligation:
    def __init__(self, helper, kind, name, ok, decisive, detail='', data=None):
        self.helper = helper
        self.kind = kind          # term covered formula_class attr frame refusal hazard
        self.name = name
        self.ok = ok
        self.decisive = decisive
        self.detail = detail
        self.data = data or {}


class HelperReport:
    def __init__(self, name, rel, kind, cli):
        self.name = name
        self.rel = rel
        self.kind = kind
        self.cli = cli
        self.obligations = []
        self.unsupported = None
        self.stale = None
        self.shape = None
        self.paths = []
        self.spec_paths = []
        self.solver_calls = 0

    def add(self, *a, **k):
        self.obligations.append(Obligation(self.name, *a, **k))


def _norm_ws(s):
    return ' '.join(s.split())


def check_helper(src, rel, cls, kind, cli, contract, globals_):
    rep = HelperReport(cls.name, rel, kind, cli)
    meth = 'build_formula' if kind == 'formula' else 'transform_cnf'
    try:
        shape = derive_shape(src, rel, cls)
        rep.shape = shape
        got = src.class_method(rel, cls, meth)
        if not got or got[0] != rel:
            raise Unsupported('no {} in the class'.format(meth))
        fn = got[1]
        if any(isinstance(d, ast.Name) and d.id == 'staticmethod' for d in fn.decorator_list):
            params = [a.arg for a in fn.args.args]
        else:
            raise Unsupported('{} is not a staticmethod'.format(meth))
        if len(params) != 2 or fn.args.vararg or fn.args.kwarg or fn.args.kwonlyargs:
            raise Unsupported('signature of ' + meth)
        ns = Namespace(shape, globals_)
        ex = Exec(src, ns)
        if kind == 'formula':
            bound = {params[0]: NSRef(), params[1]: Sym('formula_class', 'class')}
        else:
            bound = {params[0]: Sym('F', 'formula'), params[1]: NSRef()}
        rep.paths = ex.explore(lambda e: e.run_function(rel, fn, bound))
    except Unsupported as e:
        rep.unsupported = str(e)
        return rep
    if contract is None:
        rep.unsupported = 'no contract written for this helper (contracts/cli_helpers.py)'
        return rep
    # documentation anchors: the contract was written from these sentences; they must still be in the help text
    doc = _norm_ws(' '.join(shape.doc))
    missing = [a for a in contract.get('doc', []) if _norm_ws(a) not in doc]
    if missing:
        rep.stale = 'documentation anchor(s) no longer in the help text: {}'.format(missing)
    # contract paths
    specfn = parse_spec(contract['spec'])
    prelude = src.parse_module(contract.get('prelude', ''), '<contract>')

    def run_spec(e):
        fr = Frame(e, prelude, specfn, spec_env(kind))
        try:
            fr.block(specfn.body)
        except _Return as r:
            return r.value
        raise SpecError('contract of {} falls off its end'.format(cls.name))
    try:
        rep.spec_paths = ex.explore(run_spec)
    except Unsupported as e:
        raise SpecError('contract of {} left the supported subset: {}'.format(cls.name, e))
    for q in rep.spec_paths:
        if q.kind != 'return' or not isinstance(q.term, Term):
            raise SpecError('contract of {} does not evaluate ({}: {})'.format(cls.name, q.kind, q.detail))
    doc_syms = set()
    for q in rep.spec_paths:
        doc_syms |= syms_of(q.term)
    doc_syms |= {'formula_class', 'F'}

    normal = [p for p in rep.paths if p.kind == 'return']
    if not normal and not contract.get('never_returns'):
        rep.add('reach', 'normal-exit', False, True, 'no feasible normal exit of {} under the derived shape'.format(meth))
    # (a) term equality + coverage, (c) formula_class
    for i, p in enumerate(normal):
        if not isinstance(p.term, Term):
            rep.add('term', 'path{}'.format(i), False, True, 'returns a non-term', {'cond': p.cond()})
            continue
        ex.pc = []
        compat = [q for q in rep.spec_paths if ex.feasible(p.pc + q.pc)]
        if not compat:
            rep.add('covered', 'path{}'.format(i), False, True,
                    'no documented behaviour for the path [{}] returning {}'.format(p.cond(), show(p.term)),
                    {'cond': p.cond(), 'observed': show(p.term)})
            continue
        rep.add('covered', 'path{}'.format(i), True, True)
        diffs, against = [], None
        for q in compat:
            d = match(ex, p.term, q.term, p.pc + q.pc)
            if d:
                diffs, against = d, q
                break
        fc_only = bool(diffs) and all(w.endswith('.formula_class') for w, _, _ in diffs)
        threaded = 'formula_class' in syms_of(p.term)
        if kind == 'formula':
            rep.add('formula_class', 'path{}'.format(i), threaded, True,
                    '' if threaded else 'formula_class is not passed to the library call on the path [{}]: observed {} (counter-model: '
                    'formula_class = OPB, as under pbgen)'.format(p.cond(), show(p.term)),
                    {'cond': p.cond(), 'observed': show(p.term), 'expected': show(against.term) if against else None,
                     'path': p, 'spec': against})
        if diffs and not (fc_only and kind == 'formula' and not threaded):
            rep.add('term', 'path{}'.format(i), False, True,
                    'on the path [{}] (documented case [{}]) the helper builds {} but the documentation says {}; differing at {}'.format(
                        p.cond(), against.cond(), show(p.term), show(against.term),
                        '; '.join('{}: {} vs {}'.format(w, show(a), show(b)) for w, a, b in diffs[:4])),
                    {'cond': p.cond(), 'spec_cond': against.cond(), 'observed': show(p.term), 'expected': show(against.term),
                     'diffs': [(w, show(a), show(b)) for w, a, b in diffs], 'path': p, 'spec': against})
        else:
            rep.add('term', 'path{}'.format(i), True, True)
    # (b) attribute reads
    hazards = [p for p in rep.paths if p.kind == 'hazard']
    bad = {}
    for p in hazards:
        bad.setdefault(p.detail, p)
    attrs = []
    for p in rep.paths:
        for a in p.reads:
            if a not in attrs:
                attrs.append(a)
    for a in attrs:
        h = bad.get(('attr-undefined', a)) or bad.get(('attr-absent', a))
        if h:
            what = ('args.{} is read (line {}) but no add_argument of the helper defines dest {!r}' if h.detail[0] == 'attr-undefined'
                    else 'args.{} is read (line {}) on a path where the variant that defines {!r} was not taken').format(a, h.line, a)
            rep.add('attr', h.detail[0] + ':' + a, False, True, what + ' [{}]'.format(h.cond()), {'cond': h.cond(), 'path': h})
        else:
            rep.add('attr', 'defined:' + a, True, True)
    for (k, d), h in bad.items():
        if k in ('attr-undefined', 'attr-absent'):
            continue
        rep.add('hazard', k, False, True, '{} at line {}: {} [{}]'.format(k, h.line, d, h.cond()), {'cond': h.cond(), 'path': h})
    term_failed = any(o.kind in ('term', 'covered') and not o.ok for o in rep.obligations)
    tests = []
    for p in rep.paths:
        for a in p.hasattrs:
            if a not in tests:
                tests.append(a)
    own = shape.all_dests()
    for a in tests:
        never = a not in own and a not in ns.globals
        if never and term_failed:
            rep.add('attr', 'hasattr-never-true:' + a, False, True,
                    "hasattr(args, '{}') can never hold: no add_argument of the helper stores under dest '{}' (dests: {})".format(
                        a, a, sorted(own)))
        else:
            rep.add('attr', 'hasattr:' + a, True, not never, 'dead test' if never else '')
    # (d) frame on reads
    outside = sorted({a for a in attrs if a not in own and a in ns.globals})
    extra = set()
    for p in normal:
        if isinstance(p.term, Term):
            extra |= {s for s in syms_of(p.term) if s not in doc_syms}
    ok = not outside and not extra
    rep.add('frame', 'reads', ok, True,
            '' if ok else 'the result depends on fields outside the documented ones: global options {} / undocumented symbols {}'.format(
                outside, sorted(extra)))
    # refusals
    for i, p in enumerate(pp for pp in rep.paths if pp.kind == 'refusal'):
        if p.detail not in REFUSAL_EXC:
            rep.add('hazard', 'raises-' + p.detail, False, True,
                    'raises {} at line {} on [{}] (not shielded by cli())'.format(p.detail, p.line, p.cond()))
        elif contract.get('refusals'):
            rep.add('refusal', 'path{}'.format(i), True, False)
        else:
            rep.add('refusal', 'unexpected', False, True,
                    'refuses ({} at line {}) on [{}] although the documentation promises a formula'.format(p.detail, p.line, p.cond()),
                    {'cond': p.cond()})
    rep.solver_calls = ex.solver_calls
    rep.ex = ex
    return rep


# ---------------------------------------------------------------------------------------------
# cli() level: structural obligations on the REAL source of the tools (DESIGN C17: -T chain is a left fold,
# output format dispatch, formula class handed to the helpers, header fields, kthlist2pebbling == peb)
# verdict per obligation: True (holds) / False (contradicted: decisive) / None (pattern not recognised: undecided)
# ---------------------------------------------------------------------------------------------
def _find_assign(fn, target_src):
    return [n for n in ast.walk(fn) if isinstance(n, ast.Assign) and len(n.targets) == 1 and ast.unparse(n.targets[0]) == target_src]


def _tool_cli(src, rel, tool, fclass_mod, fclass, with_chain, out):
    def ob(name, verdict, detail=''):
        out.append(Obligation('cli:' + tool, 'structure', name, verdict, True, detail))
    m = src.module(rel)
    cli = m['funcs'].get('cli')
    if cli is None:
        ob('cli-found', None, 'no function cli in ' + rel)
        return
    # the helper is called with the tool's formula class
    calls = [n for n in ast.walk(cli) if isinstance(n, ast.Call) and ast.unparse(n.func) == 'args.generator.build_formula']
    if len(calls) != 1:
        ob('build-formula-call', None, 'expected exactly one args.generator.build_formula(..) call')
        return
    c = calls[0]
    kw = {k.arg: k.value for k in c.keywords}
    fc = kw.get('formula_class') or (c.args[1] if len(c.args) > 1 else None)
    first = c.args[0] if c.args else kw.get('args')
    if fc is None or not isinstance(fc, ast.Name) or first is None:
        ob('formula-class', None, 'formula_class argument not recognised')
    else:
        r = src.resolve(rel, fc.id)
        good = r[0] == 'class' and r[1] == fclass_mod and r[2].name == fclass and ast.unparse(first) == 'args'
        ob('formula-class', good, '' if good else '{} calls build_formula({}, formula_class={} from {})'.format(
            tool, ast.unparse(first), fc.id, r[1] if r[0] == 'class' else r[0]))
    acc = None
    for a in ast.walk(cli):
        if isinstance(a, ast.Assign) and a.value is c and isinstance(a.targets[0], ast.Name):
            acc = a.targets[0].id
    if acc is None:
        ob('accumulator', None, 'result of build_formula is not bound to a name')
        return
    # output format dispatch
    gf = _find_assign(cli, 'output_format')
    good = len(gf) == 1 and ast.unparse(gf[0].value) == 'guess_output_format(args.output, args.output_format)'
    ob('format-guess', True if good else None, '' if good else 'output_format is not guess_output_format(args.output, args.output_format)')
    pairs = []
    for n in ast.walk(cli):
        if isinstance(n, ast.If) and isinstance(n.test, ast.Compare) and ast.unparse(n.test.left) == 'output_format' and \
                len(n.test.ops) == 1 and isinstance(n.test.ops[0], ast.Eq) and isinstance(n.test.comparators[0], ast.Constant) and \
                len(n.body) == 1 and isinstance(n.body[0], ast.Return) and isinstance(n.body[0].value, ast.Call):
            pairs.append((n.test.comparators[0].value, ast.unparse(n.body[0].value)))
    if not pairs:
        ob('format-dispatch', None, "no `if output_format == X: return F.to_X()` found")
    else:
        wrong = [(f, r) for f, r in pairs if r != '{}.to_{}()'.format(acc, f)]
        ob('format-dispatch', not wrong, '' if not wrong else "mode='string' renders format {} with {}".format(*wrong[0]))
    tf = [n for n in ast.walk(cli) if isinstance(n, ast.Call) and ast.unparse(n.func) == acc + '.to_file']
    if len(tf) == 1:
        kw = {k.arg: ast.unparse(k.value) for k in tf[0].keywords}
        a0 = ast.unparse(tf[0].args[0]) if tf[0].args else kw.get('fileorname')
        good = a0 == 'args.output' and kw.get('fileformat') == 'output_format' and kw.get('export_header') == 'args.verbose' and \
            kw.get('export_varnames') == 'args.varnames'
        ob('output-call', good, '' if good else 'to_file is called as ' + ast.unparse(tf[0]))
    else:
        ob('output-call', None, 'to_file call not recognised')
    # header fields
    hd = {ast.unparse(a.targets[0]): a for a in ast.walk(cli) if isinstance(a, ast.Assign) and
          ast.unparse(a.targets[0]).startswith(acc + '.header[')}
    cl = hd.get("{}.header['command line']".format(acc))
    want = "'{} ' + ' '.join(argv[1:])".format(tool)
    ob('header-command-line', None if cl is None else ast.unparse(cl.value) == want,
       '' if cl is not None and ast.unparse(cl.value) == want else 'header[command line] is ' + (ast.unparse(cl.value) if cl else 'not set'))
    sd = hd.get("{}.header['random seed']".format(acc))
    ob('header-random-seed', None if sd is None else ast.unparse(sd.value) == 'args.seed',
       '' if sd is not None and ast.unparse(sd.value) == 'args.seed' else 'header[random seed] is ' + (ast.unparse(sd.value) if sd else 'not set'))
    if not with_chain:
        return
    # -T chain: left fold over the transformation namespaces, in command line order
    pc = [a for a in ast.walk(cli) if isinstance(a, ast.Assign) and isinstance(a.value, ast.Call) and
          ast.unparse(a.value.func) == 'parse_command_line' and isinstance(a.targets[0], ast.Tuple) and len(a.targets[0].elts) == 2]
    if len(pc) != 1:
        ob('T-chain-fold', None, 'args, t_args = parse_command_line(..) not recognised')
        return
    tname = ast.unparse(pc[0].targets[0].elts[1])
    loops = [n for n in ast.walk(cli) if isinstance(n, ast.For) and
             any(isinstance(x, ast.Call) and ast.unparse(x.func).endswith('.transform_cnf') for x in ast.walk(n))]
    if len(loops) != 1:
        ob('T-chain-fold', None, 'transformation loop not recognised')
    else:
        lp = loops[0]
        it, tg = ast.unparse(lp.iter), ast.unparse(lp.target)
        assigns = [a for a in ast.walk(lp) if isinstance(a, ast.Assign)]
        want = '{0} = {1}.transformation.transform_cnf({0}, {1})'.format(acc, tg)
        others = [a for a in ast.walk(lp) if isinstance(a, (ast.Assign, ast.AugAssign, ast.Break, ast.Continue)) and
                  (not isinstance(a, ast.Assign) or ast.unparse(a) != want)]
        good = it == tname and len(assigns) >= 1 and all(ast.unparse(a) == want for a in assigns) and not others and not lp.orelse
        between = [a for a in ast.walk(cli) if isinstance(a, ast.Assign) and ast.unparse(a.targets[0]) == acc and
                   a.value is not c and a not in assigns]
        good = good and not between
        ob('T-chain-fold', good, '' if good else 'the -T loop is not the left fold `for t in {}: {} = t.transformation.transform_cnf({}, t)`: '
           'iterates over {}, body assigns {}'.format(tname, acc, acc, it, [ast.unparse(a) for a in assigns][:2]))
    # parse_command_line: split at each -T, parse the chunks in order
    p = m['funcs'].get('parse_command_line')
    if p is None:
        ob('T-split', None, 'parse_command_line not found')
        return
    text = [ast.unparse(s) for s in p.body if not (isinstance(s, ast.Expr) and isinstance(s.value, ast.Constant))]
    a = p.args.args
    argv, fp, tp = a[0].arg, a[1].arg, a[2].arg if len(a) > 2 else None
    want = ['cmd_chunks = [[]]',
            "for arg in {}:\n    if arg == '-T':\n        cmd_chunks.append([])\n    else:\n        cmd_chunks[-1].append(arg)".format(argv),
            'generator_cmd = cmd_chunks[0][1:]', 'transformation_cmds = cmd_chunks[1:]',
            'fargs = {}.parse_args(generator_cmd)'.format(fp), 'targs = []',
            'for cmd in transformation_cmds:\n    targs.append({}.parse_args(cmd))'.format(tp), 'return (fargs, targs)']
    ob('T-split', True if text == want else None, '' if text == want else 'parse_command_line no longer has the recognised shape')


def check_cli_structure(src):
    out = []
    _tool_cli(src, 'cnfgen/clitools/cnfgen.py', 'cnfgen', 'cnfgen/formula/cnf.py', 'CNF', True, out)
    _tool_cli(src, 'cnfgen/clitools/pbgen.py', 'pbgen', 'cnfgen/formula/opb.py', 'OPB', False, out)
    # kthlist2pebbling.cli == PebblingFormula(readGraph(stdin,'dag','kthlist')) then the optional transformation
    rel = 'cnfgen/clitools/kthlist2pebbling.py'

    def ob(name, verdict, detail=''):
        out.append(Obligation('cli:kthlist2pebbling', 'structure', name, verdict, True, detail))
    try:
        cli = src.module(rel)['funcs'].get('cli')
    except FileNotFoundError:
        cli = None
    if cli is None:
        ob('cli-found', None, 'kthlist2pebbling.cli not found')
        return out
    g = [a for a in ast.walk(cli) if isinstance(a, ast.Assign) and isinstance(a.value, ast.Call) and ast.unparse(a.value.func) == 'readGraph']
    f = [a for a in ast.walk(cli) if isinstance(a, ast.Assign) and isinstance(a.value, ast.Call) and ast.unparse(a.value.func) == 'PebblingFormula']
    if len(g) != 1 or len(f) != 1:
        ob('peb-of-kthlist', None, 'readGraph / PebblingFormula calls not recognised')
        return out
    gname, fname = ast.unparse(g[0].targets[0]), ast.unparse(f[0].targets[0])
    r = src.resolve(rel, 'PebblingFormula')
    good = ast.unparse(g[0].value) in ("readGraph(sys.stdin, 'dag', file_format='kthlist')", "readGraph(sys.stdin, 'dag', 'kthlist')") and \
        ast.unparse(f[0].value) == 'PebblingFormula({})'.format(gname) and r[0] == 'def' and r[1] == 'cnfgen/families/pebbling.py'
    ob('peb-of-kthlist', good, '' if good else 'builds {} from {}'.format(ast.unparse(f[0].value), ast.unparse(g[0].value)))
    tr = [n for n in ast.walk(cli) if isinstance(n, ast.If) and ast.unparse(n.test) in ("hasattr(args, 'transformation')",)]
    if len(tr) != 1 or len(tr[0].body) != 1 or len(tr[0].orelse) != 1:
        ob('optional-transformation', None, 'transformation step not recognised')
    else:
        b, e = ast.unparse(tr[0].body[0]), ast.unparse(tr[0].orelse[0])
        res = b.split(' = ')[0]
        good = b == '{} = args.transformation.transform_cnf({}, args)'.format(res, fname) and e == '{} = {}'.format(res, fname)
        rets = [ast.unparse(n.value) for n in ast.walk(cli) if isinstance(n, ast.Return) and n.value is not None]
        good = good and all(x.startswith(res) for x in rets) and len(rets) >= 1
        ob('optional-transformation', good, '' if good else 'transformation step is `{}` / `{}`, returns {}'.format(b, e, rets))
    return out
