"""pyvc - verification-condition generation by symbolic execution of the REAL cnfgen source.

Input: (repo-relative file, qualified function name) + a sidecar contract (contracts/*.py).
The file is re-read and parsed from $VERIF_REPO on every run; no copy of any function lives here.

Method (DESIGN 2.1): forward symbolic execution path by path.  Paths are explored by
*re-execution under a decision trace*: every symbolic branch consults the trace; untried
alternatives are queued.  Loops are cut by the sidecar invariant (assert on entry, havoc the
assigned variables, assume invariant, then either one arbitrary iteration followed by
"assert invariant; stop" or exit).  Calls are modular (callee contract) unless the callee is
marked inline.  Every hazard (division, subscripts, next(), unbound local, assert) is an
obligation.  Obligations are discharged afterwards by z3 (pyvc/solve.py).

What is dropped: docstrings, comments, print/log calls.  What is assumed: parameters have the
declared types; no threads/signals; attribute lookup follows the declared class; Python ints are
mathematical integers (exact in Python); floats are never modelled.
Unsupported syntax raises Unsupported: the function is then reported UNSUPPORTED, never skipped.
"""
import ast
import sys
import os

import z3

from pyvc import specs
from pyvc.specs import zmax, zmin, zabs


class Unsupported(Exception):
    pass


class VacuousContract(Exception):
    """a checker error (never a verdict): an assumed postcondition made the path infeasible"""


class SpecError(Exception):
    """a contract expression cannot be evaluated on this path (missing local, missing created object, ...)"""


class PathEnd(Exception):
    """path ends here (infeasible, loop iteration finished, ...)"""


class PyExc(Exception):
    """an exception raised by the program under analysis"""

    def __init__(self, name, line=0):
        Exception.__init__(self, name)
        self.name = name
        self.line = line


class ReturnSig(Exception):
    def __init__(self, value):
        self.value = value


class BreakSig(Exception):
    pass


class ContinueSig(Exception):
    pass


EXC_PARENTS = {'ValueError': 'Exception', 'TypeError': 'Exception', 'IndexError': 'LookupError',
               'KeyError': 'LookupError', 'LookupError': 'Exception', 'ZeroDivisionError': 'ArithmeticError',
               'ArithmeticError': 'Exception', 'AssertionError': 'Exception', 'StopIteration': 'Exception',
               'RuntimeError': 'Exception', 'NotImplementedError': 'RuntimeError', 'AttributeError': 'Exception',
               'UnboundLocalError': 'NameError', 'NameError': 'Exception', 'UnicodeDecodeError': 'ValueError',
               'FileNotFoundError': 'OSError', 'OSError': 'Exception', 'Exception': 'BaseException'}


def exc_matches(name, handler_names):
    while name:
        if name in handler_names:
            return True
        name = EXC_PARENTS.get(name)
    return False


# ----------------------------------------------------------------------------------
# values
class VTuple:
    """concrete-length tuple or list of values (list: mutable in place)"""

    def __init__(self, items, kind='tuple'):
        self.items = list(items)
        self.kind = kind

    def __repr__(self):
        return '{}{}'.format(self.kind, self.items)


class VSeq:
    """abstract immutable sequence: z3 term of sort ISeq or CSeq"""

    def __init__(self, term):
        self.term = term

    @property
    def sortname(self):
        return self.term.sort().name()


class VMList:
    """mutable list cell holding an abstract sequence term (e.g. self._clauses)"""

    def __init__(self, term):
        self.term = term


class VTerms:
    """mutable list of (coefficient, literal) pairs: abstract TSeq term"""

    def __init__(self, term):
        self.term = term


class VCon:
    """the heterogeneous list  [(c,l), ..., op, value]  (an OPB constraint)"""

    def __init__(self, terms, op, value):
        self.terms, self.op, self.value = terms, op, value      # TSeq term, str/z3 String, int/z3 Int

    def as_z3(self):
        op = z3.StringVal(self.op) if isinstance(self.op, str) else self.op
        return specs.mkcon(self.terms, op, toz(self.value))


class VArr:
    """mutable list of ints with symbolic length: (length, z3 array)"""

    def __init__(self, length, arr):
        self.length = length
        self.arr = arr


class VArrN0(VArr):
    """mutable list whose entry 0 is None and every other entry an int (`offset = [None, start]` tables indexed from 1)"""


class VArr2:
    """mutable list of lists of ints: length, row lengths (Array Int Int), rows (Array Int (Array Int Int))"""

    def __init__(self, length, rowlen, rows, present=None):
        # present is None for a list of lists; for a dict {int: list} it is the key set (Array Int Bool) and length is unused
        self.length, self.rowlen, self.rows, self.present = length, rowlen, rows, present


class VRow:
    """a view on row `i` of a VArr2 (aliasing: mutation goes to the parent)"""

    def __init__(self, parent, i):
        self.parent, self.i = parent, i

    @property
    def length(self):
        return z3.Select(self.parent.rowlen, self.i)

    @property
    def arr(self):
        return z3.Select(self.parent.rows, self.i)


class VSet2:
    """mutable set of pairs of ints: characteristic array (Int, Int) -> Bool"""

    def __init__(self, arr):
        self.arr = arr


class VFun2:
    """ghost function (Int, Int) -> Int"""

    def __init__(self, arr):
        self.arr = arr


class VOpt:
    """a value that is either None or an int (e.g. `n = None` later assigned inside a loop)"""

    def __init__(self, isnone, val):
        self.isnone, self.val = isnone, val


class VStr:
    """opaque text: an uninterpreted term with a length and character codes"""

    def __init__(self, term):
        self.term = term


class VStrs:
    """sequence of opaque texts (lines of a file, tokens of a line)"""

    def __init__(self, term):
        self.term = term


class VChar:
    """one character of an opaque text: its code"""

    def __init__(self, code):
        self.code = code


class VPairs:
    """immutable sequence of pairs of ints (e.g. sorted(enumerate(p), key=snd)): length + two arrays"""

    def __init__(self, length, first, second):
        self.length, self.first, self.second = length, first, second


class VSeqSet:
    """a python set of tuples of ints: characteristic array over abstract literal lists"""

    def __init__(self, arr):
        self.arr = arr


class VSeqMap:
    """a python dict from tuples of ints to ints: key set (characteristic array over abstract literal lists) + value array"""

    def __init__(self, present, val):
        self.present, self.val = present, val


class VParities:
    """python list of pairs (list of variables X, int b): kept as the sequence of the augmented lists X + [b]"""

    def __init__(self, aug):
        self.aug = aug                     # CSeq term: element j is isnoc(X_j, b_j)


class VRange:
    def __init__(self, lo, hi, step=1):
        self.lo, self.hi, self.step = lo, hi, step


class VObj:
    def __init__(self, cls, fields=None):
        self.cls = cls
        self.fields = fields or {}

    def __repr__(self):
        return '<{} {}>'.format(self.cls, self.fields)


class VOpaque:
    """a value the contract does not look into (e.g. the list of variable groups); only frame-free methods allowed"""

    def __init__(self, what):
        self.what = what


class VFmt:
    """trace mode (writers): a string built from a constant template with {} holes; args are z3 ints, or None for text the
    abstraction does not look into.  `joined` = (separator, tail) when the text is  sep.join(<this>.splitlines()) + tail"""

    def __init__(self, template, args, joined=None, split=False):
        self.template, self.args, self.joined, self.split = template, list(args), joined, split


class VTextTable:
    """a dictionary from literals to pieces of text whose content the contract does not look into (LaTeX literal names)"""


class VLitTexts:
    """(table[l] for l in clause): the texts of the literals of a clause, in order; or (template.format(x) for x in seq): one
    formatted piece per element (elem = the piece's template)"""

    def __init__(self, clause, elem=None):
        self.clause, self.elem = clause, elem


class VRowText:
    """prefix + sep.join(texts of the literals of `clause`) + suffix"""

    def __init__(self, sep, clause, prefix='', suffix=''):
        self.sep, self.clause, self.prefix, self.suffix = sep, clause, prefix, suffix


class VCombs2:
    """all pairs (a, b) with lo <= a < b < hi, in itertools.combinations order; iterated as two nested range loops"""

    def __init__(self, lo, hi, pred=None, shift=0):
        self.lo, self.hi, self.pred = lo, hi, pred        # pred: VSpecPred keeping only the pairs it holds for (a filtered enumeration)
        self.shift = shift                                # the pairs are handed out as (a + shift, b + shift): ((u-1, v-1) for (u, v) in pairs)


class VSpecPred:
    """a contract-level predicate (lambda of a spec expression + the environment it was written in), callable from the
    synthesized guard of a nest loop only"""

    def __init__(self, lam, env):
        self.lam, self.env = lam, env


class VNested:
    """buffer.getvalue() [+ suffix]: the whole text written to an in-memory buffer"""

    def __init__(self, trace, suffix=''):
        self.trace, self.suffix = trace, suffix


class VEnum:
    """enumerate(inner, start)"""

    def __init__(self, inner, start):
        self.inner, self.start = inner, start


class VSink:
    """a writable text stream: only the sequence of write() events is modelled (one ISeq event per call)"""

    def __init__(self, trace):
        self.trace = trace


TEMPLATE_IDS = {}


def template_id(t):
    if t not in TEMPLATE_IDS:
        TEMPLATE_IDS[t] = len(TEMPLATE_IDS) + 1
    return TEMPLATE_IDS[t]


def str_choice_id(v):
    """a z3 string that is a constant or an if-then-else of constants (e.g. `">=" if .. else "="`): its id as an int term"""
    if is_z3(v) and z3.is_string(v):
        if z3.is_string_value(v):
            return z3.IntVal(template_id('str:' + v.as_string()))
        if z3.is_app(v) and v.decl().kind() == z3.Z3_OP_ITE:
            a, b = str_choice_id(v.arg(1)), str_choice_id(v.arg(2))
            if a is not None and b is not None:
                return z3.If(v.arg(0), a, b)
    return None


def normalize_template(fmt, nargs, kwnames):
    """(template with positional {} / {:spec} holes, list of argument selectors) for a str.format template"""
    import string
    out, sel, auto = '', [], 0
    for lit, fld, spec, conv in string.Formatter().parse(fmt):
        out += lit.replace('{', '{{').replace('}', '}}')
        if fld is None:
            continue
        if conv or '.' in fld or '[' in fld:
            raise Unsupported('format field ' + fld)
        if fld == '':
            sel.append(auto)
            auto += 1
        elif fld.isdigit():
            sel.append(int(fld))
        else:
            sel.append(fld)
        out += '{' + (':' + spec if spec else '') + '}'
    return out, sel


class VCounted:
    """a list whose elements the contract does not look into, except how many were appended and which one was appended last
    (the list of variable groups of a formula: labels stay aligned only if every group is registered exactly once)"""

    def __init__(self, count, last=None):
        self.count, self.last = count, last


class VGroups:
    """the list of variable groups of a formula, seen through what the manager's own code looks at: how many there are and, for
    the i-th one, its identifier range [lo[i], hi[i]) and whether it is a single-variable group"""

    def __init__(self, length, lo, hi, single):
        self.length, self.lo, self.hi, self.single = length, lo, hi, single


class VClass:
    """a class passed as a value (formula_class): `ident` distinguishes the classes symbolically"""

    def __init__(self, model, ident):
        self.model, self.ident = model, ident


class VClosure:
    def __init__(self, node, env, modinfo):
        self.node, self.env, self.modinfo = node, env, modinfo


class VSpecFn:
    def __init__(self, fn):
        self.fn = fn


class VGadFn:
    """a function-valued parameter known only as a pure map literal -> CNF:  f(l) is the spec term gad(sid, l)"""

    def __init__(self, sid):
        self.sid = sid


class VDom:
    """[table[l] for l in clause] for a table of clause lists: kept symbolic (table array, table length, clause)"""

    def __init__(self, arr, length, clause):
        self.arr, self.length, self.clause = arr, length, clause


class VUnbound:
    pass


UNBOUND = VUnbound()


def is_z3(v):
    return isinstance(v, z3.ExprRef)


def sel(arr, i):
    """array read; reads of lambda arrays are beta-reduced so that no binder is left in ground terms"""
    r = z3.Select(arr, i)
    return z3.simplify(r) if z3.is_quantifier(arr) else r


def toz(v):
    if isinstance(v, bool):
        return z3.BoolVal(v)
    if isinstance(v, int):
        return z3.IntVal(v)
    return v


def as_bool(v):
    """truthiness of a value as python bool or z3 Bool"""
    if isinstance(v, bool):
        return v
    if v is None:
        return False
    if isinstance(v, int):
        return v != 0
    if isinstance(v, str):
        return len(v) > 0
    if is_z3(v):
        if z3.is_bool(v):
            return v
        if z3.is_int(v):
            return v != 0
        if v.sort() == z3.StringSort():
            return z3.Length(v) > 0
    if isinstance(v, VTuple):
        return len(v.items) > 0
    if isinstance(v, VSeq):
        return {'ISeq': specs.ilen, 'CSeq': specs.clen, 'OSeq': specs.olen}[v.sortname](v.term) > 0
    if isinstance(v, VCon):
        return True
    if isinstance(v, VOpt):
        return z3.And(z3.Not(v.isnone), v.val != 0)
    if isinstance(v, VStr):
        return specs.slen(v.term) > 0
    if isinstance(v, VStrs):
        return specs.sslen(v.term) > 0
    if isinstance(v, VArr):
        return toz(v.length) > 0
    if isinstance(v, VObj):
        return True
    raise Unsupported('truthiness of {!r}'.format(v))


def zand(*xs):
    xs = [x for x in xs if x is not True]
    if any(x is False for x in xs):
        return False
    if not xs:
        return True
    return z3.And([toz(x) for x in xs]) if len(xs) > 1 else xs[0]


def zor(*xs):
    xs = [x for x in xs if x is not False]
    if any(x is True for x in xs):
        return True
    if not xs:
        return False
    return z3.Or([toz(x) for x in xs]) if len(xs) > 1 else xs[0]


def znot(x):
    if isinstance(x, bool):
        return not x
    return z3.Not(x)


def py_floordiv(a, b):
    a, b = toz(a), toz(b)
    return z3.If(b > 0, a / b, (-a) / (-b))      # z3 int division rounds so that remainder >= 0


def py_mod(a, b):
    a, b = toz(a), toz(b)
    return a - b * py_floordiv(a, b)


# ----------------------------------------------------------------------------------
class Repo:
    """parsed modules of the repository under verification (re-read on every run)"""

    def __init__(self, root):
        self.root = root
        self.cache = {}

    def module(self, rel):
        if rel not in self.cache:
            src = open(os.path.join(self.root, rel)).read()
            tree = ast.parse(src)
            funcs, classes, imports = {}, {}, {}
            for n in tree.body:
                if isinstance(n, ast.FunctionDef):
                    funcs[n.name] = n
                elif isinstance(n, ast.ClassDef):
                    methods = {m.name: m for m in n.body if isinstance(m, ast.FunctionDef)}
                    bases = [ast.unparse(b) for b in n.bases]
                    classes[n.name] = (n, methods, bases)
                elif isinstance(n, ast.ImportFrom) and n.module:
                    for a in n.names:
                        imports[a.asname or a.name] = (n.module, a.name)
                elif isinstance(n, ast.Import):
                    for a in n.names:
                        imports[a.asname or a.name] = (a.name, None)
            self.cache[rel] = dict(tree=tree, funcs=funcs, classes=classes, imports=imports, rel=rel, src=src)
        return self.cache[rel]

    def find(self, rel, qual):
        m = self.module(rel)
        if '.' in qual:
            c, f = qual.split('.', 1)
            if c in m['classes'] and f in m['classes'][c][1]:
                return m['classes'][c][1][f]
            if c in m['funcs']:                      # closure: function nested in a module-level function
                for n in ast.walk(m['funcs'][c]):
                    if isinstance(n, ast.FunctionDef) and n.name == f and n is not m['funcs'][c]:
                        return n
            raise KeyError('{}:{}'.format(rel, qual))
        if qual in m['funcs']:
            return m['funcs'][qual]
        raise KeyError('{}:{}'.format(rel, qual))

    def modpath(self, dotted):
        rel = dotted.replace('.', '/') + '.py'
        if os.path.exists(os.path.join(self.root, rel)):
            return rel
        rel = dotted.replace('.', '/') + '/__init__.py'
        if os.path.exists(os.path.join(self.root, rel)):
            return rel
        return None

    def find_class(self, rel, cname):
        """(rel, classinfo) following imports"""
        m = self.module(rel)
        if cname in m['classes']:
            return rel, m['classes'][cname]
        if cname in m['imports']:
            mod, name = m['imports'][cname]
            p = self.modpath(mod)
            if p:
                return self.find_class(p, name)
        return None

    def resolve_method(self, rel, cname, meth):
        """MRO lookup (single inheritance chains + left-to-right bases)"""
        hit = self.find_class(rel, cname)
        if not hit:
            return None
        crel, (node, methods, bases) = hit
        if meth in methods:
            return crel, cname if crel == rel else node.name, methods[meth]
        for b in bases:
            r = self.resolve_method(crel, b, meth)
            if r:
                return r
        return None


def loop_header(n):
    if isinstance(n, ast.For):
        return 'for {} in {}'.format(ast.unparse(n.target), ast.unparse(n.iter))
    return 'while {}'.format(ast.unparse(n.test))


def _load_loop_headers():
    import json
    p = os.path.join(os.path.dirname(os.path.dirname(os.path.abspath(__file__))), 'contracts', 'loop_headers.json')
    try:
        return json.load(open(p))
    except (OSError, ValueError):
        return {}


LOOP_HEADERS = _load_loop_headers()


class Obligation:
    def __init__(self, func, kind, name, hyps, goal, line, decisive):
        self.func, self.kind, self.name, self.hyps, self.goal, self.line, self.decisive = \
            func, kind, name, hyps, goal, line, decisive
        self.verdict = None
        self.model = None
        self.backend = None
        self.time = 0.0

    @property
    def ident(self):
        return '{}:{}:{}'.format(self.func, self.kind, self.name)


# ----------------------------------------------------------------------------------
class Engine:
    def __init__(self, repo, contracts, classmodels=None, feas_timeout=2000):
        self.repo = repo
        self.contracts = contracts          # {(rel, qual): contract dict}
        self.classmodels = classmodels or {}
        self.obligations = []
        self.fresh_n = 0
        self.feas_timeout = feas_timeout
        self.paths = 0
        self.used_assumed = set()
        self.exits = {'normal': 0, 'raise': {}}

    # ------------------------------------------------------------------ utilities
    def fresh(self, base, sort=None):
        self.fresh_n += 1
        return z3.Const('{}!{}'.format(base, self.fresh_n), sort if sort is not None else z3.IntSort())

    def fresh_of_type(self, base, ty):
        if ty == 'int':
            return self.fresh(base)
        if ty == 'bool':
            return self.fresh(base, z3.BoolSort())
        if ty == 'str':
            return self.fresh(base, z3.StringSort())
        if ty == 'iseq':
            return VSeq(self.fresh(base, specs.ISeq))
        if ty == 'cseq':
            return VSeq(self.fresh(base, specs.CSeq))
        if ty == 'mclist':
            return VMList(self.fresh(base, specs.CSeq))
        if ty == 'paritylist':
            return VParities(self.fresh(base + '_aug', specs.CSeq))
        if ty == 'pairlist':
            n = self.fresh(base + '_len')
            self.pc.append(n >= 0)
            I = z3.IntSort()
            return VPairs(n, self.fresh(base + '_first', z3.ArraySort(I, I)), self.fresh(base + '_second', z3.ArraySort(I, I)))
        if ty == 'sink':
            return VSink(self.fresh(base + '_trace', specs.CSeq))
        if ty == 'fn:gad':
            return VGadFn(self.fresh(base + '_fid'))
        if ty == 'asg':
            return self.fresh(base, specs.Asg)
        if ty == 'molist':
            return VMList(self.fresh(base, specs.OSeq))
        if ty == 'terms':
            return VTerms(self.fresh(base, specs.TSeq))
        if ty == 'con':
            return VCon(self.fresh(base + '_terms', specs.TSeq), self.fresh(base + '_op', z3.StringSort()), self.fresh(base + '_value'))
        if ty == 'intlist':
            L = self.fresh(base + '_len')
            self.assume(L >= 0)
            return VArr(L, self.fresh(base + '_arr', z3.ArraySort(z3.IntSort(), z3.IntSort())))
        if ty == 'intlist_none0':
            L = self.fresh(base + '_len')
            self.assume(L >= 1)
            return VArrN0(L, self.fresh(base + '_arr', z3.ArraySort(z3.IntSort(), z3.IntSort())))
        if ty == 'seqmap':
            return VSeqMap(self.fresh(base + '_keys', specs.SeqSet), self.fresh(base + '_vals', z3.ArraySort(specs.ISeq, z3.IntSort())))
        if ty == 'grouplist':
            L = self.fresh(base + '_len')
            self.assume(L >= 0)
            A = z3.ArraySort(z3.IntSort(), z3.IntSort())
            return VGroups(L, self.fresh(base + '_lo', A), self.fresh(base + '_hi', A), self.fresh(base + '_single', z3.ArraySort(z3.IntSort(), z3.BoolSort())))
        if ty == 'intlist2':
            L = self.fresh(base + '_len')
            self.assume(L >= 0)
            I = z3.IntSort()
            return VArr2(L, self.fresh(base + '_rowlen', z3.ArraySort(I, I)), self.fresh(base + '_rows', z3.ArraySort(I, z3.ArraySort(I, I))))
        if ty == 'intdict2':
            I = z3.IntSort()
            return VArr2(z3.IntVal(0), self.fresh(base + '_rowlen', z3.ArraySort(I, I)), self.fresh(base + '_rows', z3.ArraySort(I, z3.ArraySort(I, I))),
                         present=self.fresh(base + '_keys', z3.ArraySort(I, z3.BoolSort())))
        if ty == 'pairset':
            return VSet2(self.fresh(base, z3.ArraySort(z3.IntSort(), z3.IntSort(), z3.BoolSort())))
        if ty == 'ghostfun2':
            return VFun2(self.fresh(base, z3.ArraySort(z3.IntSort(), z3.IntSort(), z3.IntSort())))
        if ty == 'none':
            return None
        if ty == 'opaque':
            return VOpaque(base)
        if ty == 'countedlist':
            n = self.fresh(base + '_count')
            self.pc.append(n >= 0)
            return VCounted(n)
        if ty == 'any':
            return VOpaque(base)
        if ty.startswith('class:'):
            return VClass(ty[6:], self.fresh(base))
        if ty == 'lines':
            return VStrs(self.fresh(base, specs.SSeq))
        if ty == 'textfile':
            return VOpaque('textfile')
        if ty == 'opaquestr':
            return '<str>'
        if ty == 'optstr':
            return None if self.choose(2) == 1 else '<str>'
        if ty.startswith('obj:'):
            return self.fresh_obj(base, ty[4:])
        if ty.startswith('newobj:'):
            return VObj(ty[7:])            # the object under construction: no field yet, no invariant yet
        if ty.startswith('tuple1:'):
            # a one-element list holding a tuple, e.g. [(u, v)]
            return VTuple([VTuple([self.fresh_of_type('{}_0_{}'.format(base, i), t) for i, t in enumerate(ty[7:].split(','))], 'tuple')], 'list')
        if ty.startswith('tuple:'):
            return VTuple([self.fresh_of_type('{}_{}'.format(base, i), t) for i, t in enumerate(ty[6:].split(','))], 'tuple')
        if ty.startswith('const:'):
            return ast.literal_eval(ty[6:])
        raise Unsupported('type ' + ty)

    def fresh_obj(self, base, cls):
        model = self.classmodels.get(cls)
        if model is None:
            raise Unsupported('no class model for ' + cls)
        o = VObj(cls)
        for f, ty in model['fields'].items():
            if ty.startswith('range:'):
                _, lo, hi = ty.split(':')
                o.fields[lo] = self.fresh('{}.{}'.format(base, lo))
                o.fields[hi] = self.fresh('{}.{}'.format(base, hi))
                o.fields[f] = VRange(o.fields[lo], o.fields[hi], 1)
                continue
            o.fields[f] = self.fresh_of_type('{}.{}'.format(base, f), ty)
        for inv in model.get('invariant', []):
            self.assume(self.spec_eval(inv, {'self': o}))
        return o

    def assume(self, c):
        if c is True:
            return
        if c is False:
            raise PathEnd()
        self.pc.append(c)

    def recording(self):
        return self.pos >= self.record_from

    def oblige(self, kind, name, goal, line, decisive=True):
        if not self.recording():
            if goal is not True:
                self.assume(toz(goal)) if goal is not False else None
            return
        g = toz(goal)
        self.obligations.append(Obligation(self.cur_func, kind, name, list(self.pc), g, line, decisive))
        # after checking, the fact may be assumed on this path (it either holds or the check fails)
        if goal is not True and goal is not False:
            self.pc.append(g)

    def feasible(self, extra):
        s = z3.Solver()
        s.set('timeout', self.feas_timeout)
        if not os.environ.get('PYVC_FEAS_FULL'):
            # definitional axioms (top-level quantifiers) only slow the check down; leaving hypotheses out is sound here
            # (it can only make a path look feasible)
            s.add([h for h in self.pc if not z3.is_quantifier(h)])
        else:
            s.add(self.pc)
        s.add(extra)
        return s.check() != z3.unsat

    def branch(self, cond):
        """decide a branch; returns python bool; extends the path condition"""
        if isinstance(cond, bool):
            return cond
        cond = z3.simplify(cond)
        if z3.is_true(cond):
            return True
        if z3.is_false(cond):
            return False
        if self.pos < len(self.decisions):
            d = self.decisions[self.pos]
        else:
            t = self.feasible(cond)
            f = self.feasible(z3.Not(cond))
            if t and f:
                self.work.append(self.decisions[:self.pos] + [False])
                d = True
            elif t:
                d = True
            elif f:
                d = False
            else:
                raise PathEnd()
            self.decisions.append(d)
        self.pos += 1
        self.pc.append(cond if d else z3.Not(cond))
        return d

    def choose(self, n):
        """uninterpreted n-way choice (loop: iterate / exit)"""
        if self.pos < len(self.decisions):
            d = self.decisions[self.pos]
        else:
            for alt in range(n - 1, 0, -1):
                self.work.append(self.decisions[:self.pos] + [alt])
            d = 0
            self.decisions.append(d)
        self.pos += 1
        return d

    # ------------------------------------------------------------------ top level
    def verify(self, rel, qual, contract=None, label=None):
        """generate all obligations of one function under its contract (or a variant of it)"""
        key = (rel, qual)
        c = contract or self.contracts[key]
        srel, squal = c.get('source', (rel, qual))      # contract on a class MODEL: code lives under `source`
        node = self.repo.find(srel, squal)
        rel = srel
        self.cur_func = '{}:{}{}'.format(srel, squal, '#' + label if label else '')
        n0 = len(self.obligations)
        self.work = [[]]
        self.exits = {'normal': 0, 'raise': {}}
        while self.work:
            prefix = self.work.pop()
            self.decisions = list(prefix)
            self.record_from = len(prefix)
            self.pos = 0
            self.pc = []
            self.paths += 1
            if self.paths > 4000:
                raise Unsupported('path explosion')
            try:
                self.run_top(rel, qual, node, c)
            except PathEnd:
                pass
            except PyExc as e:
                # a python exception raised while evaluating contract text / ghost code (outside the function body proper)
                raise Unsupported('python {} while evaluating the contract at line {}'.format(e.name, e.line))
            except VacuousContract:
                raise               # an inconsistent contract is a checker error, never a verdict and never silently degraded
            except (Unsupported, SpecError, ReturnSig, BreakSig, ContinueSig):
                raise
            except (TypeError, AttributeError, IndexError, ValueError, KeyError, z3.Z3Exception) as e:
                # the interpreter met values it has no model for (typically code that was edited into something the
                # value model cannot represent, e.g. `list - list`): the function leaves the supported subset - never a
                # crash, never a violation.  PYVC_STRICT=1 re-raises (used when developing contracts on the unchanged tree).
                if os.environ.get('PYVC_STRICT'):
                    raise
                raise Unsupported('the engine cannot interpret the function ({}: {})'.format(type(e).__name__, str(e)[:120]))
        return self.obligations[n0:]

    def bind_params(self, node, c, rel, qual):
        env = {}
        types = c.get('params', {})
        args = node.args
        names = [a.arg for a in args.args] + [a.arg for a in args.kwonlyargs]
        for nme in names:
            ty = types.get(nme)
            if ty is None:
                if nme == 'self' and '.' in qual and not c.get('closure_vars'):
                    ty = 'obj:' + qual.split('.')[0]
                else:
                    raise Unsupported('no declared type for parameter ' + nme)
            env[nme] = self.fresh_of_type(nme, ty)
        if args.vararg and types.get(args.vararg.arg, '') == 'noargs' and not args.kwarg:
            env[args.vararg.arg] = VTuple([], 'tuple')            # def f(a, b, *rest) verified for calls without extra arguments
        elif args.vararg and types.get(args.vararg.arg, '').startswith('tuple:') and not args.kwarg:
            # def f(self, *index) verified for a declared shape of the argument tuple (one contract variant per shape)
            env[args.vararg.arg] = self.fresh_of_type(args.vararg.arg, types[args.vararg.arg])
        elif args.vararg or args.kwarg:
            raise Unsupported('*args/**kwargs in function under contract')
        for nme, ty in c.get('closure_vars', {}).items():       # free variables of a nested function
            env[nme] = self.fresh_of_type(nme, ty)
        for lhs, rhs in c.get('aliases', []):                   # declared aliasing between parameters' fields
            ln = ast.parse(lhs, mode='eval').body
            self.eval(ln.value, env).fields[ln.attr] = self.eval(ast.parse(rhs, mode='eval').body, env)
        return env

    def snapshot(self, v):
        if isinstance(v, VObj):
            o = VObj(v.cls)
            o.fields = {k: self.snapshot(x) for k, x in v.fields.items()}
            return o
        if isinstance(v, VMList):
            return VMList(v.term)
        if isinstance(v, VGroups):
            return VGroups(v.length, v.lo, v.hi, v.single)
        if isinstance(v, VSeqMap):
            return VSeqMap(v.present, v.val)
        if isinstance(v, VCounted):
            return VCounted(v.count, v.last)
        if isinstance(v, VSink):
            return VSink(v.trace)
        if isinstance(v, VSeqSet):
            return VSeqSet(v.arr)
        if isinstance(v, VParities):
            return VParities(v.aug)
        if isinstance(v, VArr):
            return type(v)(v.length, v.arr)
        if isinstance(v, VArr2):
            return VArr2(v.length, v.rowlen, v.rows, v.present)
        if isinstance(v, VSet2):
            return VSet2(v.arr)
        if isinstance(v, VFun2):
            return VFun2(v.arr)
        if isinstance(v, VTerms):
            return VTerms(v.term)
        if isinstance(v, VCon):
            return VCon(v.terms, v.op, v.value)
        if isinstance(v, VTuple):
            return VTuple([self.snapshot(x) for x in v.items], v.kind)
        return v

    def run_top(self, rel, qual, node, c):
        self.modinfo = self.repo.module(rel)
        self.created = {}
        self.gadids = {}
        env = self.bind_params(node, c, rel, qual)
        for g, ty in c.get('ghost_params', {}).items():
            env[g] = self.fresh_of_type(g, ty)
        for r in c.get('requires', []):
            self.assume(toz(self.spec_eval(r, env)))
        for d in c.get('defines', []):
            # definitional axioms of spec functions that belong to this contract alone (e.g. the event a writer emits per
            # literal): total, non-recursive right-hand sides over a writer id no other contract uses
            self.assume(toz(self.spec_eval(d, env)))
        old = {k: self.snapshot(v) for k, v in env.items()}
        entry = dict(env)      # parameter names in postconditions denote the objects passed in (python may rebind the local)
        env['__old__'] = old   # old(e) is also available in loop invariants and hints
        self.frames = [dict(contract=c, old=old, loopno=0, yields=[], rel=rel, qual=qual, node=node,
                            src=self.cur_func.split('#')[0])]
        for k in self.yield_sites(self.frames[0]).values():
            env['_y{}'.format(k)] = z3.IntVal(0)
            env['_ytotal'] = z3.IntVal(0)           # ghost: how many values the generator has yielded so far
        if c.get('ghost_code'):
            # ghost code is anchored at statements by their source text: an anchor that matches no statement of the function (the
            # statement was edited, a local renamed) means the ghost state will not be maintained - stale scaffolding, an auxiliary
            # failure (the function degrades), never a reason to report the decisive clauses that depend on the ghost state
            srcs = {ast.unparse(n) for n in ast.walk(node) if isinstance(n, ast.stmt)}
            for anchor, _code in c['ghost_code']:
                if anchor not in srcs:
                    self.oblige('hint', 'ghost code anchor `{}` matches no statement of the function'.format(anchor[:60]), False, node.lineno, decisive=False)
        if c.get('yield_acc'):
            env['_ys'] = VSeq(specs.cnil)            # ghost: the sequence of clauses yielded so far
        outcome = ('normal', None)
        try:
            self.exec_block(node.body, env)
        except ReturnSig as r:
            outcome = ('normal', r.value)
        except PyExc as e:
            outcome = ('raise', e)
        fr = self.frames[-1]
        self.final_env = env
        post_env = dict(entry)
        post_env['__old__'] = old
        if outcome[0] == 'normal':
            self.exits['normal'] += 1
            post_env['result'] = outcome[1]
            if c.get('returns') == 'cseq' and isinstance(outcome[1], VTuple) and not outcome[1].items:
                post_env['result'] = VSeq(specs.cnil)        # an empty list returned where a list of clauses is declared
            if c.get('yield_acc') == 'parities':
                post_env['result'] = VParities(env['_ys'].term)
            elif c.get('yield_acc'):
                post_env['result'] = env['_ys']        # a generator under `yield_acc`: its value is the sequence it yields
            for exc, cond in c.get('raises', {}).items():
                if cond is None:
                    continue
                g = self.spec_eval(cond, {**old, '__old__': old})
                self.oblige('raises-iff', 'normal exit although {} is promised when [{}]'.format(exc, cond), znot(toz(g)) if not isinstance(g, bool) else (not g), node.lineno)
            # frame of the function: callers havoc exactly the fields listed under `modifies` (and streams handed over); everything else
            # reachable from the arguments must leave the function as it entered it
            declared = set()
            declared_names = set()
            for m in c.get('modifies', []):
                tn = ast.parse(m, mode='eval').body
                if isinstance(tn, ast.Name):
                    declared_names.add(tn.id)      # a list argument changed in place (such a contract cannot be used at call sites: Unsupported there)
                if isinstance(tn, ast.Attribute):
                    try:
                        o = self.eval(tn.value, dict(entry))
                    except Exception:       # noqa
                        continue
                    declared.add((id(o), tn.attr))
            fresh_objs = {pn for pn, ty in c.get('params', {}).items() if isinstance(ty, str) and ty.startswith('newobj:')}
            vals = {k: (v, old[k]) for k, v in entry.items() if k in old and k not in fresh_objs and k not in declared_names and not k.startswith('_')}
            badf = self._frame_diff(vals, declared, set(), entry, skip_sinks=True)
            if badf:
                self.oblige('frame', 'the function changes `{}` of its arguments but the contract does not list it under `modifies`: '
                            'a caller would go on with the old value'.format(badf), False, node.lineno, decisive=False)
            for h in c.get('post_hints', []):         # ghost lemma steps before the postconditions: proved (auxiliary), then available
                try:
                    self.oblige('hint', h, self.spec_eval(h, post_env), node.lineno, decisive=False)
                except SpecError as se:
                    self.oblige('hint', '{} [not expressible: {}]'.format(h, se), False, node.lineno, decisive=False)
            for i, e in enumerate(c.get('ensures', [])):
                try:
                    g = self.spec_eval(e, post_env)
                except SpecError as se:
                    self.oblige('post', e + '   [not expressible on this path: {}]'.format(se), False, node.lineno)
                    continue
                self.oblige('post', e, g, node.lineno)
        else:
            e = outcome[1]
            self.exits['raise'][e.name] = self.exits['raise'].get(e.name, 0) + 1
            allowed = c.get('raises', {})
            hit = None
            for exc in allowed:
                if exc_matches(e.name, [exc]):
                    hit = exc
            if hit is None:
                self.oblige('raises-only', 'undeclared {} escapes (line {})'.format(e.name, e.line), False, e.line)
            else:
                cond = allowed[hit]
                if cond is not None:
                    g = self.spec_eval(cond, {**old, '__old__': old})
                    self.oblige('raises-iff', '{} raised (line {}) only when [{}]'.format(e.name, e.line, cond), g, e.line)
                for ens in c.get('ensures_on_raise', []):
                    self.oblige('post-exc', ens, self.spec_eval(ens, post_env), e.line)

    # ------------------------------------------------------------------ statements
    def exec_block(self, stmts, env):
        for s in stmts:
            self.exec_stmt(s, env)
            gc = self.frames[-1]['contract'].get('ghost_code') if self.frames else None
            if gc:
                src = ast.unparse(s)
                for anchor, code in gc:
                    if anchor == src:
                        self.frames[-1].setdefault('ghost_hit', set()).add(anchor)
                        saved = getattr(self, 'in_spec', False)
                        self.in_spec = True
                        try:
                            for st in ast.parse(code).body:
                                v = self.eval(st.value, env)
                                self.assign(st.targets[0], v, env)
                        except SpecError as se:
                            # the ghost state the contract relies on does not exist on this path (e.g. an anchor statement was
                            # changed): an auxiliary failure, like an inexpressible invariant - never a crash
                            self.in_spec = saved
                            self.oblige('hint', 'ghost code at `{}` [not expressible: {}]'.format(anchor[:40], se), False, s.lineno, decisive=False)
                        finally:
                            self.in_spec = saved

    def exec_stmt(self, s, env):
        if isinstance(s, ast.Expr):
            if isinstance(s.value, ast.Constant):
                return
            if isinstance(s.value, (ast.Yield, ast.YieldFrom)):
                return self.do_yield(s.value, env)
            self.eval(s.value, env)
            return
        if isinstance(s, ast.Assign):
            v = self.eval(s.value, env)
            for t in s.targets:
                if isinstance(t, ast.Name) and self.frames[-1]['contract'].get('locals', {}).get(t.id) == 'mclist' \
                        and isinstance(v, VTuple) and not v.items:
                    v = VMList(specs.cnil)                         # declared: a growing list of clauses
                if isinstance(t, ast.Name) and self.frames[-1]['contract'].get('locals', {}).get(t.id) == 'mclist' \
                        and isinstance(v, VTuple) and v.kind == 'list' and v.items and all(isinstance(x, VSeq) and x.sortname == 'ISeq' for x in v.items):
                    tm = specs.cnil
                    for x in v.items:
                        tm = specs.csnoc(tm, x.term)
                    v = VMList(tm)                                 # ... starting from a literal list of clauses
                if isinstance(t, ast.Name) and self.frames[-1]['contract'].get('locals', {}).get(t.id) == 'paritylist' \
                        and isinstance(v, VTuple) and not v.items:
                    v = VParities(specs.cnil)                      # declared: a growing list of (variables, bit) pairs
                if isinstance(t, ast.Name) and self.frames[-1]['contract'].get('locals', {}).get(t.id) == 'seqset' \
                        and isinstance(v, VSet2):
                    v = VSeqSet(z3.K(specs.ISeq, z3.BoolVal(False)))   # declared: a set of tuples of ints
                if isinstance(t, ast.Name) and self.frames[-1]['contract'].get('locals', {}).get(t.id) == 'seqmap' \
                        and isinstance(s.value, ast.Dict) and not s.value.keys:
                    v = VSeqMap(z3.K(specs.ISeq, z3.BoolVal(False)), z3.K(specs.ISeq, z3.IntVal(0)))      # declared: a dict from int tuples to ints
                if isinstance(t, ast.Name) and self.frames[-1]['contract'].get('locals', {}).get(t.id) == 'texttable':
                    v = VTextTable()                               # declared: a table of unmodelled texts
                if isinstance(t, ast.Name) and isinstance(v, VArr) and getattr(v, 'blank', False) \
                        and self.frames[-1]['contract'].get('locals', {}).get(t.id) == 'ctab':
                    v.arr = self.fresh('ctable', specs.CTab)       # declared: a table of clause lists
                    v.blank = False
                self.assign(t, v, env)
            return
        if isinstance(s, ast.AugAssign):
            cur = self.eval(s.target, env)
            v = self.binop(s.op, cur, self.eval(s.value, env), s)
            # python lists implement += / *= IN PLACE: every other name of the same list (e.g. the caller's argument) sees it
            if isinstance(s.op, (ast.Add, ast.Mult)):
                if isinstance(cur, VArr) and isinstance(v, VArr):
                    cur.length, cur.arr = v.length, v.arr
                    return
                if isinstance(cur, VTuple) and cur.kind == 'list':
                    if isinstance(v, VTuple):
                        cur.items[:] = v.items
                        return
                    raise Unsupported('in-place extension of a concrete list by a symbolic one (line {})'.format(s.lineno))
                if isinstance(cur, (VSeq, VMList, VArr2, VTerms)) and not isinstance(cur, (int, str)):
                    raise Unsupported('in-place += on an abstract list (line {})'.format(s.lineno))
            self.assign(s.target, v, env)
            return
        if isinstance(s, ast.If):
            c = as_bool(self.eval(s.test, env))
            if self.branch(c):
                self.exec_block(s.body, env)
            else:
                self.exec_block(s.orelse, env)
            return
        if isinstance(s, ast.Return):
            raise ReturnSig(self.eval(s.value, env) if s.value else None)
        if isinstance(s, ast.Raise):
            raise PyExc(self.exc_name(s.exc), s.lineno)
        if isinstance(s, ast.Assert):
            c = as_bool(self.eval(s.test, env))
            self.oblige('hazard', 'assert {}'.format(ast.unparse(s.test)), c, s.lineno)
            return
        if isinstance(s, (ast.Pass, ast.Import, ast.ImportFrom)):
            return
        if isinstance(s, ast.For):
            return self.exec_for(s, env)
        if isinstance(s, ast.While):
            return self.exec_while(s, env)
        if isinstance(s, ast.Break):
            raise BreakSig()
        if isinstance(s, ast.Continue):
            raise ContinueSig()
        if isinstance(s, ast.Try):
            return self.exec_try(s, env)
        if isinstance(s, ast.FunctionDef):
            env[s.name] = VClosure(s, env, self.modinfo)
            env[s.name].owner = (self.frames[-1].get('rel'), self.frames[-1].get('qual'))     # the function it is nested in
            return
        raise Unsupported('statement {} (line {})'.format(type(s).__name__, s.lineno))

    def exc_name(self, e):
        if e is None:
            raise Unsupported('bare raise')
        if isinstance(e, ast.Call):
            e = e.func
        if isinstance(e, ast.Name):
            return e.id
        if isinstance(e, ast.Attribute):
            return e.attr
        raise Unsupported('raise expression')

    def exec_try(self, s, env):
        if s.finalbody:
            raise Unsupported('try/finally')
        try:
            self.exec_block(s.body, env)
        except PyExc as e:
            for h in s.handlers:
                names = []
                if h.type is None:
                    names = ['BaseException']
                elif isinstance(h.type, ast.Tuple):
                    names = [self.exc_name(x) for x in h.type.elts]
                else:
                    names = [self.exc_name(h.type)]
                if exc_matches(e.name, names):
                    if h.name:
                        env[h.name] = VObj('exception:' + e.name)
                    # `raise X from te` handled by exec_stmt Raise
                    self.exec_block(h.body, env)
                    return
            raise
        else:
            self.exec_block(s.orelse, env)

    def assign(self, t, v, env):
        if isinstance(t, ast.Name):
            env[t.id] = v
            return
        if isinstance(t, (ast.Tuple, ast.List)):
            items = self.unpack(v, len(t.elts), t)
            for tt, x in zip(t.elts, items):
                self.assign(tt, x, env)
            return
        if isinstance(t, ast.Attribute):
            o = self.eval(t.value, env)
            if not isinstance(o, VObj):
                raise Unsupported('attribute store on non-object')
            fty = self.classmodels.get(o.cls, {}).get('fields', {}).get(t.attr)
            if isinstance(v, VTuple) and not v.items and fty == 'mclist':
                v = VMList(specs.cnil)            # `self._clauses = []`
            elif isinstance(v, VTuple) and not v.items and fty == 'molist':
                v = VMList(specs.onil)
            elif fty == 'opaque' and not isinstance(v, VOpaque):
                v = VOpaque(t.attr)
            elif fty == 'seqmap' and not isinstance(v, VSeqMap):
                v = VSeqMap(z3.K(specs.ISeq, z3.BoolVal(False)), z3.K(specs.ISeq, z3.IntVal(0)))      # `self.seq2vid = {}`
            o.fields[t.attr] = v
            return
        if isinstance(t, ast.Subscript):
            base = self.eval(t.value, env)
            idx = self.eval(t.slice, env)
            if isinstance(base, VTuple) and base.kind == 'list' and isinstance(idx, int):
                if not -len(base.items) <= idx < len(base.items):
                    raise PyExc('IndexError', t.lineno)
                base.items[idx] = v
                return
            if isinstance(base, VTuple) and base.kind == 'tuple':
                raise PyExc('TypeError', t.lineno)
            if isinstance(base, VSeq) and base.sortname == 'ISeq' and isinstance(t.value, ast.Name):
                i = self.norm_index(idx, specs.ilen(base.term), t)
                if not z3.simplify(toz(v) == -specs.iget(base.term, i)).eq(z3.BoolVal(True)):
                    raise Unsupported('store into an abstract literal list other than an in-place negation')
                env[t.value.id] = VSeq(specs.iflip1(base.term, i))     # the name now denotes the list with position i negated
                return
            if isinstance(base, VSeqMap):
                key = _term(idx)
                if not (is_z3(key) and key.sort() == specs.ISeq):
                    raise Unsupported('dictionary key that is not a tuple of ints')
                base.present = z3.Store(base.present, key, z3.BoolVal(True))
                base.val = z3.Store(base.val, key, toz(v))
                return
            if isinstance(base, (VOpaque, VTextTable)):
                return                       # store into an unmodelled container (e.g. the header dict)
            if isinstance(base, VArr):
                i = self.norm_index(idx, base.length, t)
                if isinstance(v, VSeq) and v.term.sort() == specs.CSeq:
                    if base.arr.sort().range() != specs.CSeq:
                        if not (z3.is_const(base.arr) and base.arr.decl().kind() == z3.Z3_OP_UNINTERPRETED and getattr(base, 'blank', False)):
                            raise Unsupported('clause list stored into an int table')
                        base.arr = self.fresh('ctable', specs.CTab)      # a [None]*n table typed by its first store
                    base.arr = z3.Store(base.arr, i, v.term)
                    return
                base.arr = z3.Store(base.arr, i, toz(v))
                return
            if isinstance(base, VArr2) and base.present is not None and isinstance(v, VTuple) and not v.items:
                base.present = z3.Store(base.present, toz(idx), z3.BoolVal(True))
                base.rowlen = z3.Store(base.rowlen, toz(idx), z3.IntVal(0))
                return
            if isinstance(base, VTerms):
                i = self.norm_index(idx, specs.tlen(base.term), t)
                c, l = self.unpack(v, 2, t)
                base.term = specs.tset(base.term, i, toz(c), toz(l))
                return
            raise Unsupported('subscript store (line {})'.format(t.lineno))
        raise Unsupported('assignment target')

    def unpack(self, v, n, node):
        if isinstance(v, VStrs):
            if self.branch(specs.sslen(v.term) != n):
                raise PyExc('ValueError', node.lineno)
            return [VStr(specs.ssget(v.term, z3.IntVal(i))) for i in range(n)]
        if isinstance(v, VTuple):
            if len(v.items) != n:
                raise PyExc('ValueError', node.lineno)
            return v.items
        raise Unsupported('unpacking of {!r}'.format(v))

    def norm_index(self, idx, length, node):
        """python index semantics with IndexError hazard"""
        i = toz(idx)
        ok = z3.And(i >= -toz(length), i < toz(length))
        self.oblige('hazard', 'index in bounds: {}'.format(ast.unparse(node)), ok, node.lineno)
        if z3.is_int_value(i):
            return i if i.as_long() >= 0 else z3.simplify(toz(length) + i)
        if not self.feasible(i < 0):          # the path condition entails i >= 0: no wrap-around
            return i
        if not self.feasible(i >= 0):
            return toz(length) + i
        return z3.If(i >= 0, i, toz(length) + i)

    # ------------------------------------------------------------------ loops
    def assigned_names(self, stmts):
        names, attrs, mutated = set(), set(), set()
        for n in ast.walk(ast.Module(body=list(stmts), type_ignores=[])):
            if isinstance(n, (ast.Assign, ast.AugAssign, ast.For)):
                targets = n.targets if isinstance(n, ast.Assign) else [n.target]
                for t in targets:
                    for x in ast.walk(t):
                        if isinstance(x, ast.Name) and isinstance(x.ctx, ast.Store):
                            names.add(x.id)
                        if isinstance(x, ast.Attribute) and isinstance(x.ctx, ast.Store):
                            attrs.add(ast.unparse(x))
                        if isinstance(x, ast.Subscript) and isinstance(x.ctx, ast.Store):
                            b = x.value
                            while isinstance(b, ast.Subscript):        # t[i][j] = v mutates (an element of) t
                                b = b.value
                            if isinstance(b, ast.Name):
                                mutated.add(b.id)
                            if isinstance(b, ast.Name):
                                names.add(b.id)
                            elif isinstance(b, ast.Attribute):
                                attrs.add(ast.unparse(b))
            if isinstance(n, (ast.Yield, ast.YieldFrom)):
                names.add('_y*')
            if isinstance(n, ast.Call) and isinstance(n.func, ast.Name) and n.func.id == 'print':
                for kw in n.keywords:          # print(..., file=f) writes to f
                    if kw.arg == 'file' and isinstance(kw.value, ast.Name):
                        names.add(kw.value.id)
                        mutated.add(kw.value.id)
            if isinstance(n, ast.Call) and isinstance(n.func, ast.Attribute) and \
                    n.func.attr in ('append', 'pop', 'insert', 'remove', 'sort', 'extend', 'add', 'update', 'reverse', 'write'):
                b = n.func.value
                while isinstance(b, ast.Subscript):        # t[i].append(v) mutates (a row of) t
                    b = b.value
                if isinstance(b, ast.Name):
                    names.add(b.id)
                    mutated.add(b.id)
                elif isinstance(b, ast.Attribute):
                    attrs.add(ast.unparse(b))
        self.last_mutated = mutated          # names mutated in place (not merely re-bound): aliases of a row havoc the table
        # ghost code anchored at a statement of this block assigns its ghost names too
        gc = self.frames[-1]['contract'].get('ghost_code') if self.frames else None
        if gc:
            srcs = {ast.unparse(n) for n in ast.walk(ast.Module(body=list(stmts), type_ignores=[])) if isinstance(n, ast.stmt)}
            for anchor, code in gc:
                if anchor in srcs:
                    for st in ast.parse(code).body:
                        for t in getattr(st, 'targets', []):
                            if isinstance(t, ast.Name):
                                names.add(t.id)
                            elif isinstance(t, ast.Attribute):
                                attrs.add(ast.unparse(t))
        return names, attrs

    def havoc_value(self, name, v):
        if is_z3(v):
            return self.fresh(name, v.sort())
        if isinstance(v, bool):
            return self.fresh(name, z3.BoolSort())
        if isinstance(v, int):
            return self.fresh(name)
        if isinstance(v, VSeq):
            return VSeq(self.fresh(name, v.term.sort()))
        if isinstance(v, VMList):
            v.term = self.fresh(name, v.term.sort())
            return v
        if isinstance(v, VArr):
            v.length = self.fresh(name + '_len')
            self.pc.append(v.length >= (1 if isinstance(v, VArrN0) else 0))
            v.arr = self.fresh(name + '_arr', v.arr.sort())
            return v
        if isinstance(v, VTerms):
            v.term = self.fresh(name, specs.TSeq)
            return v
        if isinstance(v, VCon):
            return VCon(self.fresh(name + '_terms', specs.TSeq), self.fresh(name + '_op', z3.StringSort()), self.fresh(name + '_value'))
        if isinstance(v, VArr2):
            v.length = self.fresh(name + '_len')
            self.pc.append(v.length >= 0)
            v.rowlen = self.fresh(name + '_rowlen', v.rowlen.sort())
            v.rows = self.fresh(name + '_rows', v.rows.sort())
            if v.rowlen.sort().domain() == z3.IntSort() and v.rowlen.sort().range() == z3.IntSort():
                kq = z3.Int('k!rowlen')
                self.pc.append(z3.ForAll([kq], z3.Select(v.rowlen, kq) >= 0))          # every row is a python list: len >= 0
            if v.present is not None:
                v.present = self.fresh(name + '_keys', v.present.sort())
            return v
        if isinstance(v, (VSet2, VFun2)):
            v.arr = self.fresh(name, v.arr.sort())
            return v
        if isinstance(v, VOpaque):
            return VOpaque(v.what)
        if isinstance(v, VObj) and v.cls in self.classmodels:
            return self.fresh_obj(name, v.cls)        # some object of the declared class (its class invariant holds)
        if isinstance(v, VSink):
            v.trace = self.fresh(name + '_trace', specs.CSeq)
            return v
        if isinstance(v, VTextTable):
            return v
        if isinstance(v, VSeqSet):
            v.arr = self.fresh(name, specs.SeqSet)
            return v
        if isinstance(v, VParities):
            v.aug = self.fresh(name + '_aug', specs.CSeq)
            return v
        if isinstance(v, VSeqMap):
            v.present, v.val = self.fresh(name + '_keys', v.present.sort()), self.fresh(name + '_vals', v.val.sort())
            return v
        if isinstance(v, VGroups):
            v.length = self.fresh(name + '_len')
            self.pc.append(v.length >= 0)
            v.lo, v.hi, v.single = self.fresh(name + '_lo', v.lo.sort()), self.fresh(name + '_hi', v.hi.sort()), self.fresh(name + '_single', v.single.sort())
            return v
        if isinstance(v, VRow):
            return VRow(v.parent, self.fresh(name + '_rowidx'))       # some row of the same table (or none): reads are arbitrary
        if isinstance(v, VCounted):
            n = self.fresh(name + '_count')
            self.pc.append(n >= 0)
            return VCounted(n)
        if v is None or isinstance(v, VOpt):
            return VOpt(self.fresh(name + '_isnone', z3.BoolSort()), self.fresh(name))
        if isinstance(v, VStr):
            return VStr(self.fresh(name, specs.Str))
        if isinstance(v, VStrs):
            return VStrs(self.fresh(name, specs.SSeq))
        if v is UNBOUND:
            return self.fresh(name)
        if isinstance(v, str):
            return self.fresh(name, z3.StringSort())
        if isinstance(v, VTuple) and v.kind == 'list' and len(v.items) >= 1 and v.items[0] is None \
                and all(isinstance(x, int) or (is_z3(x) and z3.is_int(x)) for x in v.items[1:]):
            L = self.fresh(name + '_len')
            self.pc.append(L >= 1)
            return VArrN0(L, self.fresh(name + '_arr', z3.ArraySort(z3.IntSort(), z3.IntSort())))
        if isinstance(v, VTuple) and v.kind == 'list' and all(isinstance(x, int) or (is_z3(x) and z3.is_int(x)) for x in v.items):
            # a list of ints that the loop may grow: from here on (length, array)
            L = self.fresh(name + '_len')
            self.pc.append(L >= 0)
            return VArr(L, self.fresh(name + '_arr', z3.ArraySort(z3.IntSort(), z3.IntSort())))
        if isinstance(v, VTuple):
            return VTuple([self.havoc_value('{}_{}'.format(name, i), x) for i, x in enumerate(v.items)], v.kind)
        raise Unsupported('havoc of {!r} ({})'.format(v, name))

    def loop_spec(self, node):
        """loops are keyed by their ordinal in SOURCE order within the function (nested defs excluded)"""
        syn = getattr(self, 'synthetic_specs', {}).get(id(node))
        if syn is not None:
            return syn            # a level of a desugared product / combinations loop: (ordinal of the source loop, its level spec)
        fr = self.frames[-1]
        if 'loop_ids' not in fr:
            loops = [n for n in ast.walk(fr['node']) if isinstance(n, (ast.For, ast.While))]
            loops.sort(key=lambda n: (n.lineno, n.col_offset))
            fr['loop_ids'] = {id(n): i for i, n in enumerate(loops)}
            fr['loop_hdr'] = {i: loop_header(n) for i, n in enumerate(loops)}
        k = fr['loop_ids'].get(id(node))
        if k is None:
            raise Unsupported('loop not found in its function')
        specs_ = fr['contract'].get('loops', {})
        if not specs_ or not fr.get('rel'):
            return k, specs_.get(k)
        # the invariants were written for the loop with a recorded header (contracts/loop_headers.json); if the loops
        # of the function were added / removed / reordered, re-align by header, and give up (degrade) when that is not
        # possible - misaligned invariants must never be mistaken for a property violation
        rec = LOOP_HEADERS.get(fr.get('src') or '{}:{}'.format(fr['rel'], fr['qual']))
        if rec is None:
            return k, specs_.get(k)
        hdr = fr['loop_hdr'][k]
        if rec.get(str(k)) == hdr:
            return k, specs_.get(k)
        cands = [int(j) for j, h in rec.items() if h == hdr]
        if len(cands) == 1:
            return k, specs_.get(cands[0])
        # same number of loops, same kinds and loop variables in the same order: only an iterable / a condition was
        # edited (e.g. a range bound) - the invariant of the same ordinal still speaks about this loop
        def shape(h):
            return h.split(' in ', 1)[0] if h.startswith('for ') else 'while'
        cur = fr['loop_hdr']
        if len(cur) == len(rec) and all(shape(cur[i]) == shape(rec.get(str(i), '?')) for i in cur):
            return k, specs_.get(k)
        raise Unsupported('the loop structure of the function changed (loop `{}` has no recorded counterpart)'.format(hdr[:60]))

    def havoc_loop(self, body, env, spec, extra_names=()):
        names, attrs = self.assigned_names(body)
        names |= set(extra_names)
        if '_y*' in names:
            names.discard('_y*')
            names |= {k for k in env if k.startswith('_y') and (k[2:].isdigit() or k in ('_ys', '_ytotal'))}
        havoced = set(names)
        self.frame_declared = set()      # (id(object), field) pairs the loop may change: everything else is checked to stay as it is
        self.frame_havoced = {id(env[n]) for n in names if n in env}      # values havoced IN PLACE below (also seen through their aliases)
        for x in spec.get('modifies_objects', []):       # objects mutated through callee contracts
            o = self.spec_eval(x, env)
            self.havoc_object(o, spec.get('modifies_fields', {}).get(x))
            for f in (spec.get('modifies_fields', {}).get(x) or o.fields):
                havoced.add('{}.{}'.format(x, f))
                self.frame_declared.add((id(o), f))
        for nme in sorted(names & getattr(self, 'last_mutated', set())):
            if isinstance(env.get(nme), VRow):
                # a name bound to a row of a table before the loop and mutated inside it: the table changes
                self.havoc_value(nme + '_table', env[nme].parent)
        for nme in sorted(names & getattr(self, 'last_mutated', set())):
            v = env.get(nme)
            if isinstance(v, VTuple) and v.kind == 'list':
                # a concrete list object is REPLACED by the havoc: any other reference to the same object would keep the old value

                inner = []

                def collect(x):
                    if isinstance(x, VTuple) and x.kind == 'list' and not any(x is y for y in inner):
                        inner.append(x)
                        for y in x.items:
                            collect(y)
                collect(v)

                def reaches(x, seen):
                    if any(x is y for y in inner):
                        return True
                    if id(x) in seen:
                        return False
                    seen.add(id(x))
                    if isinstance(x, VTuple):
                        return any(reaches(y, seen) for y in x.items)
                    if isinstance(x, VObj):
                        return any(reaches(y, seen) for y in x.fields.values())
                    if isinstance(x, VOpt):
                        return reaches(x.val, seen)
                    return False
                others = [k for k, x in env.items() if k != nme and reaches(x, set())]
                if others:
                    raise Unsupported('list {} is mutated in a loop while {} refers to the same object'.format(nme, others[0]))
        for nme in sorted(names):
            lty = self.frames[-1]['contract'].get('locals', {}).get(nme, '') if self.frames else ''
            if nme in env and isinstance(lty, str) and lty.startswith('optobj:') and (env[nme] is None or isinstance(env[nme], (VOpt, VObj))):
                # `G = None` before the loop, an object assigned inside it: None or some object of the declared class
                env[nme] = VOpt(self.fresh(nme + '_isnone', z3.BoolSort()), self.fresh_obj(nme, lty[7:]))
            elif nme in env:
                env[nme] = self.havoc_value(nme, env[nme])
            else:
                pass        # first assigned inside the loop: unbound before; stays unbound until assigned
        for a in sorted(attrs):
            node = ast.parse(a, mode='eval').body
            o = self.eval(node.value, env)
            if isinstance(o, VObj) and node.attr in o.fields:
                o.fields[node.attr] = self.havoc_value(a, o.fields[node.attr])
                havoced.add(a)
                self.frame_declared.add((id(o), node.attr))
        return havoced

    # ---- frame of a loop: what the havoc at the loop head did not touch must come out of the body unchanged --------------------
    def frame_snapshot(self, env, hv):
        """(declared fields, {name: (current value, snapshot of it)}) for every name the loop head did not havoc"""
        return (set(self.frame_declared), {k: (v, self.snapshot(v)) for k, v in env.items() if k not in hv and not k.startswith('__')},
                set(self.frame_havoced))

    def frame_check(self, snap, env, k, line):
        """after one execution of the body: every value that existed at the loop head and was not havoced there (names assigned or
        mutated in the body, declared modifies_objects / attribute stores) is still what it was.  A body that changes such a value -
        through a callee contract's `modifies`, an inlined helper, an alias - while the loop contract does not say so would let the
        code AFTER the loop see the pre-loop value: unsound.  Reported as an auxiliary failure of the function."""
        declared, vals, inplace = snap
        bad = self._frame_diff(vals, declared, inplace, env)
        if bad:
            self.oblige('frame', 'loop #{}: the body changes `{}` but the loop contract does not declare it (modifies_objects / an assigned name): '
                        'the state after the loop would keep the old value'.format(k, bad), False, line, decisive=False)

    def _frame_diff(self, vals, declared, inplace, env, skip_sinks=False):
        """path of the first value among `vals` = {name: (object, snapshot)} that is no longer the identical term, else None"""
        seen = set()

        def same(cur, old, path):
            if cur is old or id(cur) in inplace or (skip_sinks and isinstance(cur, VSink)):
                return None
            key = (id(cur), id(old))
            if key in seen:
                return None
            seen.add(key)
            if is_z3(cur) or is_z3(old):
                return None if (is_z3(cur) and is_z3(old) and cur.eq(old)) else path
            if isinstance(cur, VObj) and isinstance(old, VObj):
                for f, x in cur.fields.items():
                    if (id(cur), f) in declared or f not in old.fields:
                        continue
                    r = same(x, old.fields[f], path + '.' + f)
                    if r:
                        return r
                return None
            if type(cur) is not type(old):
                return path
            if isinstance(cur, (list, tuple)):
                if len(cur) != len(old):
                    return path
                for j, (x, y) in enumerate(zip(cur, old)):
                    r = same(x, y, '{}[{}]'.format(path, j))
                    if r:
                        return r
                return None
            if hasattr(cur, '__dict__') and type(cur).__module__ == __name__:
                for f, x in vars(cur).items():
                    if f in ('env', 'lam', 'parent') or f not in vars(old):
                        continue            # bookkeeping flags the snapshot does not copy
                    r = same(x, vars(old).get(f), path)
                    if r:
                        return r
                return None
            try:
                return None if cur == old else path
            except Exception:       # noqa
                return None
        for name, (obj, old) in vals.items():
            if name not in env or env[name] is not obj:
                continue            # re-bound in the body: a name the syntactic scan havocs (or a fresh binding): not a mutation of the old value
            bad = same(obj, old, name)
            if bad:
                return bad
        return None

    def havoc_object(self, o, fields=None):
        for f in list(o.fields):
            if fields is None or f in fields:
                o.fields[f] = self.havoc_value('{}.{}'.format(o.cls, f), o.fields[f])

    def ghosts_at_entry(self, spec, env):
        for g, text in list(spec.get('ghost_at_entry', {}).items()) + list(spec.get('ghost_at_entry_vals', {}).items()):
            try:
                env[g] = self.snapshot(self.spec_eval(text, env))
            except SpecError:
                continue
            if isinstance(env[g], VMList):
                env[g] = VSeq(env[g].term)

    def check_inv(self, spec, env, kind, line):
        for t in spec.get('inv', []):
            try:
                g = self.spec_eval(t, env)
            except SpecError as se:
                self.oblige(kind, '{}   [not expressible here: {}]'.format(t, se), False, line, decisive=False)
                continue
            self.oblige(kind, t, g, line, decisive=False)

    def assume_inv(self, t, env, targets):
        """assume one invariant clause after the havoc (definitional form when possible); an inexpressible clause is skipped
        (its check already failed as an auxiliary obligation)"""
        try:
            if self.definitional(t, env, targets):
                return
            self.assume(toz(self.spec_eval(t, env)))
        except SpecError:
            return

    WHILE_KEYS = {'inv', 'decreases', 'ghost_at_entry', 'ghost_at_entry_vals', 'iter_ensures', 'exit_ensures', 'modifies_objects', 'modifies_fields',
                  'hints', 'exit_hints', 'header'}

    def exec_while(self, s, env):
        k, spec = self.loop_spec(s)
        if spec is None:
            raise Unsupported('while loop #{} without invariant (line {})'.format(k, s.lineno))
        unknown = set(spec) - self.WHILE_KEYS
        if unknown:
            raise SpecError('while loop #{}: contract keys {} are not interpreted for while loops'.format(k, sorted(unknown)))
        if spec.get('hints') or spec.get('exit_hints'):
            raise SpecError('while loop #{}: hints are not interpreted for while loops'.format(k))
        if s.orelse:
            raise Unsupported('while/else')
        self.ghosts_at_entry(spec, env)
        self.check_inv(spec, env, 'inv-init', s.lineno)
        hv = self.havoc_loop(s.body, env, spec)
        for t in spec.get('inv', []):
            self.assume_inv(t, env, hv)
        guard = as_bool(self.eval(s.test, env))
        if self.choose(2) == 0:
            self.assume(toz(guard))
            dec0 = self.spec_eval(spec['decreases'], env) if 'decreases' in spec else None
            self.frames[-1]['ycount'] = 0
            fsnap = self.frame_snapshot(env, hv)
            try:
                self.exec_block(s.body, env)
            except BreakSig:
                return
            except ContinueSig:
                pass
            self.frame_check(fsnap, env, k, s.lineno)
            if spec.get('iter_ensures'):
                e_it = dict(env)
                e_it['_yielded_now'] = z3.IntVal(self.frames[-1].get('ycount', 0))
                for t in spec['iter_ensures']:
                    self.oblige('yield', 'in every iteration: ' + t, self.spec_eval(t, e_it), s.lineno)
            self.check_inv(spec, env, 'inv-pres', s.lineno)
            if dec0 is not None:
                d1 = self.spec_eval(spec['decreases'], env)
                self.oblige('decreases', spec['decreases'], z3.And(toz(dec0) >= 0, toz(d1) < toz(dec0)), s.lineno, decisive=False)
            raise PathEnd()
        self.assume(toz(znot(guard)))
        for t in spec.get('exit_ensures', []):       # decisive statements about the finished loop
            try:
                self.oblige('post', 'at loop exit: ' + t, self.spec_eval(t, env), s.lineno)
            except SpecError as se:
                self.oblige('hint', '{} [not expressible: {}]'.format(t, se), False, s.lineno, decisive=False)

    def desugar_nest(self, s, env):
        """`for T in product(A, B)` / `for (a, b) in combinations(R, 2)` / `for (w, (a, b)) in product(R, combinations(D, 2))` over
        integer ranges: the same iterations, in the same order, as the nested loops  for .. in A: for .. in B  resp.
        for a in R: for b in range(a+1, hi).  Returns a synthesized ast.For (its levels carry the specs loops[k]['nest'][level])
        or None when the loop is not of that shape."""
        k, spec = self.loop_spec(s)
        if spec is None or 'nest' not in spec:
            return None
        if not isinstance(s.iter, ast.Call) or s.iter.keywords or not (isinstance(s.iter.func, ast.Name) or
                                                                       (isinstance(s.iter.func, ast.Attribute) and isinstance(s.iter.func.value, ast.Name)
                                                                        and s.iter.func.value.id == 'itertools')):
            # not a literal product(...) / combinations(...): the VALUE may still be "all pairs of a range" (e.g. the index
            # enumeration of a combinations group)
            v = self.eval_iter(s.iter, env)
            if not isinstance(v, VProduct):
                v = as_nest_factor(v)
            if v is None:
                return None
            levels = []                 # (target name, iter ast) outermost first
            guards = {}                 # level index -> guard expression wrapped around everything inside that level
            prefixes = {}               # level index -> statements executed first inside that level (inside its guard)

            def add_value(f, target):
                self.nest_n = getattr(self, 'nest_n', 0) + 1
                lo, hi = '__nest_lo{}'.format(self.nest_n), '__nest_hi{}'.format(self.nest_n)
                env[lo], env[hi] = f.lo, f.hi
                if isinstance(f, VCombs2):
                    if not (isinstance(target, ast.Tuple) and len(target.elts) == 2 and all(isinstance(x, ast.Name) for x in target.elts)):
                        raise Unsupported('a pair enumeration needs a target (a, b)')
                    a, b = target.elts
                    an, bn = a.id, b.id
                    if getattr(f, 'shift', 0):
                        # shifted pairs: the levels run over the unshifted pair (synthetic names); the targets are bound first thing inside
                        an, bn = '__nest_u{}'.format(self.nest_n), '__nest_v{}'.format(self.nest_n)
                        prefixes[len(levels) + 1] = ast.parse('{} = {} + ({})\n{} = {} + ({})'.format(a.id, an, f.shift, b.id, bn, f.shift)).body
                    levels.append((an, ast.parse('range({}, {})'.format(lo, hi), mode='eval').body))
                    levels.append((bn, ast.parse('range({} + 1, {})'.format(an, hi), mode='eval').body))
                    if f.pred is not None:
                        # a filtered enumeration: the pairs the predicate rejects are skipped
                        pn = '__nest_pred{}'.format(self.nest_n)
                        env[pn] = f.pred
                        guards[len(levels) - 1] = ast.parse('{}({}, {})'.format(pn, an, bn), mode='eval').body
                else:
                    if not isinstance(target, ast.Name):
                        raise Unsupported('range level needs a plain name target')
                    levels.append((target.id, ast.parse('range({}, {})'.format(lo, hi), mode='eval').body))

            if isinstance(v, VProduct):
                if not (isinstance(s.target, ast.Tuple) and len(s.target.elts) == len(v.factors)):
                    raise Unsupported('product(...) needs one target per factor')
                for f, tgt in zip(v.factors, s.target.elts):
                    add_value(f, tgt)
            else:
                add_value(v, s.target)
            if len(spec['nest']) != len(levels):
                raise Unsupported('loop #{}: {} nest levels declared, {} needed'.format(k, len(spec['nest']), len(levels)))
            if s.orelse:
                raise Unsupported('for/else over a product')
            self.synthetic_specs = getattr(self, 'synthetic_specs', {})
            body = list(s.body)
            node = None
            for lvl in range(len(levels) - 1, -1, -1):
                tgt, it = levels[lvl]
                if lvl in prefixes:
                    body = [ast.copy_location(st, s) for st in prefixes[lvl]] + body
                if lvl in guards:
                    body = [ast.If(test=guards[lvl], body=body, orelse=[], lineno=s.lineno, col_offset=s.col_offset,
                                   end_lineno=s.end_lineno, end_col_offset=s.end_col_offset)]
                node = ast.For(target=ast.Name(id=tgt, ctx=ast.Store()), iter=it, body=body, orelse=[], lineno=s.lineno, col_offset=s.col_offset,
                               end_lineno=s.end_lineno, end_col_offset=s.end_col_offset)
                ast.fix_missing_locations(node)
                self.synthetic_specs[id(node)] = (k, spec['nest'][lvl])
                self.keep_alive = getattr(self, 'keep_alive', []) + [node]
                body = [node]
            return node
        fn = self.eval(s.iter.func, env)
        imp = self.modinfo['imports']

        def is_lib(f, name):
            return isinstance(f, tuple) and f[0] == 'global' and (imp.get(f[1]) == ('itertools', name) or
                                                                  (f[1] == 'itertools.' + name and imp.get('itertools') == ('itertools', None)))
        self.nest_n = getattr(self, 'nest_n', 0)
        levels = []                 # (target ast, iter ast) outermost first

        def bind_range(expr):
            v = self.eval_iter(expr, env)
            if isinstance(v, VTuple) and all(isinstance(x, int) for x in v.items) and v.items == list(range(v.items[0], v.items[0] + len(v.items))) if isinstance(v, VTuple) and v.items else False:
                v = VRange(v.items[0], v.items[0] + len(v.items), 1)
            if not (isinstance(v, VRange) and v.step == 1):
                raise Unsupported('product / combinations over something else than integer ranges (line {})'.format(s.lineno))
            self.nest_n += 1
            lo, hi = '__nest_lo{}'.format(self.nest_n), '__nest_hi{}'.format(self.nest_n)
            env[lo], env[hi] = v.lo, v.hi
            return lo, hi

        def rng(lo_src, hi_src):
            return ast.parse('range({}, {})'.format(lo_src, hi_src), mode='eval').body

        def add(expr, target):
            if isinstance(expr, ast.Call) and not expr.keywords and is_lib(self.eval(expr.func, env), 'combinations') \
                    and len(expr.args) == 2 and isinstance(expr.args[1], ast.Constant) and expr.args[1].value == 2:
                if not (isinstance(target, ast.Tuple) and len(target.elts) == 2 and all(isinstance(x, ast.Name) for x in target.elts)):
                    raise Unsupported('combinations(.., 2) needs a target (a, b)')
                lo, hi = bind_range(expr.args[0])
                levels.append((target.elts[0], rng(lo, hi)))
                levels.append((target.elts[1], rng(target.elts[0].id + ' + 1', hi)))
            else:
                if not isinstance(target, ast.Name):
                    raise Unsupported('range level needs a plain name target')
                lo, hi = bind_range(expr)
                levels.append((target, rng(lo, hi)))

        lit_guard = None
        if is_lib(fn, 'permutations') and len(s.iter.args) == 2 and isinstance(s.iter.args[1], ast.Constant) and s.iter.args[1].value in (2, 3):
            # permutations(R, r) of an integer range, in itertools order = r nested loops over R keeping the tuples without repetition
            r = s.iter.args[1].value
            if not (isinstance(s.target, ast.Tuple) and len(s.target.elts) == r and all(isinstance(x, ast.Name) for x in s.target.elts)):
                raise Unsupported('permutations(.., r) needs a target of r names')
            lo, hi = bind_range(s.iter.args[0])
            names = [x.id for x in s.target.elts]
            for x in s.target.elts:
                levels.append((x, rng(lo, hi)))
            lit_guard = ast.parse(' and '.join('{} != {}'.format(names[i], names[j]) for i in range(r) for j in range(i + 1, r)), mode='eval').body
        elif is_lib(fn, 'combinations') and len(s.iter.args) == 2 and isinstance(s.iter.args[1], ast.Constant) and s.iter.args[1].value == 3:
            # combinations(R, 3): a < b < c
            if not (isinstance(s.target, ast.Tuple) and len(s.target.elts) == 3 and all(isinstance(x, ast.Name) for x in s.target.elts)):
                raise Unsupported('combinations(.., 3) needs a target (a, b, c)')
            lo, hi = bind_range(s.iter.args[0])
            a_, b_, c_ = s.target.elts
            levels.append((a_, rng(lo, hi)))
            levels.append((b_, rng(a_.id + ' + 1', hi)))
            levels.append((c_, rng(b_.id + ' + 1', hi)))
        elif is_lib(fn, 'product'):
            if not (isinstance(s.target, ast.Tuple) and len(s.target.elts) == len(s.iter.args)):
                raise Unsupported('product(...) needs one target per factor')
            for expr, tgt in zip(s.iter.args, s.target.elts):
                add(expr, tgt)
        elif is_lib(fn, 'combinations'):
            add(s.iter, s.target)
        else:
            return None
        if len(spec['nest']) != len(levels):
            raise Unsupported('loop #{}: {} nest levels declared, {} needed'.format(k, len(spec['nest']), len(levels)))
        self.synthetic_specs = getattr(self, 'synthetic_specs', {})
        body = list(s.body)
        if lit_guard is not None:
            body = [ast.If(test=lit_guard, body=body, orelse=[], lineno=s.lineno, col_offset=s.col_offset,
                           end_lineno=s.end_lineno, end_col_offset=s.end_col_offset)]
        node = None
        for lvl in range(len(levels) - 1, -1, -1):
            tgt, it = levels[lvl]
            node = ast.For(target=ast.Name(id=tgt.id, ctx=ast.Store()), iter=it, body=body, orelse=[], lineno=s.lineno, col_offset=s.col_offset,
                           end_lineno=s.end_lineno, end_col_offset=s.end_col_offset)
            ast.fix_missing_locations(node)
            self.synthetic_specs[id(node)] = (k, spec['nest'][lvl])
            self.keep_alive = getattr(self, 'keep_alive', []) + [node]
            body = [node]
        if s.orelse:
            raise Unsupported('for/else over a product')
        return node

    def exec_for(self, s, env):
        if id(s) not in getattr(self, 'synthetic_specs', {}):
            nested = self.desugar_nest(s, env)
            if nested is not None:
                return self.exec_for(nested, env)
        it = self.eval_iter(s.iter, env)
        if isinstance(it, VRange) and self.loop_spec(s)[1] is None and all(isinstance(x, int) for x in (it.lo, it.hi, it.step)) and it.step != 0 \
                and len(range(it.lo, it.hi, it.step)) <= 8:
            it = VTuple(list(range(it.lo, it.hi, it.step)), 'list')        # a short concrete range without a loop contract: unrolled
        if isinstance(it, VTuple):                       # concrete: unroll
            k, spec = self.loop_spec(s)
            broke = False
            for x in it.items:
                self.assign(s.target, x, env)
                try:
                    self.exec_block(s.body, env)
                except BreakSig:
                    broke = True
                    break
                except ContinueSig:
                    continue
            if not broke:
                self.exec_block(s.orelse, env)
            return
        k, spec = self.loop_spec(s)
        if spec is None:
            raise Unsupported('for loop #{} over a symbolic iterable without invariant (line {})'.format(k, s.lineno))
        if spec.get('uninterpreted'):
            # a loop the contract declares out of scope (pure text processing): its body is NOT interpreted; every name it
            # assigns is havoced.  This is an explicit, reported assumption: the loop ends normally and touches only those names.
            self.uninterpreted_loops = getattr(self, 'uninterpreted_loops', set())
            self.uninterpreted_loops.add('{} loop #{} (line {}): {}'.format(self.cur_func, k, s.lineno, spec['uninterpreted']))
            allowed = set(spec.get('assigns', []))
            names, attrs = self.assigned_names(s.body)
            tn = {x.id for x in ast.walk(s.target) if isinstance(x, ast.Name)}
            if attrs or not (names - tn) <= allowed:
                raise Unsupported('uninterpreted loop assigns {} beyond the declared {}'.format(sorted((names - tn) | attrs), sorted(allowed)))
            self.havoc_loop(s.body, env, spec, extra_names=list(tn))
            return
        if isinstance(it, VRange) and not isinstance(it.step, int) and 'niter' in spec:
            # range(lo, hi, step) with a symbolic step: the contract names the number of iterations; that it is the right
            # one (ceil((hi-lo)/step) for a positive step) is an obligation, stated without division
            step = toz(it.step)
            lo, hi = toz(it.lo), toz(it.hi)
            niter = toz(self.spec_eval(spec['niter'], env))
            self.oblige('hint', 'range step is positive and the loop makes [{}] iterations'.format(spec['niter']),
                        z3.And(step > 0, niter >= 0, lo + niter * step >= hi, z3.Or(niter == 0, lo + (niter - 1) * step < hi)),
                        s.lineno, decisive=False)
            elem = lambda i: z3.simplify(lo + i * step)
        elif isinstance(it, VRange):
            step = it.step
            if not isinstance(step, int) or step == 0:
                raise Unsupported('symbolic range step')
            lo, hi = toz(it.lo), toz(it.hi)
            if step > 0:
                niter = z3.If(hi > lo, (hi - lo + step - 1) / step, 0)
            else:
                niter = z3.If(lo > hi, (lo - hi + (-step) - 1) / (-step), 0)
            elem = lambda i: z3.simplify(lo + i * step)
        elif isinstance(it, VSeq):
            if it.sortname == 'ISeq':
                niter = specs.ilen(it.term)
                elem = lambda i: specs.iget(it.term, i)
            elif it.sortname == 'OSeq':
                niter = specs.olen(it.term)
                ot = it.term
                elem = lambda i: VCon(specs.Con.terms(specs.oget(ot, i)), specs.Con.op(specs.oget(ot, i)), specs.Con.value(specs.oget(ot, i)))
            else:
                niter = specs.clen(it.term)
                elem = lambda i: VSeq(specs.cget(it.term, i))
        elif isinstance(it, VArr):
            niter = it.length
            arr0 = it.arr
            elem = lambda i: z3.Select(arr0, i)
        elif isinstance(it, VZipCI):
            niter = zmin(specs.clen(it.cterm), specs.ilen(it.iterm))
            zc, zi = it.cterm, it.iterm
            elem = lambda i: VTuple([VSeq(specs.cget(zc, i)), specs.iget(zi, i)], 'tuple')
        elif isinstance(it, VArr2) and it.present is None:
            # a list of lists iterated row by row: each row as it is when the loop reaches it (rows may be mutated by the body only
            # through the loop contract's invariants)
            niter = it.length
            a2 = it
            elem = lambda i: VRow(a2, i)
        elif isinstance(it, VGroups):
            niter = it.length
            glo, ghi, gsi = it.lo, it.hi, it.single

            def elem(i, glo=glo, ghi=ghi, gsi=gsi):
                o = VObj('GroupView')
                lo_, hi_ = z3.Select(glo, i), z3.Select(ghi, i)
                o.fields.update({'ids_lo': lo_, 'ids_hi': hi_, 'ids': VRange(lo_, hi_, 1), 'single': z3.Select(gsi, i),
                                 'name': VOpaque('label of a single variable'), 'gpos': i})
                return o
        elif isinstance(it, VRow):
            # a row of a list of lists (e.g. an adjacency list): iterated as it is at loop entry
            niter = it.length
            row0 = it.arr
            elem = lambda i: z3.Select(row0, i)
        elif isinstance(it, VStrs):
            niter = specs.sslen(it.term)
            st0 = it.term
            elem = lambda i: VStr(specs.ssget(st0, i))
        elif isinstance(it, VPairs):
            niter = it.length
            pf, ps = it.first, it.second
            elem = lambda i: VTuple([sel(pf, i), sel(ps, i)], 'tuple')
        elif isinstance(it, VTerms):
            niter = specs.tlen(it.term)
            t0 = it.term
            elem = lambda i: VTuple([specs.tcoef(t0, i), specs.tlit(t0, i)], 'tuple')
        elif isinstance(it, VParities):
            niter = specs.clen(it.aug)
            paug = it.aug
            elem = lambda i: VTuple([VSeq(specs.ifront(specs.cget(paug, i))), specs.ilast(specs.cget(paug, i))], 'tuple')
        elif isinstance(it, VTextTable):
            niter = self.fresh('table_len')
            self.pc.append(niter >= 0)
            elem = lambda i: VOpaque('key of the text table')
        elif isinstance(it, VOpaque):
            # a container the contract does not look into (e.g. the header dictionary): some number of unmodelled elements
            niter = self.fresh('opaque_len')
            self.pc.append(niter >= 0)
            elem = lambda i: VOpaque('element of ' + it.what)
        elif isinstance(it, VEnum):
            inner, start = it.inner, toz(it.start)
            if isinstance(inner, VStrs):
                niter = specs.sslen(inner.term)
                elem = lambda i: VTuple([start + i, VStr(specs.ssget(inner.term, i))], 'tuple')
            else:
                raise Unsupported('enumerate over {!r}'.format(inner))
        else:
            raise Unsupported('for over {!r} (line {})'.format(it, s.lineno))
        niter = z3.simplify(niter) if is_z3(niter) else niter
        itname = spec.get('counter', '_it')
        env['_iter'] = it          # the value being iterated (for ghost_at_entry)
        env[itname] = z3.IntVal(0)
        self.assign(s.target, elem(z3.IntVal(0)), env)    # value the first iteration would use
        self.ghosts_at_entry(spec, env)
        self.check_inv(spec, env, 'inv-init', s.lineno)
        tnames = [x.id for x in ast.walk(s.target) if isinstance(x, ast.Name)]
        hv = self.havoc_loop(s.body, env, spec, extra_names=[itname] + tnames)
        i = env[itname]
        self.assume(z3.And(i >= 0, i <= niter))
        self.assign(s.target, elem(i), env)
        for t in spec.get('inv', []):
            self.assume_inv(t, env, [h for h in hv if h not in tnames and h != itname])
        if self.choose(2) == 0:
            self.assume(i < niter)
            if not self.feasible(z3.BoolVal(True)):
                raise PathEnd()          # the loop cannot make an iteration on this path (e.g. an empty range): nothing to check
            self.frames[-1]['ycount'] = 0
            fsnap = self.frame_snapshot(env, hv)
            try:
                self.exec_block(s.body, env)
            except BreakSig:
                return                  # for/else: else skipped
            except ContinueSig:
                pass
            self.frame_check(fsnap, env, k, s.lineno)
            if spec.get('iter_ensures'):
                # decisive statements about ONE iteration (e.g. "it yields iff ..."): _yielded_now = number of values yielded by
                # this iteration on this path (yields inside an inner loop are not counted: use the innermost loop)
                e_it = dict(env)
                e_it['_yielded_now'] = z3.IntVal(self.frames[-1].get('ycount', 0))
                for t in spec['iter_ensures']:
                    self.oblige('yield', 'in every iteration: ' + t, self.spec_eval(t, e_it), s.lineno)
            for h in spec.get('hints', []):      # ghost lemma steps: proved (auxiliary), then available
                try:
                    self.oblige('hint', h, self.spec_eval(h, env), s.lineno, decisive=False)
                except SpecError as se:
                    self.oblige('hint', '{} [not expressible: {}]'.format(h, se), False, s.lineno, decisive=False)
            env[itname] = i + 1
            self.assign(s.target, elem(i + 1), env)
            self.check_inv(spec, env, 'inv-pres', s.lineno)
            raise PathEnd()
        self.assume(i == niter)
        # python leaves the target at the last element; model: keep symbolic elem(niter-1) when niter>0
        self.assign(s.target, elem(i - 1), env)
        for h in spec.get('exit_hints', []):       # ghost lemma steps at loop exit: proved (auxiliary), then available
            try:
                self.oblige('hint', h, self.spec_eval(h, env), s.lineno, decisive=False)
            except SpecError as se:
                self.oblige('hint', '{} [not expressible: {}]'.format(h, se), False, s.lineno, decisive=False)
        # decisive statements about the finished loop (e.g. how many iterations a generator loop made): property clauses
        # that are about the loop as a whole, taken from the property text, not from the code
        e_exit = dict(env)
        e_exit[itname] = niter
        for t in spec.get('exit_ensures', []):
            try:
                self.oblige('post', 'at loop exit: ' + t, self.spec_eval(t, e_exit), s.lineno)
            except SpecError as se:
                self.oblige('hint', '{} [not expressible: {}]'.format(t, se), False, s.lineno, decisive=False)
        self.exec_block(s.orelse, env)

    def eval_iter(self, e, env):
        v = self.eval(e, env)
        if isinstance(v, VObj):
            v = self.call_method(v, '__iter__', [], {}, e)      # iteration over an object: its __iter__ (contract or inlined)
        if isinstance(v, VMList):
            return VSeq(v.term)
        return v

    # ------------------------------------------------------------------ yield
    def yield_sites(self, fr):
        if 'yield_ids' not in fr:
            ys = [n for n in ast.walk(fr['node']) if isinstance(n, (ast.Yield, ast.YieldFrom))]
            ys.sort(key=lambda n: (n.lineno, n.col_offset))
            fr['yield_ids'] = {id(n): i for i, n in enumerate(ys)}
        return fr['yield_ids']

    def do_yield(self, y, env):
        """every yield is checked against the clauses of its site (`yields_at[k]`, k = ordinal of the yield in source
        order) or the common `yields`; the ghost counter _y<k> counts the values yielded at site k"""
        fr = self.frames[-1]
        c = fr['contract']
        if isinstance(y, ast.YieldFrom):
            v = self.eval(y.value, env)
            if c.get('yield_acc') and isinstance(v, VSeq) and v.term.sort() == specs.CSeq:
                env['_ys'] = VSeq(specs.capp(env['_ys'].term, v.term))
                return
            k = self.yield_sites(fr).get(id(y))
            specs_y = c.get('yields_at', {}).get(k, c.get('yields'))
            if isinstance(v, VPairs) and specs_y is not None:
                # `yield from <sequence of pairs>`: every pair of the sequence is yielded, in order; the clauses of the site are
                # checked for a generic position _yt (and `_ylen` values are yielded here)
                t = self.fresh('yield_pos')
                saved = len(self.pc)
                self.pc.append(z3.And(t >= 0, t < toz(v.length)))
                e2 = dict(env)
                e2['yielded'] = VTuple([sel(v.first, t), sel(v.second, t)], 'tuple')
                e2['_yt'], e2['_ylen'] = t, toz(v.length)
                try:
                    for tx in specs_y:
                        self.oblige('yield', tx, self.spec_eval(tx, e2), y.lineno)
                finally:
                    del self.pc[saved:]
                env['_ytotal'] = toz(env.get('_ytotal', 0)) + zmax(toz(v.length), z3.IntVal(0))
                return
            if isinstance(v, (VRow, VArr)) and specs_y is not None and v.arr.sort().range() == z3.IntSort():
                # `yield from <list of ints>`: every entry is yielded, in order; clauses checked for a generic position _yt
                t = self.fresh('yield_pos')
                saved = len(self.pc)
                self.pc.append(z3.And(t >= 0, t < toz(v.length)))
                e2 = dict(env)
                e2['yielded'] = z3.Select(v.arr, t)
                e2['_yt'], e2['_ylen'] = t, toz(v.length)
                try:
                    for tx in specs_y:
                        self.oblige('yield', tx, self.spec_eval(tx, e2), y.lineno)
                finally:
                    del self.pc[saved:]
                env['_ytotal'] = toz(env.get('_ytotal', 0)) + zmax(toz(v.length), z3.IntVal(0))
                return
            if isinstance(v, VStrs) and specs_y is not None:
                # `yield from <sequence of opaque texts>`: that many values; the clauses of the site speak about the count `_ylen`
                e2 = dict(env)
                e2['_ylen'] = specs.sslen(v.term)
                for tx in specs_y:
                    self.oblige('yield', tx, self.spec_eval(tx, e2), y.lineno)
                env['_ytotal'] = toz(env.get('_ytotal', 0)) + specs.sslen(v.term)
                return
            raise Unsupported('yield from')
        v = self.eval(y.value, env)
        if c.get('yield_acc') == 'parities':
            # a generator of (variables, bit) pairs: accumulated as the augmented lists X + [b]
            if not (isinstance(v, VTuple) and len(v.items) == 2 and isinstance(v.items[0], VSeq) and v.items[0].sortname == 'ISeq'):
                raise Unsupported('yield of a non-parity into the parity accumulator')
            env['_ys'] = VSeq(specs.csnoc(env['_ys'].term, specs.isnoc(v.items[0].term, toz(v.items[1]))))
            return
        if c.get('yield_acc'):
            if not (isinstance(v, VSeq) and v.term.sort() == specs.ISeq):
                raise Unsupported('yield of a non-clause into the clause accumulator')
            env['_ys'] = VSeq(specs.csnoc(env['_ys'].term, v.term))
            if c.get('yields') is None and not c.get('yields_at'):
                return
        k = self.yield_sites(fr).get(id(y))
        specs_y = c.get('yields_at', {}).get(k, c.get('yields'))
        if specs_y is None:
            raise Unsupported('yield without a yields contract')
        e2 = dict(env)
        e2['yielded'] = v
        for t in specs_y:
            self.oblige('yield', t, self.spec_eval(t, e2), y.lineno)
        name = '_y{}'.format(k)
        env[name] = toz(env.get(name, 0)) + 1
        env['_ytotal'] = toz(env.get('_ytotal', 0)) + 1
        fr['ycount'] = fr.get('ycount', 0) + 1

    # ------------------------------------------------------------------ expressions
    def spec_eval(self, text, env):
        node = ast.parse(text, mode='eval').body
        saved = getattr(self, 'in_spec', False)
        self.in_spec = True
        try:
            return self.eval(node, env)
        finally:
            self.in_spec = saved

    def eval(self, e, env):
        m = getattr(self, 'ev_' + type(e).__name__, None)
        if m is None:
            raise Unsupported('expression {} (line {})'.format(type(e).__name__, getattr(e, 'lineno', '?')))
        return m(e, env)

    def ev_Constant(self, e, env):
        return e.value

    def ev_Name(self, e, env):
        if e.id in env:
            v = env[e.id]
            if v is UNBOUND:
                self.oblige('hazard', 'local {} is bound'.format(e.id), False, e.lineno)
                raise PyExc('UnboundLocalError', e.lineno)
            return v
        if e.id in ('True', 'False', 'None'):
            return {'True': True, 'False': False, 'None': None}[e.id]
        if getattr(self, 'in_spec', False) and e.id in SPEC_FUNCS:
            return VSpecFn(SPEC_FUNCS[e.id])
        if e.id in BUILTINS:
            return VSpecFn(BUILTINS[e.id])
        if getattr(self, 'in_spec', False):
            # a contract expression names something that does not exist on this path (e.g. the code was restructured)
            raise SpecError('contract expression refers to `{}`, which is not bound here'.format(e.id))
        # module-level function or class or import
        return ('global', e.id)

    def ev_Tuple(self, e, env):
        return VTuple([self.eval(x, env) for x in e.elts], 'tuple')

    def ev_List(self, e, env):
        return VTuple([self.eval(x, env) for x in e.elts], 'list')

    def ev_UnaryOp(self, e, env):
        v = self.eval(e.operand, env)
        if isinstance(e.op, ast.USub):
            return -v if not isinstance(v, bool) else -int(v)
        if isinstance(e.op, ast.UAdd):
            return v
        if isinstance(e.op, ast.Not):
            return znot(as_bool(v))
        raise Unsupported('unary op')

    def ev_BoolOp(self, e, env):
        # python value semantics when the truthiness of the operands is concrete (`clauses or []`)
        if not getattr(self, 'in_spec', False):
            first = self.eval(e.values[0], env)
            t = None
            try:
                t = as_bool(first)
            except Unsupported:
                pass
            if isinstance(t, bool) and len(e.values) == 2:
                if isinstance(e.op, ast.Or):
                    return first if t else self.eval(e.values[1], env)
                return self.eval(e.values[1], env) if t else first
        # short-circuit semantics matter for hazards: evaluate operands under the guard
        vals = []
        saved = len(self.pc)
        pre = {0: first} if not getattr(self, 'in_spec', False) else {}
        try:
            for ix, x in enumerate(e.values):
                v = as_bool(pre[ix] if ix in pre else self.eval(x, env))
                vals.append(v)
                g = v if isinstance(e.op, ast.And) else znot(v)
                if g is False:
                    break
                if g is not True:
                    self.pc.append(g)
        finally:
            del self.pc[saved:]
        return zand(*vals) if isinstance(e.op, ast.And) else zor(*vals)

    def ev_IfExp(self, e, env):
        c = as_bool(self.eval(e.test, env))
        if isinstance(c, bool):
            return self.eval(e.body if c else e.orelse, env)
        if getattr(self, 'in_spec', False):
            a, b = self.eval(e.body, env), self.eval(e.orelse, env)
            return z3.If(c, toz(a), toz(b))
        if self.branch(c):
            return self.eval(e.body, env)
        return self.eval(e.orelse, env)

    def ev_BinOp(self, e, env):
        return self.binop(e.op, self.eval(e.left, env), self.eval(e.right, env), e)

    def unopt(self, v, node):
        if isinstance(v, VOpt):
            if not getattr(self, 'in_spec', False):
                self.oblige('hazard', 'value is not None in {}'.format(ast.unparse(node)), z3.Not(v.isnone), node.lineno)
            return v.val
        return v

    def binop(self, op, a, b, node):
        a, b = self.unopt(a, node), self.unopt(b, node)
        if (a is None or b is None) and not getattr(self, 'in_spec', False):
            raise PyExc('TypeError', node.lineno)         # arithmetic on None (an escaping TypeError is a raises-only obligation)
        if isinstance(a, VTerms) and isinstance(b, VTuple) and isinstance(op, ast.Add) and len(b.items) == 2:
            return VCon(a.term, b.items[0], b.items[1])
        if isinstance(a, (VTuple,)) and isinstance(b, VTuple) and isinstance(op, ast.Add):
            return VTuple(a.items + b.items, a.kind)
        if isinstance(op, ast.Add) and isinstance(a, VSeq) and a.sortname == 'ISeq' and isinstance(b, VTuple) and b.kind == 'list' \
                and all(isinstance(x, int) or (is_z3(x) and z3.is_int(x)) for x in b.items):
            t = a.term                     # abstract literal list + [x, y, ...]
            for x in b.items:
                t = specs.isnoc(t, toz(x))
            return VSeq(t)
        if isinstance(op, ast.Add) and isinstance(a, VSeq) and isinstance(b, VSeq) and a.sortname == 'ISeq' and b.sortname == 'ISeq':
            return VSeq(specs.iapp(a.term, b.term))
        if isinstance(op, ast.Add) and isinstance(b, VSeq) and b.sortname == 'ISeq' and isinstance(a, VTuple) and a.kind == 'list' \
                and all(isinstance(x, int) or (is_z3(x) and z3.is_int(x)) for x in a.items):
            t = specs.inil                 # [x, y, ...] + abstract literal list
            for x in a.items:
                t = specs.isnoc(t, toz(x))
            return VSeq(specs.iapp(t, b.term))
        if isinstance(a, VTuple) and isinstance(op, ast.Mult) and isinstance(b, int):
            return VTuple(a.items * b, a.kind)
        if isinstance(op, ast.Add) and isinstance(a, VRowText) and isinstance(b, str) and not b.startswith('<'):
            return VRowText(a.sep, a.clause, a.prefix, a.suffix + b)
        if isinstance(op, ast.Add) and isinstance(b, VRowText) and isinstance(a, str) and not a.startswith('<'):
            return VRowText(b.sep, b.clause, a + b.prefix, b.suffix)
        if isinstance(op, ast.Add) and (isinstance(a, VFmt) or isinstance(b, VFmt)):
            def lift(x):
                if isinstance(x, VFmt):
                    return x
                if isinstance(x, str) and not x.startswith('<'):
                    return VFmt(x.replace('{', '{{').replace('}', '}}'), [])
                raise Unsupported('concatenation of a formatted text with unmodelled text')
            A, Bv = lift(a), lift(b)
            if A.joined is not None and Bv.joined is None and not Bv.args:
                return VFmt(A.template, A.args, joined=(A.joined[0], A.joined[1] + Bv.template.replace('{{', '{').replace('}}', '}')))
            if A.joined is not None or Bv.joined is not None or A.split or Bv.split:
                raise Unsupported('concatenation around a joined text')
            return VFmt(A.template + Bv.template, A.args + Bv.args)
        if isinstance(a, str) and isinstance(b, str) and isinstance(op, ast.Add):
            return a + b
        if isinstance(op, ast.Add) and isinstance(a, VArr) and isinstance(b, VTuple) and b.kind == 'list' and a.arr.sort().range() == z3.IntSort() \
                and all((isinstance(x, int) and not isinstance(x, bool)) or (is_z3(x) and z3.is_int(x)) for x in b.items):
            arr, n = a.arr, toz(a.length)            # int array + [x, y, ...]: a fresh list
            for ix, x in enumerate(b.items):
                arr = z3.Store(arr, n + ix, toz(x))
            return VArr(z3.simplify(n + len(b.items)), arr)
        if isinstance(op, ast.Add) and isinstance(b, VArr) and isinstance(a, (VArr, VTuple)) and b.arr.sort().range() == z3.IntSort() \
                and (isinstance(a, VArr) or (a.kind == 'list' and all(isinstance(x, (int, bool)) or (is_z3(x) and (z3.is_int(x) or z3.is_bool(x))) for x in a.items))):
            # list + list with an int array on the right: a fresh list (bools are kept as 0/1)
            def as01(x):
                if isinstance(x, bool):
                    return z3.IntVal(int(x))
                if is_z3(x) and z3.is_bool(x):
                    return z3.If(x, z3.IntVal(1), z3.IntVal(0))
                return toz(x)
            if isinstance(a, VTuple):
                la = z3.IntVal(len(a.items))
                aa = z3.K(z3.IntSort(), z3.IntVal(0))
                for ix, x in enumerate(a.items):
                    aa = z3.Store(aa, ix, as01(x))
            else:
                la, aa = toz(a.length), a.arr
                if aa.sort().range() != z3.IntSort():
                    raise Unsupported('concatenation of non-int arrays')
            t = z3.Int('cat!j')
            return VArr(z3.simplify(la + toz(b.length)), z3.Lambda([t], z3.If(t < la, z3.Select(aa, t), z3.Select(b.arr, t - la))))
        if isinstance(a, VTuple) and isinstance(op, ast.Mult) and is_z3(b) and len(a.items) == 1 and isinstance(a.items[0], bool):
            return VArr(z3.simplify(zmax(toz(b), z3.IntVal(0))), z3.K(z3.IntSort(), z3.IntVal(int(a.items[0]))))
        if isinstance(a, VTuple) and isinstance(op, ast.Mult) and is_z3(b) and len(a.items) == 1 \
                and (a.items[0] is None or isinstance(a.items[0], int) or is_z3(a.items[0])):
            n = zmax(toz(b), z3.IntVal(0))
            if a.items[0] is None:
                # [None] * n : a table to be filled; entries are unconstrained ints until assigned (reads of
                # unassigned slots are not modelled - stated assumption)
                tb = VArr(z3.simplify(n), self.fresh('table', z3.ArraySort(z3.IntSort(), z3.IntSort())))
                tb.blank = True
                return tb
            return VArr(z3.simplify(n), z3.K(z3.IntSort(), toz(a.items[0])))
        if isinstance(a, VTuple) and isinstance(op, ast.Mult) and is_z3(b):
            return VOpaque('list repeated a symbolic number of times')
        if isinstance(a, str) or isinstance(b, str):
            if isinstance(op, (ast.Add, ast.Mod, ast.Mult)):
                return '<str>'          # strings are opaque: content not modelled, TypeError of str ops not modelled
            raise Unsupported('string arithmetic')
        if isinstance(a, bool):
            a = int(a)
        if isinstance(b, bool):
            b = int(b)
        conc = isinstance(a, int) and isinstance(b, int)
        if isinstance(op, ast.Add):
            return a + b
        if isinstance(op, ast.Sub):
            return a - b
        if isinstance(op, ast.Mult):
            return a * b
        if isinstance(op, (ast.FloorDiv, ast.Mod)):
            if not getattr(self, 'in_spec', False):
                if conc and b == 0:
                    self.oblige('hazard', 'divisor != 0: {}'.format(ast.unparse(node)), False, node.lineno)
                    raise PyExc('ZeroDivisionError', node.lineno)
                if not conc and not isinstance(b, int):
                    self.oblige('hazard', 'divisor != 0: {}'.format(ast.unparse(node)), toz(b) != 0, node.lineno)
            if conc:
                return a // b if isinstance(op, ast.FloorDiv) else a % b
            return py_floordiv(a, b) if isinstance(op, ast.FloorDiv) else py_mod(a, b)
        if isinstance(op, ast.Pow):
            if conc:
                return a ** b
            if isinstance(b, int) and b == 2:
                return specs.sqr(toz(a))          # x**2 stays symbolic: sqr(x), with linear facts only (no nonlinear arithmetic in the VCs)
            if isinstance(b, int) and 0 <= b <= 4:
                r = 1
                for _ in range(b):
                    r = r * a
                return r
            if isinstance(a, int) and a == 2:
                # 2**e is an int only for e >= 0 (a float otherwise): the modelled range is an obligation
                if not getattr(self, 'in_spec', False):
                    self.oblige('hazard', 'exponent of 2**e is non-negative (modelled range: int result)', toz(b) >= 0, node.lineno)
                return specs_pow2(toz(b))
            raise Unsupported('symbolic power')
        raise Unsupported('binary operator {}'.format(type(op).__name__))

    def ev_Compare(self, e, env):
        vals = [self.eval(e.left, env)] + [self.eval(x, env) for x in e.comparators]
        out = []
        for op, a, b in zip(e.ops, vals, vals[1:]):
            out.append(self.compare(op, a, b, e))
        return zand(*out)

    def compare(self, op, a, b, node):
        if isinstance(a, VClass) and isinstance(b, tuple) and b and b[0] == 'global' and isinstance(op, (ast.Eq, ast.NotEq)):
            # a class value compared with a class name: decided by the class the model stands for.  A model of a base class stands
            # for its subclasses too (declared in the class model: `stands_for`)
            names = [self.classmodels[a.model].get('real', a.model)] + list(self.classmodels[a.model].get('stands_for', []))
            r = b[1].split('.')[-1] in names
            return r if isinstance(op, ast.Eq) else not r
        if isinstance(a, VClass) and isinstance(op, (ast.In, ast.NotIn)) and isinstance(b, VTuple):
            r = zor(*[self.compare(ast.Eq(), a, y, node) for y in b.items])       # graph_class in [Graph, DirectedGraph]
            return r if isinstance(op, ast.In) else znot(r)
        if isinstance(a, VClass):
            a = a.ident
        if isinstance(b, VClass):
            b = b.ident
        if isinstance(op, (ast.Eq, ast.NotEq)) and (isinstance(a, str) != isinstance(b, str)) and \
                (isinstance(a, (VArr, VRange, VPairs, VTuple, VSeq)) or isinstance(b, (VArr, VRange, VPairs, VTuple, VSeq))):
            return isinstance(op, ast.NotEq)         # a list never equals a string
        if (isinstance(a, VStr) and isinstance(b, str)) or (isinstance(b, VStr) and isinstance(a, str)):
            if isinstance(op, (ast.Eq, ast.NotEq)):
                return self.fresh('streq', z3.BoolSort())      # an opaque token compared with a literal: either answer
        if isinstance(a, VChar) or isinstance(b, VChar):
            c, x = (a, b) if isinstance(a, VChar) else (b, a)
            if isinstance(x, str) and len(x) == 1 and isinstance(op, (ast.Eq, ast.NotEq)):
                r = c.code == ord(x)
                return r if isinstance(op, ast.Eq) else z3.Not(r)
            if isinstance(x, str) and isinstance(op, (ast.Eq, ast.NotEq)):
                return isinstance(op, ast.NotEq)
            raise Unsupported('character comparison')
        if isinstance(a, VOpt) or isinstance(b, VOpt):
            o, x = (a, b) if isinstance(a, VOpt) else (b, a)
            if isinstance(op, (ast.Is, ast.IsNot)) and x is None:
                return o.isnone if isinstance(op, ast.Is) else z3.Not(o.isnone)
            if isinstance(op, (ast.Eq, ast.NotEq)):
                if x is None:
                    r = o.isnone
                elif isinstance(x, VOpt):
                    r = z3.Or(z3.And(o.isnone, x.isnone), z3.And(z3.Not(o.isnone), z3.Not(x.isnone), o.val == x.val))
                else:
                    r = z3.And(z3.Not(o.isnone), o.val == toz(x))
                return r if isinstance(op, ast.Eq) else z3.Not(r)
            # ordering with a possibly-None value: TypeError unless it is an int
            if not getattr(self, 'in_spec', False):
                self.oblige('hazard', 'value is not None in {}'.format(ast.unparse(node)), z3.Not(o.isnone), node.lineno)
            a = a.val if isinstance(a, VOpt) else a
            b = b.val if isinstance(b, VOpt) else b
        if isinstance(op, (ast.Is, ast.IsNot)):
            if a is None or b is None:
                other = b if a is None else a
                r = other is None
                if is_z3(other) or isinstance(other, (VObj, VSeq, VTuple, VArr, VMList, int, str)):
                    r = False
                return r if isinstance(op, ast.Is) else not r
            raise Unsupported('is comparison')
        if isinstance(op, (ast.In, ast.NotIn)):
            r = self.contains(b, a, node)
            return r if isinstance(op, ast.In) else znot(r)
        if a is None or b is None:
            if isinstance(op, ast.Eq):
                return a is None and b is None
            if isinstance(op, ast.NotEq):
                return not (a is None and b is None)
            raise PyExc('TypeError', node.lineno)
        if isinstance(a, str) and isinstance(b, str):
            return {ast.Eq: a == b, ast.NotEq: a != b}.get(type(op)) if type(op) in (ast.Eq, ast.NotEq) else self._unsup('str order')
        if isinstance(a, str):
            a = z3.StringVal(a)
        if isinstance(b, str):
            b = z3.StringVal(b)
        if isinstance(a, VSeq) and isinstance(b, VSeq) and isinstance(op, (ast.Eq, ast.NotEq)):
            r = a.term == b.term
            return r if isinstance(op, ast.Eq) else z3.Not(r)
        if isinstance(a, VArr2) and isinstance(b, VArr2) and isinstance(op, (ast.Eq, ast.NotEq)):
            r = z3.And(toz(a.length) == toz(b.length), a.rowlen == b.rowlen, a.rows == b.rows)
            if a.present is not None and b.present is not None:
                r = z3.And(r, a.present == b.present)
            return r if isinstance(op, ast.Eq) else z3.Not(r)
        if isinstance(a, (VSet2, VFun2)) and type(a) is type(b) and isinstance(op, (ast.Eq, ast.NotEq)):
            r = a.arr == b.arr
            return r if isinstance(op, ast.Eq) else z3.Not(r)
        if isinstance(a, VSeqSet) and isinstance(b, VSeqSet) and isinstance(op, (ast.Eq, ast.NotEq)):
            r = a.arr == b.arr
            return r if isinstance(op, ast.Eq) else z3.Not(r)
        if isinstance(a, VTerms) and isinstance(b, VTerms) and isinstance(op, (ast.Eq, ast.NotEq)):
            r = a.term == b.term
            return r if isinstance(op, ast.Eq) else z3.Not(r)
        if isinstance(a, VMList):
            a = VSeq(a.term)
            return self.compare(op, a, b, node)
        if isinstance(b, VMList):
            return self.compare(op, a, VSeq(b.term), node)
        if isinstance(a, VTuple) and isinstance(b, VTuple) and isinstance(op, (ast.Eq, ast.NotEq)):
            if len(a.items) != len(b.items):
                r = False
            else:
                r = zand(*[self.compare(ast.Eq(), x, y, node) for x, y in zip(a.items, b.items)])
            return r if isinstance(op, ast.Eq) else znot(r)
        if isinstance(a, bool):
            a = int(a) if not (is_z3(b) and z3.is_bool(b)) else a
        if isinstance(b, bool):
            b = int(b) if not (is_z3(a) and z3.is_bool(a)) else b
        table = {ast.Lt: lambda: a < b, ast.LtE: lambda: a <= b, ast.Gt: lambda: a > b, ast.GtE: lambda: a >= b,
                 ast.Eq: lambda: a == b, ast.NotEq: lambda: a != b}
        if type(op) not in table:
            raise Unsupported('comparison operator')
        if isinstance(a, VObj) and isinstance(b, VObj) and isinstance(op, (ast.Eq, ast.NotEq)):
            return (a is b) if isinstance(op, ast.Eq) else (a is not b)      # classes here define no __eq__: identity
        if isinstance(a, (VObj, VTuple, VSeq, VArr)) or isinstance(b, (VObj, VTuple, VSeq, VArr)):
            raise Unsupported('comparison of structured values')
        return table[type(op)]()

    def _unsup(self, what):
        raise Unsupported(what)

    def contains(self, container, x, node):
        if isinstance(container, VSeqMap):
            key = _term(x)
            if is_z3(key) and key.sort() == specs.ISeq:
                return z3.Select(container.present, key)
            raise Unsupported('membership of a non-tuple in a dictionary of tuples')
        if isinstance(container, VSeqSet):
            if isinstance(x, VSeq) and x.sortname == 'ISeq':
                return z3.Select(container.arr, x.term)
            raise Unsupported('membership of a non-tuple in a set of tuples')
        if isinstance(container, VTuple):
            return zor(*[self.compare(ast.Eq(), x, y, node) for y in container.items])
        if isinstance(container, VRange):
            if container.step != 1:
                raise Unsupported('membership in stepped range')
            return zand(toz(container.lo) <= toz(x), toz(x) < toz(container.hi))
        if isinstance(container, VSeq) and container.sortname == 'ISeq':
            if isinstance(x, int) and x == 0:
                return specs.haszero(container.term)
            if isinstance(x, int) or (is_z3(x) and z3.is_int(x)):
                k = z3.Int('k!in')
                return z3.Exists([k], z3.And(0 <= k, k < specs.ilen(container.term), specs.iget(container.term, k) == toz(x)))
            raise Unsupported('membership in abstract sequence')
        if isinstance(container, (VArr, VRow)) and (isinstance(x, int) or (is_z3(x) and z3.is_int(x))) and container.arr.sort().range() == z3.IntSort():
            k = z3.Int('k!in')
            return z3.Exists([k], z3.And(0 <= k, k < toz(container.length), z3.Select(container.arr, k) == toz(x)))
        if isinstance(container, VOpaque) or (isinstance(container, VStr) and isinstance(x, str)):
            return self.fresh('opaque_in', z3.BoolSort())     # content not modelled: either answer
        if isinstance(container, VArr2) and container.present is not None:
            return z3.Select(container.present, toz(x))
        if isinstance(container, VSet2) and isinstance(x, VTuple) and len(x.items) == 2:
            return z3.Select(container.arr, toz(x.items[0]), toz(x.items[1]))
        if isinstance(container, VObj):
            r = self.call_method(container, '__contains__', [x], {}, node)
            return as_bool(r)
        raise Unsupported('membership in {!r}'.format(container))

    def ev_Attribute(self, e, env):
        o = self.eval(e.value, env)
        if isinstance(o, VOpt) and isinstance(o.val, VObj):
            if not getattr(self, 'in_spec', False):
                # python: AttributeError on None
                self.oblige('hazard', 'object is not None in {}'.format(ast.unparse(e)), z3.Not(o.isnone), e.lineno)
            o = o.val
        if isinstance(o, VObj):
            if e.attr in o.fields:
                return o.fields[e.attr]
            if e.attr[-3:] in ('_lo', '_hi') and isinstance(o.fields.get(e.attr[:-3]), VRange):
                r = o.fields[e.attr[:-3]]
                return toz(r.lo) if e.attr.endswith('_lo') else toz(r.hi)
            crel = self.classmodels.get(o.cls, {}).get('file')
            real = self.classmodels.get(o.cls, {}).get('real', o.cls)
            if crel and not getattr(self, 'in_spec', False) and self.repo.find_class(crel, real) and self.repo.resolve_method(crel, real, e.attr) is None \
                    and not any(k[1] == '{}.{}'.format(o.cls, e.attr) for k in self.contracts):
                # neither a declared field nor a method of the class: the code reads state the class model does not describe
                raise Unsupported('attribute {} of {} is not part of its class model {}'.format(e.attr, real, o.cls))
            return ('method', o, e.attr)
        if isinstance(o, (VTuple, VMList, VArr, VSeq, VOpaque, VCounted, VGroups, VArr2, VRow, VSet2, VStr, VStrs, VFmt, VSink, VSeqSet, VParities)) or isinstance(o, str):
            return ('method', o, e.attr)
        if isinstance(o, tuple) and o[0] == 'global':
            return ('global', o[1] + '.' + e.attr)
        raise Unsupported('attribute {} of {!r}'.format(e.attr, o))

    def ev_Subscript(self, e, env):
        base = self.eval(e.value, env)
        if isinstance(e.slice, ast.Slice):
            return self.slice(base, e.slice, env, e)
        idx = self.eval(e.slice, env)
        if isinstance(base, VTextTable):
            return '<str>'
        if isinstance(base, VTuple):
            if isinstance(idx, int):
                if not -len(base.items) <= idx < len(base.items):
                    if not getattr(self, 'in_spec', False):
                        self.oblige('hazard', 'index in bounds: {}'.format(ast.unparse(e)), False, e.lineno)
                    raise PyExc('IndexError', e.lineno)
                return base.items[idx]
            # symbolic index into a concrete tuple of scalars
            n = len(base.items)
            i = toz(idx)
            if n == 0:
                if not getattr(self, 'in_spec', False):
                    self.oblige('hazard', 'index in bounds: {}'.format(ast.unparse(e)), False, e.lineno)
                    raise PyExc('IndexError', e.lineno)
                return self.fresh('anyval')
            if not getattr(self, 'in_spec', False):
                self.oblige('hazard', 'index in bounds: {}'.format(ast.unparse(e)), z3.And(i >= -n, i < n), e.lineno)
            ii = z3.If(i >= 0, i, n + i)
            if base.items[0] is None and n >= 2 and all(x is not None for x in base.items[1:]):
                # a 1-based table under construction ([None, start, ...]): entry 0 is None
                if not getattr(self, 'in_spec', False) and self.branch(ii == 0):
                    return None
                r = toz(base.items[-1])
                for k in range(n - 2, 0, -1):
                    r = z3.If(ii == k, toz(base.items[k]), r)
                return r
            tz = (lambda x: z3.StringVal(x)) if all(isinstance(x, str) for x in base.items) else toz
            r = tz(base.items[-1])
            for k in range(n - 2, -1, -1):
                r = z3.If(ii == k, tz(base.items[k]), r)
            return r
        if isinstance(base, VArr):
            wrap = (lambda r: VSeq(r)) if base.arr.sort().range() == specs.CSeq else (lambda r: r)
            if getattr(self, 'in_spec', False):
                # in contract expressions list indices are plain (non-negative) positions: no python wrap-around
                return wrap(sel(base.arr, toz(idx)))
            pos = self.norm_index(idx, base.length, e)
            if isinstance(base, VArrN0) and self.branch(pos == 0):
                return None
            return wrap(sel(base.arr, pos))
        if isinstance(base, (VSeq, VMList)):
            t = base.term
            if t.sort() == specs.ISeq:
                L, get = specs.ilen(t), lambda i: specs.iget(t, i)
            else:
                L, get = specs.clen(t), lambda i: VSeq(specs.cget(t, i))
            if getattr(self, 'in_spec', False):
                return get(toz(idx))
            return get(self.norm_index(idx, L, e))
        if isinstance(base, VSeqMap):
            key = _term(idx)
            if not (is_z3(key) and key.sort() == specs.ISeq):
                raise Unsupported('dictionary key that is not a tuple of ints')
            if not getattr(self, 'in_spec', False):
                if not self.branch(z3.Select(base.present, key)):
                    raise PyExc('KeyError', e.lineno)
            return z3.Select(base.val, key)
        if isinstance(base, VArr2) and base.present is not None:
            if not getattr(self, 'in_spec', False):
                self.oblige('hazard', 'dict key present (KeyError): {}'.format(ast.unparse(e)), z3.Select(base.present, toz(idx)), e.lineno)
            return VRow(base, toz(idx))
        if isinstance(base, VArr2):
            i = toz(idx) if getattr(self, 'in_spec', False) else self.norm_index(idx, base.length, e)
            return VRow(base, i)
        if isinstance(base, VRow):
            if getattr(self, 'in_spec', False):
                return z3.Select(base.arr, toz(idx))
            return z3.Select(base.arr, self.norm_index(idx, base.length, e))
        if isinstance(base, VFun2) and isinstance(idx, VTuple) and len(idx.items) == 2:
            return z3.Select(base.arr, toz(idx.items[0]), toz(idx.items[1]))
        if isinstance(base, VTerms):
            i = toz(idx) if getattr(self, 'in_spec', False) else self.norm_index(idx, specs.tlen(base.term), e)
            return VTuple([specs.tcoef(base.term, i), specs.tlit(base.term, i)], 'tuple')
        if isinstance(base, VCon):
            if idx == -1:
                return base.value
            if idx == -2:
                return base.op
            raise Unsupported('constraint index {}'.format(idx))
        if isinstance(base, VRange) and base.step == 1 and not isinstance(idx, (VTuple, VSeq)):
            n = zmax(toz(base.hi) - toz(base.lo), z3.IntVal(0))
            i = toz(idx) if getattr(self, 'in_spec', False) else self.norm_index(idx, n, e)
            return toz(base.lo) + i
        if isinstance(base, VRange):
            raise Unsupported('subscript of range')
        if isinstance(base, VObj):
            return self.call_method(base, '__getitem__', [idx], {}, e)
        if isinstance(base, VOpaque) or (isinstance(base, tuple) and base and base[0] == 'global'):
            return '<str>'
        if isinstance(base, VStr):
            i = toz(idx) if getattr(self, 'in_spec', False) else self.norm_index(idx, specs.slen(base.term), e)
            return VChar(specs.charat(base.term, i))
        if isinstance(base, VStrs):
            i = toz(idx) if getattr(self, 'in_spec', False) else self.norm_index(idx, specs.sslen(base.term), e)
            return VStr(specs.ssget(base.term, i))
        if isinstance(base, VPairs):
            i = toz(idx) if getattr(self, 'in_spec', False) else self.norm_index(idx, base.length, e)
            return VTuple([sel(base.first, i), sel(base.second, i)], 'tuple')
        raise Unsupported('subscript of {!r} (line {})'.format(base, e.lineno))

    def slice(self, base, sl, env, node):
        lo = self.eval(sl.lower, env) if sl.lower else None
        hi = self.eval(sl.upper, env) if sl.upper else None
        st = self.eval(sl.step, env) if sl.step else None
        if isinstance(base, VTuple) and all(x is None or isinstance(x, int) for x in (lo, hi, st)):
            return VTuple(base.items[slice(lo, hi, st)], base.kind)
        if isinstance(base, VStr):
            return '<str>'              # a slice of an opaque text never raises; its content is not looked into
        if isinstance(base, VArr) and lo is None and hi is None and st == -1:
            t = z3.Int('rev!j')
            n = base.length
            return VArr(n, z3.Lambda([t], z3.Select(base.arr, n - 1 - t)))
        if isinstance(base, VSeq) and lo is None and hi is None and st is None:
            return base
        if isinstance(base, (VArr, VRow)) and lo is None and hi is None and st is None:
            return VArr(base.length, base.arr)         # slice copy: fresh list, same content
        if isinstance(base, VCon) and lo is None and hi == -2 and st is None:
            return VTerms(base.terms)            # slice copy: a fresh list with the same content
        if isinstance(base, (VSeq, VMList)) and base.term.sort() == specs.OSeq and getattr(self, 'in_spec', False):
            if lo is None and st is None:
                return VSeq(specs.otake(base.term, toz(hi)))
        if isinstance(base, (VSeq, VMList)) and base.term.sort() == specs.CSeq and getattr(self, 'in_spec', False):
            if lo is None and st is None:
                return VSeq(specs.ctake(base.term, toz(hi)))
        raise Unsupported('slice (line {})'.format(node.lineno))

    def ev_ListComp(self, e, env):
        if isinstance(e, ast.GeneratorExp) and len(e.generators) == 1 and not e.generators[0].ifs and isinstance(e.generators[0].target, ast.Tuple) \
                and len(e.generators[0].target.elts) == 2 and all(isinstance(x, ast.Name) for x in e.generators[0].target.elts) \
                and isinstance(e.elt, ast.Tuple) and len(e.elt.elts) == 2:
            # ((u + c, v + c) for (u, v) in PAIRS) over a pair enumeration: the same enumeration, every pair shifted by the constant c
            un, vn = [x.id for x in e.generators[0].target.elts]

            def const_shift(x, name):
                if isinstance(x, ast.Name) and x.id == name:
                    return 0
                if isinstance(x, ast.BinOp) and isinstance(x.op, (ast.Add, ast.Sub)) and isinstance(x.left, ast.Name) and x.left.id == name \
                        and isinstance(x.right, ast.Constant) and type(x.right.value) is int:
                    return x.right.value if isinstance(x.op, ast.Add) else -x.right.value
                return None
            cu, cv = const_shift(e.elt.elts[0], un), const_shift(e.elt.elts[1], vn)
            if cu is not None and cu == cv and un != vn:
                src = self.eval_iter(e.generators[0].iter, env)
                if not isinstance(src, VCombs2) and not isinstance(src, VRange):
                    src = as_nest_factor(src) or src
                if isinstance(src, VCombs2):
                    return VCombs2(src.lo, src.hi, src.pred, src.shift + cu)
        if len(e.generators) == 2 and not e.generators[0].ifs and not e.generators[1].ifs and isinstance(e.elt, ast.Tuple) \
                and len(e.elt.elts) == 2 and all(isinstance(g.target, ast.Name) for g in e.generators) \
                and [x.id if isinstance(x, ast.Name) else None for x in e.elt.elts] == [g.target.id for g in e.generators]:
            A, Bv = self.eval_iter(e.generators[0].iter, env), self.eval_iter(e.generators[1].iter, env)
            if isinstance(A, VRange) and isinstance(Bv, VRange) and A.step == 1 and Bv.step == 1:
                # all pairs, first component slowest:  t -> (loA + t div nB, loB + t mod nB)
                nA = zmax(toz(A.hi) - toz(A.lo), z3.IntVal(0))
                nB = zmax(toz(Bv.hi) - toz(Bv.lo), z3.IntVal(0))
                t = z3.Int('pairs!t')
                return VPairs(z3.simplify(nA * nB), z3.Lambda([t], toz(A.lo) + py_floordiv(t, nB)), z3.Lambda([t], toz(Bv.lo) + py_mod(t, nB)))
        if len(e.generators) == 1 and len(e.generators[0].ifs) == 1 and isinstance(e.generators[0].target, ast.Name):
            # [f(u) for u in range(lo, hi) if u <= B] (B not depending on u): the same list as over range(lo, min(hi, B + 1))
            g0 = e.generators[0]
            c0 = g0.ifs[0]
            if isinstance(c0, ast.Compare) and len(c0.ops) == 1 and isinstance(c0.ops[0], (ast.LtE, ast.Lt)) and isinstance(c0.left, ast.Name) \
                    and c0.left.id == g0.target.id and not any(isinstance(x, ast.Name) and x.id == g0.target.id for x in ast.walk(c0.comparators[0])):
                itv = self.eval_iter(g0.iter, env)
                if isinstance(itv, VRange) and itv.step == 1:
                    bound = toz(self.eval(c0.comparators[0], env)) + (1 if isinstance(c0.ops[0], ast.LtE) else 0)
                    nm = '__cmp_rng{}'.format(id(e))
                    e2 = dict(env)
                    e2[nm] = VRange(itv.lo, z3.simplify(zmin(toz(itv.hi), bound)), 1)
                    stripped = type(e)(elt=e.elt, generators=[ast.comprehension(target=g0.target, iter=ast.Name(id=nm, ctx=ast.Load()), ifs=[], is_async=0)])
                    ast.copy_location(stripped, e)
                    ast.fix_missing_locations(stripped)
                    self.keep_alive = getattr(self, 'keep_alive', []) + [stripped]
                    return self.ev_ListComp(stripped, e2)
        if len(e.generators) == 1 and len(e.generators[0].ifs) == 1 and isinstance(e.generators[0].target, ast.Name) \
                and isinstance(e.elt, ast.Name) and e.elt.id == e.generators[0].target.id and not getattr(self, 'in_spec', False):
            # [x for x in A if cond(x)] over an int list: SOME list of elements satisfying cond, empty exactly when no element of A does
            # (enough for the `len(...) > 0` idiom; order and multiplicity are not modelled)
            g0 = e.generators[0]
            itv = self.eval_iter(g0.iter, env)
            if isinstance(itv, (VArr, VRow)) and itv.arr.sort().range() == z3.IntSort():
                def cond_at(val):
                    e2 = dict(env)
                    e2[g0.target.id] = val
                    self.generic_elem = getattr(self, 'generic_elem', 0) + 1
                    try:
                        return toz(as_bool(self.eval(g0.ifs[0], e2)))
                    finally:
                        self.generic_elem -= 1
                t = z3.Int('t!flt')
                n = toz(itv.length)
                out = VArr(self.fresh('filtered_len'), self.fresh('filtered', itv.arr.sort()))
                self.pc.append(z3.And(out.length >= 0, out.length <= zmax(n, z3.IntVal(0))))
                self.pc.append((out.length == 0) == z3.ForAll([t], z3.Implies(z3.And(0 <= t, t < n), z3.Not(cond_at(z3.Select(itv.arr, t))))))
                self.pc.append(z3.ForAll([t], z3.Implies(z3.And(0 <= t, t < out.length), cond_at(z3.Select(out.arr, t)))))
                return out
        pm = self.match_pairlits(e, env)
        if pm is not None:
            return pm
        if len(e.generators) != 1 or e.generators[0].ifs:
            raise Unsupported('comprehension shape')
        g = e.generators[0]
        ch = self.match_implchain(e, env)
        if ch is not None:
            return ch
        ch = self.match_liftcls(e, env)
        if ch is not None:
            return ch
        if isinstance(g.iter, ast.Call) and len(g.iter.args) == 1 and isinstance(g.iter.args[0], ast.Starred) and not g.iter.keywords \
                and isinstance(g.target, ast.Name):
            fn = self.eval(g.iter.func, env)
            dom = self.eval(g.iter.args[0].value, env)
            isprod = isinstance(fn, tuple) and fn[0] == 'global' and (
                self.modinfo['imports'].get(fn[1]) == ('itertools', 'product') or
                (fn[1] == 'itertools.product' and self.modinfo['imports'].get('itertools') == ('itertools', None)))
            if isprod and isinstance(dom, VDom) and self.is_flatten(e.elt, g.target.id):
                # (tuple([lit for c in ct for lit in c]) for ct in product(*[T[l] for l in clause])): the distribution of
                # the CNFs T[l] over the clause - one output clause per choice of one clause from every T[l]
                return VSeq(specs.cdist_tab(dom.arr, dom.length, dom.clause))
            if isprod or not isinstance(dom, VTuple):
                raise Unsupported('comprehension over a starred call')
        if isinstance(g.iter, ast.Call) and isinstance(g.iter.func, ast.Name) and g.iter.func.id == 'zip' and len(g.iter.args) == 2 \
                and isinstance(g.target, ast.Tuple) and len(g.target.elts) == 2 and 'zip' not in env:
            x, y = [t.id for t in g.target.elts]
            A, Bv = self.eval(g.iter.args[0], env), self.eval(g.iter.args[1], env)
            if isinstance(A, VSeq) and isinstance(Bv, VSeq) and A.sortname == 'ISeq' and Bv.sortname == 'ISeq' \
                    and ast.unparse(e.elt) in ('{} * {}'.format(x, y), '{} * {}'.format(y, x)):
                return VSeq(specs.smul(A.term, Bv.term))
        it = self.eval_iter(g.iter, env)
        if isinstance(it, VTuple):
            out = []
            for x in it.items:
                e2 = dict(env)
                self.assign(g.target, x, e2)
                out.append(self.eval(e.elt, e2))
            return VTuple(out, 'list')
        if isinstance(it, VRange) and all(isinstance(x, int) for x in (it.lo, it.hi, it.step)):
            return self.ev_ListComp_concrete(e, env, [x for x in range(it.lo, it.hi, it.step)])
        if isinstance(it, VRange) and it.step == 1 and isinstance(g.target, ast.Name) and isinstance(e.elt, ast.Tuple) \
                and len(e.elt.elts) == 2:
            t = self.fresh('pair_' + g.target.id)
            e2 = dict(env)
            e2[g.target.id] = toz(it.lo) + t
            self.generic_elem = getattr(self, 'generic_elem', 0) + 1
            try:
                a, b = self.eval(e.elt.elts[0], e2), self.eval(e.elt.elts[1], e2)
            finally:
                self.generic_elem -= 1
            n = z3.simplify(zmax(toz(it.hi) - toz(it.lo), z3.IntVal(0)))
            return VPairs(n, z3.Lambda([t], toz(a)), z3.Lambda([t], toz(b)))
        if isinstance(it, VRange) and it.step == 1 and isinstance(g.target, ast.Name) and ast.unparse(e.elt) in ('[{}]'.format(g.target.id), '[-{}]'.format(g.target.id)):
            ap = specs.apseq(toz(it.lo), z3.simplify(zmax(toz(it.hi) - toz(it.lo), z3.IntVal(0))))
            return VSeq(specs.negunits(ap if ast.unparse(e.elt).startswith('[-') else specs.ineg(ap)))
        if isinstance(it, VRange) and it.step == 1 and isinstance(g.target, ast.Name) and isinstance(e.elt, ast.List) and not e.elt.elts:
            # [[] for i in range(lo, hi)]: that many fresh empty lists
            I = z3.IntSort()
            n = z3.simplify(zmax(toz(it.hi) - toz(it.lo), z3.IntVal(0)))
            return VArr2(n, z3.K(I, z3.IntVal(0)), z3.K(I, z3.K(I, z3.IntVal(0))))
        if isinstance(it, VRange) and it.step == 1 and isinstance(g.target, ast.Name):
            # [f(t) for t in range(lo,hi)] -> (length, lambda-array); f is evaluated once, symbolically
            t = self.fresh('cmp_' + g.target.id)
            e2 = dict(env)
            e2[g.target.id] = toz(it.lo) + t
            saved = len(self.pc)
            n = zmax(toz(it.hi) - toz(it.lo), z3.IntVal(0))
            self.pc.append(z3.And(t >= 0, t < n))          # hazards inside the element are checked for a generic index
            self.demonic = []
            try:
                body = self.eval(e.elt, e2)
                facts = list(self.pc[saved + 1:])
            finally:
                if not isinstance(sys.exc_info()[1], PyExc):
                    del self.pc[saved:]          # an exception of the element escapes for SOME index: its path facts stay
                dem, self.demonic = self.demonic, None
            if dem:
                # the element calls a nondeterministic library function (e.g. random.choice): one fresh value PER index
                subs = []
                for c in dem:
                    arr = self.fresh('dem_arr', z3.ArraySort(z3.IntSort(), c.sort()))
                    subs.append((c, z3.Select(arr, t)))
                body = z3.substitute(toz(body), *subs)
                for f in facts:
                    self.pc.append(z3.ForAll([t], z3.Implies(z3.And(t >= 0, t < n), z3.substitute(f, *subs))))
            if not (is_z3(body) and z3.is_int(body)) and not isinstance(body, int):
                raise Unsupported('comprehension element is not an int (line {})'.format(e.lineno))
            diff = z3.simplify(toz(body) - t)
            if not _mentions(diff, t):
                # unit-stride progression  [c+lo, c+lo+1, ...]: an abstract literal list apseq(start, n)
                return VSeq(specs.apseq(z3.simplify(z3.substitute(toz(body), (t, z3.IntVal(0)))), z3.simplify(n)))
            nsum = z3.simplify(toz(body) + t)
            if not _mentions(nsum, t):
                # [-(c + i) for i in range]: the negations of a unit-stride progression
                return VSeq(specs.ineg(specs.apseq(z3.simplify(-z3.substitute(toz(body), (t, z3.IntVal(0)))), z3.simplify(n))))
            return VArr(z3.simplify(n), z3.Lambda([t], toz(body)))
        if isinstance(it, VSeq) and it.sortname == 'ISeq' and isinstance(g.target, ast.Name) and isinstance(e.elt, ast.Subscript) \
                and isinstance(e.elt.slice, ast.Name) and e.elt.slice.id == g.target.id:
            table = self.eval(e.elt.value, env)
            if isinstance(table, VTextTable):
                return VLitTexts(it.term)
            if isinstance(table, VArr):
                # [A[l] for l in seq]: every index must be a legal python index into the table
                if not getattr(self, 'in_spec', False):
                    self.oblige('hazard', 'table indices in bounds: {}'.format(ast.unparse(e)),
                                specs.maxabs(it.term) < toz(table.length), e.lineno)
                if table.arr.sort().range() == specs.CSeq:
                    return VDom(table.arr, toz(table.length), it.term)
                return VSeq(specs.imapsub(it.term, table.arr, toz(table.length)))
        if isinstance(it, VArr) and it.arr.sort().range() == z3.IntSort() and isinstance(g.target, ast.Name) and isinstance(e.elt, ast.Tuple) \
                and len(e.elt.elts) == 2 and not getattr(self, 'in_spec', False):
            # ((u, v) for v in <int list>): a sequence of pairs, one per element
            t = self.fresh('pair_' + g.target.id)
            e2 = dict(env)
            e2[g.target.id] = z3.Select(it.arr, t)
            self.generic_elem = getattr(self, 'generic_elem', 0) + 1
            try:
                a, b = self.eval(e.elt.elts[0], e2), self.eval(e.elt.elts[1], e2)
            finally:
                self.generic_elem -= 1
            if all(isinstance(x, int) or (is_z3(x) and z3.is_int(x)) for x in (a, b)):
                return VPairs(toz(it.length), z3.Lambda([t], toz(a)), z3.Lambda([t], toz(b)))
            raise Unsupported('comprehension of pairs with non-int components')
        if isinstance(it, VSeq) and it.sortname == 'ISeq' and isinstance(g.target, ast.Name) and isinstance(e.elt, ast.Tuple) \
                and len(e.elt.elts) == 2 and not getattr(self, 'in_spec', False) \
                and ast.unparse(e.elt) != '(1, {})'.format(g.target.id):          # (1, lit): unit terms of a constraint, see below
            # ((u, v) for v in seq): a sequence of pairs, one per element of seq
            t = self.fresh('pair_' + g.target.id)
            e2 = dict(env)
            e2[g.target.id] = specs.iget(it.term, t)
            self.generic_elem = getattr(self, 'generic_elem', 0) + 1
            try:
                a, b = self.eval(e.elt.elts[0], e2), self.eval(e.elt.elts[1], e2)
            finally:
                self.generic_elem -= 1
            if all(isinstance(x, int) or (is_z3(x) and z3.is_int(x)) for x in (a, b)):
                return VPairs(specs.ilen(it.term), z3.Lambda([t], toz(a)), z3.Lambda([t], toz(b)))
            raise Unsupported('comprehension of pairs with non-int components')
        if isinstance(it, VPairs) and ((isinstance(g.target, ast.Tuple) and len(g.target.elts) == 2
                                       and all(isinstance(x, ast.Name) for x in g.target.elts)) or isinstance(g.target, ast.Name)):
            # [f(u, v) for u, v in pairs] / [f(t) for t in pairs]: evaluated once for a generic position
            t = self.fresh('pos_pair')
            e2 = dict(env)
            if isinstance(g.target, ast.Name):
                e2[g.target.id] = VTuple([sel(it.first, t), sel(it.second, t)], 'tuple')
            else:
                e2[g.target.elts[0].id] = sel(it.first, t)
                e2[g.target.elts[1].id] = sel(it.second, t)
            saved = len(self.pc)
            self.pc.append(z3.And(t >= 0, t < toz(it.length)))
            self.demonic = []
            try:
                body = self.eval(e.elt, e2)
                facts = list(self.pc[saved + 1:])
            finally:
                if not isinstance(sys.exc_info()[1], PyExc):
                    del self.pc[saved:]          # an exception of the element escapes for SOME index: its path facts stay
                dem, self.demonic = self.demonic, None
            if dem and is_z3(body) and z3.is_int(body):
                # the element's value is known only through a contract (a fresh result PER position): the result is some list r
                # with, for every position t, the callee's postconditions and  r[t] == body
                subs = [(c, z3.Select(self.fresh('dem_arr', z3.ArraySort(z3.IntSort(), c.sort())), t)) for c in dem]
                r = VSeq(self.fresh('comp', specs.ISeq))
                tc = z3.Int('t!dc')
                fs = [z3.substitute(f, *subs) for f in facts] + [specs.iget(r.term, t) == z3.substitute(body, *subs)]
                self.pc.append(specs.ilen(r.term) == toz(it.length))
                self.pc.append(z3.ForAll([tc], z3.Implies(z3.And(tc >= 0, tc < toz(it.length)),
                                                          z3.substitute(z3.And(*fs), (t, tc))), patterns=[specs.iget(r.term, tc)]))
                return r
            if dem:
                raise Unsupported('comprehension over pairs: element known only through a contract and not an int')
            if is_z3(body) and z3.is_int(body):
                tc = z3.Int('lam!j')
                return VArr(it.length, z3.Lambda([tc], z3.substitute(body, (t, tc))))
            raise Unsupported('comprehension over pairs with a non-int element')
        if isinstance(it, VArr) and isinstance(g.target, ast.Name) and it.arr.sort().range() == z3.IntSort():
            t = self.fresh('pos_' + g.target.id)
            e2 = dict(env)
            e2[g.target.id] = z3.Select(it.arr, t)
            saved = len(self.pc)
            self.pc.append(z3.And(t >= 0, t < toz(it.length)))
            self.generic_elem = getattr(self, 'generic_elem', 0) + 1
            try:
                body = self.eval(e.elt, e2)
            finally:
                if not isinstance(sys.exc_info()[1], PyExc):
                    del self.pc[saved:]          # an exception of the element escapes for SOME index: its path facts stay
                self.generic_elem -= 1
            if isinstance(body, bool):
                body = z3.IntVal(int(body))
            if is_z3(body) and z3.is_bool(body):
                body = z3.If(body, z3.IntVal(1), z3.IntVal(0))       # bools in arrays are 0/1
            if is_z3(body) and z3.is_int(body):
                return VArr(it.length, z3.Lambda([t], body))
            raise Unsupported('comprehension over an int list with a non-int element')
        if isinstance(it, VStrs) and isinstance(g.target, ast.Name):
            # [f(tok) for tok in tokens]: one value per token; f may be demonic (int()) and may raise for some token
            t = self.fresh('tok_' + g.target.id)
            n = specs.sslen(it.term)
            e2 = dict(env)
            e2[g.target.id] = VStr(specs.ssget(it.term, t))
            saved = len(self.pc)
            self.pc.append(z3.And(t >= 0, t < n))
            self.demonic = []
            try:
                body = self.eval(e.elt, e2)        # a ValueError of the element propagates (the path with the raise)
                facts = list(self.pc[saved + 1:])
            finally:
                if not isinstance(sys.exc_info()[1], PyExc):
                    del self.pc[saved:]          # an exception of the element escapes for SOME index: its path facts stay
                dem, self.demonic = self.demonic, None
            if not (is_z3(body) and z3.is_int(body)):
                raise Unsupported('comprehension over tokens: element is not an int')
            subs = []
            for c in dem:
                arr = self.fresh('dem_arr', z3.ArraySort(z3.IntSort(), c.sort()))
                subs.append((c, z3.Select(arr, t)))
            body = z3.substitute(body, *subs) if subs else body
            for f in facts:
                self.pc.append(z3.ForAll([t], z3.Implies(z3.And(t >= 0, t < n), z3.substitute(f, *subs))))
            return VArr(n, z3.Lambda([t], body))
        if isinstance(it, VTerms) and isinstance(g.target, ast.Tuple) and len(g.target.elts) == 2:
            c, l = [x.id for x in g.target.elts]
            if ast.unparse(e.elt) == '(-{}, {})'.format(c, l):
                return VTerms(specs.tnegc(it.term))
        if isinstance(it, VSeq) and it.sortname == 'ISeq' and isinstance(g.target, ast.Name) \
                and ast.unparse(e.elt) not in ('(1, {})'.format(g.target.id), '[-{}]'.format(g.target.id), '-' + g.target.id, g.target.id):
            # [f(p) for p in seq] with f(p) = p + c  or  -(p + c)  (e.g. the variable x(p) of a block): ishift / neg ishift.
            # f is evaluated once for a generic position; its preconditions become obligations for that generic position
            t = self.fresh('pos_' + g.target.id)
            el = specs.iget(it.term, t)
            e2 = dict(env)
            e2[g.target.id] = el
            saved = len(self.pc)
            self.pc.append(z3.And(t >= 0, t < specs.ilen(it.term)))
            self.demonic = []
            try:
                body = self.eval(e.elt, e2)
                facts = list(self.pc[saved + 1:])
            finally:
                if not isinstance(sys.exc_info()[1], PyExc):
                    del self.pc[saved:]          # an exception of the element escapes for SOME index: its path facts stay
                dem, self.demonic = self.demonic, None
            if isinstance(body, VFmt) and body.joined is None and not body.split and len(body.args) == 1 and is_z3(body.args[0]):
                a0 = body.args[0]
                d0 = z3.simplify(a0 - el)
                if not _mentions(d0, t):
                    # [' ' + str(v + c) for v in seq]: one formatted piece per element of seq shifted by a constant
                    base = it.term if (z3.is_int_value(d0) and d0.as_long() == 0) else specs.ishift(it.term, d0)
                    return VLitTexts(base, elem=body.template)
            if dem and is_z3(body) and z3.is_int(body):
                # the element calls a nondeterministic library function (random.choice): one outcome PER position; the result is
                # some list c with  c[t] == body(seq[t], outcome_t)  for every position t
                subs = [(c, z3.Select(self.fresh('dem_arr', z3.ArraySort(z3.IntSort(), c.sort())), t)) for c in dem]
                r = VSeq(self.fresh('comp', specs.ISeq))
                tc = z3.Int('t!dc')
                fs = [z3.substitute(f, *subs) for f in facts] + [specs.iget(r.term, t) == z3.substitute(body, *subs)]
                self.pc.append(specs.ilen(r.term) == specs.ilen(it.term))
                self.pc.append(z3.ForAll([tc], z3.Implies(z3.And(tc >= 0, tc < specs.ilen(it.term)),
                                                          z3.substitute(z3.And(*fs), (t, tc))), patterns=[specs.iget(r.term, tc)]))
                return r
            if is_z3(body) and z3.is_int(body):
                d1 = z3.simplify(body - el)
                d2 = z3.simplify(body + el)
                if not _mentions(d1, t):
                    return VSeq(specs.ishift(it.term, d1))
                if not _mentions(d2, t):
                    return VSeq(specs.ineg(specs.ishift(it.term, z3.simplify(-d2))))
                # any other int-valued element: the list as (length, lambda array); reads of the lambda are beta-reduced
                tc = z3.Int('lam!j')          # canonical bound name: the same list written in a contract is the same term
                return VArr(specs.ilen(it.term), z3.Lambda([tc], z3.substitute(body, (t, tc))))
            raise Unsupported('comprehension over an abstract list with a non-affine element (line {})'.format(e.lineno))
        if isinstance(it, VSeq) and it.sortname == 'ISeq' and isinstance(g.target, ast.Name):
            # recognised maps over an abstract literal list
            src = ast.unparse(e.elt)
            if src == '(1, {})'.format(g.target.id):
                return VTerms(specs.tunit(it.term))
            if src == '[-{}]'.format(g.target.id):
                return VSeq(specs.negunits(it.term))
            if src == '[{}]'.format(g.target.id):
                return VSeq(specs.negunits(specs.ineg(it.term)))      # [[x] for x in X] = [[-y] for y in -X]  (exactly, for ints)
            if src == '-' + g.target.id:
                return VSeq(specs.ineg(it.term))
            if src == g.target.id:
                return it
        raise Unsupported('comprehension over {!r} (line {})'.format(it, e.lineno))

    def match_liftcls(self, e, env):
        """[[-(Y + i), s*(X + i)] for i in range(1, k+1)]  with loop-free ints Y, X, s, k: the spec term liftcls(X, Y, k, s)"""
        g = e.generators[0]
        if not (isinstance(g.target, ast.Name) and isinstance(e.elt, ast.List) and len(e.elt.elts) == 2):
            return None
        i = g.target.id
        a, b = e.elt.elts
        if not (isinstance(a, ast.UnaryOp) and isinstance(a.op, ast.USub) and isinstance(a.operand, ast.BinOp) and isinstance(a.operand.op, ast.Add)
                and isinstance(a.operand.right, ast.Name) and a.operand.right.id == i
                and isinstance(b, ast.BinOp) and isinstance(b.op, ast.Mult) and isinstance(b.right, ast.BinOp) and isinstance(b.right.op, ast.Add)
                and isinstance(b.right.right, ast.Name) and b.right.right.id == i):
            return None
        if not (isinstance(g.iter, ast.Call) and isinstance(g.iter.func, ast.Name) and g.iter.func.id == 'range' and len(g.iter.args) == 2
                and ast.unparse(g.iter.args[0]) == '1' and isinstance(g.iter.args[1], ast.BinOp) and isinstance(g.iter.args[1].op, ast.Add)
                and ast.unparse(g.iter.args[1].right) == '1') or 'range' in env:
            return None
        used = {n.id for part in (a.operand.left, b.left, b.right.left, g.iter.args[1].left) for n in ast.walk(part) if isinstance(n, ast.Name)}
        if i in used:
            return None
        yo, sg, xo, k = (self.eval(x, env) for x in (a.operand.left, b.left, b.right.left, g.iter.args[1].left))
        if not all(isinstance(x, int) or (is_z3(x) and z3.is_int(x)) for x in (yo, sg, xo, k)):
            return None
        return VSeq(specs.liftcls(toz(xo), toz(yo), toz(k), toz(sg)))

    def match_implchain(self, e, env):
        """[[-X[i-1], X[i]] for i in range(1, len(X))]  over an abstract literal list X: the chain X[0] -> X[1] -> ... as
        the spec term implchain(X)"""
        g = e.generators[0]
        if not (isinstance(g.target, ast.Name) and isinstance(e.elt, ast.List) and len(e.elt.elts) == 2):
            return None
        i = g.target.id
        a, b = e.elt.elts
        if not (isinstance(a, ast.UnaryOp) and isinstance(a.op, ast.USub) and isinstance(a.operand, ast.Subscript)
                and isinstance(b, ast.Subscript) and isinstance(a.operand.value, ast.Name) and isinstance(b.value, ast.Name)
                and a.operand.value.id == b.value.id):
            return None
        X = b.value.id
        if ast.unparse(a.operand.slice).replace(' ', '') != i + '-1' or ast.unparse(b.slice) != i:
            return None
        if ast.unparse(g.iter).replace(' ', '') != 'range(1,len({}))'.format(X):
            return None
        v = env.get(X)
        if not (isinstance(v, VSeq) and v.sortname == 'ISeq') or 'range' in env or 'len' in env:
            return None
        return VSeq(specs.implchain(v.term))

    @staticmethod
    def is_flatten(elt, outer):
        """tuple([x for c in OUTER for x in c])  or  [x for c in OUTER for x in c]"""
        if isinstance(elt, ast.Call) and isinstance(elt.func, ast.Name) and elt.func.id in ('tuple', 'list') and len(elt.args) == 1 \
                and not elt.keywords:
            elt = elt.args[0]
        if not isinstance(elt, (ast.ListComp, ast.GeneratorExp)) or len(elt.generators) != 2:
            return False
        g1, g2 = elt.generators
        return (not g1.ifs and not g2.ifs and isinstance(g1.target, ast.Name) and isinstance(g2.target, ast.Name)
                and isinstance(g1.iter, ast.Name) and g1.iter.id == outer
                and isinstance(g2.iter, ast.Name) and g2.iter.id == g1.target.id
                and isinstance(elt.elt, ast.Name) and elt.elt.id == g2.target.id)

    def match_pairlits(self, e, env):
        """[e(u, v) for u, v in combinations(S, 2)] / [-e(u, v) ...] over an abstract list S, e a group whose call contract returns
        cvar(g, u, v): the spec term pairlits(g, S) (resp. its negation).  The call is evaluated ONCE for a generic pair of positions
        p < q of S, so that its preconditions / refusal clauses are obligations for every pair."""
        if len(e.generators) != 1 or e.generators[0].ifs:
            return None
        g = e.generators[0]
        it = g.iter
        if not (isinstance(it, ast.Call) and len(it.args) == 2 and isinstance(it.args[1], ast.Constant) and it.args[1].value == 2 and not it.keywords
                and isinstance(g.target, ast.Tuple) and len(g.target.elts) == 2 and all(isinstance(x, ast.Name) for x in g.target.elts)):
            return None
        fn = self.eval(it.func, env)
        imp = self.modinfo['imports']
        if not (isinstance(fn, tuple) and fn[0] == 'global' and (imp.get(fn[1]) == ('itertools', 'combinations') or fn[1] == 'itertools.combinations')):
            return None
        S = self.eval(it.args[0], env)
        if not (isinstance(S, VSeq) and S.sortname == 'ISeq'):
            return None
        p_, q_ = self.fresh('pair_p'), self.fresh('pair_q')
        e2 = dict(env)
        e2[g.target.elts[0].id] = specs.iget(S.term, p_)
        e2[g.target.elts[1].id] = specs.iget(S.term, q_)
        saved = len(self.pc)
        self.pc.append(z3.And(0 <= p_, p_ < q_, q_ < specs.ilen(S.term)))
        self.generic_elem = getattr(self, 'generic_elem', 0) + 1
        try:
            body = self.eval(e.elt, e2)
        finally:
            self.generic_elem -= 1
            if not isinstance(sys.exc_info()[1], PyExc):
                del self.pc[saved:]
        if not (is_z3(body) and z3.is_int(body)):
            raise Unsupported('comprehension over pairs of an abstract list: element is not an int')
        body = z3.simplify(body)
        neg = False
        core_ = body
        if z3.is_app(core_) and core_.decl().kind() == z3.Z3_OP_UMINUS:
            neg, core_ = True, core_.arg(0)
        elif z3.is_app(core_) and core_.decl().kind() == z3.Z3_OP_MUL and core_.num_args() == 2 and z3.is_int_value(core_.arg(0)) and core_.arg(0).as_long() == -1:
            neg, core_ = True, core_.arg(1)
        if not (z3.is_app(core_) and core_.decl().name() == 'cvar' and core_.arg(1).eq(specs.iget(S.term, p_)) and core_.arg(2).eq(specs.iget(S.term, q_))):
            raise Unsupported('comprehension over pairs of an abstract list: element is not the variable of the pair')
        t = specs.pairlits(core_.arg(0), S.term)
        return VSeq(specs.ineg(t) if neg else t)

    def ev_ListComp_concrete(self, e, env, xs):
        g = e.generators[0]
        out = []
        for x in xs:
            e2 = dict(env)
            self.assign(g.target, x, e2)
            out.append(self.eval(e.elt, e2))
        return VTuple(out, 'list')

    ev_GeneratorExp = ev_ListComp

    def ev_Dict(self, e, env):
        if e.keys:
            raise Unsupported('non-empty dict literal')
        I = z3.IntSort()
        return VArr2(z3.IntVal(0), z3.K(I, z3.IntVal(0)), self.fresh('rows', z3.ArraySort(I, z3.ArraySort(I, I))),
                     present=z3.K(I, z3.BoolVal(False)))

    def ev_Lambda(self, e, env):
        return VClosure(e, env, self.modinfo)

    def ev_JoinedStr(self, e, env):
        return '<fstring>'

    # ------------------------------------------------------------------ calls
    def ev_Call(self, e, env):
        f = self.eval(e.func, env)
        if isinstance(f, VSpecFn):
            if getattr(f.fn, 'raw', False):
                return f.fn(self, e, env)
            args = [self.eval(a, env) for a in e.args]
            kw = {k.arg: self.eval(k.value, env) for k in e.keywords}
            return f.fn(self, e, *args, **kw)
        if isinstance(f, tuple) and f[0] == 'method' and isinstance(f[1], str) and f[2] == 'format':
            # str.format: result opaque; a format string with more placeholders than arguments raises IndexError
            fmt = f[1]
            safe = False
            if not fmt.startswith('<') and not any(isinstance(a, ast.Starred) for a in e.args):
                import string
                try:
                    fields = [fld for _, fld, _, _ in string.Formatter().parse(fmt) if fld is not None]
                    auto = sum(1 for x in fields if x == '')
                    nums = [int(x.split('.')[0].split('[')[0]) for x in fields if x and x.split('.')[0].split('[')[0].isdigit()]
                    names = [x for x in fields if x and not x.split('.')[0].split('[')[0].isdigit()]
                    kwn = {k.arg for k in e.keywords}
                    safe = auto <= len(e.args) and all(n < len(e.args) for n in nums) and all(x.split('.')[0].split('[')[0] in kwn for x in names)
                except ValueError:
                    safe = False
            if not safe and self.choose(2) == 1:
                raise PyExc('IndexError', e.lineno)
            if safe and self.frames[0]['contract'].get('trace') and not getattr(self, 'in_spec', False):
                t, sel = normalize_template(fmt, len(e.args), [k.arg for k in e.keywords])
                vals = [self.eval(a, env) for a in e.args]
                kwv = {k.arg: self.eval(k.value, env) for k in e.keywords}
                args = []
                for x in sel:
                    v = vals[x] if isinstance(x, int) else kwv[x]
                    args.append(toz(v) if (isinstance(v, int) and not isinstance(v, bool)) or (is_z3(v) and z3.is_int(v)) else
                                (('str', v) if isinstance(v, str) and not v.startswith('<') else str_choice_id(v)))
                return VFmt(t, args)
            return '<formatted>'
        args = []
        for a in e.args:
            if isinstance(a, ast.Starred):
                sv = self.eval(a.value, env)
                if not isinstance(sv, VTuple):
                    raise Unsupported('star args')
                args.extend(sv.items)             # f(*t) for a tuple of known length
            else:
                args.append(self.eval(a, env))
        kw = {k.arg: self.eval(k.value, env) for k in e.keywords}
        if isinstance(f, tuple) and f[0] == 'method' and f[2] == 'extend' and isinstance(f[1], VTuple) and f[1].kind == 'list' \
                and len(args) == 1 and isinstance(args[0], VSeq) and args[0].sortname == 'CSeq' and isinstance(e.func.value, ast.Name) \
                and all(isinstance(x, (VTuple, VSeq)) for x in f[1].items):
            # clauses.extend(<abstract clause sequence>) on a local list of clauses: from here on the name denotes the abstract
            # sequence  (concrete prefix) ++ (sequence); sound for a list no other name refers to (a local accumulator)
            env[e.func.value.id] = VSeq(specs.capp(_term(f[1]) if f[1].items else specs.cnil, args[0].term))
            return None
        if isinstance(f, tuple) and f[0] == 'method' and f[2] == 'extend' and isinstance(f[1], (VTuple, VSeq)) and len(args) == 1 \
                and isinstance(e.func.value, ast.Name) and (not isinstance(f[1], VTuple) or (f[1].kind == 'list' and all(
                    isinstance(x, int) or (is_z3(x) and z3.is_int(x)) for x in f[1].items))) \
                and (not isinstance(f[1], VSeq) or f[1].sortname == 'ISeq'):
            # lits.extend(<ints>) on a LOCAL list of ints: from here on the name denotes the abstract list (so far) ++ (the new ints);
            # sound for a list no other name refers to (a local accumulator)
            av = args[0]
            if isinstance(av, VObj):
                av = self.call_method(av, '__iter__', [], {}, e)
            if isinstance(av, VRange) and av.step == 1:
                at = specs.apseq(toz(av.lo), z3.simplify(zmax(toz(av.hi) - toz(av.lo), z3.IntVal(0))))
            elif isinstance(av, VSeq) and av.sortname == 'ISeq':
                at = av.term
            elif isinstance(av, VArr) and av.arr.sort().range() == z3.IntSort():
                at = specs.iofarr(av.arr, toz(av.length))
            else:
                at = None
            if at is not None:
                cur = f[1].term if isinstance(f[1], VSeq) else _term(f[1]) if f[1].items else specs.inil
                env[e.func.value.id] = VSeq(specs.iapp(cur, at))
                return None
        if isinstance(f, VClosure):
            return self.call_inline(f.node, f.env, args, kw, f.modinfo, None, e)
        if isinstance(f, VSpecPred):
            e2 = dict(f.env)
            for a, v in zip(f.lam.args.args, args):
                e2[a.arg] = v
            saved = getattr(self, 'in_spec', False)
            self.in_spec = True
            try:
                return self.eval(f.lam.body, e2)
            finally:
                self.in_spec = saved
        if isinstance(f, VGadFn):
            if len(args) != 1 or kw or not (isinstance(args[0], int) or (is_z3(args[0]) and z3.is_int(args[0]))):
                raise Unsupported('gadget function called with other than one int')
            return VSeq(specs.gad(f.sid, toz(args[0])))
        if isinstance(f, VObj):
            return self.call_method(f, '__call__', args, kw, e)
        if isinstance(f, VClass):
            crel = self.classmodels[f.model]['file']
            o = self.construct(crel, f.model, args, kw, e)
            o.fields['cls'] = f.ident
            return o
        if isinstance(f, tuple) and f[0] == 'method':
            return self.call_method(f[1], f[2], args, kw, e)
        if isinstance(f, tuple) and f[0] == 'global':
            return self.call_global(f[1], args, kw, e)
        raise Unsupported('call of {!r}'.format(f))

    def call_global(self, name, args, kw, node):
        fr = self.frames[-1]
        rel = self.modinfo['rel']
        # library models
        lib = LIBRARY.get(name)
        mi = self.modinfo
        if lib is None and '.' in name and name.split('.')[0] in mi['imports']:
            mod, orig = mi['imports'][name.split('.')[0]]
            if orig is None:
                lib = LIBRARY.get(mod + '.' + name.split('.', 1)[1])
        if name in mi['imports']:
            mod, orig = mi['imports'][name]
            lib = LIBRARY.get('{}.{}'.format(mod, orig)) or lib
            p = self.repo.modpath(mod)
            if p and orig:
                tm = self.repo.module(p)
                if orig in tm['funcs']:
                    return self.call_function(p, orig, tm['funcs'][orig], args, kw, node)
                if orig in tm['classes']:
                    return self.construct(p, orig, args, kw, node)
        if lib:
            return lib(self, node, *args, **kw)
        if '.' in name:
            cname, meth = name.split('.', 1)
            ck = None
            hitc = self.repo.find_class(rel, cname)
            if hitc:
                ck = (hitc[0], '{}.{}'.format(hitc[1][0].name, meth))
            if ck in self.contracts and self.contracts[ck].get('classmethod'):
                r = self.repo.resolve_method(hitc[0], hitc[1][0].name, meth)
                return self.call_contract(ck, self.contracts[ck], r[2], [VOpaque('class ' + cname)] + list(args), kw, node, None)
            hit = self.repo.find_class(rel, cname)
            if hit and args and isinstance(args[0], VObj):
                r = self.repo.resolve_method(rel, cname, meth)
                if r:
                    mrel, mcls, fnode = r
                    return self.call_function(mrel, '{}.{}'.format(mcls, meth), fnode, args[1:], kw, node, selfobj=args[0])
        if name in mi['funcs']:
            return self.call_function(rel, name, mi['funcs'][name], args, kw, node)
        if name in mi['classes']:
            return self.construct(rel, name, args, kw, node)
        raise Unsupported('call of unknown global {} (line {})'.format(name, node.lineno))

    def call_function(self, rel, qual, fnode, args, kw, node, selfobj=None):
        key = (rel, qual)
        c = self.contracts.get(key)
        caller = self.frames[-1]['contract']
        wants_inline = key in caller.get('inline', []) or qual in caller.get('inline', [])
        if c is not None and not c.get('inline_always') and not wants_inline:
            return self.call_contract(key, c, fnode, args, kw, node, selfobj)
        if wants_inline or (c and c.get('inline_always')):
            return self.call_inline(fnode, {}, ([selfobj] if selfobj is not None else []) + list(args), kw,
                                    self.repo.module(rel), c, node, rel=rel, qual=qual)
        raise Unsupported('call of {}:{} which has neither a contract nor an inline permission (line {})'.format(rel, qual, node.lineno))

    def bind_args(self, fnode, args, kw, node):
        a = fnode.args
        names = [x.arg for x in a.args]
        env = {}
        if a.kwarg:
            for k, v in kw.items():
                if k not in names:
                    env[k] = v
        if len(args) > len(names) and not a.vararg:
            raise PyExc('TypeError', node.lineno)
        for nme, v in zip(names, args):
            env[nme] = v
        if a.vararg:
            env[a.vararg.arg] = VTuple(list(args[len(names):]), 'tuple')
        defaults = dict(zip(names[len(names) - len(a.defaults):], a.defaults))
        for nme in names:
            if nme in env:
                continue
            if nme in kw:
                env[nme] = kw[nme]
            elif nme in defaults:
                env[nme] = self.eval(defaults[nme], {})
            else:
                raise PyExc('TypeError', node.lineno)
        for k, d in zip(a.kwonlyargs, a.kw_defaults):
            env[k.arg] = kw[k.arg] if k.arg in kw else (self.eval(d, {}) if d is not None else None)
        return env

    def call_inline(self, fnode, closure_env, args, kw, modinfo, c, node, rel=None, qual=None):
        if len(self.frames) > 12:
            raise Unsupported('inline depth')
        if isinstance(fnode, ast.Lambda):
            env = dict(closure_env)
            env.update(self.bind_args(fnode, args, kw, node))
            return self.eval(fnode.body, env)
        env = dict(closure_env)
        env.update(self.bind_args(fnode, args, kw, node))
        saved = self.modinfo
        self.modinfo = modinfo
        self.frames.append(dict(contract=c or {'loops': {}}, old={}, loopno=0, yields=[], rel=rel, qual=qual, node=fnode))
        try:
            self.exec_block(fnode.body, env)
            return None
        except ReturnSig as r:
            return r.value
        finally:
            self.frames.pop()
            self.modinfo = saved

    def call_contract(self, key, c, fnode, args, kw, node, selfobj):
        allargs = ([selfobj] if selfobj is not None else []) + list(args)
        env = self.bind_args(fnode, allargs, kw, node)
        if c.get('assumed') or c.get('trusted') or c.get('value_form'):
            self.used_assumed.add(key)          # reported in the evidence: this proof relies on an unverified contract
        for pn, ty in c.get('params', {}).items():
            if ty == 'fn:gad' and isinstance(env.get(pn), VClosure):
                env[pn] = self.closure_to_gad(env[pn], node)
            if ty == 'fn:gad' and not isinstance(env.get(pn), VGadFn):
                raise Unsupported('function argument without a gadget contract')
            if ty == 'iseq' and isinstance(env.get(pn), VTuple):
                env[pn] = VSeq(_term(env[pn]))
            if ty == 'iseq' and isinstance(env.get(pn), VRow):
                env[pn] = VSeq(specs.iofarr(env[pn].arr, toz(env[pn].length)))      # a row of a list of lists as an abstract sequence
            if ty == 'iseq' and isinstance(env.get(pn), VArr):
                if env[pn].arr.sort().range() != z3.IntSort():
                    raise Unsupported('non-int array passed where an abstract literal list is expected')
                env[pn] = VSeq(specs.iofarr(env[pn].arr, toz(env[pn].length)))      # the list as an abstract sequence
        label = '{}'.format(key[1])
        # universally quantified ghost parameters: the callee's post holds for every value, so it is
        # instantiated at the caller's ghost of the same type (else at a fresh constant)
        top_c, top_env = self.frames[0]['contract'], self.frames[0]['old']
        for g, ty in c.get('ghost_params', {}).items():
            same = [n for n, t in top_c.get('ghost_params', {}).items() if t == ty]
            env[g] = top_env[same[0]] if same else self.fresh_of_type(g, ty)
        for r in c.get('supports', []):
            # limits of the (assumed) contract's MODEL, not preconditions of the callee: a call outside them is not a bug of
            # the caller, the proof simply cannot use this contract there (the function leaves the supported subset)
            g = self.spec_eval(r, env)
            if g is False or (g is not True and self.feasible(z3.Not(toz(g)))):
                raise Unsupported('call of {} outside the modelled use of its contract [{}] (line {})'.format(label, r, node.lineno))
        for r in c.get('requires', []):
            self.oblige('pre', 'call {} requires [{}]'.format(label, r), self.spec_eval(r, env), node.lineno)
        # termination of recursion
        top = self.frames[0]
        if (top['rel'], top['qual']) == key and 'decreases' in c:
            d_call = self.spec_eval(c['decreases'], env)
            d_top = self.spec_eval(c['decreases'], top['old'])
            self.oblige('decreases', 'recursive call decreases [{}]'.format(c['decreases']),
                        z3.And(toz(d_call) >= 0, toz(d_call) < toz(d_top)), node.lineno, decisive=False)
        old = {k: self.snapshot(v) for k, v in env.items()}
        for pn, ty in c.get('params', {}).items():
            if ty == 'sink' and isinstance(env.get(pn), VSink):
                env[pn].trace = self.fresh('{}_trace'.format(pn), specs.CSeq)       # a stream handed to a callee: written by it
        def havoc_frame():
            # frame: havoc what the callee may modify
            for m in c.get('modifies', []):
                tnode = ast.parse(m, mode='eval').body
                if isinstance(tnode, ast.Attribute):
                    o = self.eval(tnode.value, env)
                    o.fields[tnode.attr] = self.havoc_value(m, o.fields[tnode.attr])
                else:
                    raise Unsupported('modifies target ' + m)

        def raise_exit(exc):
            # the callee may have changed what it is allowed to change BEFORE it raised: the frame is havoced on this exit too, and
            # only what the contract promises for exceptional exits (`ensures_on_raise`) is known about it
            havoc_frame()
            pe = dict(env)
            pe['__old__'] = old
            for ens in c.get('ensures_on_raise', []):
                try:
                    self.assume(toz(self.spec_eval(ens, pe)))
                except SpecError:
                    pass
            raise PyExc(exc, node.lineno)
        # exceptional exits
        for exc, cond in c.get('raises', {}).items():
            if cond is None:
                if self.choose(2) == 1:
                    raise_exit(exc)
                continue
            g = self.spec_eval(cond, env)
            if self.branch(toz(g) if not isinstance(g, bool) else g):
                raise_exit(exc)
        for exc, cond in c.get('may_raise', {}).items():
            # the callee raises ONLY under this condition, and need not raise even then (e.g. a view that validates its argument in
            # one implementation of the interface and not in another): both outcomes are explored
            g = self.spec_eval(cond, env)
            if self.branch(toz(g) if not isinstance(g, bool) else g) and self.choose(2) == 1:
                raise_exit(exc)
        havoc_frame()
        res = None
        if 'returns' not in c and 'returns_expr' not in c and any('result' in e for e in c.get('ensures', [])):
            raise Unsupported('contract of {} constrains `result` but declares no `returns` type'.format(key[1]))
        if 'returns_expr' in c:
            res = self.spec_eval(c['returns_expr'], env)
        elif 'returns' in c:
            res = self.fresh_of_type('ret_' + key[1], c['returns'])
            if isinstance(res, VObj):
                self.created.setdefault(res.cls, []).append(res)
            if getattr(self, 'generic_elem', 0) or getattr(self, 'demonic', None) is not None:
                # inside the element of a comprehension evaluated ONCE for a generic index: the callee's result is a different
                # value per index.  An int / bool result becomes a per-index value (like a demonic library result); anything else
                # is outside the model (one shared fresh value for all indices would be unsound).
                if getattr(self, 'demonic', None) is not None and is_z3(res) and z3.is_const(res):
                    self.demonic.append(res)
                else:
                    raise Unsupported('call of {} (fresh result) inside a comprehension element evaluated for a generic index'.format(key[1]))
        post_env = dict(env)
        post_env['__old__'] = old
        post_env['result'] = res
        n_before = len(self.pc)
        for ens in list(c.get('ensures', [])) + list(c.get('value_facts', [])):
            # `value_facts`: what the proved yield clauses of a generator say about its VALUE at a call site (see `value_form`): assumed
            # here, not re-checked when the generator itself is verified (there they are the yields_at clauses)
            if self.definitional(ens, post_env, c.get('modifies', [])):
                continue
            self.assume(toz(self.spec_eval(ens, post_env)))
        # vacuity guard: assuming the callee's postcondition must not make a feasible path infeasible (a contract whose
        # `ensures` contradict the caller's state - typically a missing `modifies` frame - would prove everything after it)
        if self.recording() and len(self.pc) > n_before:
            sv = z3.Solver()
            sv.set('timeout', 1500)
            sv.add(self.pc)
            if sv.check() == z3.unsat:
                sv2 = z3.Solver()
                sv2.set('timeout', 1500)
                sv2.add(self.pc[:n_before])
                dead = sv2.check() == z3.unsat
                if not dead:
                    # the path may already be dead before the call (a failed hazard / precondition earlier on it, assumed after
                    # being obliged) without the bare solver seeing it: retry with the ground lemma instances
                    sv3 = z3.Solver()
                    sv3.set('timeout', 5000)
                    sv3.add(self.pc[:n_before])
                    sv3.add(specs.instances(list(self.pc[:n_before])))
                    dead = sv3.check() == z3.unsat
                if not dead:
                    raise VacuousContract('the postcondition of {} contradicts the state at its call site (line {}): '
                                          'missing `modifies` frame or inconsistent contract'.format(key[1], node.lineno))
        return res

    def write_event(self, x, node):
        """the event of one write() call: a comment line (content not looked into; only that it cannot leave the comment),
        or a formatted piece identified by its template and integer arguments"""
        import re
        prefix = self.frames[0]['contract'].get('trace', {}).get('comment')
        if self.frames[0]['contract'].get('trace', {}).get('opaque'):
            # writers without a comment syntax: text whose content is not looked into is one opaque event
            if isinstance(x, VOpaque) or (isinstance(x, str) and x.startswith('<')) or (isinstance(x, VFmt) and x.joined is None
                                                                                       and not x.split and any(a is None for a in x.args)):
                return specs.evopaque
        if isinstance(x, VNested):
            return specs.evnest(z3.IntVal(template_id('nest:' + x.suffix)), x.trace)
        if isinstance(x, VRowText):
            return specs.evrow(z3.IntVal(template_id('row:{}[{}]{}'.format(x.prefix, x.sep, x.suffix))), x.clause)
        if isinstance(x, str) and not x.startswith('<'):
            x = VFmt(x.replace('{', '{{').replace('}', '}}'), [])
        if not isinstance(x, VFmt) or x.split:
            raise Unsupported('write of text outside the trace abstraction (line {})'.format(node.lineno))
        if x.joined is not None:
            sep, tail = x.joined
            # sep.join(text.splitlines()) + tail : every line of `text` is prefixed again, so the whole stays a comment
            if prefix and sep.startswith('\n' + prefix) and x.template.startswith(prefix) and tail == '\n' and '\n' not in sep[1:]:
                return specs.evcomment
            raise Unsupported('joined text that is not a comment block (line {})'.format(node.lineno))
        raw = x.template.replace('{{', '{').replace('}}', '}')
        if not x.args and prefix and re.fullmatch(re.escape(prefix) + r'[^\n]*\n', raw):
            return specs.evcomment
        ints = []
        for a in x.args:
            if a is None:
                raise Unsupported('write of a non-comment text with unmodelled content (line {})'.format(node.lineno))
            ints.append(z3.IntVal(template_id('str:' + a[1])) if isinstance(a, tuple) else a)
        if len(ints) > 2:
            raise Unsupported('more than two holes in a written template')
        ints += [z3.IntVal(0)] * (2 - len(ints))
        return specs.ev3(z3.IntVal(template_id(x.template)), ints[0], ints[1])

    def closure_to_gad(self, f, node):
        """a nested function with a (separately verified) gadget contract is passed as a function value: from here on it is
        the pure map l -> gad(sid, l); its contract is assumed for EVERY literal (the closure's own verification discharges
        it), the requirements on its free variables are obligations here"""
        top = self.frames[0]
        orel, oqual = getattr(f, 'owner', (None, None))
        if orel is None or oqual is None:
            orel, oqual = top['rel'], top['qual']
        key = (orel, '{}.{}'.format(oqual, f.node.name))
        cc = self.contracts.get(key)
        if cc is None or isinstance(f.node, ast.Lambda):
            raise Unsupported('function value {} has no contract'.format(getattr(f.node, 'name', '<lambda>')))
        if list(cc.get('params', {})) != [f.node.args.args[0].arg] or len(f.node.args.args) != 1 or cc.get('raises'):
            raise Unsupported('gadget contract shape')
        sid = self.fresh('gadid_' + f.node.name)
        self.gadids = getattr(self, 'gadids', {})
        self.gadids[f.node.name] = sid
        pname = f.node.args.args[0].arg
        env = {}
        for nme in cc.get('closure_vars', {}):
            if nme not in f.env:
                raise Unsupported('free variable {} of {} is not bound'.format(nme, f.node.name))
            env[nme] = f.env[nme]
        a_names = [n for n, t in cc.get('ghost_params', {}).items() if t == 'asg']
        top_a = [top['old'][n] for n, t in top['contract'].get('ghost_params', {}).items() if t == 'asg']
        for n in a_names:
            env[n] = top_a[0] if top_a else self.fresh_of_type(n, 'asg')
        self.qcount = getattr(self, 'qcount', 0) + 1
        L = z3.Int('q!lit!{}'.format(self.qcount))
        free_req, lit_req = [], []
        for r in cc.get('requires', []):
            (lit_req if pname in {x.id for x in ast.walk(ast.parse(r)) if isinstance(x, ast.Name)} else free_req).append(r)
        for r in free_req:
            self.oblige('pre', 'function value {} requires [{}]'.format(f.node.name, r), self.spec_eval(r, env), node.lineno)
        for sign in (1, -1):
            e2 = dict(env)
            e2[pname] = L * sign
            e2['result'] = VSeq(specs.gad(sid, L * sign))
            req = zand(*[toz(self.spec_eval(r, e2)) for r in lit_req]) if lit_req else z3.BoolVal(True)
            ens = zand(*[toz(self.spec_eval(t, e2)) for t in cc.get('ensures', [])])
            # instantiated (at L and at -L) wherever a term gad(sid, L) occurs
            self.pc.append(z3.ForAll([L], z3.Implies(req, ens), patterns=[specs.gad(sid, L)]))
        for a in ([top_a[0]] if top_a else []):
            b = specs.aind(a, sid)
            self.pc.append(z3.ForAll([L], z3.Implies(L > 0, specs.lit_true(b, L) == specs.sat(a, specs.gad(sid, L))),
                                     patterns=[specs.lit_true(b, L)]))
        self.used_assumed.add(key) if cc.get('assumed') else None
        return VGadFn(sid)

    def definitional(self, text, env, targets):
        """`X == expr` with X a just-havoced field/variable not occurring in expr: assign instead of assume
        (keeps VC terms syntactic; logically the same as havoc + assume)"""
        node = ast.parse(text, mode='eval').body
        if not (isinstance(node, ast.Compare) and len(node.ops) == 1 and isinstance(node.ops[0], ast.Eq)):
            return False
        lhs, rhs = node.left, node.comparators[0]
        ltxt = ast.unparse(lhs)
        if isinstance(lhs, ast.Call) and isinstance(lhs.func, ast.Name) and lhs.func.id == 'olast' and len(lhs.args) == 1 \
                and ast.unparse(lhs.args[0]) in targets:
            # `olast(L) == x` for a just-havoced counted list: x is its last element
            saved = getattr(self, 'in_spec', False)
            self.in_spec = True
            try:
                lst, v = self.eval(lhs.args[0], env), self.eval(rhs, env)
            finally:
                self.in_spec = saved
            if isinstance(lst, VCounted):
                lst.last = v
                return True
            return False
        if ltxt not in targets:
            return False
        # X must not occur un-old'ed on the right
        class Strip(ast.NodeTransformer):
            def visit_Call(self, n):
                if isinstance(n.func, ast.Name) and n.func.id == 'old':
                    return ast.Constant(0)
                return self.generic_visit(n)
        import copy
        stripped = ast.unparse(Strip().visit(copy.deepcopy(rhs)))
        if ltxt in stripped:
            return False
        saved = self.in_spec if hasattr(self, 'in_spec') else False
        self.in_spec = True
        try:
            v = self.eval(rhs, env)
        finally:
            self.in_spec = saved
        if isinstance(lhs, ast.Attribute):
            o = self.eval(lhs.value, env)
            cur = o.fields[lhs.attr]
            if isinstance(cur, VMList):
                if not isinstance(v, (VSeq, VMList)):
                    return False
                self.pc.append(cur.term == v.term)      # facts already stated about the havoced symbol stay valid
                cur.term = v.term
            elif isinstance(v, VObj) and isinstance(cur, VObj):
                o.fields[lhs.attr] = v            # `self.G == G` for a just-havoced object field: the field refers to that very object
            elif isinstance(v, (VSeq, VMList, VTuple, VObj, VArr, VTerms, VCon)):
                return False
            else:
                if is_z3(cur) and cur.sort() == toz(v).sort():
                    self.pc.append(cur == toz(v))
                o.fields[lhs.attr] = toz(v)
            return True
        if isinstance(lhs, ast.Name) and lhs.id in env:
            if isinstance(v, (VMList,)):
                return False
            cur = env[lhs.id]
            if isinstance(v, VSeq):
                if isinstance(cur, VSeq):
                    self.pc.append(cur.term == v.term)
                env[lhs.id] = v
            else:
                if is_z3(cur) and cur.sort() == toz(v).sort():
                    self.pc.append(cur == toz(v))
                env[lhs.id] = toz(v)
            return True
        return False

    def construct(self, rel, cname, args, kw, node):
        # the verified function may declare which class MODEL stands for a real class it instantiates
        cname = self.frames[0]['contract'].get('calls_model', {}).get(cname, cname)
        if cname in self.classmodels:
            rel = self.classmodels[cname].get('file', rel)
        key = (rel, cname + '.__init__')
        c = self.contracts.get(key)
        if c is None:
            raise Unsupported('constructor {} without contract'.format(cname))
        hit = self.repo.resolve_method(rel, self.classmodels.get(cname, {}).get('real', cname), '__init__')
        o = VObj(cname)
        model = self.classmodels.get(cname, {'fields': {}})
        for f, ty in model['fields'].items():
            if ty.startswith('range:'):
                _, lo, hi = ty.split(':')
                o.fields[lo] = self.fresh('{}.{}'.format(cname, lo))
                o.fields[hi] = self.fresh('{}.{}'.format(cname, hi))
                o.fields[f] = VRange(o.fields[lo], o.fields[hi], 1)
                continue
            o.fields[f] = self.fresh_of_type('{}.{}'.format(cname, f), ty)
        fnode = hit[2] if hit else ast.parse('def __init__(self, *args, **kw): pass').body[0]
        self.call_contract(key, c, fnode, args, kw, node, o)
        self.created.setdefault(cname, []).append(o)
        return o

    def class_mro(self, cls):
        crel = self.classmodels.get(cls, {}).get('file')
        cls = self.classmodels.get(cls, {}).get('real', cls)
        out, todo = [], [(crel, cls)]
        while todo:
            rel, c = todo.pop(0)
            hit = self.repo.find_class(rel, c) if rel else None
            if not hit:
                continue
            r2, (node, methods, bases) = hit
            out.append(node.name)
            todo.extend((r2, b) for b in bases)
        return out

    def call_method(self, o, meth, args, kw, node):
        if isinstance(o, VOpaque):
            if meth in ('append',):
                return None
            if meth in ('replace', 'strip', 'format', 'encode', 'decode', 'lower', 'upper'):
                return VOpaque('text derived from ' + o.what)        # string processing of unmodelled text
            if meth == 'readlines' and o.what == 'textfile':
                return lm_readlines(self, node, o)
            raise Unsupported('method {} on opaque value {}'.format(meth, o.what))
        if isinstance(o, VObj):
            # where is the class?
            crel = self.classmodels.get(o.cls, {}).get('file')
            if crel is None:
                raise Unsupported('class {} has no model'.format(o.cls))
            real = self.classmodels[o.cls].get('real', o.cls)
            hit = self.repo.resolve_method(crel, real, meth)
            if hit is None:
                raise Unsupported('method {}.{} not found'.format(real, meth))
            mrel, mcls, fnode = hit
            # contract may be registered under the dynamic class or the defining class
            caller = self.frames[-1]['contract'] if self.frames else {}
            for key in ((crel, '{}.{}'.format(o.cls, meth)), (mrel, '{}.{}'.format(mcls, meth))):
                if key in self.contracts:
                    c = self.contracts[key]
                    if c.get('inline_always'):
                        break
                    if key in caller.get('inline', []) or key[1] in caller.get('inline', []):
                        # the caller asks for the body instead of the contract (e.g. a shape of arguments the contract does not model)
                        return self.call_inline(fnode, {}, [o] + list(args), kw, self.repo.module(mrel), None, node, rel=mrel, qual='{}.{}'.format(mcls, meth))
                    return self.call_contract(key, c, fnode, args, kw, node, o)
            return self.call_function(mrel, '{}.{}'.format(mcls, meth), fnode, args, kw, node, selfobj=o)
        if isinstance(o, VFmt):
            if meth in ('encode', 'decode'):
                return o                 # re-encoding changes characters inside the holes, not the structure of the text
            if meth == 'strip' and not args and any(a is None for a in o.args):
                return o                 # stripping a text with unlooked content: still that unlooked text
            if meth == 'splitlines' and not args and o.joined is None:
                return VFmt(o.template, o.args, split=True)
            raise Unsupported('method {} of a formatted text'.format(meth))
        if isinstance(o, str) and meth == 'join' and len(args) == 1 and isinstance(args[0], VLitTexts) and not o.startswith('<'):
            return VRowText(o if args[0].elem is None else o + '|' + args[0].elem, args[0].clause)
        if isinstance(o, str) and meth == 'join' and len(args) == 1 and isinstance(args[0], VFmt) and args[0].split and not o.startswith('<'):
            return VFmt(args[0].template, args[0].args, joined=(o, ''))
        if isinstance(o, VParities):
            if meth == 'append' and len(args) == 1 and isinstance(args[0], VTuple) and len(args[0].items) == 2 \
                    and isinstance(args[0].items[0], VSeq) and args[0].items[0].sortname == 'ISeq':
                o.aug = specs.csnoc(o.aug, specs.isnoc(args[0].items[0].term, toz(args[0].items[1])))
                return None
            raise Unsupported('method {} of a list of parities'.format(meth))
        if isinstance(o, VSeqSet):
            if meth == 'add' and len(args) == 1 and isinstance(args[0], VSeq) and args[0].sortname == 'ISeq':
                o.arr = z3.Store(o.arr, args[0].term, z3.BoolVal(True))
                return None
            raise Unsupported('method {} of a set of tuples'.format(meth))
        if isinstance(o, VSink):
            if meth == 'write' and len(args) == 1:
                o.trace = specs.csnoc(o.trace, self.write_event(args[0], node))
                return None
            if meth == 'flush':
                return None
            if meth == 'getvalue' and not args:
                return VNested(o.trace)
            raise Unsupported('method {} of a text stream'.format(meth))
        f = next((LIST_METHODS[(k.__name__, meth)] for k in type(o).__mro__ if (k.__name__, meth) in LIST_METHODS), None)
        if f:
            return f(self, node, o, *args, **kw)
        if isinstance(o, str) and meth == 'format':
            return '<formatted>'
        if isinstance(o, str) and meth == 'join':
            return '<joined>'
        if isinstance(o, str) and meth in ('strip', 'lower', 'upper', 'replace'):
            return '<str>'
        raise Unsupported('method {} of {!r} (line {})'.format(meth, o, node.lineno))


# ----------------------------------------------------------------------------------
def specs_pow2(x):
    return specs.pow2(x)


POW2 = specs.pow2


# spec vocabulary --------------------------------------------------------------------
def _term(v):
    if isinstance(v, (VSeq, VMList, VTerms)):
        return v.term
    if isinstance(v, VGadFn):
        return v.sid
    if isinstance(v, VCon):
        return v.as_z3()
    if isinstance(v, str):
        return z3.StringVal(v)
    if isinstance(v, VTuple):
        if v.items and all(isinstance(x, (VTuple, VSeq)) for x in v.items):
            t = specs.cnil                  # concrete list of clauses -> csnoc chain
            for x in v.items:
                t = specs.csnoc(t, _term(x))
            return t
        # concrete list of ints -> isnoc chain
        t = specs.inil
        for x in v.items:
            t = specs.isnoc(t, toz(x))
        return t
    return toz(v)


def _mentions(e, v):
    stack, seen = [e], set()
    while stack:
        x = stack.pop()
        if x.get_id() in seen:
            continue
        seen.add(x.get_id())
        if x.eq(v):
            return True
        stack.extend(x.children())
    return False


def as_arr(v):
    if isinstance(v, VArr):
        return v
    if isinstance(v, VRow):
        return VArr(v.length, v.arr)
    if isinstance(v, VRange) and v.step == 1:
        t = z3.Int('rng!j')
        return VArr(zmax(toz(v.hi) - toz(v.lo), z3.IntVal(0)), z3.Lambda([t], toz(v.lo) + t))
    if isinstance(v, VTuple):
        a = z3.K(z3.IntSort(), z3.IntVal(0))
        for i, x in enumerate(v.items):
            a = z3.Store(a, i, toz(x))
        return VArr(z3.IntVal(len(v.items)), a)
    raise Unsupported('not an int list: {!r}'.format(v))


def sf_old(eng, node, env):
    old = env.get('__old__')
    if old is None:
        raise Unsupported('old() outside a postcondition')
    e2 = dict(old)
    e2['__old__'] = old
    return eng.eval(node.args[0], e2)


sf_old.raw = True


def _edgepairs(g):
    """the edge list of abstract graph g as a sequence of pairs"""
    t = z3.Int('edge!j')
    p = VPairs(specs.gnedges(g), z3.Lambda([t], specs.gedge1(g, t)), z3.Lambda([t], specs.gedge2(g, t)))
    p.edges_of = g
    return p


def sf_final(eng, node, name):
    """value of a local variable of the function under verification at its exit (witness for an existential post)"""
    env = getattr(eng, 'final_env', None)
    if env is None or name not in env or env[name] is UNBOUND:
        raise SpecError('no local variable {} at exit'.format(name))
    return env[name]


def sf_created(eng, node, cls, i):
    """the i-th object of class model `cls` created (or returned by a contracted callee) during the call"""
    objs = eng.created.get(cls, [])
    if i >= len(objs):
        # not created on this path (e.g. `if V > 0: r = new_block(V)`): an unconstrained object of that class; statements about
        # it are then about nothing in particular, which is right wherever the code does not use it either
        cache = eng.__dict__.setdefault('absent_objects', {})
        if (cls, i, eng.paths) not in cache:
            if cls not in eng.classmodels:
                raise SpecError('no created object {}[{}]'.format(cls, i))
            cache[(cls, i, eng.paths)] = eng.fresh_obj('absent_{}_{}'.format(cls, i), cls)
        return cache[(cls, i, eng.paths)]
    return objs[i]


def sf_lam2(eng, node, env):
    """lam2(lambda x, w: expr) -> ghost function value"""
    lam = node.args[0]
    x, w = [z3.Int('lam!{}!{}'.format(a.arg, node.lineno)) for a in lam.args.args]
    e2 = dict(env)
    e2[lam.args.args[0].arg], e2[lam.args.args[1].arg] = x, w
    body = eng.eval(lam.body, e2)
    return VFun2(z3.Lambda([x, w], toz(body)))


sf_lam2.raw = True


def sf_lam1(eng, node, env):
    """lam1(lambda j: expr) -> an int array (length unknown: to be used with iofarr(arr, n))"""
    lam = node.args[0]
    j = z3.Int('lam!j')
    e2 = dict(env)
    e2[lam.args.args[0].arg] = j
    body = eng.eval(lam.body, e2)
    return VArr(z3.IntVal(0), z3.Lambda([j], toz(body)))


sf_lam1.raw = True


def sf_implies(eng, node, env):
    """implies(a, b): b is not evaluated when a is concretely false (so b may be ill-typed there)"""
    a = as_bool(eng.eval(node.args[0], env))
    if a is False:
        return True
    b = as_bool(eng.eval(node.args[1], env))
    if b is True:
        return True
    if a is True:
        return b
    return z3.Implies(a, toz(b))


sf_implies.raw = True


def sf_forall_int(eng, node, env):
    """forall(lambda i: body) over ints"""
    lam = node.args[0]
    eng.qcount = getattr(eng, 'qcount', 0) + 1
    vs = [z3.Const('q!{}!{}'.format(a.arg, eng.qcount), specs.CSeq) if a.arg.startswith('S_') else z3.Int('q!{}!{}'.format(a.arg, eng.qcount))
          for a in lam.args.args]
    e2 = dict(env)
    for a, v in zip(lam.args.args, vs):
        e2[a.arg] = VSeq(v) if a.arg.startswith('S_') else v            # binders named S_... range over clause sequences (traces)
    body = eng.eval(lam.body, e2)
    if len(node.args) > 1:
        # explicit trigger(s): forall(lambda u: body, lambda u: term)  - the quantifier is instantiated where `term` occurs
        pl = node.args[1]
        e3 = dict(env)
        for a, v in zip(pl.args.args, vs):
            e3[a.arg] = VSeq(v) if a.arg.startswith('S_') else v
        pats = pl.body.elts if isinstance(pl.body, ast.Tuple) else [pl.body]
        terms = [toz(_term(eng.eval(pt, e3))) for pt in pats]
        if not all(any(_mentions(t, v) for t in terms) for v in vs) or any(specs._has_ite(t) for t in terms):
            return z3.ForAll(vs, toz(body))
        try:
            return z3.ForAll(vs, toz(body), patterns=[z3.MultiPattern(*terms)] if len(terms) > 1 else terms)
        except z3.Z3Exception:
            pass
    return z3.ForAll(vs, toz(body))


sf_forall_int.raw = True


def sf_exists_int(eng, node, env):
    """exists(lambda k: body) over ints"""
    lam = node.args[0]
    eng.qcount = getattr(eng, 'qcount', 0) + 1
    vs = [z3.Int('x!{}!{}'.format(a.arg, eng.qcount)) for a in lam.args.args]
    e2 = dict(env)
    for a, v in zip(lam.args.args, vs):
        e2[a.arg] = v
    return z3.Exists(vs, toz(eng.eval(lam.body, e2)))


sf_exists_int.raw = True


def sf_combs2_where(eng, node, env):
    """combs2_where(lo, hi, lambda u, v: cond): the pairs lo <= u < v < hi, in combination order, for which cond holds"""
    lo, hi = eng.eval(node.args[0], env), eng.eval(node.args[1], env)
    lam = node.args[2]
    if not (isinstance(lam, ast.Lambda) and len(lam.args.args) == 2):
        raise SpecError('combs2_where needs a two-argument lambda')
    return VCombs2(toz(lo), toz(hi), VSpecPred(lam, dict(env)))


sf_combs2_where.raw = True


def _wrap(fn, ret=None):
    def f(eng, node, *args):
        r = fn(*[_term(a) for a in args])
        if is_z3(r) and r.sort() in (specs.ISeq, specs.CSeq, specs.OSeq):
            return VSeq(r)
        if is_z3(r) and r.sort() == specs.TSeq:
            return VTerms(r)
        return r
    return f


def sf_gadid(eng, node, name):
    ids = getattr(eng, 'gadids', {})
    if name not in ids:
        # the function value was not created on this path (e.g. the other branch of a dispatch): an unconstrained id
        return eng.fresh('gadid_absent_' + str(name))
    return ids[name]


def sf_ocount(eng, node, v):
    if not isinstance(v, VCounted):
        raise SpecError('ocount of a value that is not a counted list')
    return v.count


def sf_olast(eng, node, v):
    if not isinstance(v, VCounted) or v.last is None:
        raise SpecError('olast: nothing was appended')
    return v.last


def sf_ev(eng, node, template, *args):
    if args:
        t, _sel = normalize_template(template, len(args), [])
    else:
        t = template.replace('{', '{{').replace('}', '}}')       # a constant piece of text: braces are literal
    ints = [z3.IntVal(template_id('str:' + a)) if isinstance(a, str) else toz(a) for a in args]
    ints += [z3.IntVal(0)] * (2 - len(ints))
    return VSeq(specs.ev3(z3.IntVal(template_id(t)), ints[0], ints[1]))


def sf_trace(eng, node, v):
    if not isinstance(v, VSink):
        raise SpecError('trace() of a value that is not a text stream')
    return VSeq(v.trace)


def sf_nonnone(eng, node, t):
    """the single component of a concrete tuple that is not None"""
    xs = [x for x in t.items if x is not None] if isinstance(t, VTuple) else []
    if len(xs) != 1:
        raise SpecError('nonnone: not exactly one component')
    return xs[0]


def sf_evrowt(eng, node, prefix, sep, suffix, clause):
    return VSeq(specs.evrow(z3.IntVal(template_id('row:{}[{}]{}'.format(prefix, sep, suffix))), _term(clause)))


def sf_mapcall(eng, node, g, n, m, index):
    """the value of a unary mapping call p(*index): row u / column v (lists, in order) or the single variable p[u,v]"""
    if not (isinstance(index, VTuple) and len(index.items) == 2):
        raise SpecError('mapcall: index is not a pair')
    u, v = index.items
    j = z3.Int('lam!j')
    if u is not None and v is None:
        return VSeq(specs.mrow(toz(g), toz(u), toz(m)))
    if u is None and v is not None:
        return VSeq(specs.mcol(toz(g), toz(v), toz(n)))
    if u is not None and v is not None:
        return specs.mvar(toz(g), toz(u), toz(v))
    raise SpecError('mapcall: both components are None')


def sf_blockcall(eng, node, off, n2, index):
    """the value of a block call x(*index) for a block of one or two dimensions (row-major, 1-based): x(i) = off + i,
    x(i, c) = off + (i-1)*n2 + c, x(i, None) = the n2 identifiers of row i in order"""
    if not isinstance(index, VTuple) or len(index.items) not in (1, 2) or index.items[0] is None:
        raise SpecError('blockcall: index shape')
    i = toz(index.items[0])
    if len(index.items) == 1:
        return toz(off) + i
    c = index.items[1]
    base = toz(off) + (i - 1) * toz(n2)
    if c is None:
        return VSeq(specs.apseq(z3.simplify(base + 1), toz(n2)))
    return z3.simplify(base + toz(c))


SPEC_FUNCS = {
    'blockcall': sf_blockcall,
    'combs2': lambda eng, node, lo, hi: VCombs2(toz(lo), toz(hi)), 'cvar': _wrap(specs.cvar), 'degsum': _wrap(specs.degsum), 'gadj': _wrap(specs.gadj), 'pvar': _wrap(specs.pvar), 'isqf': _wrap(specs.isqf), 'pairlits': _wrap(specs.pairlits), 'aps': _wrap(specs.aps), 'cntstar': _wrap(specs.cntstar), 'imem': _wrap(specs.imem), 'bsel': _wrap(specs.bsel), 'imemp': _wrap(specs.imemp), 'sqr': _wrap(specs.sqr), 'mhas': lambda eng, node, m, k: z3.Select(m.present, _term(k)), 'mget': lambda eng, node, m, k: z3.Select(m.val, _term(k)), 'glo': lambda eng, node, g, i: z3.Select(g.lo, toz(i)), 'ghi': lambda eng, node, g, i: z3.Select(g.hi, toz(i)),
    'gsingle': lambda eng, node, g, i: z3.Select(g.single, toz(i)), 'cnb': _wrap(specs.cnb), 'isorted': _wrap(specs.isorted), 'nbj': _wrap(specs.nbj), 'nbv': _wrap(specs.nbv), 'lnbrs': _wrap(specs.lnbrs),
    'mapcall': sf_mapcall, 'mrow': _wrap(specs.mrow), 'mcol': _wrap(specs.mcol),
    'evnest': _wrap(specs.evnest), 'dedges': _wrap(specs.dedges),
    'yxdom': _wrap(specs.yxdom),
    'evopaque': lambda eng, node: VSeq(specs.evopaque), 'opq': _wrap(specs.opq), 'wid': _wrap(specs.wid),
    'ysign': _wrap(specs.ysign), 'ydom': _wrap(specs.ydom),
    'psat': _wrap(specs.psat), 'valid1': _wrap(specs.valid1), 'cvalid': _wrap(specs.cvalid), 'cdistinct': _wrap(specs.cdistinct),
    'cmem': _wrap(specs.cmem), 'csubsel': _wrap(specs.csubsel),
    'setof': lambda eng, node, L: VSeqSet(specs.cset(_term(L))),
    'isnoc': _wrap(specs.isnoc), 'ineg': _wrap(specs.ineg), 'iapp': _wrap(specs.iapp), 'paug': lambda eng, node, v: VSeq(v.aug), 'ifront': _wrap(specs.ifront), 'ilast': _wrap(specs.ilast),
    'valid1x': _wrap(specs.valid1x), 'cvalidx': _wrap(specs.cvalidx), 'psatx': _wrap(specs.psatx),
    'evrow': sf_evrowt, 'rowapp': _wrap(specs.rowapp), 'rowsfrom': _wrap(specs.rowsfrom),
    'nonnone': sf_nonnone,
    'pairsof': lambda eng, node, A, B, n: VPairs(toz(n), as_arr(A).arr, as_arr(B).arr),
    'lam1': sf_lam1,
    'nbrs': _wrap(specs.nbrs), 'evar': _wrap(specs.evar), 'iofarr': lambda eng, node, A, n: VSeq(specs.iofarr(as_arr(A).arr, toz(n))),
    'liftcls': _wrap(specs.liftcls), 'liftsem': _wrap(specs.liftsem), 'yblock': _wrap(specs.yblock),
    'implchain': _wrap(specs.implchain),
    'ev': sf_ev, 'trace': sf_trace, 'tid': lambda eng, node, t: z3.IntVal(template_id(normalize_template(t, 0, [])[0])),
    'oget': _wrap(specs.oget),
    'dterms': _wrap(specs.dterms), 'dcons': _wrap(specs.dcons), 'tevent': _wrap(specs.tevent), 'cevent': _wrap(specs.cevent),
    'dropc': _wrap(specs.dropc), 'dlits': _wrap(specs.dlits), 'dclauses': _wrap(specs.dclauses), 'levent': _wrap(specs.levent),
    'ishift': _wrap(specs.ishift), 'preds': _wrap(specs.preds), 'outdeg': _wrap(specs.outdeg), 'gtopo': _wrap(specs.gtopo),
    'gsinkok': _wrap(specs.gsinkok),
    'ocount': sf_ocount, 'olast': sf_olast,
    'aind': _wrap(specs.aind), 'gadid': sf_gadid,
    'gad': _wrap(specs.gad), 'cdist': _wrap(specs.cdist), 'cdistall': _wrap(specs.cdistall), 'cind': _wrap(specs.cind),
    'satind': _wrap(specs.satind),
    'old': sf_old, 'implies': sf_implies, 'forall': sf_forall_int, 'exists': sf_exists_int, 'combs2_where': sf_combs2_where, 'created': sf_created, 'final': sf_final,
    'firsts': lambda eng, node, p: VArr(p.length, p.first),
    'imapsub': lambda eng, node, sq, A, n: VSeq(specs.imapsub(_term(sq), as_arr(A).arr, toz(n))),
    'isperm': lambda eng, node, A, n, base: specs.isperm(as_arr(A).arr, toz(n), toz(base)),
    'lam2': sf_lam2, 'card2': lambda eng, node, st: specs.card2(st.arr),
    'mvar': _wrap(specs.mvar), 'gorder': _wrap(specs.gorder), 'gnedges': _wrap(specs.gnedges), 'navail_p': _wrap(specs.navail_p), 'navail_x': _wrap(specs.navail_x), 'bdegl': _wrap(specs.bdegl), 'bdegr': _wrap(specs.bdegr),
    'gedge1': _wrap(specs.gedge1), 'gedge2': _wrap(specs.gedge2),
    'edgepairs': lambda eng, node, g: _edgepairs(toz(g)),
    'gdom': _wrap(specs.gdom), 'grng': _wrap(specs.grng), 'rowlits': _wrap(specs.rowlits), 'collits': _wrap(specs.collits),
    'm_complete': _wrap(specs.m_complete), 'm_functional': _wrap(specs.m_functional),
    'm_surjective': _wrap(specs.m_surjective), 'm_injective': _wrap(specs.m_injective),
    'm_nondecreasing': _wrap(specs.m_nondecreasing), 'bitlen': _wrap(specs.bitlen),
    'count': _wrap(specs.count), 'sat': _wrap(specs.sat), 'ctrue': _wrap(specs.ctrue),
    'ilen': _wrap(specs.ilen), 'clen': _wrap(specs.clen), 'neg': _wrap(specs.ineg),
    'capp': _wrap(specs.capp), 'csnoc': _wrap(specs.csnoc), 'combs': _wrap(specs.combs),
    'ctake': _wrap(specs.ctake), 'haszero': _wrap(specs.haszero), 'maxabs': _wrap(specs.maxabs), 'minof': _wrap(specs.minof), 'maxof': _wrap(specs.maxof),
    'cmaxabs': _wrap(specs.cmaxabs), 'chaszero': _wrap(specs.chaszero), 'cnil': VSeq(specs.cnil), 'inil': VSeq(specs.inil), 'pow2': _wrap(POW2),
    'iget': _wrap(specs.iget), 'cget': _wrap(specs.cget),
    'wsum': _wrap(specs.wsum), 'tlen': _wrap(specs.tlen), 'tcoef': _wrap(specs.tcoef), 'tlit': _wrap(specs.tlit),
    'thaszero': _wrap(specs.thaszero), 'tmaxabs': _wrap(specs.tmaxabs), 'tnonneg': _wrap(specs.tnonneg),
    'tunit': _wrap(specs.tunit), 'holds': _wrap(specs.holds), 'osat': _wrap(specs.osat), 'olen': _wrap(specs.olen),
    'oappc': _wrap(specs.oappc), 'osnoc': _wrap(specs.osnoc), 'otake': _wrap(specs.otake), 'omaxabs': _wrap(specs.omaxabs),
    'ohaszero': _wrap(specs.ohaszero), 'onormal': _wrap(specs.onormal),
    'mkcon': _wrap(specs.mkcon), 'con_terms': _wrap(specs.Con.terms), 'con_op': _wrap(specs.Con.op), 'con_value': _wrap(specs.Con.value),
    'cmp_op': lambda eng, node, op, a, b: specs.cmp_op(_term(op), toz(a), toz(b)),
    'rnbrs': _wrap(specs.rnbrs), 'lit_true': _wrap(specs.lit_true), 'iflips': _wrap(specs.iflips), 'neqprefix': _wrap(specs.neqprefix), 'idxcombs': _wrap(specs.idxcombs), 'apseq': _wrap(specs.apseq), 'negunits': _wrap(specs.negunits), 'asclauses': lambda eng, node, v: VSeq(_term(v)),
    'pfilter': _wrap(specs.pfilter), 'signvecs': _wrap(specs.signvecs),
    'psum': lambda eng, node, I, W, t: specs.psum(as_arr(I).arr, as_arr(W).arr, toz(t)),
    'zmax': lambda eng, node, a, b: zmax(toz(a), toz(b)),
    'zmin': lambda eng, node, a, b: zmin(toz(a), toz(b)),
    'floordiv': lambda eng, node, a, b: py_floordiv(a, b),
    'ite': lambda eng, node, c, a, b: (VSeq(z3.If(toz(as_bool(c)), a.term, b.term)) if isinstance(a, VSeq) and isinstance(b, VSeq)
                                       else z3.If(toz(as_bool(c)), toz(a), toz(b))),
}
# constants exposed as names
_CONST_SPECS = {'cnil', 'inil'}


def _ev_name_patch(orig):
    def ev_Name(self, e, env):
        if getattr(self, 'in_spec', False) and e.id in _CONST_SPECS and e.id not in env:
            return SPEC_FUNCS[e.id]
        return orig(self, e, env)
    return ev_Name


Engine.ev_Name = _ev_name_patch(Engine.ev_Name)


# builtins ---------------------------------------------------------------------------
def b_len(eng, node, v):
    if isinstance(v, VParities):
        return specs.clen(v.aug)
    if isinstance(v, VOpaque):
        n = eng.fresh('opaque_len')           # a container the contract does not look into: some length
        eng.pc.append(n >= 0)
        return n
    if isinstance(v, VTuple):
        return len(v.items)
    if isinstance(v, (VSeq, VMList)):
        return {'ISeq': specs.ilen, 'CSeq': specs.clen, 'OSeq': specs.olen}[v.term.sort().name()](v.term)
    if isinstance(v, (VArr, VGroups)):
        return v.length
    if isinstance(v, VPairs):
        return v.length
    if isinstance(v, VStr):
        return specs.slen(v.term)
    if isinstance(v, str):
        if v.startswith('<'):
            n = eng.fresh('text_len')         # a text whose content is not modelled: some length
            eng.pc.append(n >= 0)
            return n
        return len(v)
    if is_z3(v) and v.sort() == z3.StringSort():
        return z3.Length(v)
    if isinstance(v, VStrs):
        return specs.sslen(v.term)
    if isinstance(v, VSet2):
        return specs.card2(v.arr)
    if isinstance(v, VRow):
        return v.length
    if isinstance(v, VArr2):
        return v.length
    if isinstance(v, VTerms):
        return specs.tlen(v.term)
    if isinstance(v, VCon):
        return specs.tlen(v.terms) + 2
    if isinstance(v, VRange):
        if v.step == 1:
            return zmax(toz(v.hi) - toz(v.lo), z3.IntVal(0))
    if isinstance(v, VObj):
        return eng.call_method(v, '__len__', [], {}, node)
    raise Unsupported('len of {!r}'.format(v))


def b_abs(eng, node, v):
    if isinstance(v, int):
        return abs(v)
    return zabs(v)


def b_minmax(which):
    def f(eng, node, *args):
        if len(args) == 1:
            v = args[0]
            if isinstance(v, VTuple):
                args = v.items
            elif isinstance(v, VSeq) and v.sortname == 'ISeq':
                if not getattr(eng, 'in_spec', False):
                    eng.oblige('hazard', '{}() of a non-empty sequence'.format(which), specs.ilen(v.term) > 0, node.lineno)
                return (specs.maxof if which == 'max' else specs.minof)(v.term)
            else:
                raise Unsupported(which + ' of ' + repr(v))
        if all(isinstance(a, int) for a in args):
            return (max if which == 'max' else min)(args)
        r = toz(args[0])
        for a in args[1:]:
            r = (zmax if which == 'max' else zmin)(r, toz(a))
        return r
    return f


def b_range(eng, node, *args):
    if len(args) == 1:
        return VRange(0, args[0], 1)
    if len(args) == 2:
        return VRange(args[0], args[1], 1)
    return VRange(args[0], args[1], args[2])


def b_allany_raw(eng, node, env):
    arg = node.args[0]
    if isinstance(arg, (ast.GeneratorExp, ast.ListComp)):
        it = eng.eval(arg.generators[0].iter, env)
        if isinstance(it, VStrs):
            return eng.fresh('allany', z3.BoolSort())     # predicates over opaque tokens: either answer (string methods assumed not to raise)
    raise Unsupported('all()/any() of this shape')


b_allany_raw.raw = True


def b_list(eng, node, v=None):
    if v is None:
        return VTuple([], 'list')
    if isinstance(v, (VDom, VParities)):
        return v
    if isinstance(v, VTuple):
        return VTuple(list(v.items), 'list')
    if isinstance(v, VSeq):
        return v
    if isinstance(v, VMList):
        return VSeq(v.term)
    if isinstance(v, VRange) and all(isinstance(x, int) for x in (v.lo, v.hi, v.step)):
        return VTuple(list(range(v.lo, v.hi, v.step)), 'list')
    if isinstance(v, VObj):
        r = eng.call_method(v, '__iter__', [], {}, node)
        return b_list(eng, node, r)
    if isinstance(v, VRange) and v.step == 1:
        t = z3.Int('iota!j')
        a = VArr(z3.simplify(zmax(toz(v.hi) - toz(v.lo), z3.IntVal(0))), z3.Lambda([t], toz(v.lo) + t))
        a.iota = toz(v.lo)
        a.iota_state = (a.length, a.arr)          # the attribute is meaningful only while the list is unmodified (see iota_base)
        return a
    if isinstance(v, VArr):
        return VArr(v.length, v.arr)
    if isinstance(v, VStrs):
        return v
    raise Unsupported('list() of {!r}'.format(v))


def b_isinstance(eng, node, v, t):
    # decided by the declared type (DESIGN 2.1)
    if isinstance(t, VTuple):
        rs = [b_isinstance(eng, node, v, x) for x in t.items]
        return any(rs)
    name = t[1] if isinstance(t, tuple) and t[0] == 'global' else None
    if isinstance(t, VSpecFn) and t.fn is b_int:
        name = 'int'
    if name in ('numbers.Integral', 'int', 'numbers.Real') and (isinstance(v, int) or (is_z3(v) and z3.is_int(v))) \
            and not isinstance(v, bool):
        return True
    if isinstance(v, VSink):
        return False                      # a text stream is not a str / not a formula class
    if isinstance(v, VObj) and name and name.split('.')[-1] == 'SingletonVariableGroup' and 'single' in v.fields:
        return v.fields['single']              # a group of the manager's list: single-variable group or not, per group
    if isinstance(v, VObj) and name:
        real = eng.classmodels.get(v.cls, {}).get('real', v.cls)
        mro = eng.class_mro(v.cls)
        return name.split('.')[-1] in mro or name.split('.')[-1] == real
    raise Unsupported('isinstance({!r}, {})'.format(v, name))


def b_str(eng, node, v=None):
    if eng.frames[0]['contract'].get('trace') and ((isinstance(v, int) and not isinstance(v, bool)) or (is_z3(v) and z3.is_int(v))):
        return VFmt('{}', [toz(v)])
    return '<str>'


def b_bool(eng, node, v=False):
    if isinstance(v, bool):
        return v
    if isinstance(v, int):
        return v != 0
    if is_z3(v) and z3.is_bool(v):
        return v
    if is_z3(v) and z3.is_int(v):
        return v != 0
    raise Unsupported('bool() of {!r}'.format(v))


def b_print(eng, node, *args, file=None, **kw):
    """print(x, file=stream): one write of x followed by a newline; print to stdout is dropped (no property observes it here)"""
    if file is None or not isinstance(file, VSink):
        return None
    if kw or len(args) != 1:
        raise Unsupported('print with several values or options')
    x = args[0]
    if isinstance(x, VNested):
        x = VNested(x.trace, x.suffix + '\n')
    elif isinstance(x, VOpaque) or (isinstance(x, str) and x.startswith('<')):
        pass
    else:
        x = eng.binop(ast.Add(), x, '\n', node)
    file.trace = specs.csnoc(file.trace, eng.write_event(x, node))
    return None


def b_isgenerator(eng, node, v):
    # declared-type decision (DESIGN 2.1): abstract sequences and concrete lists are not generators
    return False


class VFloatSqrt:
    """math.sqrt(w) of an int: a float, not modelled; only int(..) of it is given a meaning (the uninterpreted isqf(w))"""

    def __init__(self, arg):
        self.arg = arg


def lib_math_sqrt(eng, node, w):
    if not (isinstance(w, int) or (is_z3(w) and z3.is_int(w))):
        raise Unsupported('sqrt of a non-int')
    eng.oblige('hazard', 'sqrt of a non-negative number (ValueError: math domain error)', toz(w) >= 0, node.lineno)
    return VFloatSqrt(toz(w))


def b_int(eng, node, v):
    if isinstance(v, VFloatSqrt):
        return specs.isqf(v.arg)
    if isinstance(v, int) or (is_z3(v) and z3.is_int(v)):
        return v
    if isinstance(v, VStr):
        # int(text): ValueError or some integer (demonic)
        if eng.choose(2) == 1:
            raise PyExc('ValueError', node.lineno)
        c = eng.fresh('parsed_int')
        if getattr(eng, 'demonic', None) is not None:
            eng.demonic.append(c)
        return c
    raise Unsupported('int() of non-int')


class VZipCI:
    """zip(<sequence of int tuples>, <sequence of ints>): pairs (tuple, int), as many as the shorter one has"""

    def __init__(self, cterm, iterm):
        self.cterm, self.iterm = cterm, iterm


def b_zip(eng, node, *args):
    if len(args) == 2 and isinstance(args[0], VSeq) and args[0].sortname == 'CSeq' and isinstance(args[1], VSeq) and args[1].sortname == 'ISeq':
        return VZipCI(args[0].term, args[1].term)
    if all(isinstance(a, VTuple) for a in args):
        n = min(len(a.items) for a in args)
        return VTuple([VTuple([a.items[i] for a in args]) for i in range(n)], 'list')
    if len(args) == 2 and isinstance(args[0], VRange) and args[0].step == 1 and isinstance(args[1], VArr):
        r, arr = args
        t = z3.Int('zip!j')
        n = zmin(zmax(toz(r.hi) - toz(r.lo), z3.IntVal(0)), toz(arr.length))
        return VPairs(z3.simplify(n), z3.Lambda([t], toz(r.lo) + t), arr.arr)
    raise Unsupported('zip of symbolic sequences')


def b_enumerate(eng, node, a, start=0):
    if isinstance(a, VStrs):
        return VEnum(a, start)
    if not (isinstance(start, int) and start == 0):
        raise Unsupported('enumerate with a start over this kind of sequence')
    if isinstance(a, VTuple):
        return VTuple([VTuple([i, x]) for i, x in enumerate(a.items)], 'list')
    if isinstance(a, VArr):
        t = z3.Int('enum!j')
        r = VPairs(a.length, z3.Lambda([t], t), a.arr)
        r.enumerate_of = a
        return r
    raise Unsupported('enumerate of symbolic sequence')


def b_sum_raw(eng, node, env):
    """sum(...) ; recognises the mixed-radix pattern  sum((i - 1) * w for i, w in zip(I, W))  over two int lists"""
    arg = node.args[0]
    if isinstance(arg, ast.GeneratorExp) and len(arg.generators) == 1 and not arg.generators[0].ifs:
        g = arg.generators[0]
        if isinstance(g.iter, ast.Call) and isinstance(g.iter.func, ast.Name) and g.iter.func.id == 'zip' \
                and len(g.iter.args) == 2 and isinstance(g.target, ast.Tuple) and len(g.target.elts) == 2:
            a, b = [x.id for x in g.target.elts]
            if ast.unparse(arg.elt) == '({} - 1) * {}'.format(a, b):
                I = eng.eval(g.iter.args[0], env)
                W = eng.eval(g.iter.args[1], env)
                if isinstance(I, VArr) and isinstance(W, VArr):
                    return specs.psum(I.arr, W.arr, zmin(toz(I.length), toz(W.length)))
    return b_sum(eng, node, eng.eval(arg, env))


b_sum_raw.raw = True


def b_sum(eng, node, a):
    if isinstance(a, VTuple):
        r = 0
        for x in a.items:
            r = r + x
        return r
    if isinstance(a, VArr):
        return specs.arrsum(a.arr, toz(a.length))
    raise Unsupported('sum of symbolic sequence')


def b_next(eng, node, a):
    if isinstance(a, VTuple):
        if not a.items:
            eng.oblige('hazard', 'next() on an exhausted iterator', False, node.lineno)
            raise PyExc('StopIteration', node.lineno)
        return a.items[0]
    raise Unsupported('next of symbolic iterator')


def b_set(eng, node, v=None):
    if v is not None:
        raise Unsupported('set(iterable)')
    return VSet2(z3.K(z3.IntSort(), z3.K(z3.IntSort(), z3.BoolVal(False))) if False else _empty_pairset())


def _empty_pairset():
    return z3.Lambda([z3.Int('ps!x'), z3.Int('ps!y')], z3.BoolVal(False))


BUILTINS = {'print': b_print, 'str': b_str, 'bool': b_bool, 'set': b_set, 'all': b_allany_raw, 'any': b_allany_raw, 'sorted': lambda eng, node, seq, key=None: lib_sorted(eng, node, seq, key), 'len': b_len, 'abs': b_abs, 'min': b_minmax('min'), 'max': b_minmax('max'), 'range': b_range,
            'list': b_list, 'tuple': b_list, 'isinstance': b_isinstance, 'int': b_int, 'zip': b_zip,
            'enumerate': b_enumerate, 'sum': b_sum_raw, 'next': b_next, 'iter': lambda eng, node, v: v}


def lib_combinations(eng, node, seq, k):
    if iota_base(seq) is not None:
        seq = VRange(seq.iota, z3.simplify(seq.iota + toz(seq.length)), 1)       # list(range(lo, hi)), unmodified
    if isinstance(seq, VRange) and seq.step == 1 and (isinstance(seq.lo, int) and seq.lo == 0) and not isinstance(seq.hi, int):
        return VSeq(specs.idxcombs(toz(seq.hi), toz(k)))
    if isinstance(seq, VRange) and seq.step == 1:
        # the k-subsets of lo..hi-1 in itertools order = combinations of the literal list lo, lo+1, ...
        return VSeq(specs.combs(specs.apseq(toz(seq.lo), z3.simplify(toz(seq.hi) - toz(seq.lo))), toz(k)))
    if isinstance(seq, VSeq) and seq.sortname == 'ISeq':
        return VSeq(specs.combs(seq.term, toz(k)))
    if isinstance(seq, VTuple) and isinstance(k, int):
        import itertools
        return VTuple([VTuple(list(c)) for c in itertools.combinations(seq.items, k)], 'list')
    raise Unsupported('combinations of {!r}'.format(seq))


def lib_reduce(eng, node, f, seq, init=None):
    if isinstance(seq, VSeq) and seq.sortname == 'ISeq' and isinstance(f, tuple) and f[0] == 'global' and f[1] in ('mul', 'operator.mul') \
            and init == 1:
        return specs.sprod(seq.term)
    if isinstance(seq, VTuple) and isinstance(f, tuple) and f[1] in ('mul', 'operator.mul'):
        r = init if init is not None else 1
        for x in seq.items:
            r = r * x
        return r
    raise Unsupported('reduce')


def lib_product(eng, node, *args, repeat=1):
    import itertools
    if len(args) == 1 and isinstance(args[0], VTuple) and args[0].items == [1, -1] and not isinstance(repeat, int):
        return VSeq(specs.signvecs(toz(repeat)))
    if len(args) == 1 and isinstance(args[0], VTuple) and args[0].items == [-1, 1] and not isinstance(repeat, int):
        return VSeq(specs.signvecsm(toz(repeat)))
    if all(isinstance(a, VTuple) for a in args) and isinstance(repeat, int):
        return VTuple([VTuple(list(c)) for c in itertools.product(*[a.items for a in args], repeat=repeat)], 'list')
    if repeat == 1 and len(args) >= 2 and all(as_nest_factor(a) is not None for a in args):
        return VProduct([as_nest_factor(a) for a in args])
    raise Unsupported('product of symbolic sequences')


class VProduct:
    """itertools.product of ranges / pair enumerations, kept lazily: only a `nest` loop can iterate it"""

    def __init__(self, factors):
        self.factors = factors


def as_nest_factor(v):
    """VRange (step 1) / VCombs2 view of a value that enumerates a range or all pairs a < b of a range, else None"""
    if isinstance(v, VCombs2) or (isinstance(v, VRange) and v.step == 1):
        return v
    if iota_base(v) is not None:
        return VRange(v.iota, z3.simplify(v.iota + toz(v.length)), 1)
    if isinstance(v, VSeq) and z3.is_app(v.term) and v.term.decl().name() == 'combs' and z3.is_int_value(v.term.arg(1)) \
            and v.term.arg(1).as_long() == 2 and z3.is_app(v.term.arg(0)) and v.term.arg(0).decl().name() == 'apseq':
        lo, n = v.term.arg(0).arg(0), v.term.arg(0).arg(1)
        return VCombs2(lo, z3.simplify(lo + n))          # combinations(range(lo, lo+n), 2) as a value
    return None


LIBRARY = {'itertools.combinations': lib_combinations, 'itertools.product': lib_product, 'functools.reduce': lib_reduce,
           'inspect.isgenerator': b_isgenerator, 'isgenerator': b_isgenerator}


def lm_append(eng, node, o, x):
    if isinstance(o, VGroups):
        if not (isinstance(x, VObj) and 'ids_lo' in x.fields and 'ids_hi' in x.fields):
            raise Unsupported('append of something that is not a variable group')
        real = eng.classmodels.get(x.cls, {}).get('real', x.cls)
        single = x.fields['single'] if 'single' in x.fields else z3.BoolVal(real == 'SingletonVariableGroup')
        o.lo = z3.Store(o.lo, o.length, toz(x.fields['ids_lo']))
        o.hi = z3.Store(o.hi, o.length, toz(x.fields['ids_hi']))
        o.single = z3.Store(o.single, o.length, single)
        o.length = o.length + 1
        return None
    if isinstance(o, VCounted):
        o.count = o.count + 1
        o.last = x
        return None
    if isinstance(o, VTuple):
        o.items.append(x)
        return None
    if isinstance(o, VMList):
        if o.term.sort() == specs.CSeq:
            o.term = specs.csnoc(o.term, _term(x))
            return None
        if o.term.sort() == specs.OSeq and isinstance(x, VCon):
            o.term = specs.osnoc(o.term, x.as_z3())
            return None
    if isinstance(o, VArr):
        o.arr = z3.Store(o.arr, o.length, toz(x))
        o.length = o.length + 1
        return None
    raise Unsupported('append on {!r}'.format(o))


def lm_pop(eng, node, o, *a):
    if isinstance(o, VTuple) and not a:
        if not o.items:
            raise PyExc('IndexError', node.lineno)
        return o.items.pop()
    if isinstance(o, VArrN0) and not a and eng.branch(o.length <= 1):
        raise Unsupported('pop of the None head of a 1-based table')
    if isinstance(o, VArr) and not a:
        eng.oblige('hazard', 'pop from a non-empty list', o.length > 0, node.lineno)
        o.length = o.length - 1
        return z3.Select(o.arr, o.length)
    raise Unsupported('pop')


def _fresh_row(eng):
    return eng.fresh('row', z3.ArraySort(z3.IntSort(), z3.IntSort()))


def lm_row_append(eng, node, row, x):
    p = row.parent
    n = row.length
    p.rows = z3.Store(p.rows, row.i, z3.Store(row.arr, n, toz(x)))
    p.rowlen = z3.Store(p.rowlen, row.i, n + 1)
    return None


def lm_row_insert(eng, node, row, pos, x):
    p, n, old = toz(pos), row.length, row.arr
    eng.oblige('hazard', 'insert position within [0, len] (modelled range of list.insert)', z3.And(p >= 0, p <= n), node.lineno)
    new = _fresh_row(eng)
    k = z3.Int('k!ins')
    eng.pc.append(z3.ForAll([k], z3.Implies(z3.And(0 <= k, k < p), z3.Select(new, k) == z3.Select(old, k))))
    eng.pc.append(z3.Select(new, p) == toz(x))
    eng.pc.append(z3.ForAll([k], z3.Implies(z3.And(p < k, k <= n), z3.Select(new, k) == z3.Select(old, k - 1))))
    par = row.parent
    par.rows = z3.Store(par.rows, row.i, new)
    par.rowlen = z3.Store(par.rowlen, row.i, n + 1)
    return None


def lm_row_remove(eng, node, row, x):
    """list.remove(x): removes the FIRST occurrence; ValueError if absent"""
    n, old = row.length, row.arr
    r = eng.fresh('rmpos')
    k = z3.Int('k!rm')
    present = z3.Exists([k], z3.And(0 <= k, k < n, z3.Select(old, k) == toz(x)))
    if eng.branch(z3.Not(present)):
        eng.oblige('hazard', 'list.remove(x): x is in the list', False, node.lineno)
        raise PyExc('ValueError', node.lineno)
    eng.pc.append(z3.And(0 <= r, r < n, z3.Select(old, r) == toz(x)))
    eng.pc.append(z3.ForAll([k], z3.Implies(z3.And(0 <= k, k < r), z3.Select(old, k) != toz(x))))
    new = _fresh_row(eng)
    eng.pc.append(z3.ForAll([k], z3.Implies(z3.And(0 <= k, k < r), z3.Select(new, k) == z3.Select(old, k))))
    eng.pc.append(z3.ForAll([k], z3.Implies(z3.And(r <= k, k < n - 1), z3.Select(new, k) == z3.Select(old, k + 1))))
    par = row.parent
    par.rows = z3.Store(par.rows, row.i, new)
    par.rowlen = z3.Store(par.rowlen, row.i, n - 1)
    eng.last_remove_pos = r
    return None


def lm_arr2_append(eng, node, a2, x):
    if isinstance(x, VTuple) and not x.items:
        a2.rowlen = z3.Store(a2.rowlen, a2.length, z3.IntVal(0))
        a2.length = a2.length + 1
        return None
    raise Unsupported('append of a non-empty row')


def lm_set_add(eng, node, st, x):
    a, b = eng.unpack(x, 2, node)
    st.arr = z3.Store(st.arr, toz(a), toz(b), z3.BoolVal(True))
    return None


def lm_set_remove(eng, node, st, x):
    a, b = eng.unpack(x, 2, node)
    eng.oblige('hazard', 'set.remove(x): x is in the set (KeyError)', z3.Select(st.arr, toz(a), toz(b)), node.lineno)
    st.arr = z3.Store(st.arr, toz(a), toz(b), z3.BoolVal(False))
    return None


def lib_bisect_right(eng, node, row, x):
    if not isinstance(row, (VRow, VArr)):
        raise Unsupported('bisect_right on {!r}'.format(row))
    n, a = row.length, row.arr
    if isinstance(row, VArrN0):
        # entry 0 is None.  bisect_right (lo=0, hi=n; mid=(lo+hi)//2; x < a[mid] ? hi=mid : lo=mid+1) compares x with entry 0
        # - a TypeError - iff hi comes down to 1, i.e. iff n == 1 or x < a[1] (entry 1 is compared only at mid == 1, and only a
        # "less" answer there leads to mid == 0).  Otherwise the search runs on entries 1..n-1 only.
        eng.oblige('hazard', 'bisect_right never compares with the None head (TypeError): the table has an entry 1 and x >= it',
                   z3.And(n >= 2, toz(x) >= z3.Select(a, 1)), node.lineno)
        pos = eng.fresh('bisect')
        k, j = z3.Int('k!bs'), z3.Int('j!bs')
        eng.pc.append(z3.And(2 <= pos, pos <= n))
        srt = z3.ForAll([k, j], z3.Implies(z3.And(1 <= k, k < j, j < n), z3.Select(a, k) <= z3.Select(a, j)))
        eng.pc.append(z3.Implies(srt, z3.And(
            z3.ForAll([k], z3.Implies(z3.And(1 <= k, k < pos), z3.Select(a, k) <= toz(x))),
            z3.ForAll([k], z3.Implies(z3.And(pos <= k, k < n), z3.Select(a, k) > toz(x))),
            # the two boundary instances, spelled out (ground terms for the solver)
            z3.Select(a, pos - 1) <= toz(x), z3.Implies(pos < n, z3.Select(a, pos) > toz(x)))))
        return pos
    pos = eng.fresh('bisect')
    k, j = z3.Int('k!bs'), z3.Int('j!bs')
    eng.pc.append(z3.And(0 <= pos, pos <= n))
    srt = z3.ForAll([k, j], z3.Implies(z3.And(0 <= k, k < j, j < n), z3.Select(a, k) <= z3.Select(a, j)))
    # contract of bisect.bisect_right on a SORTED list: everything before pos is <= x, everything from pos on is > x
    eng.pc.append(z3.Implies(srt, z3.And(
        z3.ForAll([k], z3.Implies(z3.And(0 <= k, k < pos), z3.Select(a, k) <= toz(x))),
        z3.ForAll([k], z3.Implies(z3.And(pos <= k, k < n), z3.Select(a, k) > toz(x))))))
    return pos


def lm_dict_get(eng, node, d, key, default=None):
    if d.present is None or not (isinstance(default, VTuple) and not default.items):
        raise Unsupported('dict.get shape')
    if eng.branch(z3.Select(d.present, toz(key))):
        return VRow(d, toz(key))
    return VTuple([], 'list')


def lib_random_choice(eng, node, seq):
    """demonic random.choice: any element of a concrete list of ints"""
    if not (isinstance(seq, VTuple) and seq.items and all(isinstance(x, int) for x in seq.items)):
        raise Unsupported('random.choice on a symbolic sequence')
    c = eng.fresh('choice')
    eng.pc.append(z3.Or([c == x for x in seq.items]))
    if getattr(eng, 'demonic', None) is not None:
        eng.demonic.append(c)
    return c


def iota_base(v):
    """lo if v is still the unmodified list(range(lo, hi)) it was created as, else None"""
    st = getattr(v, 'iota_state', None)
    if isinstance(v, VArr) and st is not None and v.length is st[0] and v.arr is st[1]:
        return v.iota
    return None


def lib_random_shuffle(eng, node, lst):
    """demonic random.shuffle: leaves some permutation of the list in place"""
    if not isinstance(lst, VArr):
        raise Unsupported('random.shuffle on {!r}'.format(lst))
    base = iota_base(lst)
    new = eng.fresh('shuffled', lst.arr.sort())
    if base is not None:
        eng.pc.append(specs.isperm(new, toz(lst.length), base))     # a permutation of base..base+n-1 stays one
    lst.arr = new
    return None


def lib_sorted(eng, node, seq, key=None):
    if isinstance(seq, VTuple) and len(seq.items) == 2 and key is None \
            and all(isinstance(x, int) or (is_z3(x) and z3.is_int(x)) for x in seq.items):
        a, b = toz(seq.items[0]), toz(seq.items[1])
        return VTuple([z3.If(a <= b, a, b), z3.If(a <= b, b, a)], 'list')      # sorted((a, b)) == [min, max]
    if isinstance(seq, VSeq) and seq.sortname == 'ISeq' and key is None and getattr(seq, 'distinct_in', None) is not None:
        # sorted copy of k pairwise distinct values of a range: strictly increasing, same bounds, same length
        lo, hi = seq.distinct_in
        r = VSeq(eng.fresh('sorted', specs.ISeq))
        i, j = z3.Int('i!so'), z3.Int('j!so')
        n = specs.ilen(seq.term)
        eng.pc.append(specs.ilen(r.term) == n)
        eng.pc.append(z3.ForAll([i], z3.Implies(z3.And(0 <= i, i < n), z3.And(lo <= specs.iget(r.term, i), specs.iget(r.term, i) < hi)),
                                patterns=[specs.iget(r.term, i)]))
        eng.pc.append(z3.ForAll([i, j], z3.Implies(z3.And(0 <= i, i < j, j < n), specs.iget(r.term, i) < specs.iget(r.term, j))))
        return r
    if isinstance(seq, VSeq) and seq.sortname == 'ISeq' and key is None:
        return VSeq(specs.isorted(seq.term))          # sorted(X): some function of X (its ordering properties are not modelled here)
    if isinstance(seq, VPairs) and getattr(seq, 'enumerate_of', None) is not None and isinstance(key, VClosure) \
            and isinstance(key.node, ast.Lambda) and ast.unparse(key.node.body) == '{}[1]'.format(key.node.args.args[0].arg):
        # sorted(enumerate(p), key=lambda x: x[1])  for p a permutation of 0..n-1: the i-th element is (p^-1(i), i)
        p = seq.enumerate_of
        n = toz(p.length)
        eng.oblige('pre', 'sorted(enumerate(p), key=second) is modelled for a permutation p of 0..n-1', specs.isperm(p.arr, n, z3.IntVal(0)), node.lineno)
        t = z3.Int('snd!j')
        return VPairs(p.length, specs.invperm(p.arr, n), z3.Lambda([t], t))
    if isinstance(seq, VArr) and key is None:
        new = VArr(seq.length, eng.fresh('sorted', seq.arr.sort()))
        k, j = z3.Int('k!so'), z3.Int('j!so')
        n = toz(seq.length)
        eng.pc.append(z3.ForAll([k, j], z3.Implies(z3.And(0 <= k, k < j, j < n), z3.Select(new.arr, k) <= z3.Select(new.arr, j))))
        eng.pc.append(specs.sortedperm(new.arr, seq.arr, n))
        return new
    if isinstance(seq, VTuple) and key is None and all(isinstance(x, int) for x in seq.items):
        return VTuple(sorted(seq.items), 'list')
    raise Unsupported('sorted of {!r}'.format(seq))


def lib_copy(eng, node, x):
    if isinstance(x, VOpaque):
        return VOpaque('copy of ' + x.what)
    raise Unsupported('copy of {!r}'.format(x))


def lm_str_strip(eng, node, o, *a):
    r = VStr(eng.fresh('stripped', specs.Str))
    eng.pc.append(specs.slen(r.term) <= specs.slen(o.term))
    return r


def lm_str_split(eng, node, o, *a):
    """str.split(): tokens are non-empty texts; no token iff the text has only blanks"""
    r = VStrs(eng.fresh('tokens', specs.SSeq))
    j = z3.Int('j!tok')
    eng.pc.append(z3.ForAll([j], z3.Implies(z3.And(0 <= j, j < specs.sslen(r.term)), specs.slen(specs.ssget(r.term, j)) > 0)))
    eng.pc.append(z3.Implies(specs.slen(o.term) == 0, specs.sslen(r.term) == 0))
    return r


def lm_str_pred(eng, node, o, *a):
    return eng.fresh('strpred', z3.BoolSort())      # isascii / isdigit / startswith ...: either answer


def lm_readlines(eng, node, o):
    lines = eng.fresh('lines', specs.SSeq)
    # file.readlines() never returns an empty string: every line holds at least its newline (or, for the last one, a character)
    i = z3.Int('i!rl')
    eng.pc.append(z3.ForAll([i], z3.Implies(z3.And(0 <= i, i < specs.sslen(lines)), specs.slen(specs.ssget(lines, i)) >= 1),
                            patterns=[specs.ssget(lines, i)]))
    return VStrs(lines)


def lib_random_randint(eng, node, a, b):
    if eng.branch(toz(a) > toz(b)):
        raise PyExc('ValueError', node.lineno)            # random.randint(a, b) with a > b: "empty range"
    c = eng.fresh('randint')
    eng.pc.append(z3.And(toz(a) <= c, c <= toz(b)))       # demonic: any value in [a, b]
    if getattr(eng, 'demonic', None) is not None:
        eng.demonic.append(c)
    return c


def lib_random_sample(eng, node, pop, k):
    """demonic random.sample(population, k): k elements at pairwise distinct positions; ValueError if k > len"""
    if isinstance(pop, VRange) and pop.step == 1:
        # k pairwise distinct values of the range, in some order
        lo, hi, kk = toz(pop.lo), toz(pop.hi), toz(k)
        if eng.branch(z3.Or(kk > zmax(hi - lo, z3.IntVal(0)), kk < 0)):
            eng.oblige('hazard', 'random.sample: 0 <= k <= len(population)', False, node.lineno)
            raise PyExc('ValueError', node.lineno)
        r = VSeq(eng.fresh('sample', specs.ISeq))
        i, j = z3.Int('i!sm'), z3.Int('j!sm')
        eng.pc.append(specs.ilen(r.term) == kk)
        eng.pc.append(z3.ForAll([i], z3.Implies(z3.And(0 <= i, i < kk), z3.And(lo <= specs.iget(r.term, i), specs.iget(r.term, i) < hi)),
                                patterns=[specs.iget(r.term, i)]))
        eng.pc.append(z3.ForAll([i, j], z3.Implies(z3.And(0 <= i, i < j, j < kk), specs.iget(r.term, i) != specs.iget(r.term, j))))
        r.distinct_in = (lo, hi)
        return r
    if isinstance(pop, VParities):
        F, mm = pop.aug, toz(k)
        if eng.branch(z3.Or(mm > specs.clen(F), mm < 0)):
            eng.oblige('hazard', 'random.sample: 0 <= k <= len(population)', False, node.lineno)
            raise PyExc('ValueError', node.lineno)
        r = VParities(eng.fresh('sample', specs.CSeq))
        eng.pc.append(z3.And(specs.clen(r.aug) == mm, specs.csubsel(r.aug, F)))
        return r
    if isinstance(pop, (VSeq, VMList)) and pop.term.sort() == specs.CSeq:
        # m clauses of the list, at pairwise distinct positions
        F, mm = pop.term, toz(k)
        if eng.branch(z3.Or(mm > specs.clen(F), mm < 0)):
            eng.oblige('hazard', 'random.sample: 0 <= k <= len(population)', False, node.lineno)
            raise PyExc('ValueError', node.lineno)
        r = VSeq(eng.fresh('sample', specs.CSeq))
        eng.pc.append(z3.And(specs.clen(r.term) == mm, specs.csubsel(r.term, F)))
        return r
    if not isinstance(pop, VPairs):
        raise Unsupported('random.sample on {!r}'.format(pop))
    n, kk = toz(pop.length), toz(k)
    if eng.branch(z3.Or(kk > n, kk < 0)):
        eng.oblige('hazard', 'random.sample: 0 <= k <= len(population)', False, node.lineno)
        raise PyExc('ValueError', node.lineno)
    P = eng.fresh('sample_pos', z3.ArraySort(z3.IntSort(), z3.IntSort()))
    i, j = z3.Int('i!sm'), z3.Int('j!sm')
    eng.pc.append(z3.ForAll([i], z3.Implies(z3.And(0 <= i, i < kk), z3.And(0 <= z3.Select(P, i), z3.Select(P, i) < n))))
    eng.pc.append(z3.ForAll([i, j], z3.Implies(z3.And(0 <= i, i < j, j < kk), z3.Select(P, i) != z3.Select(P, j))))
    t = z3.Int('smp!t')
    r = VPairs(kk, z3.Lambda([t], sel(pop.first, z3.Select(P, t))), z3.Lambda([t], sel(pop.second, z3.Select(P, t))))
    return r


LIBRARY['io.StringIO'] = lambda eng, node: VSink(specs.cnil)
LIBRARY['StringIO'] = LIBRARY['io.StringIO']        # `from io import StringIO` inside a function body
LIBRARY['random.randint'] = lib_random_randint
LIBRARY['random.sample'] = lib_random_sample
LIBRARY['random.seed'] = lambda eng, node, *a: None
LIBRARY['random.choice'] = lib_random_choice
LIBRARY['random.shuffle'] = lib_random_shuffle
LIBRARY['collections.OrderedDict'] = lambda eng, node, *a: VOpaque('OrderedDict')
LIBRARY['copy.copy'] = lib_copy
LIBRARY['copy'] = lib_copy
def lib_bisect_left(eng, node, row, x, lo=None, hi=None):
    """bisect.bisect_left(a, x[, lo]) on a list of ints (or a 1-based table searched from lo >= 1): on a SORTED range everything
    before the result is < x, everything from it on is >= x"""
    if not isinstance(row, (VRow, VArr)) or hi is not None:
        raise Unsupported('bisect_left on {!r}'.format(row))
    n, a = row.length, row.arr
    start = toz(lo) if lo is not None else z3.IntVal(0)
    eng.oblige('hazard', 'bisect_left: lo is not negative (ValueError)', start >= 0, node.lineno)
    if isinstance(row, VArrN0):
        # entry 0 is None: it must stay outside the searched range
        eng.oblige('hazard', 'bisect_left never compares with the None head (TypeError): the search starts at 1 or the range is empty',
                   z3.Or(start >= 1, start >= n), node.lineno)
    pos = eng.fresh('bisectl')
    k, j = z3.Int('k!bl'), z3.Int('j!bl')
    eng.pc.append(z3.And(zmin(start, n) <= pos, pos <= zmax(n, start)))
    srt = z3.ForAll([k, j], z3.Implies(z3.And(start <= k, k < j, j < n), z3.Select(a, k) <= z3.Select(a, j)))
    eng.pc.append(z3.Implies(z3.And(srt, start <= n), z3.And(
        start <= pos, pos <= n,
        z3.ForAll([k], z3.Implies(z3.And(start <= k, k < pos), z3.Select(a, k) < toz(x))),
        z3.ForAll([k], z3.Implies(z3.And(pos <= k, k < n), z3.Select(a, k) >= toz(x))),
        z3.Implies(pos > start, z3.Select(a, pos - 1) < toz(x)), z3.Implies(pos < n, z3.Select(a, pos) >= toz(x)))))
    return pos


LIBRARY['math.sqrt'] = lib_math_sqrt
LIBRARY['sqrt'] = lib_math_sqrt
LIBRARY['bisect.bisect_left'] = lib_bisect_left
LIBRARY['bisect.bisect_right'] = lib_bisect_right
def lm_mclist_sort(eng, node, o):
    """list.sort() on a list of integer lists: afterwards the list holds the same items in SOME order (a permutation; that the
    order is the lexicographic one is not modelled)"""
    if o.term.sort() != specs.CSeq:
        raise Unsupported('sort() of this list')
    eng.nsort = getattr(eng, 'nsort', 0) + 1
    old, new = o.term, eng.fresh('sorted_list', specs.CSeq)
    fwd = z3.Function('perm_fwd!{}'.format(eng.nsort), z3.IntSort(), z3.IntSort())
    bwd = z3.Function('perm_bwd!{}'.format(eng.nsort), z3.IntSort(), z3.IntSort())
    i = z3.Int('i!srt')
    n = specs.clen(old)
    eng.pc.append(specs.clen(new) == n)
    eng.pc.append(z3.ForAll([i], z3.Implies(z3.And(0 <= i, i < n), z3.And(0 <= fwd(i), fwd(i) < n, specs.cget(new, i) == specs.cget(old, fwd(i)))),
                            patterns=[specs.cget(new, i)]))
    eng.pc.append(z3.ForAll([i], z3.Implies(z3.And(0 <= i, i < n), z3.And(0 <= bwd(i), bwd(i) < n, specs.cget(old, i) == specs.cget(new, bwd(i)))),
                            patterns=[specs.cget(old, i)]))
    o.term = new
    return None


def lm_iseq_index(eng, node, o, x):
    """list.index(x) on a sequence of ints: ValueError iff x does not occur, otherwise the FIRST position holding x"""
    t = o.term
    if t.sort() != specs.ISeq:
        raise Unsupported('index() on a non-integer sequence')
    n, xv = specs.ilen(t), toz(x)
    k = z3.Int('k!ix')
    occurs = z3.Exists([k], z3.And(0 <= k, k < n, specs.iget(t, k) == xv))
    if not eng.branch(occurs):
        raise PyExc('ValueError', node.lineno)
    pos = eng.fresh('index')
    eng.pc.append(z3.And(0 <= pos, pos < n, specs.iget(t, pos) == xv))
    eng.pc.append(z3.ForAll([k], z3.Implies(z3.And(0 <= k, k < pos), specs.iget(t, k) != xv)))
    return pos


def lm_tuple_index(eng, node, o, x):
    """list.index(x) on a concrete list of scalars with a symbolic x: first equal position, ValueError when absent"""
    if not all(isinstance(i, (int, str)) and not isinstance(i, bool) for i in o.items):
        raise Unsupported('list.index on a list of structured values')
    xs = [z3.StringVal(i) if isinstance(i, str) else z3.IntVal(i) for i in o.items]
    xv = z3.StringVal(x) if isinstance(x, str) else toz(x)
    if xs and xs[0].sort() != xv.sort() or len({t.sort().name() for t in xs}) > 1:
        raise Unsupported('list.index with mixed element types')
    if eng.branch(z3.Not(z3.Or(*[xv == t for t in xs])) if xs else True):
        raise PyExc('ValueError', node.lineno)
    r = z3.IntVal(len(xs) - 1)
    for k in range(len(xs) - 2, -1, -1):
        r = z3.If(xv == xs[k], z3.IntVal(k), r)
    return r


LIST_METHODS = {('VMList', 'sort'): lm_mclist_sort, ('VTuple', 'index'): lm_tuple_index, ('VSeq', 'index'): lm_iseq_index, ('VStr', 'strip'): lm_str_strip, ('VStr', 'split'): lm_str_split, ('VStr', 'isascii'): lm_str_pred,
                ('VStr', 'isdigit'): lm_str_pred, ('VStr', 'startswith'): lm_str_pred, ('VStr', 'lstrip'): lm_str_strip,
                ('VStr', 'rstrip'): lm_str_strip, ('VOpaqueFile', 'readlines'): lm_readlines, ('VArr2', 'get'): lm_dict_get, ('VRow', 'insert'): lm_row_insert, ('VRow', 'append'): lm_row_append, ('VRow', 'remove'): lm_row_remove, ('VArr2', 'append'): lm_arr2_append,
                ('VSet2', 'add'): lm_set_add, ('VSet2', 'remove'): lm_set_remove,('VTuple', 'append'): lm_append, ('VCounted', 'append'): lm_append, ('VGroups', 'append'): lm_append, ('VMList', 'append'): lm_append, ('VArr', 'append'): lm_append,
                ('VTuple', 'pop'): lm_pop, ('VArr', 'pop'): lm_pop}
