"""pyvc effects mode: static, contract-checked effect summaries over the REAL source (DESIGN 2.1, C07/C18/C19/C20).

Everything is computed from the files under vlib.core.REPO ($VERIF_REPO, default /repo), re-read and
ast.parse'd on every run.  cnfgen is never imported, no code of it is copied.

Per function (bottom-up over the repository call graph, global worklist fixpoint) the abstract interpreter computes

  mut        {(param, access path)}        what it may MUTATE; the path is k-limited (k=3): () = the argument object
                                           itself, ('header',) = the object at p.header, ('_clauses','[]') = an element
                                           of p._clauses, trailing '…' = anything below
  capture / ret                            which arguments the result / another argument may alias, and where
                                           (needed to carry frames through calls:  newF.header = F.header ; add_description(newF))
  raises     {(Exc, origin function, tag)} exceptions that may leave the function (explicit raise, assert, callee
                                           summaries, LIBRARY table, next() on generators via a least-yields path
                                           analysis) minus enclosing handlers (builtin + library + repository hierarchy)
  uses_rng / seeds_rng / unseeded / guards RNG typestate; `unseeded` = RNG uses not dominated by random.seed
  nondet     {(source, origin function)}   nondeterministic sources that may flow into results (incl. module globals
                                           computed at import time from such a source)
  tmp_leaks / unbound                      NamedTemporaryFile(delete=False) typestate, definite assignment
  calls_parse_args, registers, validators  argparse: custom Action classes / type= validators registered; parse_args is
                                           re-analysed per entry point with exactly the actions that entry registers

Abstract values are sets of origins (root, path), root = parameter | allocation site | module global, plus a
`contains` relation (object o2 sits at root.path) that models shallow copies and stores, plus type tags
(instance / class / function values, set, dict literal, generator).  Calls are resolved through the import
table, `self`/typed receivers through the C3 MRO (+ overriding subclasses), class-valued parameters through
contracts.effects_contracts.INTERFACE_PARAMS, untyped receivers by method name over all repository classes,
dict-of-functions tables through their literals; nested functions are inlined at their call sites, function
values passed as arguments are charged where they are passed.  Flow-sensitive (strong updates, joins, loop
fixpoints, try/except/finally), value-insensitive except: isinstance narrowing, `k in d` / `for k in d` facts,
`a < b` facts from assert / if-raise guards, the constant propagation of the generator path analysis.
"""
import ast
import builtins
import fnmatch
import glob as globmod
import os
import time

from contracts import effects_contracts as EC

LIB = EC.LIBRARY
MAXCHAIN = 14


# ==================================================================================================
# repository index
# ==================================================================================================
class ModInfo:
    def __init__(self, rel, dotted, src):
        self.rel, self.dotted, self.src = rel, dotted, src
        self.lines = src.splitlines()
        self.tree = ast.parse(src)
        self.imports = {}     # name -> (module dotted, attr or None)
        self.funcs = {}
        self.classes = {}
        self.assigns = {}     # module-level name -> [value nodes]
        self.init_fi = None   # pseudo function: module body


class ClassInfo:
    def __init__(self, cid, name, node, mod, parent_func):
        self.cid, self.name, self.node, self.mod, self.parent_func = cid, name, node, mod, parent_func
        self.methods = {}
        self.base_exprs = node.bases
        self.bases = []       # resolved ClassInfo or ('ext', name)
        self.attr_types = {}  # attr -> tags (from `self.x = set()` ...)


class FuncInfo:
    def __init__(self, fid, name, qual, node, mod, cls, parent):
        self.fid, self.name, self.qual, self.node, self.mod, self.cls, self.parent = fid, name, qual, node, mod, cls, parent
        self.nested = {}
        self.nested_classes = {}
        self.local_imports = {}
        self.kind = 'function'
        self.is_ctx = False
        self.is_module = False
        a = node.args if not isinstance(node, ast.Module) else None
        self.params = []
        self.defaults = {}
        self.vararg = self.kwarg = None
        if a is not None:
            pos = [x.arg for x in a.posonlyargs + a.args]
            self.params = pos + [x.arg for x in a.kwonlyargs]
            for n, d in zip(reversed(pos), reversed(a.defaults)):
                self.defaults[n] = d
            for x, d in zip(a.kwonlyargs, a.kw_defaults):
                if d is not None:
                    self.defaults[x.arg] = d
            self.vararg = a.vararg.arg if a.vararg else None
            self.kwarg = a.kwarg.arg if a.kwarg else None
            self.npos = len(pos)
        self.is_gen = False
        self.is_abstract = False
        self.locals = set()

    @property
    def rel(self):
        return self.mod.rel

    def __repr__(self):
        return '<F {}>'.format(self.fid)


def _own_nodes(fnode):
    """nodes of a function body, not descending into nested defs / classes / lambdas"""
    stack = list(fnode.body) if not isinstance(fnode, ast.Lambda) else [fnode.body]
    while stack:
        n = stack.pop()
        yield n
        if isinstance(n, (ast.FunctionDef, ast.AsyncFunctionDef, ast.ClassDef, ast.Lambda)):
            continue
        for c in ast.iter_child_nodes(n):
            stack.append(c)


class Index:
    def __init__(self, root):
        self.root = root
        self.mods = {}        # dotted -> ModInfo
        self.by_rel = {}
        self.funcs = {}       # fid -> FuncInfo
        self.classes = {}     # cid -> ClassInfo
        self.methods_by_name = {}
        self.subclasses = {}  # cid -> set(cid)
        self._load()

    # ---- loading ---------------------------------------------------------------------------
    def _load(self):
        pkg = os.path.join(self.root, 'cnfgen')
        if not os.path.isdir(pkg):
            raise RuntimeError('effects: no package cnfgen under ' + self.root)
        for d, _, files in sorted(os.walk(pkg)):
            for f in sorted(files):
                if not f.endswith('.py'):
                    continue
                path = os.path.join(d, f)
                rel = os.path.relpath(path, self.root)
                dotted = rel[:-3].replace(os.sep, '.')
                if dotted.endswith('.__init__'):
                    dotted = dotted[:-9]
                mi = ModInfo(rel, dotted, open(path, encoding='utf-8').read())
                self.mods[dotted] = mi
                self.by_rel[rel] = mi
        for mi in self.mods.values():
            self._index_module(mi)
        for ci in self.classes.values():
            self._resolve_bases(ci)
        for ci in self.classes.values():
            for b in self.mro(ci)[1:]:
                if isinstance(b, ClassInfo):
                    self.subclasses.setdefault(b.cid, set()).add(ci.cid)
        for ci in self.classes.values():
            self._attr_types(ci)

    def _imports(self, node, mi, table):
        if isinstance(node, ast.ImportFrom):
            mod = node.module or ''
            if node.level:
                base = mi.dotted.split('.')
                if not mi.rel.endswith('__init__.py'):
                    base = base[:-1]
                base = base[:len(base) - (node.level - 1)]
                mod = '.'.join(base + ([mod] if mod else []))
            for a in node.names:
                table[a.asname or a.name] = (mod, a.name)
        elif isinstance(node, ast.Import):
            for a in node.names:
                if a.asname:
                    table[a.asname] = (a.name, None)
                else:
                    top = a.name.split('.')[0]
                    table[top] = (top, None)

    def _index_module(self, mi):
        fi = FuncInfo(mi.rel + ':<module>', '<module>', '<module>', mi.tree, mi, None, None)
        fi.is_module = True
        mi.init_fi = fi
        self.funcs[fi.fid] = fi
        for n in mi.tree.body:
            self._index_stmt(n, mi, None, None, '')
        # conditional / try-wrapped imports and defs at module level
        for n in ast.walk(mi.tree):
            if isinstance(n, (ast.Import, ast.ImportFrom)) and n not in mi.tree.body:
                owner = self._owner_func(mi, n)
                if owner is None:
                    self._imports(n, mi, mi.imports)

    def _owner_func(self, mi, node):
        # is `node` inside some function?  (cheap: position test against indexed functions)
        for fi in self.funcs.values():
            if fi.mod is mi and not fi.is_module:
                fn = fi.node
                if fn.lineno <= node.lineno <= (fn.end_lineno or fn.lineno):
                    return fi
        return None

    def _index_stmt(self, n, mi, cls, parent, prefix):
        if isinstance(n, (ast.Import, ast.ImportFrom)):
            self._imports(n, mi, parent.local_imports if parent else mi.imports)
        elif isinstance(n, (ast.FunctionDef, ast.AsyncFunctionDef)):
            self._index_func(n, mi, cls, parent, prefix)
        elif isinstance(n, ast.ClassDef):
            self._index_class(n, mi, parent, prefix)
        elif isinstance(n, (ast.Assign, ast.AnnAssign, ast.AugAssign)) and parent is None and cls is None:
            tgts = n.targets if isinstance(n, ast.Assign) else [n.target]
            for t in tgts:
                if isinstance(t, ast.Name) and getattr(n, 'value', None) is not None:
                    mi.assigns.setdefault(t.id, []).append(n.value)
        elif isinstance(n, (ast.If, ast.Try, ast.With, ast.For, ast.While)) and parent is None and cls is None:
            for c in ast.iter_child_nodes(n):
                if isinstance(c, ast.stmt):
                    self._index_stmt(c, mi, cls, parent, prefix)
                elif isinstance(c, ast.ExceptHandler):
                    for s in c.body:
                        self._index_stmt(s, mi, cls, parent, prefix)

    def _index_func(self, n, mi, cls, parent, prefix):
        qual = prefix + n.name
        fid = mi.rel + ':' + qual
        fi = FuncInfo(fid, n.name, qual, n, mi, cls, parent)
        for d in n.decorator_list:
            dn = ast.unparse(d)
            if dn == 'staticmethod':
                fi.kind = 'staticmethod'
            elif dn == 'classmethod':
                fi.kind = 'classmethod'
            elif dn.endswith('contextmanager'):
                fi.is_ctx = True
        if cls is not None and fi.kind == 'function':
            fi.kind = 'method'
        body = [s for s in n.body if not (isinstance(s, ast.Expr) and isinstance(s.value, ast.Constant)
                                          and isinstance(s.value.value, str))]
        if len(body) == 1 and isinstance(body[0], ast.Raise) and body[0].exc is not None and \
                'NotImplementedError' in ast.unparse(body[0].exc):
            fi.is_abstract = True
        for x in _own_nodes(n):
            if isinstance(x, (ast.Yield, ast.YieldFrom)):
                fi.is_gen = True
            if isinstance(x, ast.Name) and isinstance(x.ctx, (ast.Store, ast.Del)):
                fi.locals.add(x.id)
            if isinstance(x, (ast.Import, ast.ImportFrom)):
                self._imports(x, mi, fi.local_imports)
                for a in x.names:
                    fi.locals.add((a.asname or a.name).split('.')[0])
            if isinstance(x, ast.ExceptHandler) and x.name:
                fi.locals.add(x.name)
        for x in _own_nodes(n):
            if isinstance(x, (ast.Global, ast.Nonlocal)):
                fi.locals -= set(x.names)
        self.funcs[fid] = fi
        if cls is not None:
            cls.methods[n.name] = fi
            if not fi.is_abstract:
                self.methods_by_name.setdefault(n.name, []).append(fi)
        elif parent is not None:
            parent.nested[n.name] = fi
        else:
            mi.funcs[n.name] = fi
        # nested defs / classes anywhere inside the body (not inside deeper defs)
        stack = list(n.body)
        while stack:
            s = stack.pop(0)
            if isinstance(s, (ast.FunctionDef, ast.AsyncFunctionDef)):
                self._index_func(s, mi, None, fi, qual + '.')
                fi.locals.add(s.name)
                continue
            if isinstance(s, ast.ClassDef):
                self._index_class(s, mi, fi, qual + '.')
                fi.locals.add(s.name)
                continue
            for c in ast.iter_child_nodes(s):
                if isinstance(c, (ast.stmt, ast.ExceptHandler)):
                    stack.append(c)
        return fi

    def _index_class(self, n, mi, parent, prefix):
        qual = prefix + n.name
        cid = mi.rel + ':' + qual
        ci = ClassInfo(cid, n.name, n, mi, parent)
        self.classes[cid] = ci
        if parent is not None:
            parent.nested_classes[n.name] = ci
        else:
            mi.classes[n.name] = ci
        for s in n.body:
            if isinstance(s, (ast.FunctionDef, ast.AsyncFunctionDef)):
                self._index_func(s, mi, ci, parent, qual + '.')

    # ---- name resolution ---------------------------------------------------------------------
    def is_repo_module(self, dotted):
        return dotted in self.mods

    def resolve_global(self, mi, name, depth=0):
        """('func', fi) | ('class', ci) | ('mod', dotted) | ('ext', qualified) | ('var', mi, name) | None"""
        if depth > 12:
            return None
        if name in mi.funcs:
            return ('func', mi.funcs[name])
        if name in mi.classes:
            return ('class', mi.classes[name])
        if name in mi.imports:
            mod, attr = mi.imports[name]
            if attr is None:
                return ('mod', mod)
            if mod in self.mods:
                r = self.resolve_global(self.mods[mod], attr, depth + 1)
                if r:
                    return r
                if mod + '.' + attr in self.mods:
                    return ('mod', mod + '.' + attr)
                return None
            return ('ext', mod + '.' + attr)
        if name in mi.assigns:
            return ('var', mi, name)
        if hasattr(builtins, name):
            return ('ext', 'builtins.' + name)
        return None

    def resolve_in_func(self, fi, name):
        f = fi
        while f is not None:
            if name in f.nested:
                return ('func', f.nested[name])
            if name in f.nested_classes:
                return ('class', f.nested_classes[name])
            if name in f.local_imports:
                mod, attr = f.local_imports[name]
                if attr is None:
                    return ('mod', mod)
                if mod in self.mods:
                    r = self.resolve_global(self.mods[mod], attr)
                    if r:
                        return r
                    if mod + '.' + attr in self.mods:
                        return ('mod', mod + '.' + attr)
                    return None
                return ('ext', mod + '.' + attr)
            f = f.parent
        return self.resolve_global(fi.mod, name)

    def resolve_expr_static(self, fi, e):
        """resolve a Name / dotted Attribute chain without evaluation"""
        if isinstance(e, ast.Name):
            return self.resolve_in_func(fi, e.id)
        if isinstance(e, ast.Attribute):
            b = self.resolve_expr_static(fi, e.value)
            if not b:
                return None
            if b[0] == 'mod':
                d = b[1]
                if d in self.mods:
                    r = self.resolve_global(self.mods[d], e.attr)
                    if r:
                        return r
                    if d + '.' + e.attr in self.mods:
                        return ('mod', d + '.' + e.attr)
                    return None
                if d + '.' + e.attr in self.mods:
                    return ('mod', d + '.' + e.attr)
                return ('ext', d + '.' + e.attr)
            if b[0] == 'ext':
                return ('ext', b[1] + '.' + e.attr)
            if b[0] == 'class':
                m = self.lookup_method(b[1], e.attr)
                if m:
                    return ('func', m)
        return None

    def _resolve_bases(self, ci):
        owner = ci.parent_func or ci.mod.init_fi
        for b in ci.base_exprs:
            r = self.resolve_expr_static(owner, b)
            if r and r[0] == 'class':
                ci.bases.append(r[1])
            else:
                ci.bases.append(('ext', (r[1] if r and r[0] == 'ext' else ast.unparse(b))))

    def mro(self, ci):
        """C3 linearisation over repo classes (external bases kept as ('ext', name) at the end)"""
        def lin(c):
            if not isinstance(c, ClassInfo):
                return [c]
            seqs = [lin(b) for b in c.bases] + [list(c.bases)]
            res = [c]
            seqs = [s for s in seqs if s]
            while seqs:
                for s in seqs:
                    h = s[0]
                    if not any(h in t[1:] for t in seqs):
                        break
                else:
                    h = seqs[0][0]
                res.append(h)
                seqs = [[x for x in s if x is not h and x != h] for s in seqs]
                seqs = [s for s in seqs if s]
            return res
        if not hasattr(ci, '_mro'):
            ci._mro = lin(ci)
        return ci._mro

    def lookup_method(self, ci, name, after=None):
        seen_after = after is None
        for c in self.mro(ci):
            if not isinstance(c, ClassInfo):
                continue
            if not seen_after:
                if c is after:
                    seen_after = True
                continue
            if name in c.methods:
                return c.methods[name]
        return None

    def overriding(self, ci, name):
        out = []
        for sc in sorted(self.subclasses.get(ci.cid, ())):
            c = self.classes[sc]
            if name in c.methods:
                out.append(c.methods[name])
        return out

    def ext_bases(self, ci):
        return [b[1] for b in self.mro(ci) if not isinstance(b, ClassInfo)]

    def is_exception_class(self, ci):
        return any(n.split('.')[-1] in EXC_PARENT or n.split('.')[-1] == 'BaseException' for n in self.ext_bases(ci))

    def is_action_class(self, ci):
        return any(n.endswith('Action') for n in self.ext_bases(ci))

    def has_str(self, ci):
        for c in self.mro(ci):
            if isinstance(c, ClassInfo):
                if any(m in c.methods for m in ('__str__', '__repr__', '__format__')):
                    return True
            else:
                if c[1].split('.')[-1] not in ('object',):
                    return True   # external base: assume it prints deterministically
        return False

    def _attr_types(self, ci):
        for m in ci.methods.values():
            if not m.params:
                continue
            selfname = m.params[0]
            for x in _own_nodes(m.node):
                if isinstance(x, ast.Assign) and len(x.targets) == 1:
                    t = x.targets[0]
                    if isinstance(t, ast.Attribute) and isinstance(t.value, ast.Name) and t.value.id == selfname:
                        tag = _syntactic_type(x.value)
                        if tag:
                            ci.attr_types.setdefault(t.attr, set()).add(tag)

    def attr_types(self, ci, attr):
        out = set()
        for c in self.mro(ci):
            if isinstance(c, ClassInfo):
                out |= c.attr_types.get(attr, set())
        return out

    def line(self, rel, lineno):
        try:
            return self.by_rel[rel].lines[lineno - 1].strip()
        except (KeyError, IndexError):
            return ''


def _syntactic_type(v):
    if isinstance(v, ast.Call):
        fn = ast.unparse(v.func)
        if fn == 'set' or fn == 'frozenset':
            return 'set'
        if fn in ('dict', 'OrderedDict', 'collections.OrderedDict'):
            return 'dict'
        if fn == 'list':
            return 'list'
    if isinstance(v, (ast.Set, ast.SetComp)):
        return 'set'
    if isinstance(v, (ast.Dict, ast.DictComp)):
        return 'dict'
    if isinstance(v, (ast.List, ast.ListComp)):
        return 'list'
    return None


# ==================================================================================================
# exception hierarchy
# ==================================================================================================
EXC_PARENT = {}
for _n in dir(builtins):
    _o = getattr(builtins, _n)
    if isinstance(_o, type) and issubclass(_o, BaseException) and _o is not BaseException:
        EXC_PARENT[_n] = _o.__mro__[1].__name__
EXC_PARENT['IOError'] = 'OSError'
EXC_PARENT['EnvironmentError'] = 'OSError'
EXC_PARENT.update(LIB['exception_bases'])


def exc_canon(name):
    name = name.split('.')[-1]
    if name in ('IOError', 'EnvironmentError'):
        return 'OSError'
    return name


def exc_is_sub(e, h):
    e, h = exc_canon(e), exc_canon(h)
    if h == 'BaseException':
        return True
    seen = 0
    while e and seen < 20:
        if e == h:
            return True
        e = EXC_PARENT.get(e)
        seen += 1
    return False


# ==================================================================================================
# abstract values / state
# ==================================================================================================
class AV:
    __slots__ = ('o', 't', 'why')

    def __init__(self, o=frozenset(), t=frozenset(), why=None):
        self.o = o if isinstance(o, frozenset) else frozenset(o)
        self.t = t if isinstance(t, frozenset) else frozenset(t)
        self.why = why

    def join(self, other):
        if other is None:
            return self
        if self.o >= other.o and self.t >= other.t:
            return self
        return AV(self.o | other.o, self.t | other.t, self.why or other.why)

    def same(self, other):
        return other is not None and self.o == other.o and self.t == other.t

    def __repr__(self):
        return 'AV({},{})'.format(set(self.o), set(self.t))


EMPTY = AV()


def _match(a, b):
    return a == '*' or b == '*' or a == b or a is None or b is None


class State:
    __slots__ = ('frames', 'C', 'seeded', 'hard', 'assigned', 'tmp', 'nextcnt', 'cmp')

    def __init__(self):
        self.frames = [{}]
        self.C = {}
        self.seeded = False         # False | True | 'if:<param>' (seeded iff that parser parameter carries a seed action)
        self.hard = False           # same, without the contract assumption of `if seed is not None:` guards
        self.assigned = [set()]
        self.tmp = {}
        self.nextcnt = {}
        self.cmp = frozenset()      # facts (a, '<'|'<=', b) between local names

    def copy(self):
        s = State()
        s.frames = [dict(f) for f in self.frames]
        s.C = {k: set(v) for k, v in self.C.items()}
        s.seeded = self.seeded
        s.hard = self.hard
        s.assigned = [set(a) for a in self.assigned]
        s.tmp = dict(self.tmp)
        s.nextcnt = dict(self.nextcnt)
        s.cmp = self.cmp
        return s

    def join(self, o):
        if o is None:
            return self
        for f, g in zip(self.frames, o.frames):
            for k, v in g.items():
                f[k] = v.join(f.get(k)) if k in f else v
        for k, v in o.C.items():
            self.C.setdefault(k, set()).update(v)
        self.seeded = seed_meet(self.seeded, o.seeded)
        self.hard = seed_meet(self.hard, o.hard)
        self.cmp = self.cmp & o.cmp
        self.assigned = [a & b for a, b in zip(self.assigned, o.assigned)]
        for k in set(self.tmp) | set(o.tmp):
            a, b = self.tmp.get(k), o.tmp.get(k)
            if a is None or b is None:
                self.tmp[k] = a or b
            elif a[0] == 'gone' and b[0] == 'gone':
                self.tmp[k] = a
            else:
                self.tmp[k] = a if a[0] == 'live' else b
        for k, v in o.nextcnt.items():
            self.nextcnt[k] = max(v, self.nextcnt.get(k, 0))
        return self

    def same(self, o):
        if o is None or self.seeded != o.seeded or self.hard != o.hard or self.assigned != o.assigned or self.tmp != o.tmp:
            return False
        for f, g in zip(self.frames, o.frames):
            if f.keys() != g.keys():
                return False
            for k in f:
                if not f[k].same(g[k]):
                    return False
        if self.C.keys() != o.C.keys():
            return False
        return all(self.C[k] == o.C[k] for k in self.C)


def seed_meet(a, b):
    if a is None:
        return b
    if b is None:
        return a
    if a == b:
        return a
    if a is True:
        return b
    if b is True:
        return a
    return False


def seed_then(cur, new):
    """typestate after a further (possibly conditional) seeding"""
    if cur is True or new is True:
        return True
    return cur or new


def join_states(a, b):
    if a is None:
        return b
    if b is None:
        return a
    return a.join(b)


class Summary:
    def __init__(self):
        self.mut = {}          # (param, depth, attr) -> witness
        self.capture = {}      # param -> set((qparam, d, a, via, dep))
        self.ret = set()       # ('o', param, d, a) | ('fresh',)
        self.ret_edges = set() # (qparam, d, a, via, dep) edges of the fresh result
        self.ret_types = set()
        self.raises = {}       # (Exc, origin_fid, tag) -> witness
        self.uses_rng = None
        self.seeds_rng = None
        self.unseeded = {}     # callee label -> witness
        self.cond_unseeded = {}  # (parser param, label) -> witness: unseeded unless that parser carries a seed action
        self.free_use = None     # an RNG use not dominated by an unconditional seeding inside this function (for callers)
        self.cond_use = {}       # (parser param, label) -> witness: same, dominated only if that parser seeds
        self.exit_hard = None    # RNG state on every normal exit: None (no normal exit) | True | False | 'if:<param>'
        self.seed_params = set() # parameters passed directly to random.seed
        self.reg_tier = set()    # (action class id, 'site:<parser allocation>' | 'sub' | 'param:<p>' | 'unknown')
        self.guards = []       # (line, exact, text)
        self.nondet = {}       # (source, origin_fid) -> witness
        self.tmp_leaks = {}
        self.unbound = {}
        self.calls_parse_args = None
        self.registers = set()   # cids of Action classes
        self.validators = set()  # fids
        self.asserts = {}        # origin site -> witness (uncaught AssertionError)
        self.callees = set()
        self.mutable_default = set()

    def key(self):
        return (frozenset(self.mut), frozenset((k, frozenset(v)) for k, v in self.capture.items()),
                frozenset(self.ret), frozenset(self.ret_edges), frozenset(self.ret_types),
                frozenset(self.raises), bool(self.uses_rng), bool(self.seeds_rng), frozenset(self.unseeded),
                frozenset(self.cond_unseeded), bool(self.free_use), frozenset(self.cond_use), self.exit_hard, frozenset(self.seed_params), frozenset(self.reg_tier),
                frozenset(self.nondet), frozenset(self.tmp_leaks), frozenset(self.unbound),
                bool(self.calls_parse_args), frozenset(self.registers), frozenset(self.validators),
                frozenset(self.asserts))


BOTTOM = Summary()


# ==================================================================================================
# library table lookup
# ==================================================================================================
def _lib_set(names):
    exact = set(n for n in names if '*' not in n)
    pats = [n for n in names if '*' in n]
    return exact, pats


def _lib_in(name, table):
    exact, pats = table
    if name in exact:
        return True
    return any(fnmatch.fnmatchcase(name, p) for p in pats)


L_RNG_SEED = _lib_set(LIB['rng_seed'])
L_RNG_USE = _lib_set(LIB['rng_use'])
L_NONDET = _lib_set(LIB['nondet'])
L_PURE = _lib_set(LIB['pure_scalar'])
L_SHALLOW = _lib_set(LIB['fresh_shallow'])
L_DEEP = _lib_set(LIB['fresh_deep'])
L_ELEM = _lib_set(LIB['returns_element'])
IMMUTABLE_STR_METHODS = {'format', 'join', 'strip', 'replace', 'lower', 'upper', 'lstrip', 'rstrip', 'decode', 'getvalue'}


KPATH = 3


def pext(path, step):
    """path extended by one access step, k-limited"""
    if path and path[-1] == '…':
        return path
    if step == '…':
        return path + ('…',)
    p = path + (step,)
    if len(p) > KPATH:
        return p[:KPATH] + ('…',)
    return p


def pcat(a, b):
    for x in b:
        a = pext(a, x)
    return a


def loc_match(e, q):
    """may location e denote location q ('*' steps match anything, trailing '…' = any extension)"""
    et, qt = e and e[-1] == '…', q and q[-1] == '…'
    eb, qb = (e[:-1] if et else e), (q[:-1] if qt else q)
    n = min(len(eb), len(qb))
    if not all(_match(a, b) for a, b in zip(eb[:n], qb[:n])):
        return False
    if len(eb) == len(qb):
        return True
    if len(eb) < len(qb):
        return bool(et)
    return bool(qt)


def loc_prefix(path, e):
    """is location e strictly below `path` (or possibly below, with wildcards)"""
    pt = path and path[-1] == '…'
    pb = path[:-1] if pt else path
    et = e and e[-1] == '…'
    eb = e[:-1] if et else e
    n = min(len(pb), len(eb))
    if not all(_match(a, b) for a, b in zip(pb[:n], eb[:n])):
        return False
    if len(eb) > len(pb):
        return True
    return bool(et) or bool(pt)


def pshow(p, path):
    out = p
    for x in path:
        out += x if x in ('[]', '…') else '.' + x
    return out


class _Scope:
    """frame owner token for comprehensions / lambdas"""
    def __init__(self, parent):
        self.parent = parent
        self.locals = set()
        self.params = []


class Stop(Exception):
    pass


# ==================================================================================================
# the abstract interpreter (one function, inlining its nested functions)
# ==================================================================================================
class Interp:
    def __init__(self, A, fi):
        self.A, self.ix, self.fi = A, A.ix, fi
        self.S = Summary()
        self.st = State()
        self.fowner = [fi]
        self.nonlocals = [set()]
        self.hstack = []
        self.reraise = []
        self.loops = []
        self.returns = []
        self.retstack = []
        self.cur = fi
        self.inl = [fi.fid]
        self.guard_tests = []
        self.facts = []
        self.lambdas = {}
        self.in_loop = 0
        self.handler_vars = []
        self.siteno = 0

    # ---- witnesses ---------------------------------------------------------------------------
    def site(self, node, text=None):
        ln = getattr(node, 'lineno', 0)
        return '{}:{}: {}'.format(self.cur.rel, ln, text or self.ix.line(self.cur.rel, ln)[:110])

    def origin_id(self):
        return self.cur.fid

    # ---- frames ------------------------------------------------------------------------------
    def _frame_index(self, name):
        i = len(self.st.frames) - 1
        while i >= 0:
            if name in self.st.frames[i]:
                return i
            par = self.fowner[i].parent
            j = i - 1
            while j >= 0 and self.fowner[j] is not par:
                j -= 1
            if par is None:
                break
            i = j
        return -1

    def lookup(self, name):
        i = self._frame_index(name)
        return self.st.frames[i][name] if i >= 0 else None

    def setvar(self, name, av):
        i = len(self.st.frames) - 1
        if name in self.nonlocals[i]:
            j = self._frame_index(name)
            if j >= 0:
                i = j
        self.st.frames[i][name] = av
        self.st.assigned[i].add(name)

    # ---- heap --------------------------------------------------------------------------------
    # origin = (root, path); path = tuple of access steps (attribute name, '[]' element, '*' unknown), at most
    # KPATH long, a trailing '…' = "anything below".  Edge (o2, epath) in C[root]: object o2 sits at root.epath.
    def ch(self, origins, step, seen=None):
        res = set()
        C = self.st.C
        seen = seen if seen is not None else set()
        for o in origins:
            if (o, step) in seen:
                continue
            seen.add((o, step))
            r, path = o
            target = pext(path, step)
            if r[0] in ('p', 'g'):
                res.add((r, target))
            for (o2, epath, _) in C.get(r, ()):
                if loc_match(epath, target):
                    res.add(o2)
                    if target[-1] == '…' or epath[-1] == '…':
                        res |= self.desc([o2])
                elif path and path[-1] != '…' and loc_match(epath, path):
                    res |= self.ch([o2], step, seen)      # o2 IS the object at root.path
        return frozenset(res)

    def desc(self, origins):
        res = set()
        todo = list(origins)
        seen = set()
        while todo:
            o = todo.pop()
            if o in seen:
                continue
            seen.add(o)
            r, path = o
            if r[0] in ('p', 'g'):
                res.add((r, pext(path, '…')))
            for (o2, epath, _) in self.st.C.get(r, ()):
                if loc_prefix(path, epath):
                    res.add(o2)
                    todo.append(o2)
        return frozenset(res)

    def add_edge(self, root, origins, epath, why):
        if not origins:
            return
        s = self.st.C.setdefault(root, set())
        for o in origins:
            if o[0] == root and (len(o[1]) >= len(epath) or o[1] == epath):
                continue
            if not any(e[0] == o and e[1] == epath for e in s):
                s.add((o, epath, why))

    def add_under(self, targets, step, values, why):
        """values become reachable at <target>.step for every target origin"""
        if not values:
            return
        for (r, path) in targets:
            self.add_edge(r, values, pext(path, step), why)

    def edge_why(self, o):
        """provenance strings of edges that lead to root of o (for witnesses)"""
        out = []
        for r, es in self.st.C.items():
            for (o2, epath, why) in es:
                if o2[0] == o[0] and why and why not in out:
                    out.append(why)
        return out[:2]

    def fresh(self, node, tag=''):
        self.siteno += 1
        return ('s', getattr(node, 'lineno', 0), getattr(node, 'col_offset', 0), tag)

    def mutate(self, origins, w, why=None):
        for (r, path) in origins:
            if r[0] == 'p':
                key = (r[1], path)
                if key not in self.S.mut:
                    extra = tuple(self.edge_why((r, path))) if path else ()
                    if why:
                        extra = (why,) + extra
                    self.S.mut[key] = tuple(w) + tuple('alias: ' + x for x in extra if x)

    def store(self, tv, step, vv, node, deep_values=False):
        """tv.step = vv   (tv: AV of the container object)"""
        w = (self.site(node),)
        self.mutate(tv.o, w, tv.why)
        if vv.o:
            self.add_under(tv.o, step, vv.o, self.site(node))

    # ---- effects -----------------------------------------------------------------------------
    def raise_exc(self, exc, origin, tag, w):
        exc = exc_canon(exc)
        for fr in reversed(self.hstack):
            for i, types in enumerate(fr['types']):
                if types is None or any(exc_is_sub(exc, h) for h in types):
                    fr['absorbed'][i].append((exc, origin, tag, w))
                    return False
        key = (exc, origin, tag)
        if key not in self.S.raises:
            self.S.raises[key] = tuple(w)[:MAXCHAIN]
        return True

    def use_rng(self, label, w):
        if self.S.uses_rng is None:
            self.S.uses_rng = tuple(w)[:MAXCHAIN]
        hd = self.st.hard
        if isinstance(hd, str):
            self.S.cond_use.setdefault((hd[3:], label), tuple(w)[:MAXCHAIN])
        elif hd is not True and self.S.free_use is None:
            self.S.free_use = tuple(w)[:MAXCHAIN]
        sd = self.st.seeded
        if sd is True:
            return
        if isinstance(sd, str):
            self.S.cond_unseeded.setdefault((sd[3:], label), tuple(w)[:MAXCHAIN])
        else:
            self.S.unseeded.setdefault(label, tuple(w)[:MAXCHAIN])

    def nondet(self, src, origin, w):
        self.S.nondet.setdefault((src, origin), tuple(w)[:MAXCHAIN])

    def check_leaks(self, node, how):
        for v, stt in self.st.tmp.items():
            if stt[0] == 'live':
                self.S.tmp_leaks.setdefault(v, (stt[1], self.site(node, '{} with temp file `{}` not unlinked'.format(how, v))))

    # ---- running -----------------------------------------------------------------------------
    def param_av(self, fi, name, idx):
        tags = set()
        if fi.cls is not None and idx == 0 and fi.kind == 'method':
            tags.add('sub:' + fi.cls.cid)
        elif fi.cls is not None and idx == 0 and fi.kind == 'classmethod':
            tags.add('class:' + fi.cls.cid)
            for sc in self.ix.subclasses.get(fi.cls.cid, ()):
                tags.add('class:' + sc)
        if name in EC.INTERFACE_PARAMS:
            tags |= {'class:' + c for c in EC.INTERFACE_PARAMS[name] if c in self.ix.classes}
        if name in EC.INSTANCE_PARAMS:
            tags |= {'sub:' + c for c in EC.INSTANCE_PARAMS[name] if c in self.ix.classes}
        d = fi.defaults.get(name)
        if d is not None:
            r = self.ix.resolve_expr_static(fi, d) if isinstance(d, (ast.Name, ast.Attribute)) else None
            if r and r[0] == 'class':
                tags.add('class:' + r[1].cid)
        return AV({(('p', name), ())}, tags)

    def run(self):
        fi = self.fi
        if fi.is_module:
            body = fi.node.body
        else:
            for i, p in enumerate(fi.params):
                self.setvar(p, self.param_av(fi, p, i))
            if fi.vararg:
                self.setvar(fi.vararg, AV({(('p', fi.vararg), ())}))
            if fi.kwarg:
                self.setvar(fi.kwarg, AV({(('p', fi.kwarg), ())}))
            for n, d in fi.defaults.items():
                if isinstance(d, (ast.List, ast.Dict, ast.Set)):
                    self.S.mutable_default.add(n)
            body = fi.node.body
        self.block(body)
        if self.st is not None:
            self.S.exit_hard = seed_meet(self.S.exit_hard, self.st.hard)
            self.check_leaks(fi.node.body[-1] if body else fi.node, 'function ends')
        self.finish()
        return self.S

    def finish(self):
        S = self.S
        rets = self.returns
        for av, stC in rets:
            S.ret_types |= {t for t in av.t if t != 'dictlit'}
            for (r, path) in av.o:
                if r[0] == 'p':
                    S.ret.add(('o', r[1], path))
                elif r[0] == 's':
                    S.ret.add(('fresh',))
                    for (o2, epath) in self._flatten(r, stC):
                        S.ret_edges.add((o2[0][1], o2[1], epath))
        Cs = [c for _, c in rets]
        if self.st is not None:
            Cs.append(self.st.C)
        for C in Cs:
            for r, es in C.items():
                if r[0] != 'p':
                    continue
                for (o2, epath, _) in es:
                    if o2[0][0] == 'p':
                        S.capture.setdefault(r[1], set()).add((o2[0][1], o2[1], epath))
                    elif o2[0][0] == 's':
                        for (o3, epath3) in self._flatten(o2[0], C):
                            S.capture.setdefault(r[1], set()).add((o3[0][1], o3[1], pcat(epath, epath3)))

    def _flatten(self, root, C):
        """parameter origins reachable from a fresh root: [(origin, location path under root)]"""
        out = set()
        seen = set()
        todo = [(root, ())]
        while todo:
            r, pre = todo.pop()
            if (r, pre) in seen:
                continue
            seen.add((r, pre))
            for (o2, epath, _) in C.get(r, ()):
                loc = pcat(pre, epath)
                if o2[0][0] == 'p':
                    out.add((o2, loc))
                elif o2[0][0] == 's' and o2[0] != r:
                    todo.append((o2[0], loc))
        return out

    def block(self, stmts, acc=None):
        for s in stmts:
            if self.st is None:
                return
            self.stmt(s)
            if acc is not None and self.st is not None:
                acc[0] = join_states(acc[0], self.st.copy())

    # ---- statements ----------------------------------------------------------------------------
    def stmt(self, s):
        m = getattr(self, 's_' + type(s).__name__, None)
        if m is None:
            for c in ast.iter_child_nodes(s):
                if isinstance(c, ast.expr):
                    self.ev(c)
            return
        m(s)

    def s_Expr(self, s):
        self.ev(s.value)

    def s_Pass(self, s):
        pass

    def s_Import(self, s):
        for a in s.names:
            name = (a.asname or a.name)
            name = name if a.asname else name.split('.')[0]
            if self.cur.is_module:
                continue
            self.setvar(name, self.av_of_resolved(self.ix.resolve_in_func(self.cur, name), s))

    s_ImportFrom = s_Import

    def s_Global(self, s):
        self.nonlocals[-1].update(s.names)

    def s_Nonlocal(self, s):
        self.nonlocals[-1].update(s.names)

    def s_FunctionDef(self, s):
        r = self.ix.resolve_in_func(self.cur, s.name)
        fi = None
        f = self.cur
        while f is not None and fi is None:
            fi = f.nested.get(s.name)
            f = f.parent
        if fi is None and r and r[0] == 'func':
            fi = r[1]
        if fi is not None and fi.node is s:
            self.setvar(s.name, AV(t={'func:' + fi.fid}))
        else:
            # conditional re-definition etc.: find by node
            for g in self.ix.funcs.values():
                if g.node is s:
                    self.setvar(s.name, AV(t={'func:' + g.fid}))
                    break
        for d in s.args.defaults:
            self.ev(d)

    def s_ClassDef(self, s):
        for ci in self.ix.classes.values():
            if ci.node is s:
                self.setvar(s.name, AV(t={'class:' + ci.cid}))
                break

    def s_Return(self, s):
        av = self.ev(s.value) if s.value is not None else EMPTY
        if self.st is None:
            return
        if self.retstack:
            self.retstack[-1].append((av, self.st.copy()))
        else:
            self.returns.append((av, {k: set(v) for k, v in self.st.C.items()}))
            self.check_leaks(s, 'return')
            self.S.exit_hard = seed_meet(self.S.exit_hard, self.st.hard)
        self.st = None

    def s_Delete(self, s):
        for t in s.targets:
            if isinstance(t, ast.Subscript):
                tv = self.ev(t.value)
                self.ev(t.slice)
                self.mutate(tv.o, (self.site(s),), tv.why)
            elif isinstance(t, ast.Attribute):
                tv = self.ev(t.value)
                self.mutate(tv.o, (self.site(s),), tv.why)
            elif isinstance(t, ast.Name):
                i = self._frame_index(t.id)
                if i >= 0:
                    self.st.frames[i].pop(t.id, None)
                    self.st.assigned[i].discard(t.id)

    def s_Assert(self, s):
        self.ev(s.test)
        self._narrow_from_test(s.test, positive=True)
        self.facts_add(s.test)
        self.st.cmp = self.st.cmp | self.cmp_facts(s.test, True)
        self.raise_exc('AssertionError', self.origin_id(), 'assert', (self.site(s),))
        if s.msg is not None:
            self.ev(s.msg)

    def s_Raise(self, s):
        w = (self.site(s),)
        escaped = False
        if s.exc is None:
            if self.reraise:
                for (exc, origin, tag, w0) in self.reraise[-1]:
                    escaped |= self.raise_exc(exc, origin, tag, w0)
        else:
            e = s.exc
            if isinstance(e, ast.Name) and any(e.id == hv for hv, _ in self.handler_vars):
                for hv, absorbed in reversed(self.handler_vars):
                    if hv == e.id:
                        for (exc, origin, tag, w0) in absorbed:
                            escaped |= self.raise_exc(exc, origin, tag, w0)
                        break
            else:
                if isinstance(e, ast.Call):
                    name = self._exc_name(e.func)
                    self.ev(e)
                else:
                    name = self._exc_name(e)
                tag = ''
                if name == 'TypeError' and self._in_type_guard():
                    tag = 'typeguard'
                if name == 'NotImplementedError' and self.cur.is_abstract:
                    tag = 'abstract'
                escaped = self.raise_exc(name or 'Exception', self.origin_id(), tag, w)
            if s.cause is not None:
                self.ev(s.cause)
        if escaped and not self.retstack and self.st is not None:
            self.check_leaks(s, 'raise')
        self.st = None

    def _exc_name(self, e):
        if isinstance(e, ast.Attribute):
            return e.attr
        if isinstance(e, ast.Name):
            return e.id
        return None

    def _in_type_guard(self):
        for t in self.guard_tests:
            if 'isinstance(' in t or 'type(' in t or 'issubclass(' in t:
                return True
        for fr in self.reraise_types:
            if fr and any(exc_is_sub('TypeError', h) for h in fr):
                return True
        return False

    reraise_types = ()

    def s_Assign(self, s):
        av = self.ev(s.value)
        if self.st is None:
            return
        for t in s.targets:
            self.assign(t, av, s, s.value)

    def s_AnnAssign(self, s):
        if s.value is not None:
            av = self.ev(s.value)
            self.assign(s.target, av, s, s.value)

    def assign(self, t, av, node, valnode=None):
        if isinstance(t, ast.Name):
            # temp-file typestate
            if t.id in self.st.tmp and not (valnode is not None and (t.id + '.name') in ast.unparse(valnode)):
                if self.st.tmp[t.id][0] == 'live':
                    self.S.tmp_leaks.setdefault(t.id, (self.st.tmp[t.id][1], self.site(node, 'rebound while not unlinked')))
                del self.st.tmp[t.id]
            if 'tmpfile' in av.t and not self.retstack:
                self.st.tmp[t.id] = ('live', self.site(node))
                av = AV(av.o, av.t - {'tmpfile'})
            if valnode is not None and not isinstance(valnode, ast.Name):
                av = AV(av.o, av.t, av.why)
            elif av.o and av.why is None and valnode is not None:
                av = AV(av.o, av.t, self.site(node))
            if av.o and av.why is None:
                av = AV(av.o, av.t, self.site(node))
            self.st.nextcnt.pop(t.id, None)
            if self.st.cmp:
                self.st.cmp = frozenset(f for f in self.st.cmp if t.id not in (f[0], f[2]))
            self.setvar(t.id, av)
        elif isinstance(t, (ast.Tuple, ast.List)):
            lit_ok = isinstance(valnode, (ast.Tuple, ast.List)) and len(valnode.elts) == len(t.elts) \
                and not any(isinstance(x, ast.Starred) for x in valnode.elts)
            if not lit_ok and valnode is not None and not self._unpack_safe(valnode, len(t.elts)):
                for exc in LIB['raises']['<unpack>']:
                    self.raise_exc(exc, self.origin_id(), '', (self.site(node, 'tuple unpacking: ' + self.ix.line(self.cur.rel, node.lineno)[:80]),))
            if lit_ok:
                vals = [self.ev_cached(x) for x in valnode.elts]
                for x, v in zip(t.elts, vals):
                    self.assign(x, v, node, None)
            else:
                el = AV(self.ch(av.o, '[]'), {x for x in av.t if x.startswith(('func:', 'cls:', 'sub:', 'class:'))}, av.why)
                for i, x in enumerate(t.elts):
                    if isinstance(x, ast.Starred):
                        x = x.value
                    pos = {tg.split(':', 2)[2] for tg in av.t if tg.startswith('pos:{}:'.format(i))}
                    self.assign(x, AV(el.o, el.t | pos, el.why) if pos else el, node, None)
        elif isinstance(t, ast.Attribute):
            tv = self.ev(t.value)
            self.store(tv, t.attr, av, node)
        elif isinstance(t, ast.Subscript):
            tv = self.ev(t.value)
            self.ev(t.slice)
            self.store(tv, '[]', av, node)
        elif isinstance(t, ast.Starred):
            self.assign(t.value, av, node, None)

    def _unpack_safe(self, valnode, n):
        """right-hand sides whose arity is fixed by construction (no ValueError)"""
        if isinstance(valnode, ast.Call):
            fn = ast.unparse(valnode.func)
            if fn in ('divmod',) and n == 2:
                return True
            if fn.endswith('.parts') and n == 2:
                return True
            if fn.endswith('.communicate') and n == 2:
                return True
            if fn.endswith('os.path.splitext') or fn.endswith('os.path.split'):
                return True
            r = self.ix.resolve_expr_static(self.cur, valnode.func)
            if r and r[0] == 'func' and not r[1].is_gen:
                rets = [x for x in _own_nodes(r[1].node) if isinstance(x, ast.Return)]
                if rets and all(isinstance(x.value, ast.Tuple) and len(x.value.elts) == n
                                and not any(isinstance(y, ast.Starred) for y in x.value.elts) for x in rets):
                    return True
        return False

    _evcache = None

    def ev_cached(self, e):
        return self.ev(e)

    def _immutable_looking(self, e):
        if isinstance(e, ast.Constant):
            return True
        if isinstance(e, ast.JoinedStr):
            return True
        if isinstance(e, ast.UnaryOp):
            return self._immutable_looking(e.operand)
        if isinstance(e, ast.BinOp):
            return self._immutable_looking(e.left) or self._immutable_looking(e.right)
        if isinstance(e, ast.Call):
            if isinstance(e.func, ast.Attribute) and e.func.attr in IMMUTABLE_STR_METHODS:
                return True
            if isinstance(e.func, ast.Name) and e.func.id in ('str', 'int', 'float', 'len', 'abs', 'repr', 'min', 'max', 'sum'):
                return True
        return False

    def s_AugAssign(self, s):
        vv = self.ev(s.value)
        imm = self._immutable_looking(s.value)
        t = s.target
        if isinstance(t, ast.Name):
            cur = self.lookup(t.id)
            if t.id in self.cur.locals and len(self.st.frames) and t.id not in self.st.assigned[-1] \
                    and t.id not in self.cur.params and self._frame_index(t.id) < 0:
                self.S.unbound.setdefault(t.id, (self.site(s),))
            if cur is None:
                cur = EMPTY
            if imm:
                self.setvar(t.id, AV(frozenset(), cur.t & {'str'}))
            else:
                self.mutate(cur.o, (self.site(s),), cur.why)
                self.add_under(cur.o, '[]', self.ch(vv.o, '[]'), self.site(s))
                self.setvar(t.id, cur)
        elif isinstance(t, ast.Attribute):
            tv = self.ev(t.value)
            self.store(tv, t.attr, vv, s)
            if not imm:
                self.mutate(self.ch(tv.o, t.attr), (self.site(s),), tv.why)
        elif isinstance(t, ast.Subscript):
            tv = self.ev(t.value)
            self.ev(t.slice)
            self.store(tv, '[]', vv, s)
            if not imm:
                self.mutate(self.ch(tv.o, '[]'), (self.site(s),), tv.why)

    # ---- control flow ---------------------------------------------------------------------------
    def _seed_test(self, test):
        """(is_seed_test, exact, mentions) for guards of random.seed"""
        conj = test.values if isinstance(test, ast.BoolOp) and isinstance(test.op, ast.And) else [test]
        found = None
        for c in conj:
            src = ast.unparse(c)
            if isinstance(c, ast.Compare) and len(c.ops) == 1 and isinstance(c.ops[0], (ast.IsNot, ast.NotEq)) \
                    and isinstance(c.comparators[0], ast.Constant) and c.comparators[0].value is None \
                    and 'seed' in ast.unparse(c.left):
                found = (True, True, src)
            elif isinstance(c, (ast.Name, ast.Attribute)) and 'seed' in src and found is None:
                found = (True, False, src)
        return found or (False, False, '')

    def _narrow_from_test(self, test, positive):
        """isinstance narrowing on the current state"""
        neg = False
        t = test
        if isinstance(t, ast.UnaryOp) and isinstance(t.op, ast.Not):
            neg, t = True, t.operand
        if not (isinstance(t, ast.Call) and isinstance(t.func, ast.Name) and t.func.id == 'isinstance'
                and len(t.args) == 2 and isinstance(t.args[0], ast.Name)):
            return
        if neg == positive:
            return      # information only on the branch where isinstance holds
        cls_nodes = t.args[1].elts if isinstance(t.args[1], ast.Tuple) else [t.args[1]]
        tags = set()
        for c in cls_nodes:
            r = self.ix.resolve_expr_static(self.cur, c)
            if r and r[0] == 'class':
                tags.add('sub:' + r[1].cid)
            else:
                tags.add('extobj:' + ast.unparse(c))
        cur = self.lookup(t.args[0].id)
        if cur is not None and self.st is not None:
            keep = {x for x in cur.t if not x.startswith(('cls:', 'sub:', 'extobj:'))}
            self.setvar(t.args[0].id, AV(cur.o, keep | tags, cur.why))

    def cmp_facts(self, test, holds):
        """comparison facts between names implied by `test` being `holds`"""
        out = set()
        if isinstance(test, ast.UnaryOp) and isinstance(test.op, ast.Not):
            return self.cmp_facts(test.operand, not holds)
        if isinstance(test, ast.BoolOp):
            if (isinstance(test.op, ast.And) and holds) or (isinstance(test.op, ast.Or) and not holds):
                for v in test.values:
                    out |= self.cmp_facts(v, holds)
            return out
        if isinstance(test, ast.Compare):
            items = [test.left] + list(test.comparators)
            for (l, op, r) in zip(items, test.ops, items[1:]):
                if not (isinstance(l, ast.Name) and isinstance(r, ast.Name)):
                    continue
                a, b = l.id, r.id
                k = type(op).__name__
                if not holds:
                    k = {'Lt': 'GtE', 'LtE': 'Gt', 'Gt': 'LtE', 'GtE': 'Lt'}.get(k)
                if k == 'Lt':
                    out.add((a, '<', b))
                elif k == 'LtE':
                    out.add((a, '<=', b))
                elif k == 'Gt':
                    out.add((b, '<', a))
                elif k == 'GtE':
                    out.add((b, '<=', a))
        return out

    def facts_add(self, test):
        conj = test.values if isinstance(test, ast.BoolOp) and isinstance(test.op, ast.And) else [test]
        for c in conj:
            if isinstance(c, ast.Compare) and len(c.ops) == 1 and isinstance(c.ops[0], ast.In):
                if self.facts:
                    self.facts[-1].add((ast.dump(c.left), ast.dump(c.comparators[0])))

    def s_If(self, s):
        self.ev(s.test)
        if self.st is None:
            return
        is_seed, exact, txt = self._seed_test(s.test)
        pre = self.st
        self.st = pre.copy()
        self.guard_tests.append(ast.unparse(s.test))
        self.facts.append(set(self.facts[-1]) if self.facts else set())
        self.facts_add(s.test)
        self._narrow_from_test(s.test, positive=True)
        self.st.cmp = self.st.cmp | self.cmp_facts(s.test, True)
        seeded_before = self.st.seeded
        self.block(s.body)
        body_end = self.st
        self.facts.pop()
        self.guard_tests.pop()
        self.st = pre
        self.guard_tests.append('not (' + ast.unparse(s.test) + ')')
        self._narrow_from_test(s.test, positive=False)
        self.st.cmp = self.st.cmp | self.cmp_facts(s.test, False)
        self.block(s.orelse)
        self.guard_tests.pop()
        else_end = self.st
        body_seeds = body_end is not None and body_end.seeded is True and seeded_before is not True
        if is_seed and body_seeds:
            self.S.guards.append((s.lineno, exact, txt, self.site(s)))
        self.st = join_states(body_end, else_end) if not (body_end is None and else_end is None) else None
        if self.st is not None and is_seed and body_seeds:
            # contract assumption "a seed is given": the guarded branch is the one taken
            self.st.seeded = True

    def _iter_elem(self, it, node):
        """element value of iterating `it`; charges generator exceptions, set-iteration nondeterminism"""
        for tag in it.t:
            if tag.startswith('gen:'):
                self.consume_gen(tag[4:], node)
        if 'set' in it.t:
            self.nondet('set-iteration', self.origin_id(), (self.site(node),))
        o, tags = self.elem_of(it, node, 'iter')
        return AV(o, {x for x in it.t if x.startswith(('func:',))} | tags, it.why)

    def elem_of(self, av, node, how):
        """element origins of iterating / subscripting `av` (through __iter__/__getitem__ of repository classes)"""
        o = set(self.ch(av.o, '[]'))
        tags = set()
        typed = False
        for t in sorted(av.t):
            if t.startswith(('cls:', 'sub:')):
                ci = self.ix.classes.get(t[4:])
                m = self.ix.lookup_method(ci, '__iter__' if how == 'iter' else '__getitem__') if ci else None
                if m is not None and m.fid not in self.inl:
                    typed = True
                    r = self.apply_summary(m, {m.params[0]: av}, node, note='implicit ')
                    o |= self.ch(r.o, '[]') if how == 'iter' else r.o
                    tags |= {x for x in r.t if not x.startswith('gen:')}
        if not typed and not (av.t & {'list', 'tuple', 'dict', 'set', 'genexp', 'str', 'dictlit', 'file'}):
            # object of unknown class allocated here (result of a call): its items may be anything it holds
            o |= self.desc([x for x in av.o if x[0][0] == 's'])
        return frozenset(o), tags

    def consume_gen(self, fid, node):
        g = self.ix.funcs.get(fid)
        if g is None:
            return
        summ = self.A.summary(g)
        self.S.callees.add(fid)
        for (exc, origin, tag), w in summ.raises.items():
            self.raise_exc(exc, origin, tag, (self.site(node, 'consumes generator ' + g.qual),) + w)

    def s_For(self, s):
        it = self.ev(s.iter)
        if self.st is None:
            return
        elem = self._iter_elem(it, s)
        pre = self.st.copy()
        self.loops.append({'breaks': [], 'continues': []})
        self.in_loop += 1
        entry = self.st
        last = None
        self.facts.append(set(self.facts[-1]) if self.facts else set())
        if isinstance(s.target, ast.Name):
            self.facts[-1].add((ast.dump(ast.Name(id=s.target.id, ctx=ast.Load())), ast.dump(s.iter)))
        for k in range(8):
            self.st = entry.copy()
            self.assign(s.target, elem, s, None)
            self.block(s.body)
            ends = [self.st] + self.loops[-1]['continues']
            self.loops[-1]['continues'] = []
            new_entry = pre.copy()
            for e in ends:
                new_entry = join_states(new_entry, e)
            if new_entry.same(entry):
                break
            entry = new_entry
        self.in_loop -= 1
        self.facts.pop()
        lp = self.loops.pop()
        self.st = entry            # zero or more iterations done, loop exhausted
        if s.orelse:
            self.block(s.orelse)
        for b in lp['breaks']:
            self.st = join_states(self.st, b)

    def s_While(self, s):
        const_true = isinstance(s.test, ast.Constant) and bool(s.test.value)
        pre = self.st.copy()
        self.loops.append({'breaks': [], 'continues': []})
        self.in_loop += 1
        entry = self.st
        for k in range(8):
            self.st = entry.copy()
            self.ev(s.test)
            self.guard_tests.append(ast.unparse(s.test))
            self.block(s.body)
            self.guard_tests.pop()
            ends = [self.st] + self.loops[-1]['continues']
            self.loops[-1]['continues'] = []
            new_entry = pre.copy()
            for e in ends:
                new_entry = join_states(new_entry, e)
            if new_entry.same(entry):
                break
            entry = new_entry
        self.in_loop -= 1
        lp = self.loops.pop()
        if const_true:
            self.st = None
        else:
            self.st = entry
            self.ev(s.test)
            if s.orelse:
                self.block(s.orelse)
        for b in lp['breaks']:
            self.st = join_states(self.st, b)

    def s_Break(self, s):
        if self.loops:
            self.loops[-1]['breaks'].append(self.st)
        self.st = None

    def s_Continue(self, s):
        if self.loops:
            self.loops[-1]['continues'].append(self.st)
        self.st = None

    def s_With(self, s):
        for item in s.items:
            av = self.ev(item.context_expr)
            if self.st is None:
                return
            if item.optional_vars is not None:
                self.assign(item.optional_vars, av, s, item.context_expr)
        self.block(s.body)

    def _handler_types(self, h):
        if h.type is None:
            return None
        nodes = h.type.elts if isinstance(h.type, ast.Tuple) else [h.type]
        out = []
        for n in nodes:
            nm = self._exc_name(n)
            if nm:
                out.append(exc_canon(nm))
        return out

    def s_Try(self, s):
        pre = self.st.copy()
        fr = {'types': [self._handler_types(h) for h in s.handlers], 'absorbed': [[] for _ in s.handlers]}
        acc = [pre.copy()]
        if s.handlers:
            self.hstack.append(fr)
        self.block(s.body, acc)
        if s.handlers:
            self.hstack.pop()
        normal = self.st
        if normal is not None and s.orelse:
            self.block(s.orelse)
            normal = self.st
        exc_entry = acc[0]
        # on the exceptional entry only what was definitely assigned / seeded before the try is known
        exc_entry.assigned = [set(a) for a in pre.assigned] + [set() for _ in exc_entry.assigned[len(pre.assigned):]]
        exc_entry.seeded = pre.seeded
        ends = [normal]
        for i, h in enumerate(s.handlers):
            self.st = exc_entry.copy()
            if h.name:
                self.setvar(h.name, EMPTY)
            self.reraise.append(fr['absorbed'][i])
            self.handler_vars.append((h.name, fr['absorbed'][i]))
            old = self.reraise_types
            self.reraise_types = tuple(old) + (fr['types'][i] or ['BaseException'],)
            self.block(h.body)
            self.reraise_types = old
            self.handler_vars.pop()
            self.reraise.pop()
            if self.st is not None and h.name:
                i2 = self._frame_index(h.name)
                if i2 >= 0:
                    self.st.frames[i2].pop(h.name, None)
                    self.st.assigned[i2].discard(h.name)
            ends.append(self.st)
        out = None
        for e in ends:
            out = join_states(out, e)
        if s.finalbody:
            # exceptional pass (effects only)
            self.st = exc_entry.copy()
            self.block(s.finalbody)
            # normal pass
            self.st = out
            if self.st is not None:
                self.block(s.finalbody)
        else:
            self.st = out

    # ---- expressions ----------------------------------------------------------------------------
    def ev(self, e):
        if e is None or self.st is None:
            return EMPTY
        m = getattr(self, 'e_' + type(e).__name__, None)
        if m is None:
            out = EMPTY
            for c in ast.iter_child_nodes(e):
                if isinstance(c, ast.expr):
                    out = out.join(self.ev(c))
            return EMPTY
        r = m(e)
        return r if r is not None else EMPTY

    def e_Constant(self, e):
        if isinstance(e.value, str):
            return AV(t={'str'})
        return EMPTY

    def e_Name(self, e):
        v = self.lookup(e.id)
        if v is not None:
            # definite assignment (root function frame only)
            i = self._frame_index(e.id)
            owner = self.fowner[i]
            if isinstance(owner, FuncInfo) and e.id in owner.locals and e.id not in owner.params \
                    and e.id not in self.st.assigned[i]:
                self.S.unbound.setdefault(e.id, (self.site(e, 'local `{}` may be unbound here: {}'.format(
                    e.id, self.ix.line(self.cur.rel, e.lineno)[:80])),))
            return v
        owner = self.fowner[-1]
        if isinstance(owner, FuncInfo) and e.id in owner.locals and e.id not in owner.params and not owner.is_module:
            self.S.unbound.setdefault(e.id, (self.site(e, 'local `{}` may be unbound here: {}'.format(
                e.id, self.ix.line(self.cur.rel, e.lineno)[:80])),))
            return EMPTY
        r = self.ix.resolve_in_func(self.cur, e.id)
        return self.av_of_resolved(r, e)

    def av_of_resolved(self, r, node):
        if not r:
            return EMPTY
        if r[0] == 'func':
            return AV(t={'func:' + r[1].fid})
        if r[0] == 'class':
            return AV(t={'class:' + r[1].cid})
        if r[0] == 'mod':
            return AV(t={('mod:' if r[1] in self.ix.mods else 'ext:') + r[1]})
        if r[0] == 'ext':
            if _lib_in(r[1], L_NONDET) and not isinstance(getattr(node, 'ctx', None), ast.Store):
                # attribute-like sources (os.environ); functions are charged at the call
                if r[1] in ('os.environ',):
                    self.nondet(r[1], self.origin_id(), (self.site(node),))
            return AV(t={'ext:' + r[1]})
        if r[0] == 'var':
            mi, name = r[1], r[2]
            return self.A.global_av(self, mi, name, node)
        return EMPTY

    def e_Attribute(self, e):
        b = self.ev(e.value)
        tags = set()
        origins = self.ch(b.o, e.attr)
        for t in b.t:
            if t.startswith('mod:'):
                d = t[4:]
                r = self.ix.resolve_global(self.ix.mods[d], e.attr)
                if not r and d + '.' + e.attr in self.ix.mods:
                    r = ('mod', d + '.' + e.attr)
                av = self.av_of_resolved(r, e)
                tags |= av.t
                origins |= av.o
            elif t.startswith('ext:'):
                nm = t[4:] + '.' + e.attr
                if nm in ('os.environ',):
                    self.nondet(nm, self.origin_id(), (self.site(e),))
                tags.add('ext:' + nm)
            elif t.startswith('class:'):
                ci = self.ix.classes.get(t[6:])
                if ci:
                    m = self.ix.lookup_method(ci, e.attr)
                    if m:
                        tags.add('func:' + m.fid)
            elif t.startswith(('cls:', 'sub:')):
                ci = self.ix.classes.get(t[4:])
                if ci:
                    tags |= self.ix.attr_types(ci, e.attr)
                    m = self.ix.lookup_method(ci, e.attr)
                    if m:
                        tags.add('bound:' + m.fid)
        if e.attr == 'name' and 'tmpfile' not in b.t:
            tags.add('str')
        return AV(origins, tags, b.why)

    def e_Subscript(self, e):
        b = self.ev(e.value)
        self.ev(e.slice)
        typed = any(t.startswith(('cls:', 'sub:')) for t in b.t)
        if isinstance(e.slice, ast.Slice) and not typed:
            s = self.fresh(e, 'slice')
            o, _ = self.elem_of(b, e, 'item')
            self.add_edge(s, o, ('[]',), self.site(e))
            return AV({(s, ())}, (b.t & {'list', 'str'}) or {'list'})
        # visible dict with a non-constant key: KeyError unless guarded by `key in dict`
        if 'dictlit' in b.t and not isinstance(e.slice, ast.Constant) and isinstance(e.ctx, ast.Load):
            fact = (ast.dump(e.slice), ast.dump(e.value))
            known = any(fact in f for f in self.facts)
            if not known:
                self.raise_exc('KeyError', self.origin_id(), '', (self.site(e, 'dict lookup `{}`'.format(ast.unparse(e)[:60])),))
        keep = {x for x in b.t if x.startswith(('func:', 'dictlit'))}
        o, tags = self.elem_of(b, e, 'item')
        return AV(o, keep | tags, b.why)

    def e_Starred(self, e):
        b = self.ev(e.value)
        return AV(self.ch(b.o, '[]'), set(), b.why)

    def _container(self, e, elts, tag):
        s = self.fresh(e, tag)
        tags = {tag}
        for x in elts:
            v = self.ev(x)
            if isinstance(x, ast.Starred):
                pass
            self.add_edge(s, v.o, ('[]',), None)
            tags |= {t for t in v.t if t.startswith('func:')}
        return AV({(s, ())}, tags)

    def e_List(self, e):
        return self._container(e, e.elts, 'list')

    def e_Tuple(self, e):
        r = self._container(e, e.elts, 'tuple')
        extra = set()
        for i, x in enumerate(e.elts):
            if isinstance(x, ast.Name):
                v = self.lookup(x.id)
                if v is not None:
                    extra |= {'pos:{}:{}'.format(i, t) for t in v.t if t.startswith('parser@')}
        return AV(r.o, r.t | extra) if extra else r

    def e_Set(self, e):
        return self._container(e, e.elts, 'set')

    def e_Dict(self, e):
        s = self.fresh(e, 'dict')
        tags = {'dict'}
        if e.keys and all(isinstance(k, ast.Constant) for k in e.keys):
            tags.add('dictlit')          # keys are visible: a lookup with another key is a KeyError
        for k, v in zip(e.keys, e.values):
            if k is not None:
                self.ev(k)
            vv = self.ev(v)
            self.add_edge(s, vv.o, ('[]',), None)
            tags |= {t for t in vv.t if t.startswith('func:')}
        return AV({(s, ())}, tags)

    def _comp(self, e, elts, tag):
        self.st.frames.append({})
        self.st.assigned.append(set())
        self.fowner.append(_Scope(self.fowner[-1]))
        self.nonlocals.append(set())
        for g in e.generators:
            it = self.ev(g.iter)
            el = self._iter_elem(it, e)
            self.assign(g.target, el, e, None)
            for c in g.ifs:
                self.ev(c)
        s = self.fresh(e, tag)
        for x in elts:
            v = self.ev(x)
            self.add_edge(s, v.o, ('[]',), None)
        self.st.frames.pop()
        self.st.assigned.pop()
        self.fowner.pop()
        self.nonlocals.pop()
        return AV({(s, ())}, {tag})

    def e_ListComp(self, e):
        return self._comp(e, [e.elt], 'list')

    def e_SetComp(self, e):
        return self._comp(e, [e.elt], 'set')

    def e_GeneratorExp(self, e):
        return self._comp(e, [e.elt], 'genexp')

    def e_DictComp(self, e):
        return self._comp(e, [e.key, e.value], 'dict')

    def e_BinOp(self, e):
        l = self.ev(e.left)
        r = self.ev(e.right)
        if isinstance(e.op, ast.Mod) and ('str' in l.t or isinstance(e.left, ast.Constant)):
            self.check_repr([r], e)
            return AV(t={'str'})
        if not l.o and not r.o:
            return AV(t=(l.t | r.t) & {'str', 'list'})
        s = self.fresh(e, 'binop')
        self.add_edge(s, self.ch(l.o, '[]') | self.ch(r.o, '[]'), ('[]',), None)
        return AV({(s, ())}, (l.t | r.t) & {'str', 'list'})

    def e_UnaryOp(self, e):
        self.ev(e.operand)
        return EMPTY

    def e_BoolOp(self, e):
        out = EMPTY
        for v in e.values:
            out = out.join(self.ev(v))
        return out

    def e_Compare(self, e):
        self.ev(e.left)
        for c in e.comparators:
            self.ev(c)
        return EMPTY

    def e_IfExp(self, e):
        self.ev(e.test)
        return self.ev(e.body).join(self.ev(e.orelse))

    def e_NamedExpr(self, e):
        v = self.ev(e.value)
        self.assign(e.target, v, e, e.value)
        return v

    def e_JoinedStr(self, e):
        for v in e.values:
            if isinstance(v, ast.FormattedValue):
                self.check_repr([self.ev(v.value)], e)
        return AV(t={'str'})

    def e_Lambda(self, e):
        key = 'lambda:{}:{}:{}'.format(self.cur.rel, e.lineno, e.col_offset)
        self.lambdas[key] = e
        self.A.lambdas[key] = e
        return AV(t={key})

    def e_Yield(self, e):
        v = self.ev(e.value) if e.value is not None else EMPTY
        if self.st is not None and not self.retstack:
            s = ('s', 0, 0, 'gen')
            self.add_edge(s, v.o, ('[]',), None)
            self.returns.append((AV({(s, ())}, {'gen:' + self.fi.fid}), {k: set(x) for k, x in self.st.C.items()}))
        return EMPTY

    def e_YieldFrom(self, e):
        v = self.ev(e.value)
        if self.st is not None and not self.retstack:
            s = ('s', 0, 0, 'gen')
            self.add_edge(s, self.ch(v.o, '[]'), ('[]',), None)
            self.returns.append((AV({(s, ())}, {'gen:' + self.fi.fid}), {k: set(x) for k, x in self.st.C.items()}))
        return EMPTY

    def e_Await(self, e):
        return self.ev(e.value)

    def check_repr(self, avs, node):
        for av in avs:
            for t in av.t:
                if t.startswith(('cls:', 'sub:')):
                    ci = self.ix.classes.get(t[4:])
                    if ci and not self.ix.has_str(ci):
                        self.nondet('default-repr:' + ci.name, self.origin_id(),
                                    (self.site(node, 'formats a {} object (no __str__/__repr__/__format__: prints the address): {}'.format(
                                        ci.name, self.ix.line(self.cur.rel, node.lineno)[:70])),))

    # ---- calls -----------------------------------------------------------------------------------
    def e_Call(self, e):
        f = e.func
        # evaluate arguments
        argvals, star = [], []
        for a in e.args:
            if isinstance(a, ast.Starred):
                v = self.ev(a.value)
                star.append(AV(self.ch(v.o, '[]'), {t for t in v.t if t.startswith('func:')}, v.why))
            else:
                argvals.append(self.ev(a))
        kwvals, kwstar = {}, []
        for k in e.keywords:
            v = self.ev(k.value)
            if k.arg is None:
                kwstar.append(AV(self.ch(v.o, '[]'), set(), v.why))
            else:
                kwvals[k.arg] = v
        if self.st is None:
            return EMPTY
        targets = self.targets(f, e)
        result = None
        skip_closure = False
        for t in targets:
            if t[0] == 'ext' and t[1] in ('method:add_argument',):
                skip_closure = True
            r = self.apply_target(t, e, argvals, kwvals, star, kwstar)
            if r is not None:
                result = r if result is None else result.join(r)
            if self.st is None:
                break
        # function values passed as arguments are charged here (the callee may call them)
        if not skip_closure and self.st is not None:
            allv = argvals + list(kwvals.values()) + star
            others = EMPTY
            for v in allv:
                others = others.join(AV(self.ch(v.o, '[]') | v.o))
            for v in allv:
                for tag in sorted(v.t):
                    if tag.startswith('func:') or tag.startswith('lambda:'):
                        self.call_function_value(tag, e, others)
        return result if result is not None else EMPTY

    def call_function_value(self, tag, node, argav):
        if tag.startswith('lambda:'):
            lam = self.A.lambdas.get(tag)
            if lam is not None:
                self.inline_lambda(lam, [argav] * len(lam.args.args))
            return
        g = self.ix.funcs.get(tag[5:])
        if g is None:
            return
        if g.parent is not None and g.cls is None and g.fid not in self.inl and self._parent_on_stack(g):
            self.inline(g, {p: argav for p in g.params}, node)
        else:
            argmap = {p: argav for p in g.params}
            self.apply_summary(g, argmap, node, note='passes function ')

    def _parent_on_stack(self, g):
        return any(o is g.parent for o in self.fowner)

    def _enclosing_class(self):
        f = self.cur
        while f is not None:
            if f.cls is not None:
                return f.cls
            f = f.parent
        return None

    def targets(self, f, call):
        ix = self.ix
        out = []
        if isinstance(f, ast.Name):
            v = self.lookup(f.id)
            if v is None:
                v = self.av_of_resolved(ix.resolve_in_func(self.cur, f.id), f)
            return self.targets_of_value(v, f.id)
        if isinstance(f, ast.Attribute):
            attr = f.attr
            # super().m(...)
            if isinstance(f.value, ast.Call) and isinstance(f.value.func, ast.Name) and f.value.func.id == 'super':
                ci = self._enclosing_class()
                selfav = self.lookup(self.cur.params[0]) if self.cur.params else EMPTY
                if ci is not None:
                    m = ix.lookup_method(ci, attr, after=ci)
                    if m is not None:
                        return [('repo', m, selfav, True)]
                return [('ext', 'super.' + attr, selfav)]
            b = self.ev(f.value)
            handled = False
            if attr in ('parse_args', 'parse_known_args') and not ix.methods_by_name.get(attr):
                return [('parse_args', b)]       # argparse entry: runs the registered actions / validators
            for t in sorted(b.t):
                if t.startswith('mod:'):
                    d = t[4:]
                    r = ix.resolve_global(ix.mods[d], attr)
                    out += self.targets_of_value(self.av_of_resolved(r, f), attr)
                    handled = True
                elif t.startswith('ext:'):
                    out.append(('ext', t[4:] + '.' + attr, None))
                    handled = True
                elif t.startswith('class:'):
                    ci = ix.classes.get(t[6:])
                    m = ix.lookup_method(ci, attr) if ci else None
                    if m is not None:
                        if m.kind == 'classmethod':
                            out.append(('repo', m, AV(t={'class:' + ci.cid}), True))
                        elif m.kind == 'staticmethod':
                            out.append(('repo', m, None, False))
                        else:
                            out.append(('repo', m, None, False))     # Class.method(self, ...)
                        handled = True
                    elif ci is not None:
                        out.append(('ext', 'extclass.' + attr, None))
                        handled = True
                elif t.startswith(('cls:', 'sub:')):
                    ci = ix.classes.get(t[4:])
                    if ci is None:
                        continue
                    ms = []
                    m = ix.lookup_method(ci, attr)
                    if m is not None:
                        ms.append(m)
                    if t.startswith('sub:'):
                        ms += ix.overriding(ci, attr)
                    for m in ms:
                        if m.is_abstract and len(ms) > 1:
                            continue
                        out.append(('repo', m, b if m.kind == 'method' else
                                    (AV(t={'class:' + ci.cid}) if m.kind == 'classmethod' else None), m.kind != 'staticmethod'))
                    if ms:
                        handled = True
                    elif attr in LIB['mutator_methods'] or ix.attr_types(ci, attr):
                        pass
                    else:
                        # method of an external base class (argparse.Action...) or attribute holding a callable
                        handled = handled or bool(ix.ext_bases(ci) and not ix.methods_by_name.get(attr))
                        if handled:
                            out.append(('ext', 'method:' + attr, b))
                elif t in ('set', 'list', 'dict', 'str', 'tuple', 'genexp', 'dictlit'):
                    out.append(('ext', 'method:' + attr, b))
                    handled = True
                elif t.startswith('extobj:'):
                    out.append(('ext', 'method:' + attr, b))
                    handled = True
            if handled:
                return out
            # receiver of unknown type: dispatch by method name over the repository classes
            if attr in ('parse_args', 'parse_known_args'):
                return [('parse_args', b)]
            cands = ix.methods_by_name.get(attr, [])
            builtin = attr in LIB['mutator_methods'] or _lib_in('method:' + attr, L_PURE) or \
                _lib_in('method:' + attr, L_ELEM) or _lib_in('method:' + attr, L_SHALLOW)
            for m in cands:
                out.append(('repo', m, b if m.kind == 'method' else
                            (AV(t={'class:' + m.cls.cid}) if m.kind == 'classmethod' else None), m.kind != 'staticmethod'))
            if builtin or not cands:
                out.append(('ext', 'method:' + attr, b))
            return out
        # call of a call result / subscript ...: evaluate the callee expression
        v = self.ev(f)
        return self.targets_of_value(v, ast.unparse(f)[:40])

    def targets_of_value(self, v, label):
        out = []
        ix = self.ix
        for t in sorted(v.t):
            if t.startswith('func:'):
                g = ix.funcs.get(t[5:])
                if g is not None:
                    out.append(('repo', g, None, False))
            elif t.startswith('bound:'):
                g = ix.funcs.get(t[6:])
                if g is not None:
                    out.append(('repo', g, EMPTY, g.kind != 'staticmethod'))
            elif t.startswith('class:'):
                ci = ix.classes.get(t[6:])
                if ci is not None:
                    out.append(('ctor', ci))
            elif t.startswith('lambda:'):
                out.append(('lambda', t))
            elif t.startswith('ext:'):
                out.append(('ext', t[4:], None))
            elif t.startswith(('cls:', 'sub:')):
                ci = ix.classes.get(t[4:])
                m = ix.lookup_method(ci, '__call__') if ci else None
                if m is not None:
                    out.append(('repo', m, v, True))
        if not out:
            out.append(('unknown', label, None))
        return out

    def bind(self, g, recv, bound_first, argvals, kwvals, star, kwstar):
        params = list(g.params)
        argmap = {}
        pos = params[:g.npos] if hasattr(g, 'npos') else params
        i = 0
        if bound_first and pos:
            argmap[pos[0]] = recv if recv is not None else EMPTY
            i = 1
        rest = pos[i:]
        for j, v in enumerate(argvals):
            if j < len(rest):
                argmap[rest[j]] = v
            elif g.vararg:
                argmap[g.vararg] = v.join(argmap.get(g.vararg))
        for k, v in kwvals.items():
            if k in params:
                argmap[k] = v
            elif g.kwarg:
                argmap[g.kwarg] = v.join(argmap.get(g.kwarg))
        for v in star:
            for p in rest[len(argvals):]:
                if p not in argmap:
                    argmap[p] = v
            if g.vararg:
                argmap[g.vararg] = v.join(argmap.get(g.vararg))
        for v in kwstar:
            for p in params:
                if p not in argmap:
                    argmap[p] = v
        return argmap

    def apply_target(self, t, node, argvals, kwvals, star, kwstar):
        kind = t[0]
        if kind == 'repo':
            g, recv, bound = t[1], t[2], t[3]
            argmap = self.bind(g, recv, bound, argvals, kwvals, star, kwstar)
            if g.parent is not None and g.cls is None and self._parent_on_stack(g) and g.fid not in self.inl:
                return self.inline(g, argmap, node)
            return self.apply_summary(g, argmap, node)
        if kind == 'ctor':
            ci = t[1]
            s = self.fresh(node, 'new ' + ci.name)
            selfav = AV({(s, ())}, {'cls:' + ci.cid})
            init = self.ix.lookup_method(ci, '__init__')
            if init is not None:
                argmap = self.bind(init, selfav, True, argvals, kwvals, star, kwstar)
                self.apply_summary(init, argmap, node)
            else:
                for v in argvals + list(kwvals.values()) + star + kwstar:
                    self.add_edge(s, v.o, ('*',), None)
            if self.ix.is_exception_class(ci):
                return AV({(s, ())}, {'cls:' + ci.cid, 'exc:' + ci.name})
            if any(n.endswith('ArgumentParser') for n in self.ix.ext_bases(ci)):
                return AV(selfav.o, selfav.t | {'parser@{}:{}'.format(self.cur.rel, node.lineno)})
            return selfav
        if kind == 'lambda':
            lam = self.A.lambdas.get(t[1])
            if lam is None:
                return EMPTY
            return self.inline_lambda(lam, argvals + star)
        if kind == 'parse_args':
            return self.do_parse_args(node, t[1])
        if kind == 'unknown':
            # call through a function-valued parameter / unknown callable: charged to whoever passes it
            self.A.note_unknown(self.cur.fid, t[1])
            return self.unknown_result(node, None, argvals + list(kwvals.values()) + star + kwstar)
        if kind == 'ext':
            return self.apply_ext(t[1], t[2], node, argvals, kwvals, star, kwstar)
        return EMPTY

    # ---- summaries ---------------------------------------------------------------------------------
    def locate(self, av, path):
        if av is None:
            return frozenset()
        cur = av.o
        for step in path:
            if not cur:
                break
            if step == '…':
                cur = cur | self.desc(cur)
                break
            cur = self.ch(cur, step)
        return cur

    def apply_summary(self, g, argmap, node, note='calls '):
        summ = self.A.summary(g)
        self.S.callees.add(g.fid)
        w0 = self.site(node, '{}{} <- {}'.format(note, g.qual, self.ix.line(self.cur.rel, node.lineno)[:70]))
        # frames
        for (p, path), w in summ.mut.items():
            av = argmap.get(p)
            if av is None or not av.o:
                continue
            tg = self.locate(av, path)
            if tg:
                self.mutate(tg, (w0,) + tuple(w), av.why)
        for p, caps in summ.capture.items():
            pv = argmap.get(p)
            if pv is None or not pv.o:
                continue
            for (q, qpath, epath) in caps:
                qv = argmap.get(q)
                if qv is None or not qv.o:
                    continue
                qo = self.locate(qv, qpath)
                if not qo:
                    continue
                for (r, rpath) in pv.o:
                    self.add_edge(r, qo, pcat(rpath, epath), w0)
        # exceptions
        for (exc, origin, tag), w in summ.raises.items():
            self.raise_exc(exc, origin, tag, (w0,) + tuple(w))
            if self.st is None:
                break
        # rng
        if summ.seeds_rng and self.S.seeds_rng is None:
            self.S.seeds_rng = (w0,) + tuple(summ.seeds_rng)
        if summ.uses_rng:
            # uses inside the callee that it proved dominated by its own (possibly parser-conditional) seeding are
            # not charged again; `unseeded` / `cond_unseeded` of the callee are what is left
            if self.S.uses_rng is None:
                self.S.uses_rng = ((w0,) + tuple(summ.uses_rng))[:MAXCHAIN]
            if summ.free_use:
                self.use_rng(g.qual, (w0,) + tuple(summ.free_use))
            for (p, label), w in summ.cond_use.items():
                how = self.parser_seeds(argmap.get(p))
                if how is True:
                    continue            # that parser seeds before its sub-parsers' actions run
                saved = (self.st.seeded, self.st.hard)
                if isinstance(how, str):
                    self.st.seeded = seed_then(self.st.seeded, how)
                    self.st.hard = seed_then(self.st.hard, how)
                self.use_rng(g.qual, (w0,) + tuple(w))
                self.st.seeded, self.st.hard = saved
        eh = summ.exit_hard
        if isinstance(eh, str):
            eh = self.parser_seeds(argmap.get(eh[3:]))
        if eh and not g.is_gen:
            self.st.seeded = seed_then(self.st.seeded, eh)
            self.st.hard = seed_then(self.st.hard, eh)
        for (cid, tier) in summ.reg_tier:
            if tier.startswith('param:'):
                av = argmap.get(tier[6:])
                for t2 in (self.parser_tiers(av) if av is not None else {'unknown'}):
                    self.S.reg_tier.add((cid, t2))
            else:
                self.S.reg_tier.add((cid, tier))
        for (src, origin), w in summ.nondet.items():
            self.nondet(src, origin, (w0,) + tuple(w))
        if summ.calls_parse_args and self.S.calls_parse_args is None:
            self.S.calls_parse_args = (w0,) + tuple(summ.calls_parse_args)
        self.S.registers |= summ.registers
        self.S.validators |= summ.validators
        # result
        res_o = set()
        for r in summ.ret:
            if r[0] == 'o':
                res_o |= self.locate(argmap.get(r[1]), r[2])
        tags = set(summ.ret_types)
        if ('fresh',) in summ.ret or g.is_gen:
            s = self.fresh(node, 'result of ' + g.name)
            for (q, qpath, epath) in summ.ret_edges:
                qo = self.locate(argmap.get(q), qpath)
                self.add_edge(s, qo, epath, w0)
            res_o.add((s, ()))
        if g.is_gen and not g.is_ctx:
            tags.add('gen:' + g.fid)
        return AV(res_o, tags, None)

    def inline(self, g, argmap, node):
        """interpret a nested function at its call site, in the current (lexically enclosing) environment"""
        if len(self.inl) > 6:
            return EMPTY
        self.inl.append(g.fid)
        self.st.frames.append({})
        self.st.assigned.append(set())
        self.fowner.append(g)
        self.nonlocals.append(set())
        oldcur, self.cur = self.cur, g
        for p in g.params:
            self.setvar(p, argmap.get(p, EMPTY))
        if g.vararg:
            self.setvar(g.vararg, argmap.get(g.vararg, EMPTY))
        if g.kwarg:
            self.setvar(g.kwarg, argmap.get(g.kwarg, EMPTY))
        self.retstack.append([])
        oldloops, self.loops = self.loops, []
        self.block(g.node.body)
        self.loops = oldloops
        rets = self.retstack.pop()
        out_state = self.st
        res = EMPTY
        for av, stt in rets:
            res = res.join(av)
            out_state = join_states(out_state, stt)
        self.st = out_state
        self.cur = oldcur
        self.nonlocals.pop()
        self.fowner.pop()
        self.inl.pop()
        if self.st is not None:
            self.st.frames.pop()
            self.st.assigned.pop()
        if g.is_gen:
            res = AV(res.o, res.t | {'gen:' + g.fid})
        return res

    def inline_lambda(self, lam, argvals):
        if len(self.inl) > 6 or self.st is None:
            return EMPTY
        self.inl.append('lambda')
        self.st.frames.append({})
        self.st.assigned.append(set())
        self.fowner.append(_Scope(self.fowner[-1]))
        self.nonlocals.append(set())
        for i, a in enumerate(lam.args.args):
            self.setvar(a.arg, argvals[i] if i < len(argvals) else EMPTY)
        res = self.ev(lam.body)
        self.nonlocals.pop()
        self.fowner.pop()
        self.inl.pop()
        if self.st is not None:
            self.st.frames.pop()
            self.st.assigned.pop()
        return res

    # ---- argparse ----------------------------------------------------------------------------------
    def parser_seeds(self, av):
        """does parse_args on this parser value seed the RNG before any RNG-using action runs?
        True | False | 'if:<param>' (decided by the caller that knows which parser the parameter is)"""
        if av is None:
            return False
        ids = {t[7:] for t in av.t if t.startswith('parser@')}
        params = {r[1] for (r, path) in av.o if r[0] == 'p' and path == ()}
        other = [o for o in av.o if not (o[0][0] == 'p' and o[1] == ()) and o[0][0] != 's']
        if ids and not params:
            good = self.A.ctx_seed_parsers or set()
            return all(i in good for i in ids)
        if len(params) == 1 and not ids and not other and 'parsersub' not in av.t:
            (p,) = params
            if p in self.fi.params:
                return 'if:' + p
        return False

    def parser_tiers(self, av):
        tiers = {'site:' + t[7:] for t in av.t if t.startswith('parser@')}
        if 'parsersub' in av.t:
            tiers.add('sub')
        for (r, path) in av.o:
            if r[0] == 'p' and path == () and r[1] in self.fi.params:
                tiers.add('param:' + r[1])
        return tiers or {'unknown'}

    def do_parse_args(self, node, recv):
        w0 = self.site(node, 'parse_args <- ' + self.ix.line(self.cur.rel, node.lineno)[:70])
        if self.S.calls_parse_args is None:
            self.S.calls_parse_args = (w0,)
        for exc in LIB['raises']['<parse_args>']:
            self.raise_exc(exc, 'argparse:parse_args', '', (w0 + '  [argparse: -h / --version exit]',))
        if self.st is None:
            return EMPTY
        # a parser that carries a seeding action on itself seeds before its sub-parsers' actions run (LIBRARY note argparse-order)
        how = self.parser_seeds(recv)
        self.st.seeded = seed_then(self.st.seeded, how)
        self.st.hard = seed_then(self.st.hard, how)
        # parser.error of the repository parser class (CLIParser.error raises CLIError)
        for m in self.ix.methods_by_name.get('error', []):
            self.apply_summary(m, {}, node, note='argparse reports errors through ')
        ctx = self.A.ctx_actions
        if ctx is not None:
            for cid in sorted(ctx):
                ci = self.ix.classes.get(cid)
                m = self.ix.lookup_method(ci, '__call__') if ci else None
                if m is None:
                    continue
                summ = self.A.summary(m)
                self.S.callees.add(m.fid)
                w1 = '{}  [argparse runs the registered action {}.__call__]'.format(w0, ci.name)
                for (exc, origin, tag), w in summ.raises.items():
                    if exc == 'ArgumentError':
                        continue        # argparse converts ArgumentError into parser.error
                    self.raise_exc(exc, origin, tag, (w1,) + tuple(w))
                if summ.uses_rng:
                    self.use_rng('parse_args', (w1,) + tuple(summ.uses_rng))
                for (src, origin), w in summ.nondet.items():
                    self.nondet(src, origin, (w1,) + tuple(w))
            for fid in sorted(self.A.ctx_validators or ()):
                g = self.ix.funcs.get(fid)
                if g is None:
                    continue
                summ = self.A.summary(g)
                for (exc, origin, tag), w in summ.raises.items():
                    if any(exc_is_sub(exc, h) for h in ('ArgumentTypeError', 'TypeError', 'ValueError', 'ArgumentError')):
                        continue        # argparse converts these into parser.error
                    self.raise_exc(exc, origin, tag, ('{}  [argparse calls the type= validator {}]'.format(w0, g.qual),) + tuple(w))
                if summ.uses_rng:
                    self.use_rng('parse_args', (w0,) + tuple(summ.uses_rng))
        s = self.fresh(node, 'namespace')
        return AV({(s, ())}, set())

    def do_add_argument(self, node, kwvals, recv=None):
        for k in node.keywords:
            if k.arg == 'action' and not isinstance(k.value, ast.Constant):
                v = kwvals.get('action', EMPTY)
                found = False
                for t in v.t:
                    if t.startswith('class:'):
                        ci = self.ix.classes.get(t[6:])
                        if ci is not None and self.ix.is_action_class(ci):
                            self.S.registers.add(ci.cid)
                            for tier in self.parser_tiers(recv if recv is not None else EMPTY):
                                self.S.reg_tier.add((ci.cid, tier))
                            found = True
                if not found:
                    self.S.registers.add('?unresolved:{}:{}:{}'.format(self.cur.rel, node.lineno, ast.unparse(k.value)[:40]))
            if k.arg == 'type' and not isinstance(k.value, ast.Constant):
                v = kwvals.get('type', EMPTY)
                for t in v.t:
                    if t.startswith('func:'):
                        self.S.validators.add(t[5:])

    # ---- library -----------------------------------------------------------------------------------
    def unknown_result(self, node, recv, allargs):
        s = self.fresh(node, 'lib')
        for v in ([recv] if recv is not None else []) + allargs:
            if v is None or not v.o:
                continue
            self.add_edge(s, v.o, ('*',), None)
            c = self.ch(v.o, '*')
            self.add_edge(s, c, ('*',), None)
            self.add_edge(s, c, ('*', '*'), None)
        if s in self.st.C:
            return AV({(s, ())})
        return EMPTY

    def apply_ext(self, name, recv, node, argvals, kwvals, star, kwstar):
        allargs = argvals + list(kwvals.values()) + star + kwstar
        w = (self.site(node),)
        self.A.lib_seen.add(name)
        self.A.lib_sites.setdefault(name, w[0])
        meth = name[7:] if name.startswith('method:') else None
        # --- argparse registration
        if meth == 'add_argument':
            self.do_add_argument(node, kwvals, recv)
            return EMPTY
        if meth == 'add_parser':
            return AV(t={'parsersub'})
        if meth in ('add_mutually_exclusive_group', 'add_argument_group') and recv is not None:
            return recv                  # options of a group belong to the parser itself
        if name.endswith('ArgumentParser'):
            return AV({(self.fresh(node, 'parser'), ())}, {'parser@{}:{}'.format(self.cur.rel, node.lineno)})
        # --- RNG
        if _lib_in(name, L_RNG_SEED):
            self.st.seeded = True
            self.st.hard = True
            if self.S.seeds_rng is None:
                self.S.seeds_rng = w
            if node.args and isinstance(node.args[0], ast.Name) and node.args[0].id in self.cur.params:
                self.S.seed_params.add(node.args[0].id)
        elif _lib_in(name, L_RNG_USE):
            self.use_rng(name, w)
        # --- nondeterministic sources
        if _lib_in(name, L_NONDET):
            if name == 'tempfile.NamedTemporaryFile':
                pass          # file *name* only matters if it reaches the output; tracked by the tempfile typestate
            elif name.startswith('subprocess.') and self._cwd_pinned(node):
                pass          # runs in the package directory: a function of the installed tree, not of the process
            else:
                self.nondet(name, self.origin_id(), w)
        # --- printing / formatting an object with the default repr
        if name in ('builtins.str', 'builtins.print', 'builtins.format', 'builtins.repr', 'method:format'):
            self.check_repr(allargs, node)
        # --- exceptions
        for exc in LIB['raises'].get(name, ()):
            if meth in ('encode', 'decode') and self._codec_safe(node):
                continue
            if name == 'builtins.next':
                if len(argvals) + len(kwvals) > 1:
                    continue
                if not self.next_may_stop(node, argvals):
                    continue
            self.raise_exc(exc, self.origin_id(), '', w)
            if self.st is None:
                return EMPTY
        pre = LIB.get('raises_unless_lt', {}).get(name)
        if pre is not None:
            i, j, exc = pre
            ok = False
            if i < len(node.args) and j < len(node.args) and isinstance(node.args[i], ast.Name) and isinstance(node.args[j], ast.Name):
                ok = (node.args[i].id, '<', node.args[j].id) in self.st.cmp
            if not ok:
                self.raise_exc(exc, self.origin_id(), '', (self.site(node, 'library precondition arg{} < arg{} not established before: {}'.format(
                    i, j, self.ix.line(self.cur.rel, node.lineno)[:70])),))
        if name == 'random.sample' and argvals and ({'genexp', 'set'} & argvals[0].t):
            self.raise_exc('TypeError', self.origin_id(), '', (self.site(node, 'random.sample on a {} (TypeError on python >= 3.11): {}'.format(
                '/'.join(sorted({'genexp', 'set'} & argvals[0].t)), self.ix.line(self.cur.rel, node.lineno)[:60])),))
        if name == 'builtins.next' and argvals:
            for t in argvals[0].t:
                if t.startswith('gen:'):
                    self.consume_gen(t[4:], node)
        if name in ('builtins.list', 'builtins.tuple', 'builtins.sorted', 'builtins.set', 'builtins.sum', 'builtins.max',
                    'builtins.min', 'builtins.any', 'builtins.all', 'builtins.dict', 'builtins.enumerate', 'builtins.zip',
                    'method:join', 'method:extend', 'method:update', 'builtins.frozenset') or name.startswith('itertools.'):
            for v in argvals + star:
                for t in v.t:
                    if t.startswith('gen:'):
                        self.consume_gen(t[4:], node)
                if 'set' in v.t and name not in ('builtins.sorted', 'builtins.set', 'builtins.frozenset', 'builtins.sum',
                                                 'builtins.max', 'builtins.min', 'builtins.any', 'builtins.all', 'builtins.len'):
                    self.nondet('set-iteration', self.origin_id(), w)
        # --- temp files
        if name == 'tempfile.NamedTemporaryFile':
            d = [k for k in node.keywords if k.arg == 'delete']
            if d and isinstance(d[0].value, ast.Constant) and d[0].value.value is False:
                return AV(t={'tmpfile'})
            return EMPTY
        if name in ('os.unlink', 'os.remove') and node.args:
            a = node.args[0]
            if isinstance(a, ast.Attribute) and a.attr == 'name' and isinstance(a.value, ast.Name) and a.value.id in self.st.tmp:
                self.st.tmp[a.value.id] = ('gone', self.st.tmp[a.value.id][1])
            return EMPTY
        # --- mutation
        if meth is not None and meth in LIB['mutator_methods'] and recv is not None:
            stored = LIB['mutator_methods'][meth]
            self.mutate(recv.o, w, recv.why)
            vals = frozenset()
            if stored == 'all':
                for v in allargs:
                    vals |= self.ch(v.o, '[]')
            elif stored is not None and stored < len(argvals):
                vals = argvals[stored].o
            if vals:
                self.add_under(recv.o, '[]', vals, self.site(node))
        if name in LIB['mutator_functions']:
            mi, si = LIB['mutator_functions'][name]
            if mi < len(argvals):
                tv = argvals[mi]
                if name == 'builtins.setattr' and len(node.args) >= 3:
                    step = node.args[1].value if isinstance(node.args[1], ast.Constant) else '*'
                    self.store(tv, step, argvals[2], node)
                else:
                    self.mutate(tv.o, w, tv.why)
                    if si is not None and si < len(argvals):
                        self.add_under(tv.o, '[]', argvals[si].o, self.site(node))
        # --- result
        if _lib_in(name, L_PURE):
            if meth in IMMUTABLE_STR_METHODS or name in ('builtins.str', 'builtins.repr', 'builtins.format'):
                return AV(t={'str'})
            if meth in ('split', 'splitlines', 'readlines'):
                return AV(t={'list'})
            return EMPTY
        if _lib_in(name, L_DEEP):
            s = self.fresh(node, 'deepcopy')
            return AV({(s, ())})
        if _lib_in(name, L_SHALLOW):
            s = self.fresh(node, 'copy')
            src = [recv] if meth == 'copy' and recv is not None else allargs
            for v in src:
                if v is not None:
                    self.add_edge(s, self.ch(v.o, '[]'), ('[]',), None)
            tag = {'builtins.list': 'list', 'builtins.sorted': 'list', 'builtins.tuple': 'tuple', 'builtins.set': 'set',
                   'builtins.frozenset': 'set', 'builtins.dict': 'dict', 'collections.OrderedDict': 'dict'}.get(name)
            tags = {tag} if tag else set()
            if name in ('builtins.iter',) and src and src[0] is not None:
                tags |= {t for t in src[0].t if t.startswith('gen:')}
            return AV({(s, ())}, tags)
        if _lib_in(name, L_ELEM):
            o = set()
            if name == 'builtins.getattr' and len(node.args) >= 2 and argvals:
                step = node.args[1].value if isinstance(node.args[1], ast.Constant) else '*'
                o |= self.ch(argvals[0].o, step)
                for v in argvals[2:]:
                    o |= v.o
            else:
                for v in ([recv] if recv is not None else []) + allargs:
                    o |= self.ch(v.o, '[]')
                    if name in ('builtins.min', 'builtins.max', 'method:get', 'method:setdefault') and v is not recv:
                        o |= v.o
            tags = set()
            if recv is not None:
                tags |= {t for t in recv.t if t.startswith('func:')}
            return AV(o, tags, recv.why if recv is not None else None)
        if name == 'builtins.open':
            return AV(t={'file'})
        if name == 'builtins.super':
            return EMPTY
        # unknown library callee: arguments not mutated, result may contain them
        if not (name in LIB['raises'] or name in LIB['mutator_functions'] or (meth and meth in LIB['mutator_methods'])
                or _lib_in(name, L_RNG_USE) or _lib_in(name, L_RNG_SEED) or _lib_in(name, L_NONDET)):
            self.A.lib_default.add(name)
        return self.unknown_result(node, recv, allargs)

    def _cwd_pinned(self, node):
        """subprocess call with cwd=<expression derived from __file__>"""
        for k in node.keywords:
            if k.arg == 'cwd':
                if '__file__' in ast.unparse(k.value):
                    return True
                if isinstance(k.value, ast.Name):
                    for x in _own_nodes(self.cur.node):
                        if isinstance(x, ast.Assign) and any(isinstance(t, ast.Name) and t.id == k.value.id for t in x.targets) \
                                and '__file__' in ast.unparse(x.value) and x.lineno < node.lineno:
                            return True
        return False

    def _codec_safe(self, node):
        """x.encode(c, errors='replace'|'ignore') never raises; neither does decoding its result with the same codec"""
        LEN = ('replace', 'ignore', 'xmlcharrefreplace', 'backslashreplace', 'surrogateescape')

        def errors_lenient(c):
            # errors= keyword, or the second positional argument of str.encode / bytes.decode
            for k in c.keywords:
                if k.arg == 'errors':
                    return isinstance(k.value, ast.Constant) and k.value.value in LEN
            return len(c.args) >= 2 and isinstance(c.args[1], ast.Constant) and c.args[1].value in LEN

        def lenient(c):
            return isinstance(c, ast.Call) and isinstance(c.func, ast.Attribute) and c.func.attr == 'encode' and errors_lenient(c)
        if isinstance(node.func, ast.Attribute) and node.func.attr in ('encode', 'decode') and errors_lenient(node):
            return True          # strict (the default) raises; a lenient error handler cannot
        f = node.func
        if isinstance(f, ast.Attribute) and f.attr == 'decode' and lenient(f.value):
            return ast.dump(f.value.args[0]) == ast.dump(node.args[0]) if (f.value.args and node.args) else False
        return False

    def next_may_stop(self, node, argvals):
        """next(g): StopIteration only if the generator can finish after fewer yields than consumed so far"""
        a = node.args[0] if node.args else None
        gens = [t[4:] for t in (argvals[0].t if argvals else ()) if t.startswith('gen:')]
        if argvals and 'genexp' in argvals[0].t and not gens:
            return False        # NARROWED (value hazards): emptiness of a generator expression
        if not gens or not isinstance(a, ast.Name):
            return True
        k = self.st.nextcnt.get(a.id, 0) + 1
        if self.in_loop:
            k = 99
        self.st.nextcnt[a.id] = k
        for fid in gens:
            g = self.ix.funcs.get(fid)
            if g is None or self.A.min_yields(g) < k:
                return True
        return False


# ==================================================================================================
# generators: least number of yields before a normal finish (for next() -> StopIteration)
# ==================================================================================================
class YieldPaths:
    CAP = 3

    def __init__(self, g):
        self.g = g

    def run(self):
        res = self.blk(self.g.node.body, {(frozenset(), 0)})
        ends = res['fall'] | res['return']
        return min([c for _, c in ends], default=99)

    def blk(self, stmts, states):
        out = {'return': set(), 'break': set(), 'continue': set()}
        cur = set(states)
        for s in stmts:
            if not cur:
                break
            nxt = set()
            for (env, cnt) in cur:
                for kind, env2, cnt2 in self.st(s, dict(env), cnt):
                    if kind == 'fall':
                        nxt.add((frozenset(env2.items()), cnt2))
                    elif kind != 'raise':
                        out[kind].add((frozenset(env2.items()), cnt2))
            cur = nxt
        out['fall'] = cur
        return out

    def nyields(self, node):
        n = 0
        for x in ast.walk(node):
            if isinstance(x, ast.Yield):
                n += 1
        return n

    def truth(self, t, env):
        if isinstance(t, ast.Constant):
            return bool(t.value)
        if isinstance(t, ast.Name):
            v = env.get(t.id)
            if v is None:
                return None
            return False if v == ('empty',) else bool(v[1])
        if isinstance(t, ast.UnaryOp) and isinstance(t.op, ast.Not):
            r = self.truth(t.operand, env)
            return None if r is None else not r
        if isinstance(t, ast.BoolOp):
            rs = [self.truth(v, env) for v in t.values]
            if isinstance(t.op, ast.And):
                if any(r is False for r in rs):
                    return False
                return True if all(r is True for r in rs) else None
            if any(r is True for r in rs):
                return True
            return False if all(r is False for r in rs) else None
        if isinstance(t, ast.Compare) and len(t.ops) == 1:
            l, op, r = t.left, t.ops[0], t.comparators[0]
            lv, rv = self.val(l, env), self.val(r, env)
            if lv is None or rv is None:
                return None
            lv, rv = lv[0], rv[0]
            try:
                if isinstance(op, ast.Is):
                    return lv is rv
                if isinstance(op, ast.IsNot):
                    return lv is not rv
                if isinstance(op, ast.Eq):
                    return lv == rv
                if isinstance(op, ast.NotEq):
                    return lv != rv
                if isinstance(op, ast.Lt):
                    return lv < rv
                if isinstance(op, ast.LtE):
                    return lv <= rv
                if isinstance(op, ast.Gt):
                    return lv > rv
                if isinstance(op, ast.GtE):
                    return lv >= rv
            except TypeError:
                return None
        return None

    def val(self, e, env):
        """(value,) or None"""
        if isinstance(e, ast.Constant):
            return (e.value,)
        if isinstance(e, ast.UnaryOp) and isinstance(e.op, ast.USub) and isinstance(e.operand, ast.Constant):
            return (-e.operand.value,)
        if isinstance(e, ast.Name):
            v = env.get(e.id)
            if v is not None and v != ('empty',):
                return (v[1],)
            return None
        if isinstance(e, ast.Call) and isinstance(e.func, ast.Name) and e.func.id == 'len' and len(e.args) == 1 \
                and isinstance(e.args[0], ast.Name):
            v = env.get(e.args[0].id)
            if v == ('empty',):
                return (0,)
            if v is not None and isinstance(v[1], str):
                return (len(v[1]),)
        return None

    def kill(self, node, env):
        for x in ast.walk(node):
            if isinstance(x, ast.Name) and isinstance(x.ctx, ast.Store):
                env.pop(x.id, None)
            # in-place growth of a tracked empty list
            if isinstance(x, ast.Call) and isinstance(x.func, ast.Attribute) and isinstance(x.func.value, ast.Name) \
                    and x.func.attr in LIB['mutator_methods']:
                env.pop(x.func.value.id, None)

    def st(self, s, env, cnt):
        C = self.CAP
        if isinstance(s, (ast.FunctionDef, ast.ClassDef, ast.Pass, ast.Import, ast.ImportFrom, ast.Global, ast.Nonlocal)):
            yield ('fall', env, cnt)
        elif isinstance(s, ast.Return):
            yield ('return', env, cnt)
        elif isinstance(s, ast.Raise):
            yield ('raise', env, cnt)
        elif isinstance(s, ast.Break):
            yield ('break', env, cnt)
        elif isinstance(s, ast.Continue):
            yield ('continue', env, cnt)
        elif isinstance(s, ast.Assign):
            n = self.nyields(s)
            v = s.value
            if len(s.targets) == 1 and isinstance(s.targets[0], ast.Name):
                name = s.targets[0].id
                if isinstance(v, ast.Constant):
                    env[name] = ('c', v.value)
                elif isinstance(v, ast.UnaryOp) and isinstance(v.op, ast.USub) and isinstance(v.operand, ast.Constant):
                    env[name] = ('c', -v.operand.value)
                elif isinstance(v, (ast.List, ast.Tuple)) and not v.elts:
                    env[name] = ('empty',)
                else:
                    self.kill(s, env)
            else:
                self.kill(s, env)
            yield ('fall', env, min(C, cnt + n))
        elif isinstance(s, ast.If):
            r = self.truth(s.test, env)
            key = {(frozenset(env.items()), cnt)}
            for branch, taken in ((s.body, r is not False), (s.orelse, r is not True)):
                if not taken:
                    continue
                res = self.blk(branch, key)
                for k, sts in res.items():
                    for (e2, c2) in sts:
                        yield (k, dict(e2), c2)
        elif isinstance(s, (ast.For, ast.While)):
            seen = set()
            todo = [(frozenset(env.items()), cnt)]
            exits = []
            const_true = isinstance(s, ast.While) and self.truth(s.test, env) is True and isinstance(s.test, ast.Constant)
            while todo:
                stt = todo.pop()
                if stt in seen:
                    continue
                seen.add(stt)
                e0 = dict(stt[0])
                if isinstance(s, ast.While):
                    r = self.truth(s.test, e0)
                else:
                    r = None
                    self.kill(s.target, e0)
                if r is not True and not const_true:
                    exits.append(('fall', dict(stt[0]), stt[1]))
                if r is False:
                    continue
                res = self.blk(s.body, {(frozenset(e0.items()), stt[1])})
                for st2 in res['fall'] | res['continue']:
                    todo.append(st2)
                for st2 in res['break']:
                    exits.append(('fall', dict(st2[0]), st2[1]))
                for st2 in res['return']:
                    exits.append(('return', dict(st2[0]), st2[1]))
                if len(seen) > 400:
                    exits.append(('fall', {}, 0))
                    break
            for x in exits:
                yield x
        elif isinstance(s, ast.Try):
            key = {(frozenset(env.items()), cnt)}
            res = self.blk(s.body, key)
            outs = []
            for k, sts in res.items():
                for (e2, c2) in sts:
                    outs.append((k, dict(e2), c2))
            if s.handlers:
                e1 = dict(env)
                for b in s.body:
                    self.kill(b, e1)
                for h in s.handlers:
                    r2 = self.blk(h.body, {(frozenset(e1.items()), cnt)})
                    for k, sts in r2.items():
                        for (e2, c2) in sts:
                            outs.append((k, dict(e2), c2))
            for (k, e2, c2) in outs:
                if s.finalbody and k == 'fall':
                    r3 = self.blk(s.finalbody, {(frozenset(e2.items()), c2)})
                    for k3, sts in r3.items():
                        for (e3, c3) in sts:
                            yield (k3, dict(e3), c3)
                else:
                    yield (k, e2, c2)
        elif isinstance(s, ast.With):
            res = self.blk(s.body, {(frozenset(env.items()), cnt)})
            for k, sts in res.items():
                for (e2, c2) in sts:
                    yield (k, dict(e2), c2)
        else:
            n = self.nyields(s)
            self.kill(s, env)
            yield ('fall', env, min(C, cnt + n))


# ==================================================================================================
# whole-repository analysis
# ==================================================================================================
class Analyzer:
    def __init__(self, root):
        self.t0 = time.time()
        self.ix = Index(root)
        for ci in self.ix.classes.values():
            exts = self.ix.ext_bases(ci)
            if self.ix.is_exception_class(ci):
                b = ci.bases[0]
                EXC_PARENT[ci.name] = b.name if isinstance(b, ClassInfo) else b[1].split('.')[-1]
        self.summ = {}
        self.overlay = None
        self.ctx_actions = None
        self.ctx_validators = None
        self.ctx_seed_parsers = None
        self.lambdas = {}
        self.lib_seen = set()
        self.lib_sites = {}
        self.lib_default = set()
        self.unknown_calls = {}
        self.global_taint = {}
        self.global_readers = {}
        self._my = {}
        self._fat = {}
        self._ctx_cache = {}
        self.rounds = 0
        self.callers = {}
        self.solve(list(self.ix.funcs.values()))
        self.base_time = time.time() - self.t0

    def note_unknown(self, fid, label):
        self.unknown_calls.setdefault(fid, set()).add(label)

    def summary(self, g):
        if self.overlay is not None and g.fid in self.overlay:
            return self.overlay[g.fid]
        return self.summ.get(g.fid, BOTTOM)

    def min_yields(self, g):
        if g.fid not in self._my:
            try:
                self._my[g.fid] = YieldPaths(g).run()
            except RecursionError:
                self._my[g.fid] = 0
        return self._my[g.fid]

    def global_av(self, interp, mi, name, node):
        key = (mi.dotted, name)
        interp.S.callees.add('global:{}:{}'.format(*key))
        for (src, origin), w in self.global_taint.get(key, {}).items():
            interp.nondet(src, origin, (interp.site(node, 'reads module global {}.{} <- {}'.format(
                mi.dotted, name, interp.ix.line(interp.cur.rel, node.lineno)[:60])),) + tuple(w))
        tags = set()
        for v in mi.assigns.get(name, []):
            for x in ast.walk(v):
                if isinstance(x, ast.Name):
                    r = self.ix.resolve_global(mi, x.id)
                    if r and r[0] == 'func' and isinstance(v, (ast.Dict, ast.List, ast.Tuple)):
                        tags.add('func:' + r[1].fid)
            if isinstance(v, ast.Dict):
                tags |= {'dict'}
            elif isinstance(v, ast.Call):
                r = self.ix.resolve_expr_static(mi.init_fi, v.func)
                if r and r[0] == 'class':
                    tags.add('cls:' + r[1].cid)
        return AV({(('g', '{}:{}'.format(*key)), ())}, tags)

    def analyze(self, fi):
        it = Interp(self, fi)
        if fi.is_module:
            return self.analyze_module(it)
        return it.run()

    def analyze_module(self, it):
        """module body: also records which module globals are computed from nondeterministic sources"""
        fi = it.fi
        for s in fi.node.body:
            if it.st is None:
                break
            before = set(it.S.nondet)
            it.stmt(s)
            new = set(it.S.nondet) - before
            if new and isinstance(s, (ast.Assign, ast.AugAssign, ast.AnnAssign)):
                tgts = s.targets if isinstance(s, ast.Assign) else [s.target]
                for t in tgts:
                    while isinstance(t, (ast.Subscript, ast.Attribute)):
                        t = t.value
                    if isinstance(t, ast.Name):
                        d = self.global_taint.setdefault((fi.mod.dotted, t.id), {})
                        for k in new:
                            if k not in d:
                                d[k] = it.S.nondet[k]
                                self._taint_changed.add((fi.mod.dotted, t.id))
        it.finish()
        return it.S

    def solve(self, funcs):
        self._taint_changed = set()
        queue = list(funcs)
        inq = set(f.fid for f in queue)
        store = self.overlay if self.overlay is not None else self.summ
        n = 0
        while queue:
            f = queue.pop(0)
            inq.discard(f.fid)
            n += 1
            if n > 60000:
                raise RuntimeError('effects: fixpoint does not converge')
            old = store.get(f.fid) or (self.summ.get(f.fid) if self.overlay is not None else None)
            new = self.analyze(f)
            for c in new.callees:
                self.callers.setdefault(c, set()).add(f.fid)
            store[f.fid] = new
            changed = old is None or old.key() != new.key()
            requeue = set()
            if changed:
                requeue |= self.callers.get(f.fid, set())
            for k in self._taint_changed:
                requeue |= self.callers.get('global:{}:{}'.format(*k), set())
            self._taint_changed = set()
            for fid in requeue:
                if fid not in inq and fid in self.ix.funcs:
                    inq.add(fid)
                    queue.append(self.ix.funcs[fid])
        self.rounds += n

    # ---- argparse contexts -----------------------------------------------------------------------
    def context(self, actions, validators, reg_tier=()):
        """summaries recomputed with parse_args running exactly these Action classes / validators; phase 2 also knows
        which parser objects seed the RNG while they parse (seed_parsers)"""
        key = (frozenset(actions), frozenset(validators), frozenset(reg_tier))
        if key not in self._ctx_cache:
            self.overlay = {}
            self.ctx_actions, self.ctx_validators = set(actions), set(validators)
            self.ctx_seed_parsers = set()
            todo = [self.ix.funcs[fid] for fid, s in self.summ.items() if s.calls_parse_args and fid in self.ix.funcs]
            self.solve(todo)
            sp, why = self.seed_parsers(reg_tier)
            if sp:
                self.ctx_seed_parsers = sp
                self.solve(todo)
            self._ctx_cache[key] = (self.overlay, sp, why)
            self.overlay = None
            self.ctx_actions = self.ctx_validators = self.ctx_seed_parsers = None
        return self._ctx_cache[key][0]

    def seed_parsers(self, reg_tier):
        """parser allocation sites X such that (a) an Action registered on X seeds the RNG with the parsed value on every
        path of its __call__, and (b) no other Action registered on X (or on a parser of unknown identity) uses the RNG,
        and no type= validator does.  Evaluated with the summaries of the current context."""
        why = []
        by_site = {}
        for (cid, tier) in reg_tier:
            by_site.setdefault(tier, set()).add(cid)

        def call_summary(cid):
            ci = self.ix.classes.get(cid)
            m = self.ix.lookup_method(ci, '__call__') if ci else None
            return (m, self.summary(m)) if m is not None else (None, BOTTOM)
        if any(self.summary(self.ix.funcs[v]).uses_rng for v in (self.ctx_validators or ()) if v in self.ix.funcs):
            return set(), ['a type= validator uses the RNG']
        out = set()
        for tier, cids in sorted(by_site.items()):
            if not tier.startswith('site:'):
                continue
            seeders = set()
            for cid in cids:
                m, sm = call_summary(cid)
                # the parsed value is the 4th parameter of Action.__call__(self, parser, namespace, values, ...)
                if m is not None and sm.exit_hard is True and len(m.params) >= 4 and m.params[3] in sm.seed_params:
                    seeders.add(cid)
            if not seeders:
                continue
            bad = [cid for cid in (cids | by_site.get('unknown', set())) - seeders if call_summary(cid)[1].uses_rng]
            if bad:
                why.append('{}: RNG-using action(s) {} registered on the same parser as the seed action'.format(tier, sorted(bad)))
                continue
            out.add(tier[5:])
            why.append('{}: seed action {} ; other actions on it use no RNG'.format(tier, sorted(seeders)))
        return out, why

    def entry_summary(self, fi):
        base = self.summ[fi.fid]
        acts = {a for a in base.registers if not a.startswith('?')}
        ov = self.context(acts, base.validators, base.reg_tier)
        return ov.get(fi.fid, base), acts

    def all_actions(self):
        acts, vals = set(), set()
        for s in self.summ.values():
            acts |= {a for a in s.registers if not a.startswith('?')}
            vals |= s.validators
        return acts, vals

    def func_at(self, rel, line):
        key = (rel, line)
        if key not in self._fat:
            self._fat[key] = self._func_at(rel, line)
        return self._fat[key]

    def _func_at(self, rel, line):
        best = None
        for fi in self.ix.funcs.values():
            if fi.rel == rel and not fi.is_module:
                n = fi.node
                if n.lineno <= line <= (n.end_lineno or n.lineno):
                    if best is None or n.lineno >= best.node.lineno:
                        best = fi
        if best is None and rel in self.ix.by_rel:
            return self.ix.by_rel[rel].init_fi
        return best


# ==================================================================================================
# contracts -> obligations
# ==================================================================================================
class Obligation:
    def __init__(self, contract, fi, clause):
        self.contract, self.fi, self.clause = contract, fi, clause
        self.verdict = 'discharged'
        self.failures = []      # (key, what, witness)
        self.assumed = []       # text

    @property
    def function(self):
        return self.fi.fid


def select_functions(A, sel):
    ix = A.ix
    out = []
    excl = set(sel.get('exclude', []))
    if 'functions' in sel:
        for fid in sel['functions']:
            if fid not in ix.funcs:
                raise RuntimeError('effects vacuity guard: contracted function not found in the tree: ' + fid)
            out.append(ix.funcs[fid])
    if 'files' in sel:
        pats = sel['files'] if isinstance(sel['files'], list) else [sel['files']]
        for mi in ix.mods.values():
            if not any(fnmatch.fnmatchcase(mi.rel, p) for p in pats):
                continue
            for name, fi in sorted(mi.funcs.items()):
                if fi.fid in excl:
                    continue
                if sel.get('public') and name.startswith('_'):
                    continue
                if 'with_param' in sel and sel['with_param'] not in fi.params:
                    continue
                if 'prefix' in sel and not any(name.startswith(p) for p in sel['prefix']):
                    continue
                out.append(fi)
    if 'class_methods' in sel:
        ci = ix.classes.get(sel['class_methods'])
        if ci is None:
            raise RuntimeError('effects vacuity guard: contracted class not found: ' + sel['class_methods'])
        for name, fi in sorted(ci.methods.items()):
            if 'with_param' in sel and sel['with_param'] not in fi.params:
                continue
            out.append(fi)
    if sel.get('argparse_validators'):
        _, vals = A.all_actions()
        out += [ix.funcs[f] for f in sorted(vals) if f in ix.funcs]
    if sel.get('argparse_actions'):
        acts, _ = A.all_actions()
        for cid in sorted(acts):
            m = ix.lookup_method(ix.classes[cid], '__call__')
            if m is not None:
                out.append(m)
    return out


def _short(fi):
    return fi.qual if fi.qual != 'cli' and fi.qual != 'main' else os.path.basename(fi.rel)[:-3] + '.' + fi.qual


def _waived(fi, kind, what, A, origin=None):
    holder = A.ix.funcs.get(origin) if origin else fi
    if holder is None:
        return None
    src = holder.mod.src if holder.is_module else (ast.get_source_segment(holder.mod.src, holder.node) or '')
    for (fpat, k, wpat, anchor, reason) in EC.WAIVERS:
        if k == kind and fnmatch.fnmatchcase(fi.fid, fpat) and fnmatch.fnmatchcase(what, wpat) and anchor in src:
            return reason
    return None


def seed_option_type(A, fi):
    """argparse type= of the --seed option of the tool that `fi` belongs to"""
    for x in ast.walk(fi.mod.tree):
        if isinstance(x, ast.Call) and isinstance(x.func, ast.Attribute) and x.func.attr == 'add_argument':
            if any(isinstance(a, ast.Constant) and a.value == '--seed' for a in x.args):
                for k in x.keywords:
                    if k.arg == 'type':
                        return ast.unparse(k.value)
                return 'str'
    return None


def check_contract(A, c):
    funcs = select_functions(A, c['select'])
    if len(funcs) < c.get('min_functions', 1):
        raise RuntimeError('effects vacuity guard: contract {} selects {} functions, expected at least {}'.format(
            c['id'], len(funcs), c['min_functions']))
    kind = c['kind']
    obs = []
    contracted_nondet = None
    for fi in funcs:
        ob = Obligation(c, fi, c['clause'])
        obs.append(ob)
        if c.get('entry'):
            S, acts = A.entry_summary(fi)
            unresolved = [a for a in A.summ[fi.fid].registers if a.startswith('?')]
            if unresolved:
                raise RuntimeError('effects: argparse action expression not resolved: {}'.format(unresolved))
        elif c.get('entry_all'):
            acts, vals = A.all_actions()
            ov = A.context(acts, vals)
            S = ov.get(fi.fid, A.summ[fi.fid])
        else:
            S = A.summ[fi.fid]
        name = _short(fi)

        def fail(kindname, what, text, witness, origin=None):
            reason = _waived(fi, kindname, what, A, origin)
            if reason:
                ob.assumed.append('WAIVED {}: {}'.format(what, reason))
                return
            ob.verdict = 'failed'
            key = 'effect:{}:{}:{}'.format(kindname, name, what)
            if not any(f[0] == key for f in ob.failures):
                ob.failures.append((key, text, list(witness)))

        if kind in ('frame', 'frame-only'):
            ps = c.get('params', '*')
            for (p, path), w in sorted(S.mut.items(), key=lambda kv: (kv[0][0], len(kv[0][1]), str(kv[0][1]))):
                if kind == 'frame':
                    if ps == '*':
                        if fi.kind == 'method' and fi.params and p == fi.params[0]:
                            continue
                    elif ps == '*nonself':
                        if fi.params and p == fi.params[0]:
                            continue
                    elif p not in ps:
                        continue
                else:
                    if (p, tuple(path)) in [(x[0], tuple(x[1])) for x in c['allowed']]:
                        continue
                if any(f[0].endswith(':' + p) for f in ob.failures):
                    continue
                loc = 'the argument object itself' if not path else 'the object ' + pshow(p, path)
                extra = ''
                if p in S.mutable_default:
                    extra = ' (and `{}` has a mutable default value shared between calls)'.format(p)
                fail('frame', p, '{} may mutate its argument `{}`: {}{}'.format(fi.qual, p, loc, extra), w)
        elif kind == 'rng-guard':
            if not S.seeds_rng:
                fail('rng', 'never-seeds', '{} never calls random.seed'.format(name), ())
            ty = seed_option_type(A, fi)
            for (line, exact, txt, site) in S.guards:
                if not exact:
                    if ty == 'int':
                        fail('rng', 'seed-guard-skips-0',
                             'random.seed is guarded by the truth value `{}` and --seed has type=int: seed 0 is given but never seeds'.format(txt),
                             (site,))
                    else:
                        ob.assumed.append('truthiness guard `{}` on a type={} seed skips only the empty string (not an integer seed)'.format(txt, ty))
        elif kind == 'rng-dominance':
            left = dict(S.unseeded)
            for (p, label), w in S.cond_unseeded.items():
                left.setdefault(label, w)     # the parser parameter cannot be identified here: not dominated
            for label, w in sorted(left.items()):
                fail('rng', 'unseeded-use@' + label.split('.')[-1],
                     'a call that may use the RNG ({}) is not dominated by random.seed(seed)'.format(label), w)
            if c.get('require_exact_guard'):
                for (line, exact, txt, site) in S.guards:
                    if not exact:
                        fail('rng', 'seed-guard-skips-0', 'random.seed guarded by the truth value `{}`: seed 0 never seeds'.format(txt), (site,))
                if S.uses_rng and not S.seeds_rng:
                    fail('rng', 'never-seeds', 'has a seed parameter, uses the RNG, never seeds', S.uses_rng)
        elif kind == 'nondet':
            if contracted_nondet is None:
                contracted_nondet = set()
                for c2 in EC.EFFECT_CONTRACTS:
                    if c2['kind'] == 'nondet':
                        contracted_nondet |= {f.fid for f in select_functions(A, c2['select'])}
            for (src, origin), w in sorted(S.nondet.items()):
                through = None
                for line in w[1:] if len(w) > 1 else ():
                    try:
                        rel, ln = line.split(':')[0], int(line.split(':')[1])
                    except (ValueError, IndexError):
                        continue
                    g = A.func_at(rel, ln)
                    if g is not None and g.fid != fi.fid and g.fid in contracted_nondet:
                        through = g
                        break
                if through is not None:
                    ob.assumed.append('{} via {} (charged to the contract of {})'.format(src, through.qual, through.qual))
                    continue
                fail('nondet', src.replace(':', '-'), 'result depends on the nondeterministic source {}'.format(src), w)
        elif kind in ('raises-only', 'escape-main'):
            allowed = c['allowed']
            nassert = 0
            if getattr(A, '_raise_contracts', None) is None:
                A._raise_contracts = {}
                A._strict_assert_funcs = set()
                for c2 in EC.EFFECT_CONTRACTS:
                    if c2.get('strict_asserts'):
                        A._strict_assert_funcs |= {f2.fid for f2 in select_functions(A, c2['select'])}
                for c2 in EC.EFFECT_CONTRACTS:
                    if c2['kind'] in ('raises-only', 'escape-main') and c2['prop'] == c['prop']:
                        for f2 in select_functions(A, c2['select']):
                            A._raise_contracts.setdefault(f2.fid, []).append(c2['allowed'])
            for (exc, origin, tag), w in sorted(S.raises.items()):
                if any(exc_is_sub(exc, a) for a in allowed):
                    continue
                oq = origin.split(':')[-1]
                # modular reasoning: an exception that violates the raises-contract of a contracted callee on the
                # witness chain is that callee's failure; this function assumes the callee's contract
                charged = None
                for line in w:
                    try:
                        rel, ln = line.split(':')[0], int(line.split(':')[1])
                    except (ValueError, IndexError):
                        continue
                    g = A.func_at(rel, ln)
                    if g is None or g.fid == fi.fid or g.fid not in A._raise_contracts:
                        continue
                    if line is w[-1] or True:
                        if any(not any(exc_is_sub(exc, a) for a in al) for al in A._raise_contracts[g.fid]):
                            charged = g
                if charged is not None and (tag not in ('assert', 'typeguard', 'abstract') or
                                            (tag == 'assert' and getattr(A, '_strict_assert_funcs', None) and charged.fid in A._strict_assert_funcs)):
                    ob.assumed.append('{} raised in {}: charged to the raises-contract of {}'.format(exc, oq, charged.qual))
                    continue
                if tag == 'assert' and not (c.get('strict_asserts') and origin in {f.fid for f in funcs}):
                    nassert += 1        # internal consistency assert (NARROWED: assert); strict only for the
                    continue            # input-validating asserts written in the contracted functions themselves
                if tag == 'typeguard':
                    ob.assumed.append('type-guard TypeError in {} (NARROWED: type guards)'.format(oq))
                    continue
                if tag == 'abstract':
                    ob.assumed.append('abstract method {} (NARROWED: abstract methods)'.format(oq))
                    continue
                fail('raises', '{}@{}'.format(exc, oq), '{} may leave {} (raised in {})'.format(exc, name, oq), w, origin)
            if nassert:
                ob.assumed.append('{} reachable assert statement(s) assumed to hold (NARROWED: assert)'.format(nassert))
        elif kind == 'tempfile':
            for v, w in sorted(S.tmp_leaks.items()):
                fail('tempfile', v, 'temporary file `{}` (delete=False) is not unlinked on every exit'.format(v), w)
        elif kind == 'defassign':
            for v, w in sorted(S.unbound.items()):
                fail('unbound', v, 'local `{}` is not definitely assigned before use'.format(v), w)
        else:
            raise RuntimeError('effects: unknown contract kind ' + kind)
    return obs


_ANALYZERS = {}


def get_analyzer(root):
    """one analysis per process and repository root (the four properties share it)"""
    root = os.path.abspath(root)
    if root not in _ANALYZERS:
        _ANALYZERS[root] = Analyzer(root)
    return _ANALYZERS[root]


def run_property(root, prop):
    A = get_analyzer(root)
    obs = []
    for c in EC.EFFECT_CONTRACTS:
        if c['prop'] == prop:
            obs += check_contract(A, c)
    if not obs:
        raise RuntimeError('effects vacuity guard: zero obligations for ' + prop)
    return A, obs


def assumptions(A):
    out = ['effects mode: flow-sensitive, value-insensitive abstract interpretation of the real AST; over-approximates '
           '(a failing obligation is a candidate until reproduced natively)']
    out.append('LIBRARY table contracts/effects_contracts.py: {} mutator methods, {} mutator functions, {} raising callees, '
               '{} rng, {} nondeterministic sources, {} exception bases'.format(
                   len(LIB['mutator_methods']), len(LIB['mutator_functions']), len(LIB['raises']),
                   len(LIB['rng_use']) + len(LIB['rng_seed']), len(LIB['nondet']), len(LIB['exception_bases'])))
    out.append('library callees met without a table entry (assumed: no mutation of arguments, no exception, no RNG, '
               'result may contain the arguments): {}'.format(', '.join(sorted(A.lib_default))[:1500]))
    out.append('calls through function-valued parameters / untyped callables are charged to the caller that passes the function: {} sites'.format(
        sum(len(v) for v in A.unknown_calls.values())))
    for (p, t, txt) in EC.NARROWED:
        out.append('NARROWED {} [{}]: {}'.format(p, t, txt))
    return out
