"""Micro-programs that pin the engine's encoding of Python semantics (NOT cnfgen code).

Each function has a contract in CONTRACTS (same format as /verif/contracts) strong enough to determine its result.
tools/conformance.py (1) lets pyvc prove the contract from this source and (2) runs the function in CPython on random
inputs and evaluates the same contract natively.  A contract that pyvc proves but CPython violates is an unsound encoding.
"""
from itertools import product, combinations, permutations
from bisect import bisect_right, bisect_left


def floordiv_mod(a, b):
    q = a // b
    r = a % b
    return (q, r)


def neg_index(x, i):
    return x[i]


def slice_copy(x):
    y = x[:]
    y[0] = 99
    return y


def alias_store(x):
    y = x
    y[0] = 99
    return y


def iadd_alias(x):
    y = x
    y += [7]
    return len(y)


def add_copy(x):
    y = x
    y = y + [7]
    return len(y)


def sum_range(n):
    s = 0
    for i in range(1, n + 1):
        s += i
    return s


def while_break(n):
    i = 0
    while i < n:
        if i == 5:
            break
        i += 1
    return i


def for_else(n, k):
    found = 0
    for i in range(n):
        if i == k:
            found = 1
            break
    else:
        found = 2
    return found


def unpack2(t):
    a, b = t
    return a - b


def chained(x, lo, hi):
    if lo <= x <= hi:
        return 1
    return 0


def shortcircuit(x, i):
    if i >= 0 and i < len(x) and x[i] == 3:
        return 1
    return 0


def minmaxabs(a, b):
    return max(a, b) - min(a, b) + abs(a)


def pop_append(x, v):
    x.append(v)
    w = x.pop()
    return w


def opt_default(a, b=None):
    if b is None:
        b = 10
    return a + b


def str_dispatch(op, a, b):
    if op == '>=':
        return 1 if a >= b else 0
    elif op == '<':
        return 1 if a < b else 0
    raise ValueError("bad op")


def comp_range(n):
    sq = [2 * i + 1 for i in range(n)]
    return sq


def neg_flip(x, i):
    x[i] *= -1
    return x[i]


def closure_call(a):
    k = a + 1

    def inner(z):
        return z * 2 + k
    return inner(3)


def bool_arith(a, b):
    return (a > b) + (a == b)


def nested_loops(n, m):
    c = 0
    for i in range(n):
        for j in range(m):
            c += 1
    return c


def prod_count(n, m):
    c = 0
    last = -1
    for (i, j) in product(range(n), range(1, m + 1)):
        c += 1
        last = i * 1000 + j
    return (c, last)


def comb_gaps(n):
    c = 0
    g = 0
    for (a, b) in combinations(range(1, n + 1), 2):
        c += 1
        g += b - a - 1
    return c


def shifted_pairs(n):
    lowest = 5
    span = 0
    zero_based = ((u - 1, v - 1) for (u, v) in combinations(range(1, n + 1), 2))
    for (a, b) in zero_based:
        if a < lowest:
            lowest = a
        if b - a > span:
            span = b - a
    return (lowest, span)


def perm_order(n):
    prev = -1
    cnt = 0
    for (a, b, c) in permutations(range(n), 3):
        cur = a * 10000 + b * 100 + c
        assert cur > prev
        assert a != b and b != c and a != c
        prev = cur
        cnt += 1
    return prev


def comb3_order(n):
    prev = -1
    for (a, b, c) in combinations(range(n), 3):
        cur = a * 10000 + b * 100 + c
        assert cur > prev
        assert a < b and b < c
        prev = cur
    return prev


def perm_count5():
    cnt = 0
    for (a, b, c) in permutations(range(5), 3):
        cnt += 1
    return cnt


def comb3_count5():
    cnt = 0
    for (a, b, c) in combinations(range(5), 3):
        cnt += 1
    return cnt


def comp_filter(n, b):
    xs = [3 * u for u in range(1, n + 1) if u <= b]
    return xs


def rows_of_empty(n):
    t = [[] for i in range(n + 1)]
    t[0].insert(0, 5)
    return (len(t), len(t[0]), len(t[n]))


def first_geq(n, s, x):
    t = [s]
    for i in range(n):
        t.append(t[-1] + 2)
    return bisect_left(t, x)


def member(x, v):
    if v in x:
        return 1
    return 0


def tuple_dict(a, b):
    d = {}
    d[(a, b)] = 7
    d[(b, a)] = 9
    return d[(a, b)]


def keep_small(x, k):
    small = [v for v in x if v < k]
    return len(small)


def extend_local(n):
    xs = []
    xs.extend(range(1, n + 1))
    xs.extend(-v for v in range(1, n + 1))
    return xs


def square(t):
    return t ** 2


C = 'conformance/cases.py'
def fill_table(n, s):
    t = [s]
    for i in range(n):
        t.append(t[-1] + 1)
    return t


def first_free(n):
    return n + 1


def sorted_pair(a, b):
    s = sorted((a, b))
    return (s[0], s[1])


def weigh3(x, y, z):
    return x + 2 * y + 3 * z


def star_call(t):
    return weigh3(*t)


def table_lookup(n, s, x):
    t = [None, s]
    for i in range(n):
        t.append(t[-1] + 2)
    return bisect_right(t, x) - 1


def grow_rows(n):
    t = [[] for i in range(n)]
    for i in range(n):
        t[i].append(7)
    return t


def grow_alias(n):
    t = [[] for i in range(2)]
    r = t[0]
    for i in range(n):
        r.append(7)
    return t


def push(L, x):
    L.append(x)


def push_all(n):
    t = []
    for i in range(n):
        push(t, i)
    return t


def pick(i):
    return i


def picks(n):
    return [pick(i) for i in range(n)]


CONTRACTS = {
    # a dict keyed by tuples of ints: the later store wins when the keys coincide
    (C, 'tuple_dict'): {'params': {'a': 'int', 'b': 'int'}, 'locals': {'d': 'seqmap'}, 'raises': {}, 'returns': 'int',
                        'ensures': ['(a == b and result == 9) or (a != b and result == 7)']},
    # [v for v in x if cond]: empty exactly when no element satisfies cond (length otherwise unknown but bounded)
    (C, 'keep_small'): {'params': {'x': 'intlist', 'k': 'int'}, 'raises': {}, 'returns': 'int',
                        'ensures': ['0 <= result', 'result <= len(x)', '(result == 0) == forall(lambda j: not (0 <= j and j < len(x)) or x[j] >= k)']},
    # x**2 is kept symbolic: only linear facts (non-negative, zero only at zero, at least |t|)
    (C, 'square'): {'params': {'t': 'int'}, 'raises': {}, 'returns': 'int', 'ensures': ['result >= 0', 'result >= t', 'result >= -t', '(result == 0) == (t == 0)']},
    # bisect_left on a sorted list; membership of an int in a list
    (C, 'first_geq'): {'params': {'n': 'int', 's': 'int', 'x': 'int'}, 'requires': ['n >= 0'], 'raises': {}, 'returns': 'int',
                       'loops': {0: {'inv': ['len(t) == _it + 1', 'forall(lambda u: implies(0 <= u and u <= _it, t[u] == s + 2 * u), lambda u: t[u])']}},
                       'ensures': ['0 <= result', 'result <= n + 1', 'result == 0 or s + 2 * (result - 1) < x', 'result == n + 1 or x <= s + 2 * result']},
    (C, 'member'): {'params': {'x': 'intlist', 'v': 'int'}, 'raises': {}, 'returns': 'int',
                    'ensures': ['(result == 1) == (not forall(lambda j: not (0 <= j and j < len(x)) or x[j] != v))', 'result == 0 or result == 1']},
    # [[] for i in range(..)]: that many DISTINCT empty lists (appending to one leaves the others empty)
    (C, 'rows_of_empty'): {'params': {'n': 'int'}, 'requires': ['n >= 1'], 'raises': {}, 'returns': 'tuple:int,int,int',
                           'ensures': ['result[0] == n + 1', 'result[1] == 1', 'result[2] == 0']},
    # a comprehension over a range with an upper-bound filter is the comprehension over the shorter range
    (C, 'comp_filter'): {'params': {'n': 'int', 'b': 'int'}, 'raises': {}, 'returns': 'intlist',
                         'ensures': ['len(result) == max(0, min(n, b))',
                                     'forall(lambda j: not (0 <= j and j < len(result)) or result[j] == 3 * (j + 1))']},
    # ... and none is missing: 5*4*3 = 60 arrangements, C(5,3) = 10 subsets
    (C, 'perm_count5'): {'params': {}, 'raises': {}, 'returns': 'int',
                         'loops': {0: {'nest': [{'counter': '_a', 'inv': ['cnt == _a * 12']},
                                                {'counter': '_b', 'ghost_at_entry_vals': {'C2': 'cnt'}, 'inv': ['cnt == C2 + (_b - ite(a < _b, 1, 0)) * 3']},
                                                {'ghost_at_entry_vals': {'C3': 'cnt'},
                                                 'inv': ['cnt == C3 + ite(a == b, 0, _it - ite(a < _it, 1, 0) - ite(b < _it, 1, 0))']}]}},
                         'ensures': ['result == 60']},
    (C, 'comb3_count5'): {'params': {}, 'raises': {}, 'returns': 'int',
                          'loops': {0: {'nest': [{'counter': '_a', 'inv': ['cnt == ite(_a == 0, 0, ite(_a == 1, 6, ite(_a == 2, 9, 10)))']},
                                                 {'counter': '_b', 'ghost_at_entry_vals': {'C2': 'cnt'},
                                                  'inv': ['2 * (cnt - C2) == 2 * _b * (3 - a) - _b * (_b - 1)', '_b <= 4 - a or a >= 4']},
                                                 {'ghost_at_entry_vals': {'C3': 'cnt'}, 'inv': ['cnt == C3 + _it']}]}},
                          'ensures': ['result == 10']},
    # permutations(R, 3) / combinations(R, 3): the desugared nested loops visit tuples in strictly increasing (itertools) order,
    # without repetition (the asserts are hazard obligations for pyvc and run natively in CPython)
    (C, 'perm_order'): {'params': {'n': 'int'}, 'requires': ['n <= 9'], 'raises': {}, 'returns': 'int',
                        'loops': {0: {'nest': [{'counter': '_a', 'inv': ['prev < _a * 10000', 'prev >= -1']},
                                               {'counter': '_b', 'inv': ['prev < a * 10000 + _b * 100', 'prev >= -1']},
                                               {'inv': ['prev < a * 10000 + b * 100 + _it', 'prev >= -1']}]}},
                        'ensures': ['result >= -1']},
    (C, 'comb3_order'): {'params': {'n': 'int'}, 'requires': ['n <= 9'], 'raises': {}, 'returns': 'int',
                         'loops': {0: {'nest': [{'counter': '_a', 'inv': ['prev < _a * 10000', 'prev >= -1']},
                                                {'counter': '_b', 'inv': ['prev < a * 10000 + (a + 1 + _b) * 100', 'prev >= -1']},
                                                {'inv': ['prev < a * 10000 + b * 100 + b + 1 + _it', 'prev >= -1']}]}},
                         'ensures': ['result >= -1']},
    # sorted() of a pair, f(*t) for a tuple of known length, a 1-based table [None, ...] searched with bisect_right
    (C, 'sorted_pair'): {'params': {'a': 'int', 'b': 'int'}, 'raises': {}, 'returns': 'tuple:int,int',
                         'ensures': ['result[0] <= result[1]', '(result[0] == a and result[1] == b) or (result[0] == b and result[1] == a)']},
    (C, 'weigh3'): {'params': {'x': 'int', 'y': 'int', 'z': 'int'}, 'raises': {}, 'returns': 'int', 'ensures': ['result == x + 2 * y + 3 * z']},
    (C, 'star_call'): {'params': {'t': 'tuple:int,int,int'}, 'raises': {}, 'returns': 'int', 'ensures': ['result == t[0] + 2 * t[1] + 3 * t[2]']},
    (C, 'table_lookup'): {'params': {'n': 'int', 's': 'int', 'x': 'int'}, 'requires': ['n >= 0', 'x >= s'], 'raises': {}, 'returns': 'int',
                          'loops': {0: {'inv': ['len(t) == _it + 2', 'forall(lambda u: implies(1 <= u and u <= _it + 1, t[u] == s + 2 * (u - 1)), lambda u: t[u])']}},
                          'ensures': ['1 <= result', 'result <= n + 1', 's + 2 * (result - 1) <= x', 'result == n + 1 or x < s + 2 * result']},
    # exceptions of primitive operations are HAZARD obligations in pyvc: the precondition is the exact no-exception condition
    (C, 'floordiv_mod'): {'params': {'a': 'int', 'b': 'int'}, 'requires': ['b != 0'], 'raises': {}, 'returns': 'tuple:int,int',
                          'ensures': ['result[0] * b + result[1] == a', '(b > 0 and 0 <= result[1] and result[1] < b) or (b < 0 and b < result[1] and result[1] <= 0)']},
    (C, 'neg_index'): {'params': {'x': 'intlist', 'i': 'int'}, 'requires': ['-len(x) <= i and i < len(x)'], 'raises': {}, 'returns': 'int',
                       'ensures': ['(i >= 0 and result == x[i]) or (i < 0 and result == x[len(x) + i])']},
    (C, 'slice_copy'): {'params': {'x': 'intlist'}, 'requires': ['len(x) > 0'], 'raises': {}, 'returns': 'intlist',
                        'ensures': ['len(x) == len(old(x))', 'forall(lambda j: not (0 <= j and j < len(x)) or x[j] == old(x)[j])',
                                    'result[0] == 99', 'len(result) == len(x)']},
    (C, 'alias_store'): {'modifies': ['x'], 'params': {'x': 'intlist'}, 'requires': ['len(x) > 0'], 'raises': {}, 'returns': 'intlist',
                         'ensures': ['x[0] == 99', 'result[0] == 99', 'len(x) == len(old(x))']},
    (C, 'iadd_alias'): {'modifies': ['x'], 'params': {'x': 'intlist'}, 'raises': {}, 'returns': 'int',
                        'ensures': ['result == len(old(x)) + 1', 'len(x) == len(old(x)) + 1', 'x[len(x) - 1] == 7']},
    (C, 'add_copy'): {'params': {'x': 'intlist'}, 'raises': {}, 'returns': 'int',
                      'ensures': ['result == len(old(x)) + 1', 'len(x) == len(old(x))']},
    (C, 'sum_range'): {'params': {'n': 'int'}, 'raises': {}, 'returns': 'int',
                       'loops': {0: {'inv': ['2 * s == _it * (_it + 1)']}},
                       'ensures': ['(n >= 0 and 2 * result == n * (n + 1)) or (n < 0 and result == 0)']},
    (C, 'while_break'): {'params': {'n': 'int'}, 'raises': {}, 'returns': 'int',
                         'loops': {0: {'inv': ['0 <= i', 'i <= 5', 'i <= n or (n < 0 and i == 0)']}},
                         'ensures': ['(n <= 0 and result == 0) or (0 < n and n <= 5 and result == n) or (n > 5 and result == 5)']},
    (C, 'for_else'): {'params': {'n': 'int', 'k': 'int'}, 'raises': {}, 'returns': 'int',
                      'loops': {0: {'inv': ['found == 0', 'not (0 <= k and k < _it)']}},
                      'ensures': ['(0 <= k and k < n and result == 1) or (not (0 <= k and k < n) and result == 2)']},
    (C, 'unpack2'): {'params': {'t': 'tuple:int,int'}, 'raises': {}, 'returns': 'int', 'ensures': ['result == t[0] - t[1]']},
    (C, 'chained'): {'params': {'x': 'int', 'lo': 'int', 'hi': 'int'}, 'raises': {}, 'returns': 'int',
                     'ensures': ['(result == 1) == (lo <= x and x <= hi)', 'result == 0 or result == 1']},
    (C, 'shortcircuit'): {'params': {'x': 'intlist', 'i': 'int'}, 'raises': {}, 'returns': 'int',
                          'ensures': ['(result == 1) == (0 <= i and i < len(x) and x[i] == 3)', 'result == 0 or result == 1']},
    (C, 'minmaxabs'): {'params': {'a': 'int', 'b': 'int'}, 'raises': {}, 'returns': 'int',
                       'ensures': ['(a >= b and a >= 0 and result == a - b + a) or (a >= b and a < 0 and result == a - b - a) or '
                                   '(a < b and a >= 0 and result == b - a + a) or (a < b and a < 0 and result == b - a - a)']},
    (C, 'pop_append'): {'modifies': ['x'], 'params': {'x': 'intlist', 'v': 'int'}, 'raises': {}, 'returns': 'int',
                        'ensures': ['result == v', 'len(x) == len(old(x))']},
    (C, 'opt_default'): {'params': {'a': 'int', 'b': 'none'}, 'raises': {}, 'returns': 'int', 'ensures': ['result == a + 10'],
                         'native_args': ['a']},
    (C, 'str_dispatch'): {'params': {'op': 'str', 'a': 'int', 'b': 'int'}, 'raises': {'ValueError': "not (op == '>=' or op == '<')"}, 'returns': 'int',
                          'ensures': ["(op == '>=' and (result == 1) == (a >= b)) or (op == '<' and (result == 1) == (a < b))", 'result == 0 or result == 1']},
    (C, 'comp_range'): {'params': {'n': 'int'}, 'raises': {}, 'returns': 'intlist',
                        'ensures': ['(n >= 0 and len(result) == n) or (n < 0 and len(result) == 0)',
                                    'forall(lambda j: not (0 <= j and j < len(result)) or result[j] == 2 * j + 1)']},
    (C, 'neg_flip'): {'modifies': ['x'], 'params': {'x': 'intlist', 'i': 'int'}, 'requires': ['-len(x) <= i and i < len(x)'], 'raises': {}, 'returns': 'int',
                      'ensures': ['(i >= 0 and result == -old(x)[i]) or (i < 0 and result == -old(x)[len(x) + i])', 'len(x) == len(old(x))']},
    # (no case for `try: x[i] except IndexError`: exceptions of primitive operations are hazard obligations in pyvc, also inside a
    #  try block - a function that relies on catching them is reported as a hazard, which is conservative, never unsound)
    (C, 'closure_call'): {'params': {'a': 'int'}, 'raises': {}, 'returns': 'int', 'ensures': ['result == a + 7']},
    (C, 'bool_arith'): {'params': {'a': 'int', 'b': 'int'}, 'raises': {}, 'returns': 'int',
                        'ensures': ['(a >= b and result == 1) or (a < b and result == 0)']},
    (C, 'nested_loops'): {'params': {'n': 'int', 'm': 'int'}, 'raises': {}, 'returns': 'int',
                          'loops': {0: {'counter': '_io', 'inv': ['(m >= 0 and c == _io * m) or (m < 0 and c == 0)']},
                                    1: {'ghost_at_entry_vals': {'C0': 'c'}, 'inv': ['c == C0 + _it']}},
                          'ensures': ['(n >= 0 and m >= 0 and result == n * m) or ((n < 0 or m < 0) and result == 0)']},
    # product / combinations loops are verified as the nested range loops they are equivalent to
    (C, 'prod_count'): {'params': {'n': 'int', 'm': 'int'}, 'raises': {}, 'returns': 'tuple:int,int',
                        'loops': {0: {'nest': [{'counter': '_io', 'inv': ['(m >= 0 and c == _io * m) or (m < 0 and c == 0)',
                                                                          '(_io >= 1 and m >= 1 and last == (_io - 1) * 1000 + m) or ((_io == 0 or m < 1) and last == -1)']},
                                               {'ghost_at_entry_vals': {'C0': 'c'},
                                                'inv': ['c == C0 + _it', '(_it >= 1 and last == i * 1000 + _it) or (_it == 0 and ((_io >= 1 and m >= 1 and last == (_io - 1) * 1000 + m) or ((_io == 0 or m < 1) and last == -1)))']}]}},
                        'ensures': ['(n >= 0 and m >= 0 and result[0] == n * m) or ((n < 0 or m < 0) and result[0] == 0)',
                                    '(n >= 1 and m >= 1 and result[1] == (n - 1) * 1000 + m) or ((n < 1 or m < 1) and result[1] == -1)']},
    # ((u-1, v-1) for (u, v) in combinations(R, 2)): the same pairs, handed out shifted (0-based): the smallest first entry is 0
    (C, 'shifted_pairs'): {'params': {'n': 'int'}, 'requires': ['n >= 2'], 'raises': {}, 'returns': 'tuple:int,int',
                           'loops': {0: {'nest': [{'counter': '_io', 'inv': ['(_io == 0 and lowest == 5) or (_io >= 1 and lowest == 0)', 'span >= 0', 'span <= n - 1']},
                                                  {'inv': ['(_io == 0 and _it == 0 and lowest == 5) or lowest == 0', 'span >= 0', 'span <= n - 1']}]}},
                           'ensures': ['result[0] == 0', 'result[1] <= n - 1', 'result[1] >= 0']},
    (C, 'comb_gaps'): {'params': {'n': 'int'}, 'raises': {}, 'returns': 'int',
                       'loops': {0: {'nest': [{'counter': '_io', 'inv': ['2 * c == _io * (2 * n - _io - 1) or (n < 1 and c == 0)', 'c >= 0']},
                                              {'ghost_at_entry_vals': {'C0': 'c'}, 'inv': ['c == C0 + _it']}]}},
                       'ensures': ['(n >= 1 and 2 * result == n * (n - 1)) or (n < 1 and result == 0)']},
}


# NEGATIVE cases: contracts that are FALSE (CPython refutes them).  pyvc must leave a postcondition unproved - a guard against
# unsound engine features (the first one is the shape of a real hole found on 2026-10-03: the goal's own triggered quantifier
# was instantiated among the hypotheses, so a false table invariant "proved").
NEGATIVE = {
    (C, 'fill_table'): {'params': {'n': 'int', 's': 'int'}, 'requires': ['n >= 1'], 'raises': {}, 'returns': 'intlist',
                        'loops': {0: {'inv': ['len(t) == _it + 1', 'forall(lambda u: implies(0 <= u and u <= _it, t[u] == s + u), lambda u: t[u])']}},
                        'ensures': ['result[0] == s', 'forall(lambda u: not (0 <= u and u <= n) or result[u] == s + u + 1, lambda u: result[u])']},
    (C, 'first_free'): {'params': {'n': 'int'}, 'raises': {}, 'returns': 'int', 'ensures': ['result == n + 2']},
    # the shape of a real hole found on 2026-10-03: t[i].append(v) inside a loop did not count as a change of t, so the loop
    # "preserved" whatever was true of the table before it; same through an alias of a row bound before the loop
    # the shape of a fourth hole (2026-10-03): a loop body that changes a value only THROUGH A CALLEE (inlined helper, callee contract
    # with `modifies`, print(file=..)) - invisible to the syntactic scan of the body - was not havoced at the loop head, so the code
    # after the loop saw the pre-loop value.  Every loop now checks its frame: what the head did not havoc must come out unchanged
    (C, 'push'): {'assumed': 'helper, inlined', 'inline_always': True},
    (C, 'push_all'): {'params': {'n': 'int'}, 'requires': ['n >= 1'], 'raises': {}, 'returns': 'intlist',
                      'loops': {0: {'inv': ['len(t) <= 1']}}, 'ensures': ['len(result) == 0']},
    (C, 'grow_rows'): {'params': {'n': 'int'}, 'requires': ['n >= 1'], 'raises': {}, 'returns': 'list2',
                       'loops': {0: {'inv': ['len(t) == n', 'len(t[0]) == 0']}}, 'ensures': ['len(result[0]) == 0']},
    (C, 'grow_alias'): {'params': {'n': 'int'}, 'requires': ['n >= 1'], 'raises': {}, 'returns': 'list2',
                        'loops': {0: {'inv': ['len(t) == 2', 'len(t[0]) == 0']}}, 'ensures': ['len(result[0]) == 0']},
    # a callee known only through an under-determined contract, called once per element of a comprehension: the results are
    # different values per index (one shared fresh value for all indices would prove result[0] == result[1])
    (C, 'pick'): {'assumed': 'under-determined on purpose', 'params': {'i': 'int'}, 'returns': 'int', 'ensures': ['0 <= result or result <= 0']},
    (C, 'picks'): {'params': {'n': 'int'}, 'requires': ['n >= 2'], 'raises': {}, 'returns': 'intlist', 'ensures': ['result[0] == result[1]']},
    # the positive cases above with ONE clause falsified each (key: function#tag): aliasing, copies, in-place +=, loop exits,
    # raises-iff in both directions, floor division, negative indices, closures, nest loops
    (C, 'alias_store#keeps'): {'params': {'x': 'intlist'}, 'requires': ['len(x) > 0', 'x[0] != 99'], 'raises': {}, 'returns': 'intlist',
                               'ensures': ['x[0] == old(x)[0]']},
    (C, 'iadd_alias#copy'): {'params': {'x': 'intlist'}, 'raises': {}, 'returns': 'int', 'ensures': ['len(x) == len(old(x))']},
    (C, 'add_copy#inplace'): {'params': {'x': 'intlist'}, 'raises': {}, 'returns': 'int', 'ensures': ['len(x) == len(old(x)) + 1']},
    (C, 'slice_copy#alias'): {'params': {'x': 'intlist'}, 'requires': ['len(x) > 0', 'x[0] != 99'], 'raises': {}, 'returns': 'intlist', 'ensures': ['x[0] == 99']},
    (C, 'sum_range#off'): {'params': {'n': 'int'}, 'requires': ['n >= 1'], 'raises': {}, 'returns': 'int',
                           'loops': {0: {'inv': ['2 * s == _it * (_it + 1)']}}, 'ensures': ['2 * result == n * (n - 1)']},
    (C, 'for_else#nobreak'): {'params': {'n': 'int', 'k': 'int'}, 'requires': ['0 <= k', 'k < n'], 'raises': {}, 'returns': 'int',
                              'loops': {0: {'inv': ['found == 0', 'not (0 <= k and k < _it)']}}, 'ensures': ['result == 2']},
    (C, 'str_dispatch#never'): {'params': {'op': 'str', 'a': 'int', 'b': 'int'}, 'raises': {}, 'returns': 'int', 'ensures': ['result == 0 or result == 1']},
    (C, 'str_dispatch#always'): {'params': {'op': 'str', 'a': 'int', 'b': 'int'}, 'raises': {'ValueError': "op != '<'"}, 'returns': 'int',
                                 'ensures': ['result == 0 or result == 1']},
    (C, 'floordiv_mod#trunc'): {'params': {'a': 'int', 'b': 'int'}, 'requires': ['b != 0'], 'raises': {}, 'returns': 'tuple:int,int',
                                'ensures': ['(a >= 0 and result[1] >= 0) or (a < 0 and result[1] <= 0)']},
    (C, 'neg_index#nowrap'): {'params': {'x': 'intlist', 'i': 'int'}, 'requires': ['-len(x) <= i and i < 0', 'len(x) >= 2', 'x[0] != x[len(x) - 1]'], 'raises': {}, 'returns': 'int',
                              'ensures': ['result == x[0] or i != -1']},
    (C, 'pop_append#grows'): {'params': {'x': 'intlist', 'v': 'int'}, 'raises': {}, 'returns': 'int', 'ensures': ['len(x) == len(old(x)) + 1']},
    (C, 'closure_call#late'): {'params': {'a': 'int'}, 'raises': {}, 'returns': 'int', 'ensures': ['result == a + 6']},
    (C, 'bool_arith#strict'): {'params': {'a': 'int', 'b': 'int'}, 'raises': {}, 'returns': 'int', 'ensures': ['(a > b and result == 1) or (a <= b and result == 0)']},
    (C, 'shifted_pairs#unshifted'): {'params': {'n': 'int'}, 'requires': ['n >= 2'], 'raises': {}, 'returns': 'tuple:int,int',
                                     'loops': {0: {'nest': [{'counter': '_io', 'inv': ['(_io == 0 and lowest == 5) or (_io >= 1 and lowest == 1)', 'span >= 0']},
                                                            {'inv': ['(_io == 0 and _it == 0 and lowest == 5) or lowest == 1', 'span >= 0']}]}},
                                     'ensures': ['result[0] == 1']},
    (C, 'comb_gaps#ordered'): {'params': {'n': 'int'}, 'requires': ['n >= 2'], 'raises': {}, 'returns': 'int',
                               'loops': {0: {'nest': [{'counter': '_io', 'inv': ['2 * c == _io * (2 * n - _io - 1) or (n < 1 and c == 0)', 'c >= 0']},
                                                      {'ghost_at_entry_vals': {'C0': 'c'}, 'inv': ['c == C0 + _it']}]}},
                               'ensures': ['result == n * (n - 1)']},
    (C, 'prod_count#square'): {'params': {'n': 'int', 'm': 'int'}, 'requires': ['n >= 1', 'm >= 2'], 'raises': {}, 'returns': 'tuple:int,int',
                               'loops': {0: {'nest': [{'counter': '_io', 'inv': ['(m >= 0 and c == _io * m) or (m < 0 and c == 0)']},
                                                      {'ghost_at_entry_vals': {'C0': 'c'}, 'inv': ['c == C0 + _it']}]}},
                               'ensures': ['result[0] == n * n or n == m']},
    (C, 'table_lookup#left'): {'params': {'n': 'int', 's': 'int', 'x': 'int'}, 'requires': ['n >= 1', 'x == s + 2'], 'raises': {}, 'returns': 'int',
                               'loops': {0: {'inv': ['len(t) == _it + 2', 'forall(lambda u: implies(1 <= u and u <= _it + 1, t[u] == s + 2 * (u - 1)), lambda u: t[u])']}},
                               'ensures': ['result == 1']},
    (C, 'tuple_dict#first'): {'params': {'a': 'int', 'b': 'int'}, 'locals': {'d': 'seqmap'}, 'requires': ['a == b'], 'raises': {}, 'returns': 'int', 'ensures': ['result == 7']},
    (C, 'keep_small#all'): {'params': {'x': 'intlist', 'k': 'int'}, 'requires': ['len(x) >= 1', 'x[0] >= k'], 'raises': {}, 'returns': 'int', 'ensures': ['result == len(x)']},
    (C, 'square#linear'): {'params': {'t': 'int'}, 'requires': ['t >= 2'], 'raises': {}, 'returns': 'int', 'ensures': ['result == 2 * t']},
    (C, 'sorted_pair#keep'): {'params': {'a': 'int', 'b': 'int'}, 'requires': ['a > b'], 'raises': {}, 'returns': 'tuple:int,int', 'ensures': ['result[0] == a']},
}
