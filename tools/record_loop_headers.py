#!/usr/bin/env python3
"""record the headers of the loops of every function under a pyvc contract with loop specs (unchanged tree)
-> contracts/loop_headers.json ; the engine re-aligns invariants by header when loops are added / removed"""
import ast, json, os, sys
V = os.path.dirname(os.path.dirname(os.path.abspath(__file__)))
sys.path.insert(0, V)
from pyvc import engine, run as pyrun
from vlib import core
contracts, models = pyrun.load_contracts(pyrun.all_modules())
repo = engine.Repo(core.REPO)
out = {}
for (rel, qual), c in contracts.items():
    if not c.get('loops'):
        continue
    srel, squal = c.get('source', (rel, qual))
    node = repo.find(srel, squal)
    loops = [n for n in ast.walk(node) if isinstance(n, (ast.For, ast.While))]
    loops.sort(key=lambda n: (n.lineno, n.col_offset))
    out['{}:{}'.format(srel, squal)] = {str(i): engine.loop_header(n) for i, n in enumerate(loops)}
json.dump(out, open(os.path.join(V, 'contracts', 'loop_headers.json'), 'w'), indent=1, sort_keys=True)
print(len(out), 'functions recorded')
