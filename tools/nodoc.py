#!/usr/bin/env python3
"""print a python file without docstrings/comments, with original line numbers as prefix of defs"""
import ast,sys
src=open(sys.argv[1]).read()
t=ast.parse(src)
class S(ast.NodeTransformer):
    def visit_FunctionDef(self,n):
        self.generic_visit(n)
        if n.body and isinstance(n.body[0],ast.Expr) and isinstance(n.body[0].value,ast.Constant) and isinstance(n.body[0].value.value,str):
            n.body=n.body[1:] or [ast.Pass()]
        n.name=f'{n.name}__L{n.lineno}'
        return n
    visit_ClassDef=visit_FunctionDef
print(ast.unparse(S().visit(t)))
