#!/usr/bin/env python3
"""Guard on pyvc's encoding of Python: the micro-programs of conformance/cases.py.

For every case (1) pyvc must discharge every obligation of its contract generated from the case's source, and
(2) CPython runs the same function on random inputs and the same contract (raises-iff clauses and postconditions) is
evaluated natively.  (1) without (2) would be an unsound encoding: FAIL.  Exit 0 iff all cases pass.
  PYTHONPATH=/verif .venv312/bin/python tools/conformance.py [-v]
"""
import ast
import copy
import importlib
import itertools
import os
import random
import sys

V = os.path.dirname(os.path.dirname(os.path.abspath(__file__)))
sys.path.insert(0, V)


def gen_value(ty, rnd):
    if ty == 'int':
        return rnd.choice([-7, -3, -2, -1, 0, 1, 2, 3, 5, 6, 9])
    if ty == 'bool':
        return rnd.choice([True, False])
    if ty == 'intlist':
        return [rnd.choice([-3, -1, 0, 1, 3, 4]) for _ in range(rnd.choice([0, 1, 2, 3, 5]))]
    if ty == 'str':
        return rnd.choice(['>=', '<', '==', 'x'])
    if ty.startswith('tuple:'):
        return tuple(gen_value(t, rnd) for t in ty[6:].split(','))
    if ty == 'none':
        return None
    raise ValueError(ty)


class OldLift(ast.NodeTransformer):
    """old(e) -> a name bound to the value of e in the pre-state"""

    def __init__(self, pre_ns):
        self.pre_ns, self.bind = pre_ns, {}

    def visit_Call(self, n):
        if isinstance(n.func, ast.Name) and n.func.id == 'old':
            k = '__old{}'.format(len(self.bind))
            self.bind[k] = eval(compile(ast.Expression(n.args[0]), '<old>', 'eval'), dict(NATIVE, **self.pre_ns))
            return ast.copy_location(ast.Name(id=k, ctx=ast.Load()), n)
        return self.generic_visit(n)


def _forall(f, *trig):
    k = f.__code__.co_argcount
    return all(f(*xs) for xs in itertools.product(range(-12, 13), repeat=k))


NATIVE = {'forall': _forall, 'implies': lambda a, b: (not a) or b, 'len': len, 'abs': abs, 'min': min, 'max': max}


def native_eval(text, ns, pre_ns):
    tree = ast.parse(text, mode='eval')
    lift = OldLift(pre_ns)
    tree = ast.fix_missing_locations(lift.visit(tree))
    env = dict(NATIVE)
    env.update(ns)
    env.update(lift.bind)
    return eval(compile(tree, '<spec>', 'eval'), env)


def native_check(fn, c, rnd, runs=400):
    names = list(c['params'])
    for _ in range(runs):
        args = {n: gen_value(c['params'][n], rnd) for n in names}
        pre = copy.deepcopy(args)
        if not all(native_eval(r, pre, pre) for r in c.get('requires', [])):
            continue                    # outside the precondition
        call = {n: args[n] for n in c.get('native_args', names)}
        exc = None
        try:
            res = fn(**call)
        except Exception as e:        # noqa
            exc = type(e).__name__
        # raises-iff
        for ename, cond in c.get('raises', {}).items():
            want = bool(native_eval(cond, pre, pre))
            if want != (exc == ename):
                return 'raises [{}: {}] expected {} got {} on {}'.format(ename, cond, want, exc, pre)
        if exc is not None:
            if exc not in c.get('raises', {}):
                return 'undeclared {} on {}'.format(exc, pre)
            continue
        ns = dict(args)
        ns['result'] = res
        for ens in c.get('ensures', []):
            try:
                ok = native_eval(ens, ns, pre)
            except Exception as e:      # noqa
                return 'postcondition [{}] not evaluable natively ({}) on {}'.format(ens, e, pre)
            if not ok:
                return 'postcondition [{}] FALSE in CPython on {} -> {}'.format(ens, pre, res)
    return None


def main(verbose=False):
    from pyvc import engine, solve
    cases = importlib.import_module('conformance.cases')
    repo = engine.Repo(V)
    rnd = random.Random(20261003)
    bad = 0
    total_ob = 0
    for (rel, qual), c in cases.CONTRACTS.items():
        eng = engine.Engine(repo, dict(cases.CONTRACTS), {})
        try:
            obs = eng.verify(rel, qual)
        except engine.Unsupported as e:
            print('CONFORMANCE {}: engine does not support the case ({})'.format(qual, e))
            bad += 1
            continue
        solve.discharge(obs)
        total_ob += len(obs)
        unproved = [o for o in obs if o.verdict != 'proved']
        nat = native_check(getattr(cases, qual), c, rnd)
        status = 'ok'
        if unproved:
            status = 'NOT PROVED: ' + '; '.join('{} {} [{}]'.format(o.kind, o.verdict, o.name[:60]) for o in unproved[:3])
        if nat:
            status = ('UNSOUND ENCODING (proved but false natively): ' if not unproved else 'contract wrong natively: ') + nat
        if status != 'ok':
            bad += 1
        if verbose or status != 'ok':
            print('CONFORMANCE {:14s} {:3d} obligations  {}'.format(qual, len(obs), status))
    negs = getattr(cases, 'NEGATIVE', {})
    for (rel, qual), c in negs.items():
        # a FALSE contract: CPython must refute it and pyvc must leave a postcondition unproved
        if c.get('assumed'):
            continue                    # a helper known only through its (assumed) contract
        eng = engine.Engine(repo, dict(negs), {})
        try:
            obs = eng.verify(rel, qual.split('#')[0], contract=c)
            solve.discharge(obs)
            proved_all = all(o.verdict == 'proved' for o in obs)
        except engine.Unsupported:
            proved_all = False
        nat = native_check(getattr(cases, qual.split('#')[0]), c, rnd)
        status = 'ok'
        if nat is None:
            status = 'negative case is not false natively: fix the case'
        elif proved_all:
            status = 'UNSOUND: a false contract was proved (CPython: {})'.format(nat)
        if status != 'ok':
            bad += 1
        if verbose or status != 'ok':
            print('CONFORMANCE {:22s} negative  {}'.format(qual, status))
    print('CONFORMANCE: {} cases, {} obligations, {} negative cases, {} failing'.format(len(cases.CONTRACTS), total_ob, sum(1 for c in negs.values() if not c.get('assumed')), bad))
    return bad


if __name__ == '__main__':
    sys.exit(1 if main('-v' in sys.argv) else 0)
