#!/bin/bash
cd "$(dirname "$0")/.."
declare -A EXTRA=( [C02-m2]="C16" [C08-m1]="C04" [C09-m2]="C17" [C10-m1]="C11" [C10-m2]="C01" [C15-m1]="C14" [C17-m1]="C15" [C18-m1]="C15" [C18-m2]="C14" [C16-m1]="C02" )
for d in seeded/*/; do
  id=$(basename $d); p=${id%%-*}
  cp -r $d /tmp/seed_src_$id
  echo "=== $id"
  python3 tools/verify_mutant.py /tmp/seed_src_$id $id $p ${EXTRA[$id]} 2>&1 | python3 -c "
import sys,json
try:
    d=json.load(sys.stdin); print('confirmed', d.get('confirmed')); print(json.dumps({k:(v['exit'], v['violation_keys'][:3], len(v['degraded'])) for k,v in d.get('checks',{}).items()}))
except Exception as e: print('ERR',e)"
  rm -rf /tmp/seed_src_$id
done
