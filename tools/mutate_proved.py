#!/usr/bin/env python3
"""Guard on the proof tier: mechanical mutants of every function under a pyvc contract.

For each function verified by pyvc, small syntactic mutants of the REAL source (comparison swaps, off-by-one
constants, +/- swaps, dropped unary minus, and/or swaps, deleted statements, swapped call arguments) are generated
in memory (the file on disk is not touched: the engine's Repo is given an override for that one file), the VCs are
regenerated and discharged, and each mutant is classified

  killed-P   a decisive obligation (post/pre/hazard/raises/yield) is no longer discharged
  degraded   only auxiliary obligations fail or the function leaves the supported subset (the bounded tier decides)
  survived   every obligation still discharges: either an equivalent mutant or a contract that is too weak

Survivors are the work list for strengthening contracts.  Usage:
  PYTHONPATH=/verif .venv312/bin/python tools/mutate_proved.py [--only SUBSTR] [--jobs 12] [--out FILE]
  ... --one REL QUAL INDEX     (worker)
"""
import ast
import json
import os
import subprocess
import sys
import time
from concurrent.futures import ThreadPoolExecutor

VERIF = os.path.dirname(os.path.dirname(os.path.abspath(__file__)))
sys.path.insert(0, VERIF)

CMP = {ast.Lt: '<=', ast.LtE: '<', ast.Gt: '>=', ast.GtE: '>', ast.Eq: '!=', ast.NotEq: '=='}
CMPTXT = {ast.Lt: '<', ast.LtE: '<=', ast.Gt: '>', ast.GtE: '>=', ast.Eq: '==', ast.NotEq: '!='}


def seg(src_lines, node):
    """(start offset, end offset) of node in the joined source"""
    def off(l, c):
        # col offsets are in utf8 bytes; the files are ascii in the functions we touch
        return sum(len(x) for x in src_lines[:l - 1]) + c
    return off(node.lineno, node.col_offset), off(node.end_lineno, node.end_col_offset)


def mutants_of(src, fn, nested_contracted=None):
    """list of (description, new source) — text splices inside fn, line structure preserved"""
    lines = src.splitlines(keepends=True)
    out = []

    def splice(node, text, what):
        a, b = seg(lines, node)
        old = src[a:b]
        if '\n' in old and '\n' not in text:
            text = text + '\n' * 0
        out.append(('L{} {}: `{}` -> `{}`'.format(node.lineno, what, old.strip()[:50], text.strip()[:50]), src[:a] + text + src[b:]))

    skip = set()
    for sub in ast.walk(fn):
        if isinstance(sub, ast.FunctionDef) and sub is not fn and sub.name in (nested_contracted or ()):
            skip |= {id(x) for x in ast.walk(sub)}       # nested functions under their own contract are mutated separately
    for n in ast.walk(fn):
        if id(n) in skip:
            continue
        if isinstance(n, ast.Compare) and len(n.ops) == 1 and type(n.ops[0]) in CMP:
            l = ast.get_source_segment(src, n.left)
            r = ast.get_source_segment(src, n.comparators[0])
            if l and r:
                splice(n, '{} {} {}'.format(l, CMP[type(n.ops[0])], r), 'cmp')
        elif isinstance(n, ast.Constant) and isinstance(n.value, int) and not isinstance(n.value, bool) and abs(n.value) <= 3:
            splice(n, str(n.value + 1), 'const+1')
            if n.value >= 1:
                splice(n, str(n.value - 1), 'const-1')
        elif isinstance(n, ast.BinOp) and isinstance(n.op, (ast.Add, ast.Sub)):
            l = ast.get_source_segment(src, n.left)
            r = ast.get_source_segment(src, n.right)
            if l and r and not (isinstance(n.left, ast.Constant) and isinstance(n.left.value, str)):
                splice(n, '{} {} {}'.format(l, '-' if isinstance(n.op, ast.Add) else '+', r), 'arith')
        elif isinstance(n, ast.UnaryOp) and isinstance(n.op, ast.USub) and not isinstance(n.operand, ast.Constant):
            splice(n, ast.get_source_segment(src, n.operand), 'drop-neg')
        elif isinstance(n, ast.BoolOp) and len(n.values) == 2:
            l = ast.get_source_segment(src, n.values[0])
            r = ast.get_source_segment(src, n.values[1])
            splice(n, '{} {} {}'.format(l, 'or' if isinstance(n.op, ast.And) else 'and', r), 'boolop')
        elif isinstance(n, ast.AugAssign) and isinstance(n.op, (ast.Add, ast.Sub)):
            t = ast.get_source_segment(src, n.target)
            v = ast.get_source_segment(src, n.value)
            splice(n, '{} {}= {}'.format(t, '-' if isinstance(n.op, ast.Add) else '+', v), 'augop')
        elif isinstance(n, ast.Expr) and isinstance(n.value, ast.Call) and n.lineno == n.end_lineno:
            splice(n, 'pass', 'drop-call')
        elif isinstance(n, ast.Call) and len(n.args) == 2 and not n.keywords and not any(isinstance(a, ast.Starred) for a in n.args):
            a0 = ast.get_source_segment(src, n.args[0])
            a1 = ast.get_source_segment(src, n.args[1])
            f = ast.get_source_segment(src, n.func)
            if a0 != a1 and n.lineno == n.end_lineno and not f.endswith('.format') and f != 'non_negative_int':
                splice(n, '{}({}, {})'.format(f, a1, a0), 'swap-args')
        elif isinstance(n, ast.If) and not n.orelse and len(n.body) == 1 and isinstance(n.body[0], ast.Raise) and n.lineno == n.body[0].end_lineno - 0:
            pass
        elif isinstance(n, ast.Raise) and n.lineno == n.end_lineno:
            splice(n, 'pass', 'drop-raise')
        elif isinstance(n, (ast.Continue, ast.Break)):
            splice(n, 'pass', 'drop-' + type(n).__name__.lower())
    # keep only those that still parse and differ
    good = []
    seen = set()
    for d, s in out:
        if s == src or s in seen:
            continue
        try:
            ast.parse(s)
        except SyntaxError:
            continue
        seen.add(s)
        good.append((d, s))
    return good


def load():
    from pyvc import run as pyrun
    contracts, models = pyrun.load_contracts(pyrun.all_modules())
    return contracts, models


def targets(contracts):
    return [(rel, qual) for (rel, qual), c in contracts.items()
            if not (c.get('inline_always') or c.get('trusted') or c.get('assumed'))]


def worker(rel, qual, index):
    from pyvc import engine, solve, run as pyrun
    from vlib import core
    from checks import proofs
    contracts, models = load()
    repo = engine.Repo(core.REPO)
    srel, squal = contracts[(rel, qual)].get('source', (rel, qual))
    fn = repo.find(srel, squal)
    src = repo.module(srel)['src']
    nested = {q.split('.', 1)[1] for (r, q) in contracts if r == srel and q.startswith(squal + '.')}
    muts = mutants_of(src, fn, nested)
    if index < 0:
        print(json.dumps({'n': len(muts), 'desc': [d for d, _ in muts]}))
        return
    desc, msrc = muts[index]
    repo2 = engine.Repo(core.REPO)
    # override: parse the mutated text for this file only
    import builtins
    path = os.path.join(core.REPO, srel)
    orig = builtins.open

    def fake_open(p, *a, **k):
        if isinstance(p, str) and os.path.abspath(p) == os.path.abspath(path) and (not a or a[0] in ('r',)):
            import io
            return io.StringIO(msrc)
        return orig(p, *a, **k)
    engine.open = fake_open
    try:
        repo2.module(srel)
    finally:
        del engine.open
    c = contracts[(rel, qual)]
    eng = engine.Engine(repo2, contracts, models)
    t0 = time.time()
    res = {'rel': rel, 'qual': qual, 'index': index, 'desc': desc}
    try:
        obs = []
        no_exit = False
        for label, cv in pyrun.variants_of(c):
            obs += eng.verify(rel, qual, contract=cv, label=label)
            no_exit = no_exit or (eng.exits['normal'] == 0 and not cv.get('never_returns'))
    except engine.Unsupported as e:
        res.update(verdict='degraded', why='unsupported: ' + str(e)[:150], t=time.time() - t0)
        print(json.dumps(res))
        return
    except Exception as e:            # engine crash on a mutant: report, it is a robustness bug of the engine
        res.update(verdict='crash', why='{}: {}'.format(type(e).__name__, str(e)[:200]), t=time.time() - t0)
        print(json.dumps(res))
        return
    if no_exit:
        res.update(verdict='killed-P', why='vacuity: no feasible normal exit', t=time.time() - t0)
        print(json.dumps(res))
        return
    # sequential, decisive obligations first, stop at the first decisive failure (a mutant is killed by one)
    order = sorted(range(len(obs)), key=lambda i: (obs[i].kind not in proofs.DECISIVE, i))
    bad, dec = [], None
    budget = float(os.environ.get('MUT_BUDGET_S', '900'))
    for i in order:
        ob = obs[i]
        if time.time() - t0 > budget:
            break
        if ob.kind not in proofs.DECISIVE and len(bad) >= 2:
            break                     # already degraded; no decisive obligation failed
        solve.discharge([ob], procs=1)
        if ob.verdict != 'proved':
            bad.append(ob)
            if ob.kind in proofs.DECISIVE:
                dec = ob
                break
    if dec is not None:
        ob = dec
        # the verdict rule of checks/proofs.py: a decisive failure is a VIOLATION only if it is a refutation, the clause is still
        # expressible, and no auxiliary obligation of the function fails (intact scaffolding); otherwise the function degrades
        aux = [o for o in obs if o.kind not in proofs.DECISIVE and o.verdict is None]
        if ob.verdict == 'refuted' and 'not expressible' not in ob.name:
            for o in aux:
                if time.time() - t0 > budget:
                    break
                solve.discharge([o], procs=1)
                if o.verdict != 'proved':
                    bad.append(o)
                    break
        naux = [o for o in obs if o.kind not in proofs.DECISIVE and o.verdict not in (None, 'proved')]
        if ob.verdict != 'refuted' or 'not expressible' in ob.name or naux:
            res.update(verdict='degraded', why='decisive {} L{} {} fails but the scaffolding is not intact ({} aux failing){}'.format(
                ob.kind, ob.line, ob.verdict, len(naux), ' [not expressible]' if 'not expressible' in ob.name else ''), nbad=len(bad))
        else:
            res.update(verdict='killed-P', why='{} L{} {} {}'.format(ob.kind, ob.line, ob.verdict, ob.name[:100]), nbad=len(bad))
    elif bad:
        ob = bad[0]
        res.update(verdict='degraded', why='{} L{} {} {}'.format(ob.kind, ob.line, ob.verdict, ob.name[:100]), nbad=len(bad))
    elif time.time() - t0 > budget:
        res.update(verdict='timeout', why='budget exhausted with no failure among those tried')
    else:
        res.update(verdict='survived', why='{} obligations all proved'.format(len(obs)))
    res['t'] = time.time() - t0
    print(json.dumps(res))


def main():
    if '--one' in sys.argv:
        i = sys.argv.index('--one')
        worker(sys.argv[i + 1], sys.argv[i + 2], int(sys.argv[i + 3]))
        return
    only = sys.argv[sys.argv.index('--only') + 1] if '--only' in sys.argv else None
    jobs = int(sys.argv[sys.argv.index('--jobs') + 1]) if '--jobs' in sys.argv else 12
    out = sys.argv[sys.argv.index('--out') + 1] if '--out' in sys.argv else os.path.join(VERIF, 'tools', 'mutation_report.jsonl')
    contracts, _ = load()
    tg = [t for t in targets(contracts) if not only or only in t[1] or only in t[0]]
    env = dict(os.environ, PYTHONPATH=VERIF, PYVC_Z3_TIMEOUT_MS=os.environ.get('PYVC_Z3_TIMEOUT_MS', '20000'),
               PYVC_CLI_TIMEOUT_S=os.environ.get('PYVC_CLI_TIMEOUT_S', '30'), PYTHONWARNINGS='ignore')
    py = os.path.join(VERIF, '.venv312', 'bin', 'python')

    def call(args, timeout=1500):
        try:
            r = subprocess.run([py, '-B', os.path.abspath(__file__), '--one'] + [str(a) for a in args], env=env, cwd=VERIF,
                               capture_output=True, text=True, timeout=timeout)
        except subprocess.TimeoutExpired:
            return {'rel': args[0], 'qual': args[1], 'index': args[2], 'verdict': 'timeout', 'why': 'worker timeout'}
        for line in reversed(r.stdout.strip().splitlines()):
            try:
                return json.loads(line)
            except ValueError:
                continue
        return {'rel': args[0], 'qual': args[1], 'index': args[2], 'verdict': 'crash', 'why': (r.stderr or r.stdout)[-300:]}

    work = []
    for rel, qual in tg:
        info = call((rel, qual, -1))
        for i, d in enumerate(info.get('desc', [])):
            work.append((rel, qual, i))
        print('{}:{} mutants={}'.format(rel, qual, info.get('n')), flush=True)
    print('total mutants', len(work), flush=True)
    tally = {}
    with ThreadPoolExecutor(jobs) as ex, open(out, 'w') as fo:
        for r in ex.map(call, work):
            tally[r['verdict']] = tally.get(r['verdict'], 0) + 1
            fo.write(json.dumps(r) + '\n')
            fo.flush()
            if r['verdict'] in ('survived', 'crash', 'timeout'):
                print('{verdict:9s} {qual} #{index} {desc}  [{why}]'.format(**dict({'desc': ''}, **r)), flush=True)
    print('TALLY', tally)


if __name__ == '__main__':
    main()
