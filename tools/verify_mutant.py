#!/usr/bin/env python3
"""Confirm a seeded change independently and file it under /verif/seeded/<id>/.

usage: tools/verify_mutant.py <dir with patch.diff demo.py meta.json> <seeded id> <check ids...>

In a scratch git worktree of /repo HEAD (removed afterwards):
  1. demo.py on the pristine tree          -> must exit 0
  2. git apply patch.diff ; demo.py        -> must exit != 0
  3. the pinned test suite on the patched tree -> every BASELINE stable_pass test must still pass
  4. each named check with VERIF_REPO=<scratch> -> record whether it reports a VIOLATION and which keys
"""
import json
import os
import shutil
import subprocess
import sys
import tempfile
import xml.etree.ElementTree as ET

VERIF = os.path.dirname(os.path.dirname(os.path.abspath(__file__)))


def sh(cmd, cwd=None, env=None, timeout=3600):
    r = subprocess.run(cmd, shell=True, cwd=cwd, env=env, capture_output=True, text=True, timeout=timeout)
    return r.returncode, r.stdout + r.stderr


def main():
    src, sid, checks = sys.argv[1], sys.argv[2], sys.argv[3:]
    scratch = tempfile.mkdtemp(prefix='vm_', dir='/tmp')
    os.rmdir(scratch)
    rc, out = sh('git -C /repo worktree add -q --detach {} HEAD'.format(scratch))
    assert rc == 0, out
    res = {'repo_head': sh('git -C /repo rev-parse --short HEAD')[1].strip()}
    try:
        demo = os.path.join(src, 'demo.py')
        patch = os.path.join(src, 'patch.diff')
        shutil.copy(demo, os.path.join(scratch, '_demo.py'))
        env = dict(os.environ, PYTHONDONTWRITEBYTECODE='1', PYTHONWARNINGS='ignore')
        rc0, o0 = sh('/venv/bin/python _demo.py', cwd=scratch, env=env)
        res['demo_pristine_exit'] = rc0
        rca, oa = sh('git apply {}'.format(patch), cwd=scratch)
        res['patch_applies'] = rca == 0
        if rca != 0:
            res['apply_error'] = oa[-500:]
        else:
            rc1, o1 = sh('/venv/bin/python _demo.py', cwd=scratch, env=env)
            res['demo_mutant_exit'] = rc1
            res['demo_mutant_tail'] = o1[-400:]
            os.remove(os.path.join(scratch, '_demo.py'))
            x = os.path.join(scratch, '_j.xml')
            sh('/venv/bin/python -m pytest -ra -q -p no:cacheprovider --timeout=900 --continue-on-collection-errors --junitxml={}'.format(x), cwd=scratch, env=env)
            passed = set()
            for tc in ET.parse(x).getroot().iter('testcase'):
                if not any(ch.tag in ('failure', 'error', 'skipped') for ch in tc):
                    passed.add('{}::{}'.format(tc.get('classname'), tc.get('name')))
            os.remove(x)
            want = set(json.load(open('/root/.vp/BASELINE.json'))['stable_pass'])
            res['suite_missing'] = sorted(want - passed)
            res['suite_ok'] = not res['suite_missing']
            res['checks'] = {}
            for cid in checks:
                ev = tempfile.mkdtemp(prefix='ev_', dir='/tmp')
                e2 = dict(env, VERIF_REPO=scratch, VERIF_EVIDENCE_DIR=ev)
                rcc, oc = sh('bin/check {}'.format(cid), cwd=VERIF, env=e2, timeout=7200)
                keys = [l.strip()[4:].split(' :: ')[0] for l in oc.splitlines() if l.strip().startswith('key=')]
                res['checks'][cid] = {'exit': rcc, 'violation_keys': keys[:12],
                                      'degraded': [l for l in oc.splitlines() if l.startswith('PROOF-DEGRADED')][:5]}
                shutil.rmtree(ev, ignore_errors=True)
    finally:
        sh('git -C /repo worktree remove --force {}'.format(scratch))
        shutil.rmtree(scratch, ignore_errors=True)
    ok = res.get('demo_pristine_exit') == 0 and res.get('patch_applies') and res.get('demo_mutant_exit', 0) != 0 and res.get('suite_ok')
    res['confirmed'] = bool(ok)
    print(json.dumps(res, indent=1))
    if ok:
        dst = os.path.join(VERIF, 'seeded', sid)
        os.makedirs(dst, exist_ok=True)
        shutil.copy(patch, os.path.join(dst, 'patch.diff'))
        shutil.copy(demo, os.path.join(dst, 'demo.py'))
        meta = json.load(open(os.path.join(src, 'meta.json')))
        meta['verified'] = {k: v for k, v in res.items() if k != 'demo_mutant_tail'}
        meta['detected_by'] = {c: (v['exit'] == 1) for c, v in res.get('checks', {}).items()}
        json.dump(meta, open(os.path.join(dst, 'meta.json'), 'w'), indent=1)
    return 0 if ok else 1


if __name__ == '__main__':
    sys.exit(main())
