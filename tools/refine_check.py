#!/usr/bin/env python3
"""Refinement check: the ASSUMED builder-interface contracts of the family proofs follow from the PROVED contracts of the real builders.

The family proofs (contracts/families_*.py) see a formula of either class through an abstract store: `sat(a, self.store)`, `self._numvar`.
Each builder they call is known to them only through an assumed contract ("interface meaning of add_clause (C04)").  The real builders
are proved in contracts/formula_cnf.py (class CNF: the clause list `_clauses`, semantics `sat`) and contracts/formula_opb.py (class
OPBFormula: the constraint list `_constraints`, semantics `osat`).  That the assumed contract is a consequence of the proved one was,
until this tool, "correspondence by reading".  Here it is an obligation per (assumed contract, formula class):

    def w(F, <params>):  return F.<builder>(<params>)           # a synthetic delegating wrapper, never part of /repo

is verified by pyvc against the ASSUMED contract - its clauses re-read with  self.store -> F._clauses / F._constraints,
sat(a, self.store) -> sat / osat,  self._numvar -> F._numvar  - using the PROVED contract of the real builder at the call: the engine
checks the proved precondition at the call site and may use only the proved postcondition.  The object invariant WF of the formula
classes (established by the constructors and re-established by every builder: proved in formula_cnf.py / formula_opb.py) is a
precondition of the wrapper.  Clauses of the abstract store that have no counterpart in one class (`clen(self.store)` for OPB) are
reported as not mapped, never silently dropped.

  PYTHONPATH=/verif .venv312/bin/python tools/refine_check.py [-v]      -> tools/refinement_report.json; exit 1 iff a pair FAILS to refine
"""
import json
import os
import re
import sys
import io

VERIF = os.path.dirname(os.path.dirname(os.path.abspath(__file__)))
sys.path.insert(0, VERIF)

BUILDERS = ['add_clause', 'add_clauses_from', 'cardinality_eq', 'cardinality_leq', 'cardinality_geq', 'cardinality_neq', 'add_parity',
            'add_loose_majority', 'add_loose_minority', 'add_strict_majority', 'add_strict_minority', 'add_linear']
PROVED = {
    'cnf': {'model': 'CNFLinear', 'store': '_clauses', 'sat': 'sat', 'len': 'clen', 'nil': 'cnil',
            'keys': lambda m: [('cnfgen/formula/linear.py', 'CNFLinear.' + m), ('cnfgen/formula/basecnf.py', 'BaseCNF.' + m)]},
    'opb': {'model': 'BaseOPB', 'store': '_constraints', 'sat': 'osat', 'len': None, 'nil': None,
            'keys': lambda m: [('cnfgen/formula/baseopb.py', 'BaseOPB.' + m)]},
}
VIRT = '_verif_refinement_wrappers.py'


def mapped(text, cls):
    """an assumed clause re-read over the real representation; None if it has no counterpart"""
    p = PROVED[cls]
    t = text
    fmap = {'sat': 'sat', 'clen': 'clen', 'cmaxabs': 'cmaxabs', 'chaszero': 'chaszero'} if cls == 'cnf' else \
           {'sat': 'osat', 'clen': 'olen', 'cmaxabs': 'omaxabs', 'chaszero': 'ohaszero'}
    for f, g in fmap.items():
        t = re.sub(r'\b' + f + r'\((a, )?old\(self\.store\)\)', lambda m: '{}({}old(F.{}))'.format(g, m.group(1) or '', p['store']), t)
        t = re.sub(r'\b' + f + r'\((a, )?self\.store\)', lambda m: '{}({}F.{})'.format(g, m.group(1) or '', p['store']), t)
    if 'self.store' in t:
        return None
    t = re.sub(r'\bself\._numvar\b', 'F._numvar', t)
    if re.search(r'\bself\.', t):
        return None
    return t


def main():
    verbose = '-v' in sys.argv
    selftest = '--selftest' in sys.argv       # falsify the semantic clause of every assumed contract: every pair must then FAIL to refine
    from pyvc import engine, solve, run as pyrun
    from vlib import core
    contracts, models = pyrun.load_contracts(pyrun.all_modules())
    import contracts.formula_cnf as fc
    import contracts.formula_opb as fo
    WF = {'cnf': [w.replace('self.', 'F.') for w in fc.WF], 'opb': [w.replace('self.', 'F.') for w in fo.WF]}
    assumed = sorted((k, c) for k, c in contracts.items() if c.get('assumed') and k[0] == 'cnfgen/formula/cnf.py'
                     and k[1].split('.', 1)[1] in BUILDERS)
    report = []
    bad = 0
    for (rel, qual), c in assumed:
        meth = qual.split('.', 1)[1]
        c_orig = c
        for cls in ('cnf', 'opb'):
            c = c_orig
            p = PROVED[cls]
            pkey = next((k for k in p['keys'](meth) if k in contracts and not contracts[k].get('assumed')), None)
            row = {'assumed': qual, 'class': cls, 'proved': pkey[1] if pkey else None}
            if pkey is None:
                row.update(verdict='no-proved-contract')
                report.append(row)
                continue
            params = list(c['params'])
            src = 'def w(F, {}):\n    return F.{}({})\n'.format(', '.join(params), meth, ', '.join('{0}={0}'.format(x) for x in params))
            unm = []

            def mp(lst):
                out = []
                for t in lst:
                    m = mapped(t, cls)
                    if m is None:
                        unm.append(t)
                    else:
                        out.append(m)
                return out
            c0 = c
            if selftest:
                c = dict(c0, ensures=[re.sub(r'^(sat\(a, self\.store\) == \()(.*)\)$', r'\1not (\2))', t) for t in c.get('ensures', [])])
            wc = {'params': dict({'F': 'obj:' + p['model']}, **c['params']), 'ghost_params': dict(c.get('ghost_params', {})),
                  'requires': WF[cls] + mp(c.get('requires', [])),
                  'raises': {k: (mapped(v, cls) if isinstance(v, str) else v) for k, v in c.get('raises', {}).items()},
                  'ensures': mp(c.get('ensures', [])) + WF[cls],
                  'modifies': ['F.' + p['store'], 'F._numvar']}
            if 'returns' in c:
                wc['returns'] = c['returns']
            row['not_mapped'] = unm
            key = (VIRT, 'w')
            cs = dict(contracts)
            cs[key] = wc
            repo = engine.Repo(core.REPO)
            path = os.path.join(core.REPO, VIRT)
            import builtins
            orig = builtins.open

            def fake_open(pth, *a, **k):
                if isinstance(pth, str) and os.path.abspath(pth) == os.path.abspath(path):
                    return io.StringIO(src)
                return orig(pth, *a, **k)
            engine.open = fake_open
            try:
                repo.module(VIRT)
            finally:
                del engine.open
            eng = engine.Engine(repo, cs, models)
            try:
                obs = eng.verify(VIRT, 'w', contract=wc)
            except (engine.Unsupported, engine.SpecError) as e:
                row.update(verdict='not-checked', why=str(e)[:200])
                report.append(row)
                bad += 1
                continue
            solve.discharge(obs, procs=4)
            failing = [o for o in obs if o.verdict != 'proved']
            row['obligations'] = len(obs)
            if failing:
                row.update(verdict='GAP', failing=['{} {}: {}'.format(o.kind, o.verdict, o.name[:160]) for o in failing[:6]])
                bad += 1
            else:
                row.update(verdict='refines' if not unm else 'refines-partially')
            report.append(row)
            if verbose or row['verdict'] not in ('refines',):
                print(row['verdict'], qual, cls, row.get('failing', row.get('why', row.get('not_mapped', ''))))
    if selftest:
        ok = all(r['verdict'] in ('GAP', 'no-proved-contract') for r in report)
        print('REFINEMENT-SELFTEST', 'ok: every falsified contract fails to refine' if ok else 'BROKEN: a falsified contract still refines',
              [r['assumed'] + '/' + r['class'] for r in report if r['verdict'] not in ('GAP', 'no-proved-contract')])
        return 0 if ok else 1
    tally = {}
    for r in report:
        tally[r['verdict']] = tally.get(r['verdict'], 0) + 1
    json.dump({'pairs': report, 'tally': tally}, open(os.path.join(VERIF, 'tools', 'refinement_report.json'), 'w'), indent=1)
    print('REFINEMENT', tally)
    return 1 if bad else 0


if __name__ == '__main__':
    sys.exit(main())
