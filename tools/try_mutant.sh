#!/bin/bash
# usage: tools/try_mutant.sh <patch.diff> <check id> [more ids...]   (runs checks against a scratch copy of /repo with the patch applied)
set -u
PATCH="$(realpath "$1")"; shift
S="$(mktemp -d /tmp/try_mut_XXXXXX)"
cp -r /repo/cnfgen /repo/tests /repo/docs /repo/setup.py /repo/conftest.py /repo/pytest.ini "$S/" 2>/dev/null
( cd "$S" && git init -q . && git add -A >/dev/null 2>&1 && git -c user.email=a@b -c user.name=x commit -qm base >/dev/null 2>&1 && git apply "$PATCH" ) || { echo "PATCH DOES NOT APPLY"; rm -rf "$S"; exit 2; }
for id in "$@"; do
  echo "--- $id on mutant $(basename $(dirname $PATCH))"
  ( cd /verif && VERIF_REPO="$S" VERIF_EVIDENCE_DIR="$S/evidence" bin/check "$id" 2>&1 | grep -E "^VIOLATION|^KNOWN|PROOF-DEGRADED|CHECKER|key=" | cut -c1-260 | head -12 ; echo "exit=${PIPESTATUS[0]}" )
done
rm -rf "$S"
