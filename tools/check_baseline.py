#!/usr/bin/env python3
"""run the repo's pinned test suite and compare with /root/.vp/BASELINE.json stable_pass"""
import json, subprocess, sys, tempfile, os, xml.etree.ElementTree as ET
repo = sys.argv[1] if len(sys.argv) > 1 else '/repo'
base = json.load(open('/root/.vp/BASELINE.json'))
with tempfile.TemporaryDirectory() as d:
    x = os.path.join(d, 'j.xml')
    cmd = 'cd {} && /venv/bin/python -m pytest -ra -q -p no:cacheprovider --timeout=900 --continue-on-collection-errors --junitxml={}'.format(repo, x)
    subprocess.run(cmd, shell=True, stdout=subprocess.DEVNULL, stderr=subprocess.DEVNULL)
    passed = set()
    for tc in ET.parse(x).getroot().iter('testcase'):
        ok = not any(ch.tag in ('failure', 'error', 'skipped') for ch in tc)
        name = '{}::{}'.format(tc.get('classname'), tc.get('name'))
        if ok:
            passed.add(name)
want = set(base['stable_pass'])
missing = sorted(want - passed)
print('stable_pass {} ; passed now {} ; missing {}'.format(len(want), len(passed), len(missing)))
for m in missing[:40]:
    print('  MISSING', m)
sys.exit(1 if missing else 0)
