#!/usr/bin/env python
"""standalone effects mode:  tools/run_effects.py <C07|C18|C19|C20|all> [-v] [--summary rel:qual]

Prints one line per obligation (function, contract clause, verdict) and, for failures, the witness chain.
Honours $VERIF_REPO (default /repo).  Exit 0 = all discharged, 1 = some obligation failed.
"""
import os
import sys
import time

sys.path.insert(0, os.path.dirname(os.path.dirname(os.path.abspath(__file__))))
from vlib import core          # noqa: E402
from pyvc import effects       # noqa: E402


def main(argv):
    verbose = '-v' in argv
    args = [a for a in argv if not a.startswith('-')]
    if '--summary' in argv:
        A = effects.get_analyzer(core.REPO)
        fid = argv[argv.index('--summary') + 1]
        for k, s in A.summ.items():
            if fid in k:
                print('==', k)
                for attr in ('mut', 'capture', 'ret', 'ret_edges', 'ret_types', 'raises', 'uses_rng', 'seeds_rng', 'unseeded',
                             'guards', 'nondet', 'tmp_leaks', 'unbound', 'calls_parse_args', 'registers', 'validators'):
                    v = getattr(s, attr)
                    if v:
                        print('  ', attr, ':')
                        if isinstance(v, dict):
                            for kk, vv in v.items():
                                print('       ', kk)
                                if verbose:
                                    for line in (vv if isinstance(vv, (tuple, list)) else [vv]):
                                        print('            ', line)
                        else:
                            print('       ', v)
        return 0
    props = ['C07', 'C18', 'C19', 'C20'] if (not args or args[0] == 'all') else [args[0]]
    rc = 0
    t0 = time.time()
    for prop in props:
        A, obs = effects.run_property(core.REPO, prop)
        nd = sum(1 for o in obs if o.verdict == 'discharged')
        print('=' * 110)
        print('{}: {} functions under contract, {} obligations, {} discharged, {} failed   (repo {})'.format(
            prop, len({o.function for o in obs}), len(obs), nd, len(obs) - nd, core.REPO))
        print('=' * 110)
        for o in obs:
            if o.verdict != 'discharged' or verbose:
                print('{:10s} {:28s} {:62s} {}'.format(o.verdict.upper(), o.contract['id'], o.function[-62:], o.clause[:90]))
            if verbose:
                for a in o.assumed:
                    print('             assumed:', a[:200])
            for key, what, wit in o.failures:
                rc = 1
                print('     key  ', key)
                print('     what ', what)
                for w in wit:
                    print('       |  ', w)
    print('wall {:.1f}s'.format(time.time() - t0))
    return rc


if __name__ == '__main__':
    sys.exit(main(sys.argv[1:]))
