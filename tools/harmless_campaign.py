#!/usr/bin/env python3
"""Guard against FALSE ALARMS of the proof tier: harmless edits of every function under a pyvc contract.

For each function verified by pyvc every local variable (assigned inside the function; not a parameter, not an attribute, not a name
used by a nested function) is renamed consistently - a change that cannot alter behaviour.  The VCs are regenerated from the edited
source (in memory, like tools/mutate_proved.py) and the verdict rule of checks/proofs.py is applied:

  ALARM      a decisive obligation is refuted while every auxiliary obligation still holds and every clause can still be expressed
             -> checks/proofs.py would print VIOLATION on code whose behaviour did not change: a false alarm, must never happen
  degraded   the proof no longer goes through (invariants name the old locals, ...): PROOF-DEGRADED, the bounded tier decides - fine
  proved     every obligation still discharges (the contract does not depend on the names)

Other edit kinds (environment HARMLESS_EDIT): `shift` - two comment lines inserted at the top of the body (every line number of the
function moves: loop contracts are keyed by ordinal + recorded header, obligation keys carry no line numbers); `range0` - every
range(e) becomes range(0, e).  Same classification.

Usage:  [HARMLESS_EDIT=rename|shift|range0] PYTHONPATH=/verif .venv312/bin/python tools/harmless_campaign.py [--only SUBSTR] [--jobs 12] [--out FILE]
Exit 1 iff some ALARM was found.
"""
import ast
import json
import os
import subprocess
import sys
import time
from concurrent.futures import ThreadPoolExecutor

VERIF = os.path.dirname(os.path.dirname(os.path.abspath(__file__)))
sys.path.insert(0, VERIF)
sys.path.insert(0, os.path.join(VERIF, 'tools'))


def renamed_source(src, fn):
    """source text with the locals of fn renamed (x -> x_rn); None if the function has no local to rename"""
    params = {a.arg for a in fn.args.args + fn.args.kwonlyargs + ([fn.args.vararg] if fn.args.vararg else []) + ([fn.args.kwarg] if fn.args.kwarg else [])}
    nested_names = set()
    for sub in ast.walk(fn):
        if isinstance(sub, (ast.FunctionDef, ast.Lambda)) and sub is not fn:
            nested_names |= {n.id for n in ast.walk(sub) if isinstance(n, ast.Name)}
    declared = set()
    for n in ast.walk(fn):
        if isinstance(n, (ast.Global, ast.Nonlocal)):
            declared |= set(n.names)
    stores = {n.id for n in ast.walk(fn) if isinstance(n, ast.Name) and isinstance(n.ctx, ast.Store)}
    locals_ = sorted(stores - params - nested_names - declared)
    if not locals_:
        return None, []
    lines = src.splitlines(keepends=True)

    def off(l, c):
        return sum(len(x.encode()) for x in lines[:l - 1]) + c
    data = src.encode()
    edits = []
    for n in ast.walk(fn):
        if isinstance(n, ast.Name) and n.id in locals_:
            a = off(n.lineno, n.col_offset)
            edits.append((a, a + len(n.id.encode()), (n.id + '_rn').encode()))
    for a, b, t in sorted(edits, reverse=True):
        data = data[:a] + t + data[b:]
    return data.decode(), locals_


def shifted_source(src, fn):
    """two comment lines inserted right after the def line (every statement of the function moves down)"""
    lines = src.splitlines(keepends=True)
    first = fn.body[0]
    at = first.lineno - 1
    indent = ' ' * first.col_offset
    lines[at:at] = [indent + '# harmless edit: a comment\n', indent + '# and another one\n']
    return ''.join(lines), ['<two comment lines>']


def range0_source(src, fn):
    """range(e) -> range(0, e) everywhere in the function"""
    lines = src.splitlines(keepends=True)

    def off(l, c):
        return sum(len(x.encode()) for x in lines[:l - 1]) + c
    data = src.encode()
    edits = []
    for n in ast.walk(fn):
        if isinstance(n, ast.Call) and isinstance(n.func, ast.Name) and n.func.id == 'range' and len(n.args) == 1 and not n.keywords:
            a = off(n.args[0].lineno, n.args[0].col_offset)
            edits.append((a, a, b'0, '))
    if not edits:
        return None, []
    for a, b, t in sorted(edits, reverse=True):
        data = data[:a] + t + data[b:]
    return data.decode(), ['range(e) -> range(0, e) x{}'.format(len(edits))]


EDITS = {'rename': None, 'shift': shifted_source, 'range0': range0_source}


def worker(rel, qual):
    from pyvc import engine, solve, run as pyrun
    from vlib import core
    from checks import proofs
    contracts, models = pyrun.load_contracts(pyrun.all_modules())
    c = contracts[(rel, qual)]
    srel, squal = c.get('source', (rel, qual))
    repo = engine.Repo(core.REPO)
    fn = repo.find(srel, squal)
    src = repo.module(srel)['src']
    kind = os.environ.get('HARMLESS_EDIT', 'rename')
    msrc, names = (EDITS[kind] or renamed_source)(src, fn)
    res = {'rel': rel, 'qual': qual, 'edit': kind, 'renamed': names}
    if msrc is None:
        res.update(verdict='nolocals')
        print(json.dumps(res))
        return
    try:
        ast.parse(msrc)
    except SyntaxError as e:
        res.update(verdict='tool-error', why=str(e))
        print(json.dumps(res))
        return
    repo2 = engine.Repo(core.REPO)
    path = os.path.join(core.REPO, srel)
    import builtins
    orig = builtins.open

    def fake_open(p, *a, **k):
        if isinstance(p, str) and os.path.abspath(p) == os.path.abspath(path) and (not a or a[0] in ('r',)):
            import io
            return io.StringIO(msrc)
        return orig(p, *a, **k)
    engine.open = fake_open
    try:
        repo2.module(srel)
    finally:
        del engine.open
    eng = engine.Engine(repo2, contracts, models)
    t0 = time.time()
    try:
        obs = []
        for label, cv in pyrun.variants_of(c):
            obs += eng.verify(rel, qual, contract=cv, label=label)
    except engine.Unsupported as e:
        res.update(verdict='degraded', why='unsupported: ' + str(e)[:150])
        print(json.dumps(res))
        return
    except Exception as e:          # noqa
        res.update(verdict='degraded', why='checker error {}: {}'.format(type(e).__name__, str(e)[:150]))
        print(json.dumps(res))
        return
    solve.discharge(obs, procs=2)
    failed_dec = [o for o in obs if o.verdict != 'proved' and o.kind in proofs.DECISIVE]
    failed_aux = [o for o in obs if o.verdict != 'proved' and o.kind not in proofs.DECISIVE]
    stale = [o for o in failed_dec if 'not expressible' in o.name]
    refuted = [o for o in failed_dec if o.verdict == 'refuted']
    if refuted and not failed_aux and not stale:
        o = refuted[0]
        res.update(verdict='ALARM', why='{} L{} {}'.format(o.kind, o.line, o.name[:120]))
    elif failed_dec or failed_aux:
        res.update(verdict='degraded', why='{} decisive / {} auxiliary obligations fail'.format(len(failed_dec), len(failed_aux)))
    else:
        res.update(verdict='proved', why='{} obligations'.format(len(obs)))
    res['t'] = round(time.time() - t0, 1)
    print(json.dumps(res))


def main():
    if '--one' in sys.argv:
        i = sys.argv.index('--one')
        worker(sys.argv[i + 1], sys.argv[i + 2])
        return
    from pyvc import run as pyrun
    only = sys.argv[sys.argv.index('--only') + 1] if '--only' in sys.argv else None
    jobs = int(sys.argv[sys.argv.index('--jobs') + 1]) if '--jobs' in sys.argv else 12
    out = sys.argv[sys.argv.index('--out') + 1] if '--out' in sys.argv else os.path.join(VERIF, 'tools', 'harmless_report.jsonl')
    contracts, _ = pyrun.load_contracts(pyrun.all_modules())
    tg = [(r, q) for (r, q), c in contracts.items() if not (c.get('inline_always') or c.get('assumed') or c.get('trusted')) and (not only or only in q)]
    py = os.path.join(VERIF, '.venv312', 'bin', 'python')

    def run1(t):
        r = subprocess.run([py, '-B', os.path.abspath(__file__), '--one', t[0], t[1]], capture_output=True, text=True,
                           env=dict(os.environ, PYTHONPATH=VERIF), timeout=3000)
        line = [l for l in r.stdout.splitlines() if l.startswith('{')]
        return json.loads(line[-1]) if line else {'rel': t[0], 'qual': t[1], 'verdict': 'tool-error', 'why': (r.stderr or r.stdout)[-300:]}
    tally = {}
    with ThreadPoolExecutor(jobs) as ex, open(out, 'w') as f:
        for res in ex.map(run1, tg):
            f.write(json.dumps(res) + '\n')
            f.flush()
            tally[res['verdict']] = tally.get(res['verdict'], 0) + 1
            if res['verdict'] in ('ALARM', 'tool-error'):
                print(res['verdict'], res['qual'], res.get('why', '')[:200])
    print('HARMLESS-CAMPAIGN', tally)
    sys.exit(1 if tally.get('ALARM') else 0)


if __name__ == '__main__':
    main()
