#!/usr/bin/env python3
"""record, per property and function, how many obligations pyvc generates on the unchanged tree
(baseline_obligations.json; used as a vacuity guard: a large drop is reported in the evidence)"""
import json, os, sys
V = os.path.dirname(os.path.dirname(os.path.abspath(__file__)))
sys.path.insert(0, V)
from vlib import core
from checks import proofs
out = {}
idents = {}
for i in range(1, 21):
    pid = 'C%02d' % i
    ctx = core.Ctx(pid)
    per = proofs.run_group(ctx, pid, lean=False, other_tiers=False)
    out[pid] = {f: len(obs) for f, (c, obs, exits) in per.items()}
    # which decisive obligations exist (and discharge) on the unchanged tree: kind + text, hashed.  A decisive obligation that is
    # not in this set is NEW (e.g. the hazard of an assert somebody added) - it never passed before, so its failure is not reported
    # as a violation (checks/proofs.py)
    idents.setdefault(pid, {})
    for f, (c, obs, exits) in per.items():
        idents[pid][f] = sorted({proofs.ob_key(o) for o in obs if o.kind in proofs.DECISIVE and o.verdict == 'proved'})
    print(pid, sum(out[pid].values()), 'obligations in', len(out[pid]), 'functions', 'violations:', len(ctx.violations))
json.dump(out, open(os.path.join(V, 'baseline_obligations.json'), 'w'), indent=1, sort_keys=True)
json.dump(idents, open(os.path.join(V, 'baseline_decisive.json'), 'w'), indent=0, sort_keys=True)
