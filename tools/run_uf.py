"""debug driver: python tools/run_uf.py [HelperClass ...] [-v]  (VERIF_REPO honoured)"""
import sys
import time

sys.path.insert(0, __file__.rsplit('/', 2)[0])
from vlib import core            # noqa
from pyvc import ufmode as U     # noqa
from contracts import cli_helpers as K   # noqa


def main(argv):
    verbose = '-v' in argv
    only = [a for a in argv if not a.startswith('-')]
    src = U.Src(core.REPO)
    g = U.global_dests(src, 'cnfgen/clitools/cnfgen.py', 'setup_command_line_parsers')
    t0 = time.time()
    nob = nok = 0
    for rel, cls, kind, cli in U.discover(src):
        if only and cls.name not in only:
            continue
        rep = U.check_helper(src, rel, cls, kind, cli, K.UF_CONTRACTS.get(cls.name), g)
        if rep.unsupported:
            print('UNSUPPORTED {:28s} {}'.format(cls.name, rep.unsupported))
            continue
        bad = [o for o in rep.obligations if not o.ok]
        nob += len(rep.obligations)
        nok += len(rep.obligations) - len(bad)
        print('{:11s} {:28s} {:3d} paths {:3d} spec paths {:3d} obligations {} {}'.format(
            'FAIL' if bad else 'ok', cls.name, len(rep.paths), len(rep.spec_paths), len(rep.obligations),
            'STALE ' + rep.stale if rep.stale else '', ''))
        for o in bad:
            print('     [{}:{}] {}'.format(o.kind, o.name, o.detail[:600]))
        if verbose:
            for p in rep.paths:
                print('     code', p.kind, '[', p.cond(), ']', U.show(p.term) if p.term is not None else p.detail)
            for p in rep.spec_paths:
                print('     spec', '[', p.cond(), ']', U.show(p.term))
    print('obligations', nob, 'discharged', nok, 'time %.2f' % (time.time() - t0))


if __name__ == '__main__':
    main(sys.argv[1:])
