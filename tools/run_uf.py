"""debug driver: python tools/run_uf.py [HelperClass ...] [-v]  (VERIF_REPO honoured)"""
import sys
import time

sys.path.insert(0, __file__.rsplit('/', 2)[0])
from vlib import core            # noqa
from pyvc import ufmode as U     # noqa
from contracts import cli_helpers as K   # noqa


def proof_mode():
    """run the tier as checks/C17 will (no evidence / replay files written); exit 1 on violations"""
    from checks import proofs_uf
    ctx = core.Ctx('C17')
    t0 = time.time()
    proofs_uf.run_uf(ctx)
    p = ctx.proof
    print('functions {} obligations {} discharged {} by_backend {} unsupported {} undecided {} time {:.2f}s'.format(
        len(p['functions']), p['obligations'], p['discharged'], p['by_backend'], len(p['unsupported']), len(p['undecided']),
        time.time() - t0))
    for v in ctx.violations:
        print('VIOLATION key={} kind={}\n    {}'.format(v['key'], v['kind'], v['what'][:500]))
    return 1 if ctx.violations else 0


def main(argv):
    if '--proof' in argv:
        sys.exit(proof_mode())
    verbose = '-v' in argv
    only = [a for a in argv if not a.startswith('-')]
    src = U.Src(core.REPO)
    g = U.global_dests(src, 'cnfgen/clitools/cnfgen.py', 'setup_command_line_parsers')
    t0 = time.time()
    nob = nok = 0
    for rel, cls, kind, cli in U.discover(src):
        if only and cls.name not in only:
            continue
        rep = U.check_helper(src, rel, cls, kind, cli, K.UF_CONTRACTS.get(cls.name), g)
        if rep.unsupported:
            print('UNSUPPORTED {:28s} {}'.format(cls.name, rep.unsupported))
            continue
        bad = [o for o in rep.obligations if not o.ok]
        nob += len(rep.obligations)
        nok += len(rep.obligations) - len(bad)
        print('{:11s} {:28s} {:3d} paths {:3d} spec paths {:3d} obligations {} {}'.format(
            'FAIL' if bad else 'ok', cls.name, len(rep.paths), len(rep.spec_paths), len(rep.obligations),
            'STALE ' + rep.stale if rep.stale else '', ''))
        for o in bad:
            print('     [{}:{}] {}'.format(o.kind, o.name, o.detail[:600]))
        if verbose:
            for p in rep.paths:
                print('     code', p.kind, '[', p.cond(), ']', U.show(p.term) if p.term is not None else p.detail)
            for p in rep.spec_paths:
                print('     spec', '[', p.cond(), ']', U.show(p.term))
    print('obligations', nob, 'discharged', nok, 'time %.2f' % (time.time() - t0))


if __name__ == '__main__':
    main(sys.argv[1:])
