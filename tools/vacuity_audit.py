#!/usr/bin/env python3
"""Audit (development tool): for every function under a pyvc contract, list the obligations whose hypotheses are
unsatisfiable - a path that the engine kept although nothing can reach it.  Legitimate when a branch was too hard for the
2 s feasibility call; a bug (contradictory assumed postcondition / invariant) otherwise.  The engine's call-site guard
(VacuousContract) catches the contract case at run time; this audit looks at everything once.
  PYTHONPATH=/verif .venv312/bin/python tools/vacuity_audit.py [substring]"""
import os, sys, multiprocessing as mp
V = os.path.dirname(os.path.dirname(os.path.abspath(__file__)))
sys.path.insert(0, V)
import z3
from pyvc import engine, solve, run as pyrun, specs
from vlib import core


def one(key):
    contracts, models = pyrun.load_contracts(pyrun.all_modules())
    c = contracts[key]
    eng = engine.Engine(engine.Repo(core.REPO), contracts, models)
    out = []
    try:
        obs = []
        for label, cv in pyrun.variants_of(c):
            obs += eng.verify(*key, contract=cv, label=label)
    except Exception as e:
        return key, ['ERROR {}: {}'.format(type(e).__name__, e)], 0
    seen = set()
    n = 0
    for ob in obs:
        if ob.kind not in ('post', 'inv-pres', 'yield', 'raises-iff'):
            continue
        sig = tuple(h.get_id() for h in ob.hyps)
        if sig in seen:
            continue
        seen.add(sig)
        n += 1
        s = z3.Solver()
        s.set('timeout', 8000)
        s.add(ob.hyps)
        s.add(specs.instances(list(ob.hyps)))
        if s.check() == z3.unsat:
            out.append('L{} {} {}'.format(ob.line, ob.kind, ob.name[:90]))
    return key, out, n


if __name__ == '__main__':
    only = sys.argv[1] if len(sys.argv) > 1 else None
    contracts, _ = pyrun.load_contracts(pyrun.all_modules())
    keys = [k for k, c in contracts.items() if not (c.get('inline_always') or c.get('assumed') or c.get('trusted'))
            and (not only or only in k[1])]
    with mp.get_context('fork').Pool(12) as pool:
        for key, out, n in pool.imap_unordered(one, keys):
            print('{}:{}  paths checked={}  vacuous={}'.format(key[0], key[1], n, len(out)), flush=True)
            for o in out:
                print('     ', o, flush=True)
