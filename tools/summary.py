#!/usr/bin/env python3
import json, glob, os
V = os.path.dirname(os.path.dirname(os.path.abspath(__file__)))
print('| id | level | functions under contract | obligations (discharged) | back ends | bounded evaluations (distinct) | wall s |')
print('|---|---|---|---|---|---|---|')
for f in sorted(glob.glob(os.path.join(V, 'evidence', 'C*.json'))):
    e = json.load(open(f)); c = e['coverage']
    be = ', '.join('{} {}'.format(k, v) for k, v in sorted(c.get('discharged_by_backend', {}).items()))
    print('| {} | {} | {} | {} ({}) | {} | {} ({}) | {} |'.format(e['property_id'], e['level'], len(c.get('functions_under_contract', [])),
          c.get('obligations'), c.get('discharged'), be, c.get('evaluations'), c.get('distinct_nontrivial'), e['wall_s']))
