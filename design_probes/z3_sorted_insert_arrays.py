import z3, time
A=z3.ArraySort(z3.IntSort(), z3.IntSort())
a=z3.Const('a',A); n=z3.Int('n'); a2=z3.Const('a2',A); n2=z3.Int('n2')
x=z3.Int('x'); pos=z3.Int('pos')
i,j,k=z3.Ints('i j k')
def sorted_strict(a,n): return z3.ForAll([i,j], z3.Implies(z3.And(0<=i,i<j,j<n), a[i]<a[j]))
def notmem(a,n,x): return z3.ForAll([k], z3.Implies(z3.And(0<=k,k<n), a[k]!=x))
bis=z3.And(0<=pos,pos<=n,
   z3.ForAll([k], z3.Implies(z3.And(0<=k,k<pos), a[k]<=x)),
   z3.ForAll([k], z3.Implies(z3.And(pos<=k,k<n), a[k]>x)))
ins=z3.And(n2==n+1,
   z3.ForAll([k], z3.Implies(z3.And(0<=k,k<pos), a2[k]==a[k])),
   a2[pos]==x,
   z3.ForAll([k], z3.Implies(z3.And(pos<k,k<n2), a2[k]==a[k-1])))
hyp=[n>=0, sorted_strict(a,n), notmem(a,n,x), bis, ins]
y=z3.Int('y')
goals={'sorted': sorted_strict(a2,n2),
 'mem-complete': z3.ForAll([k], z3.Implies(z3.And(0<=k,k<n), z3.Exists([j], z3.And(0<=j,j<n2,a2[j]==a[k])))),
 'mem-sound': z3.ForAll([j], z3.Implies(z3.And(0<=j,j<n2), z3.Or(a2[j]==x, z3.Exists([k], z3.And(0<=k,k<n,a[k]==a2[j]))))),
}
for name,g in goals.items():
    s=z3.Solver(); s.set('timeout',30000); s.add(hyp); s.add(z3.Not(g))
    t=time.time(); print(name, s.check(), round(time.time()-t,2))
s=z3.Solver(); s.add(hyp); s.add(z3.Not(goals['mem-complete']))
open('memc.smt2','w').write("(set-logic ALL)\n"+s.to_smt2())
