import itertools, sys
sys.path.insert(0,'/repo')
import warnings; warnings.filterwarnings('ignore')
from cnfgen.formula.cnf import CNF
from cnfgen.formula.opb import OPB
def lt(a,l): return a[abs(l)] if l>0 else not a[abs(l)]
def sat_cnf(a,F): return all(any(lt(a,l) for l in c) for c in F)
def holds(a,con):
    s=sum(c for c,l in con[:-2] if lt(a,l)); op=con[-2]; v=con[-1]
    return s>=v if op=='>=' else s==v
def sat_opb(a,F): return all(holds(a,c) for c in F)
CMP={'<=':lambda c,k:c<=k,'>=':lambda c,k:c>=k,'<':lambda c,k:c<k,'>':lambda c,k:c>k,'==':lambda c,k:c==k,'!=':lambda c,k:c!=k}
bad=0; n_cases=0
for n in range(0,5):
  for signs in itertools.product([1,-1],repeat=n):
    lits=[s*(i+1) for i,s in enumerate(signs)]
    for k in range(-2,n+3):
      for op in CMP:
        for cls,name in ((CNF,'cnf'),(OPB,'opb')):
          F=cls(); 
          try:
            if name=='cnf': F.add_linear(list(lits),op,k)
            else: {'<=':F.cardinality_leq,'>=':F.cardinality_geq,'==':F.cardinality_eq,'!=':F.cardinality_neq}.get(op, None) and {'<=':F.cardinality_leq,'>=':F.cardinality_geq,'==':F.cardinality_eq,'!=':F.cardinality_neq}[op](list(lits),k)
            if name=='opb' and op in('<','>'): F.add_constraint([(1,l) for l in lits]+[op,k])
          except Exception as e:
            print('EXC',name,lits,op,k,type(e).__name__,e); bad+=1; continue
          for bits in itertools.product([False,True],repeat=n):
            a=[None]+list(bits); cnt=sum(lt(a,l) for l in lits)
            got=sat_cnf(a,F) if name=='cnf' else sat_opb(a,F)
            n_cases+=1
            if got!=CMP[op](cnt,k): print('MISMATCH',name,lits,op,k,bits); bad+=1
      # majority/minority + parity
      for cls,name in ((CNF,'cnf'),(OPB,'opb')):
        for meth,mean in (('add_loose_majority',lambda c:2*c>=n),('add_loose_minority',lambda c:2*c<=n),('add_strict_majority',lambda c:2*c>n),('add_strict_minority',lambda c:2*c<n)):
          if k!=0: continue
          F=cls(); getattr(F,meth)(list(lits))
          for bits in itertools.product([False,True],repeat=n):
            a=[None]+list(bits); cnt=sum(lt(a,l) for l in lits)
            got=sat_cnf(a,F) if name=='cnf' else sat_opb(a,F)
            if got!=mean(cnt): print('MISMATCH',name,meth,lits,bits); bad+=1
        for const in (0,1):
          if k!=0: continue
          F=cls(); F.add_parity(list(lits),const)
          for bits in itertools.product([False,True],repeat=n):
            a=[None]+list(bits); cnt=sum(lt(a,l) for l in lits)
            got=sat_cnf(a,F) if name=='cnf' else sat_opb(a,F)
            if got!=(cnt%2==const): print('MISMATCH parity',name,lits,const,bits); bad+=1
print('cases',n_cases,'bad',bad)
