# Probe: modular VC for CNFLinear.add_linear branches using UFs + lemma instances.
import z3, time
Lits=z3.DeclareSort('Lits'); Cls=z3.DeclareSort('Cls'); Asg=z3.DeclareSort('Asg')
count=z3.Function('count',Asg,Lits,z3.IntSort())      # number of true literals
length=z3.Function('len',Lits,z3.IntSort())
neg=z3.Function('neg',Lits,Lits)
sat=z3.Function('sat',Asg,Cls,z3.BoolSort())           # all clauses true
app=z3.Function('app',Cls,Cls,Cls)
empty=z3.Const('empty',Cls); falsum=z3.Const('falsum',Cls)   # [] and [[]]
blast=z3.Function('blast',Lits,z3.IntSort(),Cls)      # combinations(lits,k) as clauses
a=z3.Const('a',Asg); L=z3.Const('L',Lits); c=z3.Int('c')
A=z3.Const('A',Asg); X=z3.Const('X',Lits); Y=z3.Const('Y',Cls); Z=z3.Const('Z',Cls); k=z3.Int('k')
lemmas=[ # each one = Lean theorem
 z3.ForAll([A,X], z3.And(0<=count(A,X), count(A,X)<=length(X))),
 z3.ForAll([X], length(neg(X))==length(X)),
 z3.ForAll([A,X], count(A,neg(X))==length(X)-count(A,X)),
 z3.ForAll([A,Y,Z], sat(A,app(Y,Z))==z3.And(sat(A,Y),sat(A,Z))),
 z3.ForAll([A], sat(A,empty)), z3.ForAll([A], z3.Not(sat(A,falsum))),
 z3.ForAll([A,X,k], z3.Implies(z3.And(1<=k,k<=length(X)), sat(A,blast(X,k))==(count(A,X)>=length(X)-k+1))),
]
# contract of add_linear(lits,op,c): added clauses D with  sat(a,D) <-> count(a,lits) op c
def spec(op,cnt,c):
    return {'>=':cnt>=c,'<=':cnt<=c,'<':cnt<c,'>':cnt>c,'==':cnt==c}[op]
def check(name, hyps, goal):
    s=z3.Solver(); s.set('timeout',20000); s.add(lemmas); s.add(hyps); s.add(z3.Not(goal))
    t=time.time(); r=s.check(); print(f'{name:28s}', r, round(time.time()-t,3))
D=z3.Const('D',Cls); D1=z3.Const('D1',Cls); D2=z3.Const('D2',Cls); n=length(L)
# branch '<': recursive call ('<=', c-1) returns D with its contract
check("'<' via '<=' c-1", [sat(a,D)==spec('<=',count(a,L),c-1)], sat(a,D)==spec('<',count(a,L),c))
check("'>' via '>=' c+1", [sat(a,D)==spec('>=',count(a,L),c+1)], sat(a,D)==spec('>',count(a,L),c))
check("'<=' via neg '>=' n-c", [sat(a,D)==spec('>=',count(a,neg(L)),length(neg(L))-c)], sat(a,D)==spec('<=',count(a,L),c))
check("'==' via both", [sat(a,D1)==spec('<=',count(a,L),c), sat(a,D2)==spec('>=',count(a,L),c)], sat(a,app(D1,D2))==spec('==',count(a,L),c))
check("'>=' c<=0 nothing", [c<=0], sat(a,empty)==spec('>=',count(a,L),c))
check("'>=' c>n falsum", [c>n], sat(a,falsum)==spec('>=',count(a,L),c))
check("'>=' blast k=n-c+1", [c>0,c<=n], sat(a,blast(L,n-c+1))==spec('>=',count(a,L),c))
# mutants: must be refuted (sat)
check("MUT '<' via '<=' c", [sat(a,D)==spec('<=',count(a,L),c)], sat(a,D)==spec('<',count(a,L),c))
check("MUT blast k=n-c", [c>0,c<=n, n-c>=1], sat(a,blast(L,n-c))==spec('>=',count(a,L),c))
