"""Throw-away spike: AST-driven VC generation for two real functions of /repo/cnfgen/graphs.py
and families/ramsey.py (ints only; for-range loops cut by invariants; callee contracts)."""
import ast, sys, time, z3

def py_floordiv(a,b): return z3.If(b>0, a/b, (-a)/(-b))

class Path(Exception): pass

class VC:
    def __init__(self): self.obls=[]
    def add(self,name,hyps,goal,line): self.obls.append((name,list(hyps),goal,line))

class Exec:
    def __init__(self, fn, contract, vc):
        self.fn=fn; self.c=contract; self.vc=vc; self.loopno=0; self.fresh=0
    def newint(self,base):
        self.fresh+=1; return z3.Int(f'{base}!{self.fresh}')
    def spec(self, text, env):                      # contract expression -> z3
        return self.expr(ast.parse(text,mode='eval').body, env, [], spec=True)
    def expr(self,e,env,pc,spec=False):
        if isinstance(e,ast.Constant): return z3.IntVal(e.value) if isinstance(e.value,int) and not isinstance(e.value,bool) else e.value
        if isinstance(e,ast.Name): return env[e.id]
        if isinstance(e,ast.UnaryOp) and isinstance(e.op,ast.USub): return -self.expr(e.operand,env,pc,spec)
        if isinstance(e,ast.UnaryOp) and isinstance(e.op,ast.Not): return z3.Not(self.expr(e.operand,env,pc,spec))
        if isinstance(e,ast.BinOp):
            a=self.expr(e.left,env,pc,spec); b=self.expr(e.right,env,pc,spec)
            if isinstance(e.op,ast.Add): return a+b
            if isinstance(e.op,ast.Sub): return a-b
            if isinstance(e.op,ast.Mult): return a*b
            if isinstance(e.op,ast.FloorDiv):
                if not spec: self.vc.add('hazard: divisor != 0',pc,b!=0,e.lineno)
                return py_floordiv(a,b)
            raise NotImplementedError(ast.dump(e.op))
        if isinstance(e,ast.Compare):
            vals=[self.expr(x,env,pc,spec) for x in [e.left]+e.comparators]; cs=[]
            for op,a,b in zip(e.ops,vals,vals[1:]):
                cs.append({ast.Lt:a<b,ast.LtE:a<=b,ast.Gt:a>b,ast.GtE:a>=b,ast.Eq:a==b,ast.NotEq:a!=b}[type(op)])
            return z3.And(cs) if len(cs)>1 else cs[0]
        if isinstance(e,ast.BoolOp):
            vs=[self.expr(v,env,pc,spec) for v in e.values]
            return z3.And(vs) if isinstance(e.op,ast.And) else z3.Or(vs)
        raise NotImplementedError(ast.dump(e)[:80])
    def run(self):
        env={a.arg:z3.Int(a.arg) for a in self.fn.args.args}
        pc=[self.spec(r,env) for r in self.c.get('requires',[])]
        self.block(self.fn.body,env,pc)
    def block(self,stmts,env,pc):
        for s in stmts: env,pc=self.stmt(s,env,pc)
        return env,pc
    def stmt(self,s,env,pc):
        if isinstance(s,ast.Expr) and isinstance(s.value,ast.Constant): return env,pc
        if isinstance(s,ast.Assign):
            env=dict(env); t=s.targets[0]
            if isinstance(s.value,ast.Call): env[t.id]=self.call(s.value,env,pc)
            else: env[t.id]=self.expr(s.value,env,pc)
            return env,pc
        if isinstance(s,ast.AugAssign):
            env=dict(env); env[s.target.id]=self.expr(ast.BinOp(ast.Name(s.target.id),s.op,s.value,lineno=s.lineno),env,pc); return env,pc
        if isinstance(s,ast.If):
            c=self.expr(s.test,env,pc)
            try: self.block(s.body,env,pc+[c])
            except Path: pass
            else: raise NotImplementedError('join')          # spike: then-branch must raise
            return self.block(s.orelse,env,pc+[z3.Not(c)])
        if isinstance(s,ast.Raise): raise Path()
        if isinstance(s,ast.Expr) and isinstance(s.value,ast.Call): self.call(s.value,env,pc); return env,pc
        if isinstance(s,ast.Expr) and isinstance(s.value,ast.Yield):
            self.yielded(s.value.value,env,pc,s.lineno); return env,pc
        if isinstance(s,ast.Return): return env,pc
        if isinstance(s,ast.For): return self.forloop(s,env,pc)
        raise NotImplementedError(ast.dump(s)[:80])
    def assigned(self,stmts):
        out=set()
        for n in ast.walk(ast.Module(body=stmts,type_ignores=[])):
            if isinstance(n,(ast.Assign,)): out|={t.id for t in n.targets if isinstance(t,ast.Name)}
            if isinstance(n,ast.AugAssign): out.add(n.target.id)
            if isinstance(n,ast.For): out.add(n.target.id)
        return out
    def forloop(self,s,env,pc):
        k=self.loopno; self.loopno+=1; inv=self.c['loops'][k]['invariant']
        assert isinstance(s.iter,ast.Call) and s.iter.func.id=='range'
        args=[self.expr(a,env,pc) for a in s.iter.args]; lo,hi=(z3.IntVal(0),args[0]) if len(args)==1 else args
        it=s.target.id
        e0=dict(env); e0[it]=lo
        for t in inv: self.vc.add(f'loop{k} invariant on entry: {t}',pc,self.spec(t,e0),s.lineno)
        e1=dict(env)
        for v in self.assigned(s.body)|{it}: e1[v]=self.newint(v)
        # range bounds are evaluated once: lo/hi are pre-loop values
        pc1=pc+[self.spec(t,e1) for t in inv]+[lo<=e1[it]]
        body_pc=pc1+[e1[it]<hi]
        e2,pc2=self.block(s.body,e1,body_pc)
        e3=dict(e2); e3[it]=e1[it]+1
        for t in inv: self.vc.add(f'loop{k} invariant preserved: {t}',pc2,self.spec(t,e3),s.lineno)
        eX=dict(e1); 
        return eX,pc1+[e1[it]>=hi, z3.Implies(lo<hi, e1[it]==hi), z3.Implies(lo>=hi, e1[it]==lo)]
    def call(self,c,env,pc):
        name=ast.unparse(c.func)
        if name in self.c.get('calls',{}):
            k=self.c['calls'][name]; args=[self.expr(a,env,pc) for a in c.args]
            e=dict(env); e.update({p:a for p,a in zip(k['params'],args)})
            for r in k['requires']: self.vc.add(f'call {name} pre: {r}',pc,self.spec(r,e),c.lineno)
            return None
        if name in ('DirectedGraph',): return None
        raise NotImplementedError(name)
    def yielded(self,v,env,pc,line):
        # spike: yielded value is a list comprehension [i + d*t for t in range(k)] -> check element spec
        e=dict(env); t=z3.Int('t!y'); e['t']=t
        elt=self.expr(v.elt,e,pc); 
        e['elt']=elt; e['idx']=t
        hy=pc+[0<=t, t<self.expr(v.generators[0].iter.args[0],env,pc)]
        for r in self.c['yields']: self.vc.add(f'yield: {r}',hy,self.spec(r,e),line)

def load(path,name):
    for n in ast.walk(ast.parse(open(path).read())):
        if isinstance(n,ast.FunctionDef) and n.name==name: return n
contracts={
 ('/repo/cnfgen/graphs.py','dag_pyramid'):{
   'requires':[],
   'calls':{'D.add_edge':{'params':['src','dest'],'requires':['1 <= src','2*src <= (height+1)*(height+2)','1 <= dest','2*dest <= (height+1)*(height+2)','src < dest']}},
   'loops':{0:{'invariant':['1 <= layer','layer <= height+1','2*leftsrc == 2 + 2*(layer-1)*(height+1) - (layer-1)*(layer-2)','2*dest == 2 + 2*layer*(height+1) - layer*(layer-1)']},
            1:{'invariant':['1 <= layer','layer <= height','1 <= i','i <= height-layer+2','2*leftsrc == 2 + 2*(layer-1)*(height+1) - (layer-1)*(layer-2) + 2*(i-1)','2*dest == 2 + 2*layer*(height+1) - layer*(layer-1) + 2*(i-1)']}}},
 ('/repo/cnfgen/families/ramsey.py','_vdw_ap_generator'):{
   'requires':['N >= 0','k >= 1'],
   'loops':{0:{'invariant':['d >= 1']},1:{'invariant':['i >= 1','d >= 1','d <= max_d', 'max_i == N - d*k + d']}},
   'yields':['1 <= elt','elt <= N','elt == i + d*idx']},
}
for (path,name),c in contracts.items():
    fn=load(path,name); vc=VC(); t0=time.time(); Exec(fn,c,vc).run()
    print(f'== {name}: {len(vc.obls)} obligations')
    for nm,hy,g,line in vc.obls:
        s=z3.Solver(); s.set('timeout',20000); s.add(hy); s.add(z3.Not(g)); r=s.check()
        msg='proved' if r==z3.unsat else ('REFUTED '+str({str(d):s.model()[d] for d in s.model().decls() if '!' not in str(d)}) if r==z3.sat else 'undecided')
        print(f'  L{line:<5}{nm[:70]:72s}{msg}')
    print('  time',round(time.time()-t0,2))
