# Probe: Graph.add_edge preserves the representation invariant (ghost index function), by hand.
import z3,time
I=z3.IntSort(); AI=z3.ArraySort(I,I); AAI=z3.ArraySort(I,AI)
A=z3.Const('A',AAI); Ln=z3.Const('Ln',AI); n=z3.Int('n')
E=z3.Function('E',I,I,z3.BoolSort()); idx=z3.Function('idx',I,I,I)
A2=z3.Const('A2',AAI); Ln2=z3.Const('Ln2',AI)
E2=z3.Function('E2',I,I,z3.BoolSort()); idx2=z3.Function('idx2',I,I,I)
u,v,k,j=z3.Ints('u v k j')
def INV(A,Ln,E,idx):
    return [
     z3.ForAll([u],z3.Implies(z3.And(1<=u,u<=n), Ln[u]>=0)),
     z3.ForAll([u,k,j],z3.Implies(z3.And(1<=u,u<=n,0<=k,k<j,j<Ln[u]), A[u][k]<A[u][j])),             # S
     z3.ForAll([u,k],z3.Implies(z3.And(1<=u,u<=n,0<=k,k<Ln[u]), z3.And(1<=A[u][k],A[u][k]<=n,E(u,A[u][k])))),  # M1
     z3.ForAll([u,v],z3.Implies(E(u,v), z3.And(1<=u,u<=n,1<=v,v<=n,0<=idx(u,v),idx(u,v)<Ln[u],A[u][idx(u,v)]==v))), # M2
     z3.ForAll([u,v],E(u,v)==E(v,u)), z3.ForAll([u],z3.Not(E(u,u)))]
u0,v0,p,q=z3.Ints('u0 v0 p q')
def bisect(a,ln,x,pos): return z3.And(0<=pos,pos<=ln, z3.ForAll([k],z3.Implies(z3.And(0<=k,k<pos),a[k]<=x)), z3.ForAll([k],z3.Implies(z3.And(pos<=k,k<ln),a[k]>x)))
def insert(a,ln,pos,x,a2): return z3.And(z3.ForAll([k],z3.Implies(z3.And(0<=k,k<pos),a2[k]==a[k])), a2[pos]==x, z3.ForAll([k],z3.Implies(z3.And(pos<k,k<=ln),a2[k]==a[k-1])))
pre=INV(A,Ln,E,idx)+[1<=u0,u0<v0,v0<=n, z3.Not(E(u0,v0)),
  bisect(A[u0],Ln[u0],v0,p), bisect(A[v0],Ln[v0],u0,q),
  insert(A[u0],Ln[u0],p,v0,A2[u0]), insert(A[v0],Ln[v0],q,u0,A2[v0]),
  z3.ForAll([u],z3.Implies(z3.And(u!=u0,u!=v0),z3.And(A2[u]==A[u],Ln2[u]==Ln[u]))),
  Ln2[u0]==Ln[u0]+1, Ln2[v0]==Ln[v0]+1,
  z3.ForAll([u,v],E2(u,v)==z3.Or(E(u,v),z3.And(u==u0,v==v0),z3.And(u==v0,v==u0))),
  # ghost update supplied by the contract
  z3.ForAll([u,v],idx2(u,v)==z3.If(z3.And(u==u0,v==v0),p, z3.If(z3.And(u==v0,v==u0),q,
        z3.If(u==u0, idx(u,v)+z3.If(idx(u,v)>=p,1,0), z3.If(u==v0, idx(u,v)+z3.If(idx(u,v)>=q,1,0), idx(u,v))))))]
goals=INV(A2,Ln2,E2,idx2)
names=['len>=0','S sorted','M1 list⊆E','M2 E⊆list (ghost idx)','Sym','NoLoop']
for nm,g in zip(names,goals):
    s=z3.Solver(); s.set('timeout',60000); s.add(pre); s.add(z3.Not(g))
    t=time.time(); r=s.check(); print(f'{nm:26s}',r,round(time.time()-t,2))
    if r!=z3.unsat:
        open(f'adj_{names.index(nm)}.smt2','w').write("(set-logic ALL)\n"+s.to_smt2())
s=z3.Solver(); s.set('timeout',60000); s.add(pre); s.add(n==3,u0==1,v0==3)
t=time.time(); print('vacuity guard: pre satisfiable?', s.check(), round(time.time()-t,2))
# mutant: forget to insert u0 into adjlist[v0] (A2[v0]==A[v0]) -> M2 must fail
pre_m=[x for x in pre]
pre_m[ [str(x) for x in pre].index(str(insert(A[v0],Ln[v0],q,u0,A2[v0]))) ] = (A2[v0]==A[v0])
pre_m[ [str(x) for x in pre].index(str(Ln2[v0]==Ln[v0]+1)) ] = (Ln2[v0]==Ln[v0])
s=z3.Solver(); s.set('timeout',60000); s.add(pre_m); s.add(z3.Not(goals[3]))
t=time.time(); print('mutant (no reverse insert) M2:', s.check(), round(time.time()-t,2))
