import z3,time
i,R,W,S1=z3.Ints('i R W S1')
hyp=[0<=S1,S1<W,1<=i,i<=R,W>=1]
S=(i-1)*W+S1
for name,g in [('bound', z3.And(0<=S, S<R*W)), ('div', S/W==i-1), ('mod', S%W==S1)]:
    for tac in ['default','nla']:
        s=z3.Solver() if tac=='default' else z3.Tactic('qfnia').solver()
        s.set('timeout',20000); s.add(hyp); s.add(z3.Not(g))
        t=time.time(); print(name,tac,s.check(),round(time.time()-t,2))
# other direction: var in [0,R*W): q=var div W, r = var mod W  -> 0<=q<R (so index q+1 in 1..R), r<W
v=z3.Int('v')
s=z3.Solver(); s.set('timeout',20000); s.add(W>=1,R>=0,0<=v,v<R*W); s.add(z3.Not(z3.And(0<=v/W, v/W<R, 0<=v%W, v%W<W, (v/W)*W+v%W==v)))
t=time.time(); print('inverse',s.check(),round(time.time()-t,2))
