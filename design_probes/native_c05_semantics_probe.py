import itertools, sys
sys.path.insert(0,'/repo')
import warnings; warnings.filterwarnings('ignore')
from cnfgen import *
from cnfgen.graphs import BipartiteGraph
def lt(a,l): return a[abs(l)] if l>0 else not a[abs(l)]
def sat(a,F): return all(any(lt(a,l) for l in c) for c in F)
def blocks(a,v,k): return [a[(v-1)*k+i] for i in range(1,k+1)]
G={
 'xor': (lambda F,k: XorSubstitution(F,k), lambda b: sum(b)%2==1),
 'or':  (lambda F,k: OrSubstitution(F,k), lambda b: any(b)),
 'maj': (lambda F,k: MajoritySubstitution(F,k), lambda b: 2*sum(b)>=len(b)),
 'eq':  (lambda F,k: AllEqualSubstitution(F,k), lambda b: len(set(b))<=1),
 'neq': (lambda F,k: NotAllEqualSubstitution(F,k), lambda b: len(set(b))>1),
 'one': (lambda F,k: ExactlyOneSubstitution(F,k), lambda b: sum(b)==1),
}
for t in range(-1,4):
    G[f'exact{t}']=(lambda F,k,t=t: ExactlyKSubstitution(F,k,t), lambda b,t=t: sum(b)==t)
    G[f'atleast{t}']=(lambda F,k,t=t: AtLeastKSubstitution(F,k,t), lambda b,t=t: sum(b)>=t)
    G[f'atmost{t}']=(lambda F,k,t=t: AtMostKSubstitution(F,k,t), lambda b,t=t: sum(b)<=t)
    G[f'anybut{t}']=(lambda F,k,t=t: AnythingButKSubstitution(F,k,t), lambda b,t=t: sum(b)!=t)
lits=[1,-1,2,-2]
clauses=[c for r in range(0,3) for c in itertools.product(lits,repeat=r)]
forms=[[]]+[[list(c)] for c in clauses]+[[list(c1),list(c2)] for c1 in clauses[:9] for c2 in clauses[:9]]
bad=0; n=0
for F0 in forms:
  F=CNF(F0); F.update_variable_number(2); N=2
  for name,(tr,g) in G.items():
    for k in (1,2,3):
      T=tr(F,k)
      if T.number_of_variables()!=N*k: print('NUMVAR',name,k,F0,T.number_of_variables()); bad+=1; continue
      for bits in itertools.product([False,True],repeat=N*k):
        a=[None]+list(bits); ind=[None]+[g(blocks(a,v,k)) for v in range(1,N+1)]
        n+=1
        if sat(a,T)!=sat(ind,F): print('MISMATCH',name,k,F0,bits); bad+=1; break
  # ite
  T=IfThenElseSubstitution(F)
  for bits in itertools.product([False,True],repeat=3*N):
    a=[None]+list(bits); ind=[None]+[ (a[N+v] if a[v] else a[2*N+v]) for v in range(1,N+1)]
    if sat(a,T)!=sat(ind,F): print('MISMATCH ite',F0,bits); bad+=1; break
  # lift
  for k in (1,2):
    T=FormulaLifting(F,k)
    if T.number_of_variables()!=2*k*N: print('NUMVAR lift',k,T.number_of_variables()); bad+=1
    for bits in itertools.product([False,True],repeat=2*k*N):
      a=[None]+list(bits)
      ok=True; ind=[None]
      for v in range(1,N+1):
        X=[a[(v-1)*2*k+i] for i in range(1,k+1)]; Y=[a[(v-1)*2*k+k+i] for i in range(1,k+1)]
        if sum(Y)!=1: ok=False; ind.append(False)
        else: ind.append(X[Y.index(True)])
      exp= ok and sat(ind,F)
      if sat(a,T)!=exp: print('MISMATCH lift',k,F0,bits); bad+=1; break
  # flip
  T=FlipPolarity(F)
  if T.number_of_variables()!=N: bad+=1; print('NUMVAR flip',F0,T.number_of_variables()) if len(F0)<2 and bad<8 else None
print('evaluations',n,'bad',bad)
