import Mathlib.Data.List.Basic
import Mathlib.Tactic

def litTrue (α : ℕ → Bool) (l : ℤ) : Bool := if 0 < l then α l.natAbs else !(α l.natAbs)

theorem litTrue_neg (α : ℕ → Bool) (l : ℤ) (h : l ≠ 0) : litTrue α (-l) = !(litTrue α l) := by
  unfold litTrue
  rcases lt_trichotomy l 0 with hl | hl | hl
  · have h1 : (0:ℤ) < -l := by omega
    have h2 : ¬ (0:ℤ) < l := by omega
    simp [h1, h2] <;> omega
  · exact absurd hl h
  · have h1 : ¬ (0:ℤ) < -l := by omega
    simp [h1, hl] <;> omega

def countTrue (α : ℕ → Bool) (ls : List ℤ) : ℕ := ls.countP (litTrue α)

/-- L2 -/
theorem countTrue_le (α) (ls : List ℤ) : countTrue α ls ≤ ls.length := List.countP_le_length

/-- L3: negating every literal complements the count -/
theorem countTrue_neg (α : ℕ → Bool) (ls : List ℤ) (hnz : ∀ l ∈ ls, l ≠ 0) :
    countTrue α (ls.map (fun l => -l)) + countTrue α ls = ls.length := by
  induction ls with
  | nil => simp [countTrue]
  | cons l t ih =>
    have hl : l ≠ 0 := hnz l List.mem_cons_self
    have ht : ∀ x ∈ t, x ≠ 0 := fun x hx => hnz x (List.mem_cons_of_mem _ hx)
    have := ih ht
    unfold countTrue at *
    rw [List.countP_map] at this
    simp only [List.map_cons, List.countP_cons, List.length_cons, litTrue_neg α l hl]
    by_cases h : litTrue α l = true
    · simp [h]; omega
    · have hf : litTrue α l = false := by simpa using h
      simp [hf]; omega
