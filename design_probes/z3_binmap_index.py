import z3, time
def pydiv(a,b): return z3.If(b>0, a/b, (-a)/(-b))
def pymod(a,b): return a - b*pydiv(a,b)
# BinaryMapping: lit = i*B - b + off ; to_index: var=lit-off; pre=(var-1)//B+1; bit=B-1-(var-1)%B
i,b,B,off=z3.Ints('i b B off')
s=z3.Solver(); s.set('timeout',20000)
pre=[B>0, i>=1, b>=0, b<B, off>=0]
lit=i*B-b+off
var=lit-off
pre_i=pydiv(var-1,B)+1
bit=B-1-pymod(var-1,B)
s.add(pre); s.add(z3.Not(z3.And(pre_i==i, bit==b)))
t=time.time(); print('binmap roundtrip', s.check(), time.time()-t)
# injectivity range: lit in [off+1, off+n*B]
n=z3.Int('n')
s=z3.Solver(); s.set('timeout',20000)
s.add(pre+[i<=n]); s.add(z3.Not(z3.And(lit>=off+1, lit<=off+n*B)))
t=time.time(); print('binmap range', s.check(), time.time()-t)
# other direction: var in [1,n*B] -> index valid and back
v=z3.Int('v')
s=z3.Solver(); s.set('timeout',20000)
pi=pydiv(v-1,B)+1; bi=B-1-pymod(v-1,B)
s.add(B>0,n>=0,v>=1,v<=n*B); s.add(z3.Not(z3.And(pi>=1,pi<=n,bi>=0,bi<B, pi*B-bi==v)))
t=time.time(); print('binmap inverse', s.check(), time.time()-t)
