import z3,time
field,value=z3.Strings('field value'); i=z3.Int('i')
text=z3.Concat(z3.StringVal("c "),field,z3.StringVal(": "),value,z3.StringVal("\n"))
bad=z3.And(0<=i, i+1<z3.Length(text), z3.SubString(text,i,1)==z3.StringVal("\n"), z3.SubString(text,i+1,1)!=z3.StringVal("c"))
s=z3.Solver(); s.set('timeout',30000); s.add(bad, z3.Not(z3.Contains(field,z3.StringVal("\n"))))
t=time.time(); r=s.check(); print('refute',r,round(time.time()-t,2), s.model()[value] if r==z3.sat else '')
s=z3.Solver(); s.set('timeout',30000); s.add(bad, z3.Not(z3.Contains(field,z3.StringVal("\n"))), z3.Not(z3.Contains(value,z3.StringVal("\n"))))
t=time.time(); r=s.check(); print('prove-with-pre',r,round(time.time()-t,2))
open('str.smt2','w').write("(set-logic ALL)\n"+s.to_smt2())
