import Mathlib.Data.List.Sublists
import Mathlib.Tactic

open List

theorem length_filter_not_add {β} (p : β → Bool) (l : List β) :
    (l.filter (fun x => !p x)).length + l.countP p = l.length := by
  induction l with
  | nil => simp
  | cons a t ih =>
    by_cases h : p a = true
    · simp [h, List.filter_cons, List.countP_cons]; omega
    · simp [h, List.filter_cons, List.countP_cons]; omega

theorem blast_generic {β} (p : β → Bool) (l : List β) (k : ℕ) (hk : 1 ≤ k) (hkn : k ≤ l.length) :
    (∀ s ∈ List.sublistsLen k l, ∃ x ∈ s, p x = true) ↔ l.length - k + 1 ≤ l.countP p := by
  have hlen := length_filter_not_add p l
  constructor
  · intro h
    by_contra hlt
    push_neg at hlt
    have hF : k ≤ (l.filter (fun x => !p x)).length := by omega
    have hs : (l.filter (fun x => !p x)).take k ∈ List.sublistsLen k l := by
      rw [List.mem_sublistsLen]
      refine ⟨(List.take_sublist _ _).trans List.filter_sublist, ?_⟩
      simp [List.length_take, hF]
    obtain ⟨x, hx, hpx⟩ := h _ hs
    have hx' : x ∈ l.filter (fun x => !p x) := List.mem_of_mem_take hx
    simp [List.mem_filter] at hx'
    simp [hx'.2] at hpx
  · intro h s hs
    rw [List.mem_sublistsLen] at hs
    by_contra hno
    push_neg at hno
    have hsub : s.filter (fun x => !p x) <+ l.filter (fun x => !p x) := hs.1.filter _
    have hall : s.filter (fun x => !p x) = s := by
      rw [List.filter_eq_self]
      intro a ha
      have := hno a ha
      simp [this]
    rw [hall] at hsub
    have := hsub.length_le
    omega
