from typing import List
from cnfgen.families.ramsey import _vdw_ap_generator as _real
def vdw_ap(N: int, k: int) -> List[List[int]]:
    """
    pre: 0 <= N <= 12
    pre: 1 <= k <= 5
    post: all(1 <= x <= N for ap in __return__ for x in ap)
    """
    return list(_real(N, k))
