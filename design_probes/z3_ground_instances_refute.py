import z3, time, itertools
Lits=z3.DeclareSort('Lits'); Cls=z3.DeclareSort('Cls'); Asg=z3.DeclareSort('Asg')
count=z3.Function('count',Asg,Lits,z3.IntSort()); length=z3.Function('len',Lits,z3.IntSort())
sat=z3.Function('sat',Asg,Cls,z3.BoolSort()); blast=z3.Function('blast',Lits,z3.IntSort(),Cls)
a=z3.Const('a',Asg); L=z3.Const('L',Lits); c=z3.Int('c'); n=length(L)
def inst(A,X,k): # ground lemma instances
    return [z3.And(0<=count(A,X), count(A,X)<=length(X)),
            z3.Implies(z3.And(1<=k,k<=length(X)), sat(A,blast(X,k))==(count(A,X)>=length(X)-k+1))]
s=z3.Solver(); s.add(inst(a,L,n-c)); s.add(c>0,c<=n,n-c>=1)
s.add(z3.Not(sat(a,blast(L,n-c))==(count(a,L)>=c)))
print(s.check()); m=s.model(); print('n=',m.eval(n),'c=',m.eval(c),'count=',m.eval(count(a,L)))
