# dag_pyramid VCs by hand: quadratic loop invariants
import z3,time
h,L,i,ls,de=z3.Ints('h L i ls de')
def start2(r): return 2 + 2*r*(h+1) - r*(r-1)      # 2*start(r)
n2=(h+1)*(h+2)                                      # 2*n
def chk(name,hyp,goal):
    s=z3.Solver(); s.set('timeout',30000); s.add(hyp); s.add(z3.Not(goal))
    t=time.time(); r=s.check(); print(f'{name:34s}',r,round(time.time()-t,2))
outer=[h>=0,1<=L,L<=h+1, 2*ls==start2(L-1), 2*de==start2(L)]
inner=[h>=0,1<=L,L<=h, 1<=i,i<=h-L+2, 2*ls==start2(L-1)+2*(i-1), 2*de==start2(L)+2*(i-1)]
chk('outer init', [h>=0,L==1,ls==1,de==h+2], z3.And(outer[3],outer[4]))
chk('inner init from outer', outer+[L<=h, i==1], z3.And(inner[5],inner[6]))
body=inner+[i<=h-L+1]
chk('add_edge pre: ranges', body, z3.And(1<=ls, 2*(ls+1)<=n2, 1<=de, 2*de<=n2))
chk('add_edge: src<dest (dag)', body, ls+1<de)
chk('inner preserve', body, z3.And(2*(ls+1)==start2(L-1)+2*i, 2*(de+1)==start2(L)+2*i))
chk('outer preserve', inner+[i==h-L+2], z3.And(2*(ls+1)==start2(L), 2*de==start2(L+1)))
chk('MUT: dest starts h+1', [h>=0,L==1,ls==1,de==h+1,1<=h], ls+1<de)
