# Probe for C17: derive namespace shape from add_argument calls; compare with attributes build_formula reads.
import ast,glob,re
def dest_of(call):
    kw={k.arg:k.value for k in call.keywords}
    if 'dest' in kw and isinstance(kw['dest'],ast.Constant): return kw['dest'].value
    names=[a.value for a in call.args if isinstance(a,ast.Constant) and isinstance(a.value,str)]
    longs=[n for n in names if n.startswith('--')]
    if longs: return longs[0][2:].replace('-','_')
    shorts=[n for n in names if n.startswith('-')]
    if shorts: return shorts[0][1:]
    return names[0] if names else None
for f in sorted(glob.glob('/repo/cnfgen/clihelpers/*_helpers.py')):
    t=ast.parse(open(f).read())
    for cls in [n for n in t.body if isinstance(n,ast.ClassDef)]:
        dests=set(); reads=set(); has=set()
        for fn in [b for b in cls.body if isinstance(b,ast.FunctionDef)]:
            for n in ast.walk(fn):
                if fn.name=='setup_command_line' and isinstance(n,ast.Call) and getattr(n.func,'attr','')=='add_argument':
                    dests.add(dest_of(n))
                if fn.name in('build_formula','transform_cnf'):
                    if isinstance(n,ast.Attribute) and isinstance(n.value,ast.Name) and n.value.id in('args',): reads.add(n.attr)
                    if isinstance(n,ast.Call) and getattr(n.func,'id','')=='hasattr' and isinstance(n.args[1],ast.Constant): has.add(n.args[1].value)
        never=(reads|has)-dests
        uses_fc=any(isinstance(n,ast.keyword) and n.arg=='formula_class' for fn in cls.body if isinstance(fn,ast.FunctionDef) and fn.name=='build_formula' for n in ast.walk(fn)) or any(isinstance(n,ast.Call) and getattr(n.func,'id','')=='formula_class' for fn in cls.body if isinstance(fn,ast.FunctionDef) and fn.name=='build_formula' for n in ast.walk(fn))
        isf=any(isinstance(b,ast.Name) and b.id=='FormulaHelper' for b in cls.bases)
        flag=[]
        if never: flag.append(f'read-but-never-defined={sorted(never)}')
        if isf and not uses_fc: flag.append('formula_class NOT threaded')
        if flag: print(f'{f.split("/")[-1]:28s}{cls.name:28s}', '; '.join(flag), ' dests=',sorted(d for d in dests if d))
