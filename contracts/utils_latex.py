r"""Sidecar contract for cnfgen/utils/latexoutput.py:_print_latex on CNF formulas (C12, LaTeX half), under the event
abstraction of the writers (one event per write() call; a constant piece of text is identified by the text itself, a row
body by its constant frame and separator plus THE CLAUSE whose literal texts it joins; what the text of a literal is - the
table `littext` - is not looked into).

PROVED for every CNF, every `split_every` and both layouts: the text written is exactly
    \begin{align}                                    then, for the i-th clause in order (one row per clause):
       [ \end{align}\pagebreak  \begin{align} ]      iff split_every > 0, i is a positive multiple of it
       the row separator                             "\n&" for the first row of a block, " \\\n&" otherwise
       the padding / conjunction sign                " \land " inside a block in the compact layout, blanks otherwise
       the row body                                  \square for the empty clause, otherwise the texts of exactly that clause's
                                                     literals, in order, joined by \lor (inside \left( \right) when compact)
    \end{align}
and  \begin{align} \top \end{align}  for the empty formula - distinct from the empty clause.
NOT INTERPRETED (reported in the evidence): the loop that fills the literal-text table from the variable names (pure string
processing).  The pseudo-Boolean rows (write_constraint) and to_latex_document are decided by the bounded tier only.
"""
X = 'cnfgen/utils/latexoutput.py'

CLASSMODELS = {}      # CNFw: see utils_dimacs.py

PB = '(split_every > 0 and i % split_every == 0 and i != 0)'
FIRST = '({} or i == 0)'.format(PB)
CI = 'cget(F._clauses, i)'
SEP = r'ite({}, ev("\n&"), ev(" \\\\\n&"))'.format(FIRST)
PAD = r'ite(not compact or {}, ev("       "), ev(" \\land "))'.format(FIRST)
BODY = (r'ite(ilen({c}) == 0, ev("\\square"), ite(compact, evrow("\\left( ", " \\lor ", " \\right)", {c}), evrow("", " \\lor ", "", {c})))').format(c=CI)
BREAK = r'ite({}, csnoc(csnoc(S_L, ev("\n\\end{{align}}\\pagebreak")), ev("\n\\begin{{align}}")), S_L)'.format(PB)

CONTRACTS = {
    ('cnfgen/formula/basecnf.py', 'BaseCNF.__getitem__'): {'inline_always': True},
    (X, '_print_latex'): {
        'property': ['C12'],
        'trace': {'comment': None},
        'params': {'F': 'obj:CNFw', 'outputfile': 'sink', 'split_every': 'int', 'compact': 'bool'},
        'locals': {'littext': 'texttable'},
        'requires': ['cmaxabs(F._clauses) <= F._numvar', 'not chaszero(F._clauses)'],
        'raises': {},
        # the events of row i, appended to a trace S_L (definition of this writer's rowapp; writer id 7)
        'defines': ['forall(lambda S_L, i: rowapp(7, S_L, i) == csnoc(csnoc(csnoc({}, {}), {}), {}), lambda S_L, i: rowapp(7, S_L, i))'.format(BREAK, SEP, PAD, BODY)],
        'loops': {
            0: {'uninterpreted': 'fills the literal-text table from the variable names (string processing only)',
                'assigns': ['littext', 'split_points', 'split_point']},
            3: {'ghost_at_entry': {'T1': 'trace(outputfile)'},
                'inv': ['trace(outputfile) == rowsfrom(7, T1, _it)']},
        },
        'ensures': [
            r'trace(outputfile) == ite(clen(F._clauses) == 0, '
            r'csnoc(csnoc(csnoc(old(trace(outputfile)), ev("\\begin{align}")), ev("\n   \\top")), ev("\n\\end{align}")), '
            r'csnoc(rowsfrom(7, csnoc(old(trace(outputfile)), ev("\\begin{align}")), clen(F._clauses)), ev("\n\\end{align}")))',
            'F._clauses == old(F._clauses)', 'F._numvar == old(F._numvar)',
        ],
    },
}
