r"""Sidecar contract for cnfgen/utils/latexoutput.py:_print_latex on CNF formulas (C12, LaTeX half), under the event
abstraction of the writers (one event per write() call; a constant piece of text is identified by the text itself, a row
body by its constant frame and separator plus THE CLAUSE whose literal texts it joins; what the text of a literal is - the
table `littext` - is not looked into).

PROVED for every CNF, every `split_every` and both layouts: the text written is exactly
    \begin{align}                                    then, for the i-th clause in order (one row per clause):
       [ \end{align}\pagebreak  \begin{align} ]      iff split_every > 0, i is a positive multiple of it
       the row separator                             "\n&" for the first row of a block, " \\\n&" otherwise
       the padding / conjunction sign                " \land " inside a block in the compact layout, blanks otherwise
       the row body                                  \square for the empty clause, otherwise the texts of exactly that clause's
                                                     literals, in order, joined by \lor (inside \left( \right) when compact)
    \end{align}
and  \begin{align} \top \end{align}  for the empty formula - distinct from the empty clause.
NOT INTERPRETED (reported in the evidence): the loop that fills the literal-text table from the variable names (pure string
processing).  The pseudo-Boolean rows (write_constraint) are decided by the bounded tier only.  to_latex_document (CNF) is
proved below over this contract: titles, header values and user text are opaque events.
"""
X = 'cnfgen/utils/latexoutput.py'

CLASSMODELS = {}      # CNFw: see utils_dimacs.py

# one definition of the row renderer per parameter choice: writer id wid(split_every, compact)
WID = 'wid(split_every, ite(compact, 1, 0))'
PB = '(split_every > 0 and i % split_every == 0 and i != 0)'
FIRST = '({} or i == 0)'.format(PB)
CI = 'cget(F._clauses, i)'
SEP = r'ite({}, ev("\n&"), ev(" \\\\\n&"))'.format(FIRST)
PAD = r'ite(not compact or {}, ev("       "), ev(" \\land "))'.format(FIRST)
BODY = (r'ite(ilen({c}) == 0, ev("\\square"), ite(compact, evrow("\\left( ", " \\lor ", " \\right)", {c}), evrow("", " \\lor ", "", {c})))').format(c=CI)
BREAK = r'ite({}, csnoc(csnoc(S_L, ev("\n\\end{{align}}\\pagebreak")), ev("\n\\begin{{align}}")), S_L)'.format(PB)

CONTRACTS = {
    ('cnfgen/formula/basecnf.py', 'BaseCNF.__getitem__'): {'inline_always': True},
    (X, '_print_latex'): {
        'property': ['C12'],
        'trace': {'comment': None},
        'params': {'F': 'obj:CNFw', 'outputfile': 'sink', 'split_every': 'int', 'compact': 'bool'},
        'locals': {'littext': 'texttable'},
        'requires': ['cmaxabs(F._clauses) <= F._numvar', 'not chaszero(F._clauses)'],
        'raises': {},
        # the events of row i, appended to a trace S_L (definition of this writer's rowapp; writer id 7)
        'defines': ['forall(lambda S_L, i: rowapp(W, S_L, i) == csnoc(csnoc(csnoc({}, {}), {}), {}), lambda S_L, i: rowapp(W, S_L, i))'.format(BREAK, SEP, PAD, BODY).replace('W,', WID + ',')],
        'loops': {
            0: {'uninterpreted': 'fills the literal-text table from the variable names (string processing only)',
                'assigns': ['littext', 'split_points', 'split_point']},
            3: {'ghost_at_entry': {'T1': 'trace(outputfile)'},
                'inv': ['trace(outputfile) == rowsfrom({}, T1, _it)'.format(WID)]},
        },
        'ensures': [
            r'trace(outputfile) == ite(clen(F._clauses) == 0, '
            r'csnoc(csnoc(csnoc(old(trace(outputfile)), ev("\\begin{align}")), ev("\n   \\top")), ev("\n\\end{align}")), '
            r'csnoc(rowsfrom(WID, csnoc(old(trace(outputfile)), ev("\\begin{align}")), clen(F._clauses)), ev("\n\\end{align}")))'.replace('WID', WID),
            'F._clauses == old(F._clauses)', 'F._numvar == old(F._numvar)',
        ],
    },
    # the whole document for a CNF: preamble, title, [header listing], the line stating the TRUE variable and clause counts, then
    # the rows exactly as _print_latex renders them with 35 rows per block in the non-compact layout, then \end{document}.
    # Titles, header values and the user's extra text are opaque events (content not looked into).
    (X, 'to_latex_document'): {
        'property': ['C12'],
        'trace': {'comment': None, 'opaque': True},
        'params': {'F': 'obj:CNFw', 'fileorname': 'sink', 'export_header': 'bool', 'extra_text': 'opaquestr'},
        'requires': ['cmaxabs(F._clauses) <= F._numvar', 'not chaszero(F._clauses)'],
        'raises': {},
        'loops': {0: {'counter': '_ith', 'ghost_at_entry': {'T1': 'trace(output)'}, 'inv': ['trace(output) == capp(T1, opq(_ith))']}},
        'ensures': ['trace(fileorname) == DOC', 'F._clauses == old(F._clauses)', 'F._numvar == old(F._numvar)'],
    },
}
_PRE = (r'csnoc(csnoc(csnoc(csnoc(csnoc(old(trace(fileorname)), ev(PREAMBLE)), ev("\\begin{document}\n")), evopaque()), '
        r'ev("\\author{CNFgen formula generator}\n")), ev("\\maketitle\n"))')
_HDR = (r'ite(export_header, csnoc(csnoc(capp(csnoc(csnoc(A_, ev("\\noindent\\textbf{Formula header:}\n")), ev("\\begin{lstlisting}[breaklines]\n")), '
        r'opq(final("_ith"))), ev("\\end{lstlisting}\n")), ev("\\bigskip\n")), A_)').replace('A_', _PRE)
_CNT = (r'csnoc(csnoc(B_, evopaque()), ev("\\noindent\\textbf{{CNF with {} variables and and {} clauses:}}\n", F._numvar, clen(F._clauses)))').replace('B_', _HDR)
_W35 = 'wid(35, 0)'
_ROWS = (r'ite(clen(F._clauses) == 0, csnoc(csnoc(csnoc(C_, ev("\\begin{align}")), ev("\n   \\top")), ev("\n\\end{align}")), '
         r'csnoc(rowsfrom(W_, csnoc(C_, ev("\\begin{align}")), clen(F._clauses)), ev("\n\\end{align}")))').replace('C_', _CNT).replace('W_', _W35)
_DOC = r'csnoc(R_, ev("\n\\end{document}"))'.replace('R_', _ROWS)
_PREAMBLE_TEXT = '"%\\n\\\\documentclass[10pt,a4paper]{article}\\n\\\\usepackage[margin=1in]{geometry}\\n\\\\usepackage{amsmath}\\n\\\\usepackage{listings}\\n\\\\usepackage[utf8]{inputenc}\\n"'
_c = CONTRACTS[(X, 'to_latex_document')]
_c['ensures'] = ['F._clauses == old(F._clauses)', 'F._numvar == old(F._numvar)']
_HDR_ON = _HDR.replace('ite(export_header, ', '', 1)
_HDR_ON = _HDR_ON[:_HDR_ON.rindex(', ' + _PRE + ')')]          # the header branch alone
_c['variants'] = {
    'header': {'params': {'export_header': 'const:True'},
               'ensures': ['trace(fileorname) == ' + _DOC.replace(_HDR, _HDR_ON).replace('PREAMBLE', _PREAMBLE_TEXT)]},
    'noheader': {'params': {'export_header': 'const:False'},
                 'ensures': ['trace(fileorname) == ' + _DOC.replace(_HDR, _PRE).replace('PREAMBLE', _PREAMBLE_TEXT)]},
}
