"""Sidecar contract: helpers of the CPLS family (C03).

PROVED: intlog2(x) is the ceiling of log2(x) for every integer x (0 for x <= 1): the least e >= 0 with 2**e >= x; the loop terminates
(the distance x - 2**e strictly decreases).  `2**e` is the spec function pow2 (Bits.lean pow2_facts: pow2(0) = 1, pow2(e+1) = 2*pow2(e)).
CPLSFormula itself: bounded tier of C03.
"""
K = 'cnfgen/families/cpls.py'

CONTRACTS = {
    (K, 'intlog2'): {
        'property': ['C03'],
        'params': {'x': 'int'}, 'returns': 'int', 'raises': {},
        'loops': {0: {'inv': ['ilog >= 0', 'ilog == 0 or pow2(ilog - 1) < x'], 'decreases': 'x - pow2(ilog)'}},
        'ensures': ['result >= 0', 'pow2(result) >= x', 'result == 0 or pow2(result - 1) < x'],
    },
}
