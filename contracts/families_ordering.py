"""Sidecar contract: GraphOrderingPrinciple / OrderingPrinciple, both representations (C03, C08, C10).

PROVED for every simple graph and every value of `total`, `plant`, `knuth`, both formula classes, for an arbitrary assignment a:
a satisfies the formula iff ALL of the documented axioms hold - none missing, none extra -
  (min)    every vertex v has a neighbour u with x[u,v]   ("v is not a local minimum") - except the last vertex when `plant`;
  (trans)  x[v1,v2] and x[v2,v3] imply x[v1,v3] for all pairwise distinct v1, v2, v3 - for the Knuth variants only the triples the
           documentation keeps (variant 2: v2 smallest; variant 3: v3 smallest);
  (anti)   not (x[v1,v2] and x[v2,v1]) for all v1 < v2;
  (total)  x[v1,v2] or x[v2,v1] for all v1 < v2, when `total`
with n(n-1) variables.  The loop over permutations(V, 3) is verified as the three nested range loops over V that keep the
triples without repetition (conformance cases perm_order / perm_count5); OrderingPrinciple is the same call on the complete graph.
The compact representation (`smart`: one variable per unordered pair) is the second variant of the contract: the minimum clause of
v is built literal by literal (x[u,v] for a neighbour u < v, the negation of x[v,u] otherwise - the invariant identifies the list
built so far with the first entries of the documented clause), and for all v1 < v2 < v3 the two clauses excluding a 3-cycle.
NOT covered here: unsatisfiability itself (bounded tier).
ASSUMED: the permutations group allocation and call contract (C11: x(u, v) is a variable of the formula for u != v in 1..n),
the neighbour view of the graph (C16), the interface meaning of add_clause (C04).
"""
O = 'cnfgen/families/ordering.py'
F_ = 'cnfgen/formula/cnf.py'
V_ = 'cnfgen/formula/variables.py'
G_ = 'cnfgen/graphs.py'

CLASSMODELS = {
    'PermO': {'file': V_, 'real': 'WordOfIndicesVariables', 'fields': {'gid': 'int', 'n': 'int'}},
    'CombO': {'file': V_, 'real': 'WordOfIndicesVariables', 'fields': {'gid': 'int', 'n': 'int', 'comb': 'int'}},
    'FormulaO': {'file': F_, 'real': 'CNF', 'fields': {'store': 'mclist', '_numvar': 'int', 'cls': 'int', 'header': 'opaque'}},
    'GraphO': {'file': G_, 'real': 'Graph', 'fields': {'gid': 'int', 'n': 'int', 'name': 'opaquestr'}, 'invariant': ['self.n >= 0']},
}
X = 'created("PermO", 0)'


def x(u, v):
    return 'lit_true(a, pvar({}.gid, {}, {}))'.format(X, u, v)


# the clause of vertex v as the code builds it: [X(u, v) for u in graph.neighbors(v)]
INC = 'iofarr(lam1(lambda j: pvar({x}.gid, iget(nbrs(graph.gid, {{v}}), j), {{v}})), ilen(nbrs(graph.gid, {{v}})))'.format(x=X)


def amin(v):
    return '(({v}) == n and plant) or count(a, {inc}) >= 1'.format(v=v, inc=INC.format(v=v))


def kept(v1, v2, v3):
    return ('not ((knuth == 2 and ({v2} < {v1} or {v2} < {v3})) or (knuth == 3 and ({v3} < {v1} or {v3} < {v2})))').format(v1=v1, v2=v2, v3=v3)


def trans(v1, v2, v3):
    return 'implies({k}, implies({a} and {b}, {c}))'.format(k=kept(v1, v2, v3), a=x(v1, v2), b=x(v2, v3), c=x(v1, v3))


def anti(v1, v2):
    return 'not ({} and {})'.format(x(v1, v2), x(v2, v1))


def tot(v1, v2):
    return '({} or {})'.format(x(v1, v2), x(v2, v1))


def acc(prev, text):
    return 'sat(a, gop.store) == (sat(a, {}) and {})'.format(prev, text)


FR = {'modifies_objects': ['gop'], 'modifies_fields': {'gop': ['store', '_numvar']}}
KEEP = ['gop._numvar == n * (n - 1)', 'n >= 0', 'n == graph.n']
DIST = '{0} != {1} and {0} != {2} and {1} != {2}'
T1 = 'forall(lambda v1, v2, v3: implies(1 <= v1 and v1 <= _a and 1 <= v2 and v2 <= n and 1 <= v3 and v3 <= n and {d}, {t}))'.format(
    d=DIST.format('v1', 'v2', 'v3'), t=trans('v1', 'v2', 'v3'))
T2 = 'forall(lambda v2, v3: implies(1 <= v2 and v2 <= _b and 1 <= v3 and v3 <= n and {d}, {t}))'.format(
    d=DIST.format('(_a + 1)', 'v2', 'v3'), t=trans('(_a + 1)', 'v2', 'v3'))
T3 = 'forall(lambda v3: implies(1 <= v3 and v3 <= _it and {d}, {t}))'.format(
    d=DIST.format('(_a + 1)', '(_b + 1)', 'v3'), t=trans('(_a + 1)', '(_b + 1)', 'v3'))


def pairs_done(f, outer, inner=None):
    a_ = 'forall(lambda v1, v2: implies(1 <= v1 and v1 <= {o} and v1 < v2 and v2 <= n, {f}))'.format(o=outer, f=f('v1', 'v2'))
    if inner is None:
        return a_
    return '({} and forall(lambda v2: implies({o} + 1 < v2 and v2 <= {o} + 1 + {i}, {f})))'.format(a_, o=outer, i=inner, f=f('(' + outer + ' + 1)', 'v2'))


CONTRACTS = {
    (G_, 'GraphO.number_of_vertices'): {'assumed': 'vertex count view', 'params': {}, 'returns_expr': 'self.n'},
    (G_, 'GraphO.neighbors'): {
        'assumed': 'neighbour view of a simple graph (C16): refused iff u is not a vertex; the neighbours are other vertices of the graph',
        'params': {'u': 'int'}, 'raises': {'ValueError': 'not (1 <= u and u <= self.n)'}, 'returns': 'iseq',
        'ensures': ['result == nbrs(self.gid, u)',
                    'forall(lambda j: implies(0 <= j and j < ilen(result), 1 <= iget(result, j) and iget(result, j) <= self.n and iget(result, j) != u))']},
    (F_, 'FormulaO.__init__'): {'assumed': 'formula_class(description=...) builds an empty formula of that class', 'params': {'description': 'any'},
                                'modifies': ['self.store', 'self._numvar'], 'ensures': ['self.store == cnil', 'self._numvar == 0']},
    (F_, 'FormulaO.new_permutations'): {
        'assumed': 'group allocation (C11): one fresh variable per ordered pair of distinct elements of 1..n; each is a variable of the formula',
        'params': {'n': 'int', 'k': 'int', 'label': 'any'}, 'supports': ['k == 2'], 'requires': ['n >= 0'],
        'modifies': ['self._numvar'], 'returns': 'obj:PermO',
        'ensures': ['result.n == n', 'self._numvar == old(self._numvar) + n * (n - 1)',
                    'forall(lambda u, v: implies(1 <= u and u <= n and 1 <= v and v <= n and u != v, '
                    '1 <= pvar(result.gid, u, v) and pvar(result.gid, u, v) <= self._numvar), lambda u, v: pvar(result.gid, u, v))']},
    (V_, 'PermO.__call__'): {'assumed': 'group call contract (C11): x(u, v) is the variable of the ordered pair; refused iff (u, v) is not an index',
                             'params': {}, 'supports': ['len(pattern) == 2'],
                             'raises': {'ValueError': 'not (1 <= pattern[0] and pattern[0] <= self.n and 1 <= pattern[1] and pattern[1] <= self.n and pattern[0] != pattern[1])'},
                             'returns_expr': 'pvar(self.gid, pattern[0], pattern[1])'},
    (F_, 'FormulaO.add_clause'): {
        'assumed': 'interface meaning of add_clause (C04)',
        'params': {'clause': 'iseq', 'check': 'bool'}, 'ghost_params': {'a': 'asg'},
        'raises': {'ValueError': 'check and haszero(clause)'}, 'modifies': ['self.store', 'self._numvar'],
        'ensures': ['sat(a, self.store) == (sat(a, old(self.store)) and count(a, clause) >= 1)',
                    'self._numvar == ite(check, zmax(old(self._numvar), maxabs(clause)), old(self._numvar))']},
    (F_, 'FormulaO.new_combinations'): {
        'assumed': 'group allocation (C11): one fresh variable per pair u < v of 1..n; each is a variable of the formula',
        'params': {'n': 'int', 'k': 'int', 'label': 'any'}, 'supports': ['k == 2'], 'requires': ['n >= 0'],
        'modifies': ['self._numvar'], 'returns': 'obj:CombO',
        'ensures': ['result.n == n', '2 * self._numvar == 2 * old(self._numvar) + n * (n - 1)',
                    'forall(lambda u, v: implies(1 <= u and u < v and v <= n, 1 <= cvar(result.gid, u, v) and cvar(result.gid, u, v) <= self._numvar), '
                    'lambda u, v: cvar(result.gid, u, v))']},
    (V_, 'CombO.__call__'): {'assumed': 'group call contract (C11): x(u, v) is the variable of the pair u < v; refused iff (u, v) is not an index',
                             'params': {}, 'supports': ['len(pattern) == 2'],
                             'raises': {'ValueError': 'not (1 <= pattern[0] and pattern[0] < pattern[1] and pattern[1] <= self.n)'},
                             'returns_expr': 'cvar(self.gid, pattern[0], pattern[1])'},
    (O, 'GraphOrderingPrinciple'): {
        'property': ['C03', 'C08', 'C10'],
        'params': {'graph': 'obj:GraphO', 'total': 'bool', 'smart': 'const:False', 'plant': 'bool', 'knuth': 'int', 'formula_class': 'class:FormulaO'},
        'ghost_params': {'a': 'asg'},
        'raises': {}, 'returns': 'obj:FormulaO',
        'variants': {'plain': {}},
        'loops': {
            0: dict(FR, ghost_at_entry={'S0': 'gop.store'},
                    inv=KEEP + [acc('S0', 'forall(lambda v: implies(1 <= v and v <= _it, {}))'.format(amin('v')))]),
            # loop 1: the inner loop of the compact representation (not reached: smart is False)
            # loop 2: combinations(V, 3) of the compact representation (not reached)
            3: {'nest': [dict(FR, counter='_a', ghost_at_entry={'S3': 'gop.store'}, inv=KEEP + [acc('S3', T1)]),
                         dict(FR, counter='_b', inv=KEEP + [acc('S3', '({} and {})'.format(T1, T2))]),
                         dict(FR, inv=KEEP + [acc('S3', '({} and {} and {})'.format(T1, T2, T3))])]},
            4: {'nest': [dict(FR, counter='_c', ghost_at_entry={'S4': 'gop.store'}, inv=KEEP + [acc('S4', pairs_done(anti, '_c'))]),
                         dict(FR, inv=KEEP + [acc('S4', pairs_done(anti, '_c', '_it'))])]},
            5: {'nest': [dict(FR, counter='_d', ghost_at_entry={'S5': 'gop.store'}, inv=KEEP + [acc('S5', pairs_done(tot, '_d'))]),
                         dict(FR, inv=KEEP + [acc('S5', pairs_done(tot, '_d', '_it'))])]},
        },
        'ensures': [
            'sat(a, result.store) == ('
            'forall(lambda v: implies(1 <= v and v <= graph.n, {MIN})) and '
            'forall(lambda v1, v2, v3: implies(1 <= v1 and v1 <= graph.n and 1 <= v2 and v2 <= graph.n and 1 <= v3 and v3 <= graph.n and {D}, {T})) and '
            'forall(lambda v1, v2: implies(1 <= v1 and v1 < v2 and v2 <= graph.n, {A})) and '
            'implies(total, forall(lambda v1, v2: implies(1 <= v1 and v1 < v2 and v2 <= graph.n, {TO}))))'.format(
                MIN=amin('v').replace('== n and', '== graph.n and'), D=DIST.format('v1', 'v2', 'v3'), T=trans('v1', 'v2', 'v3'), A=anti('v1', 'v2'), TO=tot('v1', 'v2')),
            'result._numvar == graph.n * (graph.n - 1)',
            'result.cls == formula_class',
        ],
    },
}


# OrderingPrinciple(size, ...) = GraphOrderingPrinciple on the complete graph with `size` vertices (modular: over the contract above)
_GOP = CONTRACTS[(O, 'GraphOrderingPrinciple')]
KG = 'created("GraphO", 0)'
CONTRACTS[(G_, 'Graph.complete_graph')] = {
    'assumed': 'Graph.complete_graph(n): a simple graph with n vertices (every two of them adjacent; C15 bounded tier)',
    'params': {'cls': 'any', 'n': 'int'}, 'classmethod': True, 'requires': ['n >= 0'], 'returns': 'obj:GraphO', 'ensures': ['result.n == n']}
CONTRACTS[(O, 'OrderingPrinciple')] = {
    'property': ['C03', 'C08', 'C10'],
    'params': {'size': 'int', 'total': 'bool', 'smart': 'const:False', 'plant': 'bool', 'knuth': 'int', 'formula_class': 'class:FormulaO'},
    'ghost_params': {'a': 'asg'},
    'raises': {'ValueError': 'size < 0'},
    'ensures': [e.replace('graph.', KG + '.') for e in _GOP['ensures'][:1]] + ['{}.n == size'.format(KG), 'result._numvar == size * (size - 1)', 'result.cls == formula_class'],
}


# ---- the compact representation (smart=True): one variable per unordered pair, x[u,v] for u < v meaning "u before v" ------------
XC = 'created("CombO", 0)'
NB = 'nbrs(graph.gid, {v})'
# the literal the code appends for neighbour u of v: x[u,v] if u < v, the negation of x[v,u] otherwise
LITC = 'ite(iget({nb}, j) < {v}, cvar({x}.gid, iget({nb}, j), {v}), -cvar({x}.gid, {v}, iget({nb}, j)))'
SINC = 'iofarr(lam1(lambda j: {lit}), {n})'


def sinc(v, n=None):
    nb = NB.format(v=v)
    return SINC.format(lit=LITC.format(nb=nb, v=v, x=XC), n=n if n is not None else 'ilen({})'.format(nb))


def xc(u, v):
    return 'lit_true(a, cvar({}.gid, {}, {}))'.format(XC, u, v)


def tri(v1, v2, v3):
    a_, b_, c_ = xc(v1, v2), xc(v2, v3), xc(v1, v3)
    return '(({a} or {b} or not {c}) and (not {a} or not {b} or {c}))'.format(a=a_, b=b_, c=c_)


def sminc(v):
    return '(({v}) == n and plant) or count(a, {inc}) >= 1'.format(v=v, inc=sinc(v))


KEEPC = ['2 * gop._numvar == n * (n - 1)', 'n >= 0', 'n == graph.n']
Q1 = 'forall(lambda v1, v2, v3: implies(1 <= v1 and v1 <= _a and v1 < v2 and v2 < v3 and v3 <= n, {}))'.format(tri('v1', 'v2', 'v3'))
Q2 = 'forall(lambda v2, v3: implies(_a + 1 < v2 and v2 <= _a + 1 + _b and v2 < v3 and v3 <= n, {}))'.format(tri('(_a + 1)', 'v2', 'v3'))
Q3 = 'forall(lambda v3: implies(_a + 2 + _b < v3 and v3 <= _a + 2 + _b + _it, {}))'.format(tri('(_a + 1)', '(_a + 2 + _b)', 'v3'))
_GOP['variants']['compact'] = {
    'params': {'smart': 'const:True'},
    'loops': {
        0: dict(FR, ghost_at_entry={'S0': 'gop.store'},
                inv=KEEPC + [acc('S0', 'forall(lambda v: implies(1 <= v and v <= _it, {}))'.format(sminc('v')))]),
        # the clause of v is built literal by literal: after _it neighbours it is the first _it entries of the documented clause
        1: {'inv': ['len(clause) == _it', 'iofarr(clause, len(clause)) == {}'.format(sinc('v', '_it'))]},
        2: {'nest': [dict(FR, counter='_a', ghost_at_entry={'S2': 'gop.store'}, inv=KEEPC + [acc('S2', Q1)]),
                     dict(FR, counter='_b', inv=KEEPC + [acc('S2', '({} and {})'.format(Q1, Q2))]),
                     dict(FR, inv=KEEPC + [acc('S2', '({} and {} and {})'.format(Q1, Q2, Q3))])]},
    },
    'ensures!': [
        'sat(a, result.store) == ('
        'forall(lambda v: implies(1 <= v and v <= graph.n, {MIN})) and '
        'forall(lambda v1, v2, v3: implies(1 <= v1 and v1 < v2 and v2 < v3 and v3 <= graph.n, {T})))'.format(
            MIN=sminc('v').replace('== n and', '== graph.n and'), T=tri('v1', 'v2', 'v3')),
        '2 * result._numvar == graph.n * (graph.n - 1)',
        'result.cls == formula_class',
    ],
}
