"""Sidecar contract: RamseyNumber (C03, C08, C10).

PROVED for all s, k >= 1 and N >= 0, both formula classes, for an arbitrary assignment a (a graph on 1..N: e[u,v] true = edge):
a satisfies the formula iff
  * every s-subset S of the vertices (all of them, in itertools order) contains an edge:      some e[u,v] with u < v in S is true,
  * every k-subset K contains a non-edge:                                                     some e[u,v] with u < v in K is false
- no independent set of size s, no clique of size k; one variable per pair, N(N-1)/2 in all.  pairlits(g, S) is the list of the
variables of the pairs of S in combinations order (Lean: positional characterization); the subsets are the items of
combs(1..N, s), strictly increasing lists (Lean: combs_apseq_sorted), so every e(u, v) is a legal index.
ASSUMED: group allocation and call contract of the combinations group (proved in variables_words.py for the real class: the
correspondence is by reading), the interface meaning of add_clause (C04).
"""
R = 'cnfgen/families/ramsey.py'
F_ = 'cnfgen/formula/cnf.py'
V_ = 'cnfgen/formula/variables.py'

CLASSMODELS = {
    'CombR': {'file': V_, 'real': 'WordOfIndicesVariables', 'fields': {'gid': 'int', 'n': 'int'}},
    'FormulaRa': {'file': F_, 'real': 'CNF', 'fields': {'store': 'mclist', '_numvar': 'int', 'cls': 'int'}},
}
E = 'created("CombR", 0)'
SUB = 'combs(apseq(1, N), {})'
FR = {'modifies_objects': ['ram'], 'modifies_fields': {'ram': ['store', '_numvar']}}
KEEP = ['2 * ram._numvar == N * (N - 1)', 'N >= 0', 's >= 1', 'k >= 1']

CONTRACTS = {
    ('cnfgen/localtypes.py', 'positive_int'): {'inline_always': True},
    (F_, 'FormulaRa.__init__'): {'assumed': 'formula_class(description=...) builds an empty formula of that class', 'params': {'description': 'any'},
                                 'modifies': ['self.store', 'self._numvar'], 'ensures': ['self.store == cnil', 'self._numvar == 0']},
    (F_, 'FormulaRa.new_combinations'): {
        'assumed': 'group allocation (C11): one fresh variable per pair u < v of 1..n; each is a variable of the formula',
        'params': {'n': 'int', 'k': 'int', 'label': 'any'}, 'supports': ['k == 2'], 'requires': ['n >= 0'],
        'modifies': ['self._numvar'], 'returns': 'obj:CombR',
        'ensures': ['result.n == n', '2 * self._numvar == 2 * old(self._numvar) + n * (n - 1)',
                    'forall(lambda u, v: implies(1 <= u and u < v and v <= n, 1 <= cvar(result.gid, u, v) and cvar(result.gid, u, v) <= self._numvar), '
                    'lambda u, v: cvar(result.gid, u, v))']},
    (V_, 'CombR.__call__'): {'assumed': 'group call contract (C11): e(u, v) is the variable of the pair u < v; refused iff (u, v) is not an index',
                             'params': {}, 'supports': ['len(pattern) == 2'],
                             'raises': {'ValueError': 'not (1 <= pattern[0] and pattern[0] < pattern[1] and pattern[1] <= self.n)'},
                             'returns_expr': 'cvar(self.gid, pattern[0], pattern[1])'},
    (F_, 'FormulaRa.add_clause'): {
        'assumed': 'interface meaning of add_clause (C04)',
        'params': {'clause': 'iseq', 'check': 'bool'}, 'ghost_params': {'a': 'asg'},
        'raises': {'ValueError': 'check and haszero(clause)'}, 'modifies': ['self.store', 'self._numvar'],
        'ensures': ['sat(a, self.store) == (sat(a, old(self.store)) and count(a, clause) >= 1)',
                    'self._numvar == ite(check, zmax(old(self._numvar), maxabs(clause)), old(self._numvar))']},
    (R, 'RamseyNumber'): {
        'property': ['C03', 'C08', 'C10'],
        'params': {'s': 'int', 'k': 'int', 'N': 'int', 'formula_class': 'class:FormulaRa'},
        'ghost_params': {'a': 'asg'},
        'raises': {'ValueError': 'N < 0 or s < 1 or k < 1'},
        'loops': {
            0: dict(FR, ghost_at_entry={'S0': 'ram.store'},
                    inv=KEEP + ['sat(a, ram.store) == (sat(a, S0) and forall(lambda j: implies(0 <= j and j < _it, count(a, pairlits({e}.gid, cget({sub}, j))) >= 1)))'.format(e=E, sub=SUB.format('s'))]),
            1: dict(FR, ghost_at_entry={'S1': 'ram.store'},
                    inv=KEEP + ['sat(a, ram.store) == (sat(a, S1) and forall(lambda j: implies(0 <= j and j < _it, count(a, ineg(pairlits({e}.gid, cget({sub}, j)))) >= 1)))'.format(e=E, sub=SUB.format('k'))]),
        },
        'ensures': [
            'sat(a, result.store) == ('
            'forall(lambda j: implies(0 <= j and j < clen({ss}), count(a, pairlits({e}.gid, cget({ss}, j))) >= 1)) and '
            'forall(lambda j: implies(0 <= j and j < clen({sk}), count(a, ineg(pairlits({e}.gid, cget({sk}, j)))) >= 1)))'.format(
                e=E, ss=SUB.format('s'), sk=SUB.format('k')),
            '2 * result._numvar == N * (N - 1)',
            'result.cls == formula_class',
        ],
    },
}
