"""Sidecar contract: VanDerWaerden, two colours (C03, C08, C10).

PROVED for all N >= 0 and k1, k2 >= 1, both formula classes, for an arbitrary assignment a (a 2-colouring of 1..N; x[i] true = first colour):
a satisfies the formula iff every progression of length k1 inside 1..N has some x[i] TRUE and every progression of length k2 has some
x[i] FALSE
- i.e. colour "false" has no monochromatic progression of length k1 and colour "true" none of length k2; N variables.
The progressions are the items of aps(N, k): the sequence `_vdw_ap_generator(N, k)` yields.  That generator is PROVED in graphs_dag.py
(every yield is a progression of length k inside 1..N, starts and differences exactly the valid ones, none missing); its value at
the two call sites here is that sequence (`value_form`: the correspondence between the yield clauses and the sequence is by reading).
More than two colours (a two-dimensional block, one clause group per colour): bounded tier.
ASSUMED: block allocation / call contract (C11), the interface meaning of add_clause (C04).
"""
R = 'cnfgen/families/ramsey.py'
F_ = 'cnfgen/formula/cnf.py'

CLASSMODELS = {
    'FormulaW': {'file': F_, 'real': 'CNF', 'fields': {'store': 'mclist', '_numvar': 'int', 'cls': 'int'}},
}
XB = 'created("Block1", 0)'
FR = {'modifies_objects': ['vdw'], 'modifies_fields': {'vdw': ['store', '_numvar']}}
KEEP = ['vdw._numvar == N', 'N >= 0', 'k1 >= 1', 'k2 >= 1']


def some(k, j, neg=False):
    t = 'ishift(cget(aps(N, {}), {}), {}.off)'.format(k, j, XB)
    return 'count(a, {}) >= 1'.format('ineg({})'.format(t) if neg else t)


CONTRACTS = {
    ('cnfgen/localtypes.py', 'positive_int_seq'): {'assumed': 'argument check of the extra progression lengths (none here)', 'params': {'S': 'any', 'name': 'any'}},
    (F_, 'FormulaW.__init__'): {'assumed': 'formula_class(description=...) builds an empty formula of that class', 'params': {'description': 'any'},
                                'modifies': ['self.store', 'self._numvar'], 'ensures': ['self.store == cnil', 'self._numvar == 0']},
    (F_, 'FormulaW.new_block'): {
        'assumed': 'group allocation (C11): a one-dimensional block of fresh variables',
        'params': {'label': 'any'}, 'supports': ['len(ranges) == 1'], 'requires': ['ranges[0] >= 0'],
        'modifies': ['self._numvar'], 'returns': 'obj:Block1',
        'ensures': ['result.off == old(self._numvar)', 'result.n == ranges[0]', 'self._numvar == old(self._numvar) + ranges[0]']},
    (F_, 'FormulaW.add_clause'): {
        'assumed': 'interface meaning of add_clause (C04)',
        'params': {'clause': 'iseq', 'check': 'bool'}, 'ghost_params': {'a': 'asg'},
        'raises': {'ValueError': 'check and haszero(clause)'}, 'modifies': ['self.store', 'self._numvar'],
        'ensures': ['sat(a, self.store) == (sat(a, old(self.store)) and count(a, clause) >= 1)',
                    'self._numvar == ite(check, zmax(old(self._numvar), maxabs(clause)), old(self._numvar))']},
    (R, 'VanDerWaerden'): {
        'property': ['C03', 'C08', 'C10'],
        'params': {'N': 'int', 'k1': 'int', 'k2': 'int', 'ks': 'noargs', 'formula_class': 'class:FormulaW'},
        'ghost_params': {'a': 'asg'},
        'raises': {'ValueError': 'N < 0 or k1 < 1 or k2 < 1'},
        'loops': {
            0: dict(FR, ghost_at_entry={'S1': 'vdw.store'},
                    inv=KEEP + ['sat(a, vdw.store) == (sat(a, S1) and forall(lambda j: implies(0 <= j and j < _it, {})))'.format(some('k1', 'j'))]),
            1: dict(FR, ghost_at_entry={'S3': 'vdw.store'},
                    inv=KEEP + ['sat(a, vdw.store) == (sat(a, S3) and forall(lambda j: implies(0 <= j and j < _it, {})))'.format(some('k2', 'j', True))]),
        },
        'ensures': [
            'sat(a, result.store) == (forall(lambda j: implies(0 <= j and j < clen(aps(N, k1)), {})) and '
            'forall(lambda j: implies(0 <= j and j < clen(aps(N, k2)), {})))'.format(some('k1', 'j'), some('k2', 'j', True)),
            'result._numvar == N', 'result.cls == formula_class',
        ],
    },
}
