"""Sidecar contract: VanDerWaerden, two colours (C03, C08, C10).

PROVED for all N >= 0 and k1, k2 >= 1, both formula classes, for an arbitrary assignment a (a 2-colouring of 1..N; x[i] true = first colour):
a satisfies the formula iff every progression of length k1 inside 1..N has some x[i] TRUE and every progression of length k2 has some
x[i] FALSE
- i.e. colour "false" has no monochromatic progression of length k1 and colour "true" none of length k2; N variables.
The progressions are the items of aps(N, k): the sequence `_vdw_ap_generator(N, k)` yields.  That generator is PROVED in graphs_dag.py
(every yield is a progression of length k inside 1..N, starts and differences exactly the valid ones, none missing); its value at
the two call sites here is that sequence (`value_form`: the correspondence between the yield clauses and the sequence is by reading).
THREE colours (variant `three`): x[i,c] = "i has colour c"; every number has exactly one colour, and for each colour c no progression of
length k_c is entirely of colour c.  More than three colours: bounded tier.
ASSUMED: block allocation / call contract (C11), the interface meaning of add_clause (C04).
"""
R = 'cnfgen/families/ramsey.py'
F_ = 'cnfgen/formula/cnf.py'

CLASSMODELS = {
    'FormulaW': {'file': F_, 'real': 'CNF', 'fields': {'store': 'mclist', '_numvar': 'int', 'cls': 'int'}},
}
XB = 'created("BlockW", 0)'
CLASSMODELS['BlockW'] = {'file': 'cnfgen/formula/variables.py', 'real': 'BlockOfVariables', 'fields': {'off': 'int', 'n': 'int', 'n2': 'int', 'dims': 'int'}}
FR = {'modifies_objects': ['vdw'], 'modifies_fields': {'vdw': ['store', '_numvar']}}
KEEP = ['vdw._numvar == N', 'N >= 0', 'k1 >= 1', 'k2 >= 1']


def some(k, j, neg=False):
    t = 'ishift(cget(aps(N, {}), {}), {}.off)'.format(k, j, XB)
    return 'count(a, {}) >= 1'.format('ineg({})'.format(t) if neg else t)


CONTRACTS = {
    ('cnfgen/localtypes.py', 'positive_int_seq'): {'assumed': 'argument check of the extra progression lengths: refused iff one of them is not positive',
                                                   'params': {'name': 'any'}, 'supports': ['len(value) <= 1'],
                                                   'raises': {'ValueError': 'not implies(len(value) == 1, value[0] >= 1)'}},
    (F_, 'FormulaW.__init__'): {'assumed': 'formula_class(description=...) builds an empty formula of that class', 'params': {'description': 'any'},
                                'modifies': ['self.store', 'self._numvar'], 'ensures': ['self.store == cnil', 'self._numvar == 0']},
    (F_, 'FormulaW.new_block'): {
        'assumed': 'group allocation (C11): a block of fresh variables with one or two dimensions',
        'params': {'label': 'any'}, 'supports': ['len(ranges) == 1 or len(ranges) == 2'], 'requires': ['ranges[0] >= 0', 'ranges[len(ranges) - 1] >= 0'],
        'modifies': ['self._numvar'], 'returns': 'obj:BlockW',
        'ensures': ['result.off == old(self._numvar)', 'result.n == ranges[0]', 'result.dims == len(ranges)',
                    'result.n2 == ite(len(ranges) == 2, ranges[len(ranges) - 1], 1)',
                    'self._numvar == old(self._numvar) + ranges[0] * ite(len(ranges) == 2, ranges[len(ranges) - 1], 1)']},
    ('cnfgen/formula/variables.py', 'BlockW.__call__'): {
        'assumed': 'block call contract (C11): x(i) = offset + i;  x(i, c) = offset + (i-1)*n2 + c;  x(i, None) = the n2 variables of row i, in order',
        'params': {}, 'supports': ['len(index) == self.dims', 'index[0] is not None'],
        'requires': ['1 <= index[0]', 'index[0] <= self.n', 'implies(len(index) == 2 and index[len(index) - 1] is not None, 1 <= index[len(index) - 1] and index[len(index) - 1] <= self.n2)'],
        'returns_expr': 'blockcall(self.off, self.n2, index)'},
    (F_, 'FormulaW.cardinality_eq'): {
        'assumed': 'interface meaning of cardinality_eq (C04)',
        'params': {'lits': 'iseq', 'value': 'int', 'check': 'bool'}, 'ghost_params': {'a': 'asg'},
        'raises': {'ValueError': 'check and haszero(lits)'}, 'modifies': ['self.store', 'self._numvar'],
        'ensures': ['sat(a, self.store) == (sat(a, old(self.store)) and count(a, lits) == value)',
                    'self._numvar == ite(check, zmax(old(self._numvar), maxabs(lits)), old(self._numvar))']},
    (F_, 'FormulaW.add_clause'): {
        'assumed': 'interface meaning of add_clause (C04)',
        'params': {'clause': 'iseq', 'check': 'bool'}, 'ghost_params': {'a': 'asg'},
        'raises': {'ValueError': 'check and haszero(clause)'}, 'modifies': ['self.store', 'self._numvar'],
        'ensures': ['sat(a, self.store) == (sat(a, old(self.store)) and count(a, clause) >= 1)',
                    'self._numvar == ite(check, zmax(old(self._numvar), maxabs(clause)), old(self._numvar))']},
    (R, 'VanDerWaerden'): {
        'property': ['C03', 'C08', 'C10'],
        'params': {'N': 'int', 'k1': 'int', 'k2': 'int', 'ks': 'noargs', 'formula_class': 'class:FormulaW'},
        'ghost_params': {'a': 'asg'},
        'raises': {'ValueError': 'N < 0 or k1 < 1 or k2 < 1'},
        'loops': {
            0: dict(FR, ghost_at_entry={'S1': 'vdw.store'},
                    inv=KEEP + ['sat(a, vdw.store) == (sat(a, S1) and forall(lambda j: implies(0 <= j and j < _it, {})))'.format(some('k1', 'j'))]),
            1: dict(FR, ghost_at_entry={'S3': 'vdw.store'},
                    inv=KEEP + ['sat(a, vdw.store) == (sat(a, S3) and forall(lambda j: implies(0 <= j and j < _it, {})))'.format(some('k2', 'j', True))]),
        },
        'ensures': [
            'sat(a, result.store) == (forall(lambda j: implies(0 <= j and j < clen(aps(N, k1)), {})) and '
            'forall(lambda j: implies(0 <= j and j < clen(aps(N, k2)), {})))'.format(some('k1', 'j'), some('k2', 'j', True)),
            'result._numvar == N', 'result.cls == formula_class',
        ],
    },
}


# ---- three colours ----------------------------------------------------------------------------------------------------------------------
ROW = 'count(a, apseq({x}.off + (({i}) - 1) * 3 + 1, 3)) == 1'.format(x=XB, i='{i}')


def cl3(c, k, j):
    ap = 'cget(aps(N, {}), {})'.format(k, j)
    return 'count(a, iofarr(lam1(lambda t: -blockcall({x}.off, 3, (iget({ap}, t), {c}))), ilen({ap}))) >= 1'.format(x=XB, ap=ap, c=c)


KEEP3 = ['vdw._numvar == 3 * N', 'N >= 0', 'k1 >= 1', 'k2 >= 1', 'ks[0] >= 1']
_V = CONTRACTS[(R, 'VanDerWaerden')]
_V['variants'] = {
    'two': {},
    'three': {
        'params': {'ks': 'tuple:int'},
        'raises': {'ValueError': 'N < 0 or k1 < 1 or k2 < 1 or ks[0] < 1'},
        'loops': {
            2: dict(FR, ghost_at_entry={'S2': 'vdw.store'},
                    inv=KEEP3 + ['sat(a, vdw.store) == (sat(a, S2) and forall(lambda i: implies(1 <= i and i <= _it, {})))'.format(ROW.format(i='i'))]),
            4: dict(FR, ghost_at_entry={'S4': 'vdw.store'},
                    inv=KEEP3 + ['sat(a, vdw.store) == (sat(a, S4) and forall(lambda j: implies(0 <= j and j < _it, {})))'.format(cl3('c', 'K[c - 1]', 'j'))]),
        },
        'ensures!': [
            'sat(a, result.store) == (forall(lambda i: implies(1 <= i and i <= N, {row})) and '
            'forall(lambda j: implies(0 <= j and j < clen(aps(N, k1)), {c1})) and forall(lambda j: implies(0 <= j and j < clen(aps(N, k2)), {c2})) and '
            'forall(lambda j: implies(0 <= j and j < clen(aps(N, ks[0])), {c3})))'.format(
                row=ROW.format(i='i'), c1=cl3(1, 'k1', 'j'), c2=cl3(2, 'k2', 'j'), c3=cl3(3, 'ks[0]', 'j')),
            'result._numvar == 3 * N', 'result.cls == formula_class',
        ],
    },
}
