"""Sidecar contracts: pigeonhole families over the mapping interface (C01, C08, C10) and RandomKCNF (C13).

The relational meanings m_complete / m_functional / m_surjective / m_injective of a mapping group are
uninterpreted predicates over (assignment, group id); the force_* contracts below say each builder
constrains the formula to exactly that predicate.  They are ASSUMED here (exercised exhaustively by the
bounded tier of C04 on unary, sparse and binary mappings); what is PROVED is that each family asks for
exactly the documented conjunction of requirements for every flag combination, declares the documented
number of variables, and threads formula_class - for all pigeons/holes/graphs.
"""
P = 'cnfgen/families/pigeonhole.py'
V = 'cnfgen/formula/variables.py'

CLASSMODELS = {
    # abstract mapping group: identity + how many variables it occupies
    'MappingGroup': {'file': V, 'fields': {'gid': 'int', 'nvars': 'int', 'owner': 'int'}},
    # a formula of either class seen through the shared interface: semantic state `sem` (an abstract clause/constraint
    # store), variable count, identity
    'Formula': {'file': 'cnfgen/formula/cnf.py', 'real': 'CNF', 'fields': {'store': 'mclist', '_numvar': 'int', 'fid': 'int', 'cls': 'int'}},
}


def force(pred):
    return {
        'assumed': 'meaning of force_{0}_mapping = predicate m_{0}; bounded tier of C04 checks it against the relational statement'.format(pred),
        'params': {'f': 'obj:MappingGroup'},
        'ghost_params': {'a': 'asg'},
        'requires': ['f.owner == self.fid'],
        'modifies': ['self.store'],
        'ensures': ['sat(a, self.store) == (sat(a, old(self.store)) and m_{}(a, f.gid))'.format(pred)],
    }


def newmap(sizeexpr, params):
    return {
        'assumed': 'group allocation contract (C11): fresh contiguous identifiers; proved for the index arithmetic in contracts/variables_groups.py',
        'params': params,
        'modifies': ['self._numvar'],
        'returns': 'obj:MappingGroup',
        'ensures': ['result.owner == self.fid', 'result.nvars == {}'.format(sizeexpr),
                    'self._numvar == old(self._numvar) + result.nvars'],
    }


FAMILY_REQ = ['formula_class == 0 or formula_class == 1']

CONTRACTS = {
    ('cnfgen/localtypes.py', 'non_negative_int'): {'inline_always': True},
    ('cnfgen/formula/cnf.py', 'Formula.__init__'): {
        'assumed': 'formula_class(description=...) builds an empty formula of that class',
        'params': {'description': 'any'},
        'modifies': ['self.store', 'self._numvar'],
        'ensures': ['self.store == cnil', 'self._numvar == 0'],
    },
    ('cnfgen/formula/cnf.py', 'Formula.new_mapping'): newmap('n * m', {'n': 'int', 'm': 'int', 'label': 'any'}),
    ('cnfgen/formula/cnf.py', 'Formula.new_binary_mapping'): dict(
        newmap('n * bitlen(m)', {'n': 'int', 'm': 'int', 'label': 'any'}), raises={'ValueError': 'n < 0 or m < 0'}),
    ('cnfgen/formula/cnf.py', 'Formula.force_complete_mapping'): force('complete'),
    ('cnfgen/formula/cnf.py', 'Formula.force_functional_mapping'): force('functional'),
    ('cnfgen/formula/cnf.py', 'Formula.force_surjective_mapping'): force('surjective'),
    ('cnfgen/formula/cnf.py', 'Formula.force_injective_mapping'): force('injective'),
    (P, 'PigeonholePrinciple'): {
        'property': ['C01', 'C08', 'C10'],
        'params': {'pigeons': 'int', 'holes': 'int', 'functional': 'bool', 'onto': 'bool', 'formula_class': 'class:Formula'},
        'ghost_params': {'a': 'asg'},
        'raises': {'ValueError': 'pigeons < 0 or holes < 0'},
        'ensures': [
            # every pigeon has a hole, no hole has two pigeons, [every hole is used], [no pigeon in two holes] - by the flags
            'sat(a, result.store) == (m_complete(a, created("MappingGroup", 0).gid) and m_injective(a, created("MappingGroup", 0).gid) '
            'and implies(onto, m_surjective(a, created("MappingGroup", 0).gid)) and implies(functional, m_functional(a, created("MappingGroup", 0).gid)))',
            'result._numvar == pigeons * holes',           # documented variable count
            'result.cls == formula_class',                 # the requested formula class (C08)
        ],
    },
    (P, 'BinaryPigeonholePrinciple'): {
        'property': ['C01', 'C08', 'C10'],
        'params': {'pigeons': 'int', 'holes': 'int', 'formula_class': 'class:Formula'},
        'ghost_params': {'a': 'asg'},
        'raises': {'ValueError': 'pigeons < 0 or holes < 0'},
        'ensures': [
            'sat(a, result.store) == (m_complete(a, created("MappingGroup", 0).gid) and m_injective(a, created("MappingGroup", 0).gid))',
            'result._numvar == pigeons * bitlen(holes)', 'result.cls == formula_class'],
    },
    # graph pigeonhole principle: the same four requirements over a SPARSE mapping (one variable per edge of the bipartite graph)
    ('cnfgen/formula/cnf.py', 'Formula.new_sparse_mapping'): newmap('gnedges(B.gid)', {'B': 'obj:BipartiteGraph', 'label': 'any'}),
    (P, 'GraphPigeonholePrinciple'): {
        'property': ['C01', 'C08', 'C10'],
        'params': {'G': 'obj:BipartiteGraph', 'functional': 'bool', 'onto': 'bool', 'formula_class': 'class:Formula'},
        'ghost_params': {'a': 'asg'},
        'raises': {},
        'ensures': [
            'sat(a, result.store) == (m_complete(a, created("MappingGroup", 0).gid) and m_injective(a, created("MappingGroup", 0).gid) '
            'and implies(onto, m_surjective(a, created("MappingGroup", 0).gid)) and implies(functional, m_functional(a, created("MappingGroup", 0).gid)))',
            'result._numvar == gnedges(G.gid)',            # one variable per edge
            'result.cls == formula_class',
        ],
    },
}
